import RsMatterVerif.Generated.Consts
/-!
# Model of `rs-matter/src/im/subscriptions.rs`

`ChangedAttrs` (record / coalesce / promote / purge), `SubscriptionsInner`
(`add`, `report`, `report_complete`, `remove`, `purge_reported_changes`, `next_report_at`),
`Subscription` timing and `ReportContext::{set_keep, set_keep_retry}`, transliterated branch by
branch.  `Instant` is a `Nat` number of ticks (`Instant::MAX = 2^64-1`, `Instant::MIN = 0`),
`Duration::from_secs(s) = s * hz` ticks.  `heapless::Vec` is a `List` with the exact
`swap_remove` order.  The `ReportContext`s that are alive (held by a responder task while it
primes a new subscription, or by the reporter task) are part of the modelled state (`ctxs`): they
are the subscriptions *outside* the table.  `log` is a ghost list of all recorded changes.
Import-free (apart from the generated constants).
-/
namespace Subs

def U64 : Nat := 18446744073709551616
def IMAX : Nat := 18446744073709551615
/-- `WILDCARD_ENDPOINT` -/
def WEP : Nat := 65535
/-- `WILDCARD_CLUSTER` -/
def WCL : Nat := 4294967295
/-- `WILDCARD_ATTR` -/
def WAT : Nat := 4294967295
/-- `MAX_CHANGED_ATTRS` -/
def CAP : Nat := Consts.maxChangedAttrs

/-- `ChangedAttr` -/
structure Entry where
  ep : Nat
  cl : Nat
  attr : Nat
  id : Nat
deriving Repr, DecidableEq, Inhabited

/-- the inner `cov` of `ChangedAttr::covers` for one axis (`w` = the wildcard sentinel) -/
def covAxis (a b w : Nat) : Bool :=
  if a = w then true else if b = w then false else a == b

/-- `ChangedAttr::covers` -/
def covers (s o : Entry) : Bool :=
  covAxis s.ep o.ep WEP && covAxis s.cl o.cl WCL && covAxis s.attr o.attr WAT

/-- `ChangedAttr::matches(endpoint, cluster, attr)` -/
def Entry.matchesPath (s : Entry) (ep cl attr : Nat) : Bool :=
  (s.ep == WEP || s.ep == ep) && (s.cl == WCL || s.cl == cl) && (s.attr == WAT || s.attr == attr)

/-- `ChangedAttr::coarsen(level)` -/
def coarsen (e : Entry) (level : Nat) : Option Entry :=
  if level = 1 then
    if e.ep = WEP ∨ e.cl = WCL then none
    else some { ep := e.ep, cl := e.cl, attr := WAT, id := 0 }
  else
    if e.ep = WEP then none
    else some { ep := e.ep, cl := WCL, attr := WAT, id := 0 }

/-- The loop `i = 0; while i < len { if p(v[i]) { v.swap_remove(i) } else { i += 1 } }`
of `heapless::Vec`, with the exact resulting order.  The fuel is the length. -/
def swapRemoveAux {α : Type} (p : α → Bool) : Nat → List α → List α
  | 0, _ => []
  | _ + 1, [] => []
  | f + 1, x :: rest =>
    if p x then
      match rest.getLast? with
      | none => []
      | some l => swapRemoveAux p f (l :: rest.dropLast)
    else x :: swapRemoveAux p f rest

def swapRemoveAll {α : Type} (p : α → Bool) (es : List α) : List α :=
  swapRemoveAux p es.length es

/-- `Vec::swap_remove(i)` (the caller guarantees `i < len`) -/
def swapRemove {α : Type} (es : List α) (i : Nat) : List α :=
  match es.getLast? with
  | none => es
  | some l => if i + 1 = es.length then es.dropLast else (es.set i l).dropLast

/-- `ChangedAttrs` -/
structure Changed where
  nextId : Nat
  entries : List Entry
deriving Repr, DecidableEq, Inhabited

def Changed.new : Changed := { nextId := 1, entries := [] }

/-- `watermark`: `next_change_id.wrapping_sub(1)` -/
def Changed.watermark (c : Changed) : Nat := (c.nextId + IMAX) % U64

/-- `entries.iter_mut().find(|x| x.covers(&new))` then `existing.change_id = id` -/
def refreshFirst (new : Entry) (id : Nat) : List Entry → Option (List Entry)
  | [] => none
  | x :: xs =>
    if covers x new then some ({ x with id := id } :: xs)
    else match refreshFirst new id xs with
      | none => none
      | some r => some (x :: r)

/-- number of entries covered by `c` -/
def groupCount (c : Entry) (all : List Entry) : Nat := (all.filter (fun e => covers c e)).length

/-- pivot scan of `promote_largest_group`: first pivot with the strictly largest group (> 1) -/
def bestPivot (level : Nat) (all : List Entry) : List Entry → Option Entry → Nat → Option Entry
  | [], best, _ => best
  | p :: rest, best, bestCount =>
    match coarsen p level with
    | none => bestPivot level all rest best bestCount
    | some c =>
      let cnt := groupCount c all
      if cnt > bestCount then bestPivot level all rest (some p) cnt
      else bestPivot level all rest best bestCount

def maxId (es : List Entry) : Nat := es.foldl (fun m e => if e.id > m then e.id else m) 0

/-- `promote_largest_group(level)`: `none` = returned `false` -/
def promoteLargestGroup (es : List Entry) (level : Nat) : Option (List Entry) :=
  match bestPivot level es es none 1 with
  | none => none
  | some p =>
    match coarsen p level with
    | none => none
    | some c =>
      let grp := es.filter (fun e => covers c e)
      let rest := swapRemoveAll (fun e => covers c e) es
      some (rest ++ [{ c with id := maxId grp }])

/-- `promote_and_insert(new)`; the loop runs at most twice (a promotion frees a slot), the fuel
makes that structural; out of fuel (unreachable, see `promoteAndInsert_fuel`) the last-ditch
branch of the loop is taken -/
def promoteAndInsert (new : Entry) : Nat → List Entry → List Entry
  | 0, _ => [{ ep := WEP, cl := WCL, attr := WAT, id := new.id }]
  | fuel + 1, es =>
    match refreshFirst new new.id es with
    | some r => r
    | none =>
      if es.length < CAP then es ++ [new]
      else
        match promoteLargestGroup es 1 with
        | some es' => promoteAndInsert new fuel es'
        | none =>
          match promoteLargestGroup es 2 with
          | some es' => promoteAndInsert new fuel es'
          | none => [{ ep := WEP, cl := WCL, attr := WAT, id := new.id }]

/-- `record_raw(new)` -/
def Changed.recordRaw (c : Changed) (new0 : Entry) : Changed :=
  let id := c.nextId
  let next := max ((c.nextId + 1) % U64) 1
  let new := { new0 with id := id }
  match refreshFirst new id c.entries with
  | some r => { nextId := next, entries := r }
  | none =>
    let es := swapRemoveAll (fun e => covers new e) c.entries
    if es.length < CAP then { nextId := next, entries := es ++ [new] }
    else { nextId := next, entries := promoteAndInsert new (CAP + 2) es }

/-- `contains_since` -/
def containsSince (es : List Entry) (ep cl attr since : Nat) : Bool :=
  es.any (fun x => decide (x.id > since) && x.matchesPath ep cl attr)

/-- `any_since` -/
def anySince (es : List Entry) (since : Nat) : Bool := es.any (fun x => decide (x.id > since))

/-- `purge_up_to(threshold)` -/
def purgeUpTo (es : List Entry) (threshold : Nat) : List Entry :=
  if threshold = 0 then es else swapRemoveAll (fun e => decide (e.id ≤ threshold)) es

/-! ## Subscriptions -/

/-- `Subscription` (+ `SubscriptionIds`) -/
structure Sub where
  id : Nat
  fab : Nat
  peer : Nat
  minInt : Nat
  maxInt : Nat
  reportedAt : Nat
  retryAt : Nat
  fail : Nat
  seenAttr : Nat
  seenEv : Nat
  /-- `resumed_at`: the instant a subscription resumed from the persisted records was re-added;
  `Instant::MAX` for a subscription accepted in this boot -/
  resumedAt : Nat := IMAX
deriving Repr, DecidableEq, Inhabited

/-- `Instant::checked_add(Duration)` -/
def checkedAdd (t d : Nat) : Option Nat := if t + d ≤ IMAX then some (t + d) else none

/-- `is_expired(now)` -/
def Sub.isExpired (hz : Nat) (s : Sub) (now : Nat) : Bool :=
  let since := if s.reportedAt = IMAX then s.resumedAt else s.reportedAt
  match checkedAdd since (s.maxInt * hz) with
  | some e => decide (e ≤ now)
  | none => false

/-- `retry_backoff_secs(fail_count, max_int_secs)` -/
def retryBackoffSecs (fail maxInt : Nat) : Nat :=
  let shift := min (fail - 1) 15
  let delay := Consts.retryBaseSecs <<< shift
  min delay (max maxInt Consts.retryBaseSecs)

/-- `report_allowed_at()` -/
def Sub.reportAllowedAt (hz : Nat) (s : Sub) : Nat :=
  let gate :=
    if s.reportedAt = IMAX then 0
    else match checkedAdd s.reportedAt (s.minInt * hz) with
      | some t => t
      | none => 0
  max gate s.retryAt

/-- `report_due_at()` -/
def Sub.reportDueAt (hz : Nat) (s : Sub) : Nat :=
  if s.reportedAt = IMAX then 0
  else match checkedAdd s.reportedAt ((s.maxInt - s.maxInt / 2) * hz) with
    | some t => t
    | none => 0

/-- pending attribute changes or events -/
def Sub.pending (s : Sub) (es : List Entry) (evwm : Nat) : Bool :=
  anySince es s.seenAttr || decide (s.seenEv < evwm)

/-- `is_reportable(now, rx, changed_attrs, event_numbers_watermark)` -/
def Sub.isReportable (hz : Nat) (s : Sub) (now : Nat) (es : List Entry) (evwm : Nat) : Bool :=
  decide (s.reportAllowedAt hz ≤ now) && (decide (s.reportDueAt hz ≤ now) || s.pending es evwm)

/-- `Subscription::next_report_at` -/
def Sub.nextReportAt (hz : Nat) (s : Sub) (es : List Entry) (evwm : Nat) : Nat :=
  if s.pending es evwm then s.reportAllowedAt hz else max (s.reportAllowedAt hz) (s.reportDueAt hz)

/-- A live `ReportContext`: the subscription it carries is outside the table. -/
structure Ctx where
  sub : Sub
  nextAttr : Nat
  nextEv : Nat
  nextReportedAt : Nat
  nextRetryAt : Nat
  nextFail : Nat
deriving Repr, DecidableEq, Inhabited

/-- `PersistedSubscription` (the raw subscribe request it also carries is ignored by the table) -/
structure Rec where
  fab : Nat
  peer : Nat
  minInt : Nat
  maxInt : Nat
  /-- the id of the subscription (`None` in a record written before the id was persisted) -/
  id : Option Nat := none
deriving Repr, DecidableEq, Inhabited

/-- `SubscriptionsInner<N>` + the live report contexts + the persisted records (`kv`, one per slot
`PERSISTENT_SUBSCRIPTIONS_START + i`, they survive a restart) + ghosts: the log of recorded changes
and the boot counter `epoch` (subscription ids are only meaningful within one boot) -/
structure State where
  hz : Nat
  n : Nat
  nextSubId : Nat
  count : Nat
  subs : List Sub
  changed : Changed
  reporting : Option Sub
  cancelled : Bool
  ctxs : List Ctx
  log : List (Nat × Entry)
  kv : List Rec := []
  epoch : Nat := 0
deriving Repr, Inhabited

def State.new (hz n : Nat) : State :=
  { hz := hz, n := n, nextSubId := 1, count := 0, subs := [], changed := Changed.new,
    reporting := none, cancelled := false, ctxs := [], log := [], kv := [], epoch := 0 }

/-- `notify_attr_changed` / `notify_cluster_changed` / `notify_endpoint_changed` /
`notify_all_changed`: `p` carries the sentinels on the wildcard axes -/
def State.change (s : State) (p : Entry) : State :=
  { s with changed := s.changed.recordRaw p, log := (s.changed.nextId, p) :: s.log }

/-- `Subscriptions::add` (`SubscriptionsInner::add` + the `ReportContext` it returns) -/
def State.add (s : State) (now fab peer minInt maxInt evwm : Nat) : State × Option Nat :=
  if s.count ≥ s.n then (s, none)
  else
    let wm := s.changed.watermark
    let sub : Sub := { id := s.nextSubId, fab := fab, peer := peer, minInt := minInt, maxInt := maxInt,
                       reportedAt := IMAX, retryAt := 0, fail := 0, seenAttr := wm, seenEv := 0 }
    let ctx : Ctx := { sub := sub, nextAttr := wm, nextEv := evwm, nextReportedAt := now,
                       nextRetryAt := 0, nextFail := 0 }
    ({ s with count := s.count + 1, nextSubId := s.nextSubId + 1, ctxs := s.ctxs ++ [ctx] },
      some sub.id)

/-- `u32` modulus: `next_subscription_id` is a `u32` -/
def U32 : Nat := 4294967296

/-- `SubscriptionsInner::add` with the `u32` arithmetic of `self.next_subscription_id += 1` spelled out
(release build: wrapping; a debug build panics at the wrap). `State.add` computes in `Nat`; the two
agree while fewer than `2^32 - 1` ids have been assigned (`Subs.add_u32_agrees`), which every
whole-history theorem assumes (`NoSubIdWrap`, listed in `props/C13.json`). -/
def State.addU32 (s : State) (now fab peer minInt maxInt evwm : Nat) : State × Option Nat :=
  if s.count ≥ s.n then (s, none)
  else
    let wm := s.changed.watermark
    let sub : Sub := { id := s.nextSubId, fab := fab, peer := peer, minInt := minInt, maxInt := maxInt,
                       reportedAt := IMAX, retryAt := 0, fail := 0, seenAttr := wm, seenEv := 0 }
    let ctx : Ctx := { sub := sub, nextAttr := wm, nextEv := evwm, nextReportedAt := now,
                       nextRetryAt := 0, nextFail := 0 }
    ({ s with count := s.count + 1, nextSubId := (s.nextSubId + 1) % U32, ctxs := s.ctxs ++ [ctx] },
      some sub.id)

/-- `find_reportable`: `.position(is_reportable)` -/
def findReportable (hz : Nat) (subs : List Sub) (now : Nat) (es : List Entry) (evwm : Nat) : Option Nat :=
  subs.findIdx? (fun x => x.isReportable hz now es evwm)

/-- `Subscriptions::report` -/
def State.report (s : State) (now evwm : Nat) : State × Option Nat :=
  match findReportable s.hz s.subs now s.changed.entries evwm with
  | none => (s, none)
  | some i =>
    match s.subs[i]? with
    | none => (s, none)
    | some sub =>
      let ctx : Ctx := { sub := sub, nextAttr := s.changed.watermark, nextEv := evwm,
                         nextReportedAt := now, nextRetryAt := 0, nextFail := 0 }
      ({ s with subs := swapRemove s.subs i, reporting := some sub, ctxs := s.ctxs ++ [ctx] },
        some sub.id)

/-- how a `ReportContext` ends: `set_keep()` then drop, `set_keep_retry()` then drop, a plain drop, or
`set_keep_unsent()` then drop (the report turned out empty and was not sent: none of the pending
changes concerns what the subscription selects — which attributes it selects is outside the model) -/
inductive Fin | keep | retry | drop | unsent
deriving Repr, DecidableEq, Inhabited

/-- `ReportContext::set_keep_retry` -/
def Ctx.setKeepRetry (hz : Nat) (c : Ctx) : Ctx :=
  let failc := min (c.sub.fail + 1) 255
  let now := c.nextReportedAt
  let backoff := retryBackoffSecs failc c.sub.maxInt
  { c with nextAttr := c.sub.seenAttr, nextEv := c.sub.seenEv, nextReportedAt := c.sub.reportedAt,
           nextFail := failc,
           nextRetryAt := match checkedAdd now (backoff * hz) with | some t => t | none => IMAX }

/-- `ReportContext::set_keep_unsent`: the watermarks advance, the last-success instant and the retry
state stay -/
def Ctx.setKeepUnsent (c : Ctx) : Ctx :=
  { c with nextReportedAt := c.sub.reportedAt, nextRetryAt := c.sub.retryAt, nextFail := c.sub.fail }

/-- the field commits at the top of `Subscriptions::report_complete` -/
def Ctx.commit (c : Ctx) : Sub :=
  { c.sub with seenAttr := c.nextAttr, seenEv := c.nextEv, reportedAt := c.nextReportedAt,
               retryAt := c.nextRetryAt, fail := c.nextFail }

/-- `SubscriptionsInner::report_complete(sub, keep)` -/
def State.reportComplete (s : State) (sub : Sub) (keep : Bool) : State :=
  let isReporting := match s.reporting with
    | some r => r.id == sub.id
    | none => false
  let cancelled := isReporting && s.cancelled
  let rep := if isReporting then none else s.reporting
  let cx := if isReporting then false else s.cancelled
  if cancelled then { s with reporting := rep, cancelled := cx, count := s.count - 1 }
  else if keep then { s with reporting := rep, cancelled := cx, subs := s.subs ++ [sub] }
  else { s with reporting := rep, cancelled := cx, count := s.count - 1 }

/-- `report_complete` as it was before the repair: every completing context, also a priming one,
cleared the `reporting` slot and consumed a pending cancellation (kept for the counter-example) -/
def State.reportCompleteOld (s : State) (sub : Sub) (keep : Bool) : State :=
  let s1 := { s with reporting := none, cancelled := false }
  if s.cancelled then { s1 with count := s.count - 1 }
  else if keep then { s1 with subs := s.subs ++ [sub] }
  else { s1 with count := s.count - 1 }

/-- drop of the `ReportContext` of subscription `id` after the given ending -/
def State.fin (s : State) (id : Nat) (f : Fin) : State × Bool :=
  match s.ctxs.find? (fun c => c.sub.id == id) with
  | none => (s, false)
  | some c =>
    let rest := s.ctxs.eraseP (fun c => c.sub.id == id)
    let c' := match f with
      | .retry => c.setKeepRetry s.hz
      | .unsent => c.setKeepUnsent
      | _ => c
    let keep := match f with
      | .drop => false
      | _ => true
    (({ s with ctxs := rest }).reportComplete c'.commit keep, true)

/-- the table part of `Subscriptions::remove`: repeatedly `swap_remove` the first match -/
def removeLoop (p : Sub → Bool) : Nat → List Sub → Nat → List Sub × Nat × Bool
  | 0, subs, count => (subs, count, false)
  | fuel + 1, subs, count =>
    match subs.findIdx? p with
    | none => (subs, count, false)
    | some i =>
      let r := removeLoop p fuel (swapRemove subs i) (count - 1)
      (r.1, r.2.1, true)

/-- `Subscriptions::remove(f)` -/
def State.remove (s : State) (p : Sub → Bool) : State × Bool :=
  let r := removeLoop p (s.subs.length + 1) s.subs s.count
  let s1 := { s with subs := r.1, count := r.2.1 }
  if s1.cancelled = false then
    match s1.reporting with
    | some sub => if p sub then ({ s1 with cancelled := true }, true) else (s1, r.2.2)
    | none => (s1, r.2.2)
  else (s1, r.2.2)

/-- minimum of a list of watermarks (`Iterator::min`) -/
def minList : List Nat → Option Nat
  | [] => none
  | x :: xs => match minList xs with
    | none => some x
    | some m => some (min x m)

/-- `purge_reported_changes()` of the repaired code: nothing is purged while a subscription is
outside the table (priming or being reported on) -/
def State.purge (s : State) : State :=
  if s.count ≠ s.subs.length then s
  else
    match minList (s.subs.map (·.seenAttr)) with
    | some m => { s with changed := { s.changed with entries := purgeUpTo s.changed.entries m } }
    | none => { s with changed := { s.changed with entries := [] } }

/-- `purge_reported_changes()` as it was before the repair (kept for the counter-example) -/
def State.purgeOld (s : State) : State :=
  match minList (s.subs.map (·.seenAttr)) with
  | some m => { s with changed := { s.changed with entries := purgeUpTo s.changed.entries m } }
  | none => { s with changed := { s.changed with entries := [] } }

/-- `SubscriptionsInner::next_report_at` -/
def State.nextReportAt (s : State) (evwm : Nat) : Nat :=
  match minList (s.subs.map (fun x => x.nextReportAt s.hz s.changed.entries evwm)) with
  | some m => m
  | none => IMAX

/-! ## Persisted subscriptions (`persistent-subscriptions`) -/

def Sub.toRec (x : Sub) : Rec :=
  { fab := x.fab, peer := x.peer, minInt := x.minInt, maxInt := x.maxInt, id := some x.id }

/-- `persist_all`: one record per subscription **of the table** (`state.subscriptions`, at most `N`),
the keys past the table length are removed.  A subscription that is outside the table at that
moment (being primed or reported on) is not written. -/
def State.persist (s : State) : State := { s with kv := (s.subs.take s.n).map Sub.toRec }

/-- the id a resumed subscription gets and the next id to assign after it: `add` draws
`next_subscription_id`; then the id of the record is given back unless a subscription of the table
holds it already, and `next_subscription_id` is kept above it -/
def State.resumeId (s : State) (r : Rec) : Nat × Nat :=
  match r.id with
  | some j =>
    if s.subs.any (fun x => x.id == j) then (s.nextSubId, s.nextSubId + 1)
    else (j, max (s.nextSubId + 1) (j + 1))
  | none => (s.nextSubId, s.nextSubId + 1)

/-- one iteration of the loop of `load_persist`: `self.add(now, …)`, then
`rctx.next_reported_at = Instant::MAX; sub.resumed_at = now;` the id of the record is restored,
`rctx.set_keep()` and the drop of the context (`report_complete` with `keep`, the `reporting` slot is
empty): the subscription enters the table not primed, with the watermarks `add` snapshots, the resume
instant as its expiry base and the id its subscriber knows.  `None` from `add` (table full) drops the
record. -/
def State.resumeOne (s : State) (r : Rec) (now evwm : Nat) : State :=
  if s.count ≥ s.n then s
  else
    let sub : Sub := { id := (s.resumeId r).1, fab := r.fab, peer := r.peer, minInt := r.minInt,
                       maxInt := r.maxInt, reportedAt := IMAX, retryAt := 0, fail := 0,
                       seenAttr := s.changed.watermark, seenEv := evwm, resumedAt := now }
    { s with count := s.count + 1, nextSubId := (s.resumeId r).2, subs := s.subs ++ [sub] }

/-- a restart of the device: a fresh `InteractionModelState` (empty table, change ids from 1, every
report context is gone with its task) and `load_persist` over the records `0 .. N` of the same
store.  The ghost log starts again (the resumed subscriptions are not primed: their next report
carries everything), the ghost boot counter is incremented. -/
def State.restart (s : State) (now evwm : Nat) : State :=
  (s.kv.take s.n).foldl (fun st r => st.resumeOne r now evwm)
    { State.new s.hz s.n with kv := s.kv, epoch := s.epoch + 1 }

/-- the operations on the table (what the responder tasks, the reporter task and the application do
to it between two await points) -/
inductive Op
  | change (p : Entry)
  | add (now fab peer minInt maxInt evwm : Nat)
  | report (now evwm : Nat)
  | fin (id : Nat) (f : Fin)
  | remove (p : Sub → Bool)
  | purge
  | persist
  | restart (now evwm : Nat)

def State.step (s : State) : Op → State
  | .change p => s.change p
  | .add now fab peer mn mx ev => (s.add now fab peer mn mx ev).1
  | .report now ev => (s.report now ev).1
  | .fin id f => (s.fin id f).1
  | .remove p => (s.remove p).1
  | .purge => s.purge
  | .persist => s.persist
  | .restart now ev => s.restart now ev

def State.run (s : State) : List Op → State
  | [] => s
  | op :: ops => (s.step op).run ops

/-- `ReportContext::should_report_attr` -/
def State.shouldReportAttr (s : State) (c : Ctx) (ep cl attr : Nat) : Bool :=
  if c.sub.reportedAt = IMAX then true
  else containsSince s.changed.entries ep cl attr c.sub.seenAttr

/-! ## The numbering of the event queue (`im/events.rs`): what the table sees of it

The table never looks into the queue; it is handed the queue's watermark by its callers (`add`,
`report`, `load_persist` take `event_numbers_watermark = self.state.events.watermark()`), stores it as
the snapshot `next_max_seen_event_number` of the report context and commits it as the subscription's
`max_seen_event_number`. The report itself selects the queued events by number:
`EventReader::new(max_seen, next_max_seen)` + `process_read`. -/

/-- `EventsInner::next_event_number` — the numbering state of the queue -/
structure EvQ where
  next : Nat
deriving Repr, DecidableEq, Inhabited

def EvQ.new : EvQ := { next := 1 }

/-- `Events::push` → `next_event_number()`: the event gets the number `next_event_number`, which is then
`wrapping_add(1).max(1)` -/
def EvQ.push (q : EvQ) : Nat × EvQ := (q.next, { next := max ((q.next + 1) % U64) 1 })

/-- `Events::watermark`: `next_event_number.wrapping_sub(1)` -/
def EvQ.watermark (q : EvQ) : Nat := (q.next + IMAX) % U64

/-- `EventReader::process_read`: an event of the queue is considered for the report of context `c`
exactly when `event_number > max_seen_event_number && event_number <= next_max_seen_event_number` -/
def Ctx.eventInRange (c : Ctx) (num : Nat) : Bool := decide (num > c.sub.seenEv) && decide (num ≤ c.nextEv)

/-- the event watermark an operation is handed by its caller -/
def Op.evParam : Op → Option Nat
  | .add _ _ _ _ _ ev => some ev
  | .report _ ev => some ev
  | .restart _ ev => some ev
  | _ => none

/-- `ReportContext::should_send_if_empty` -/
def Ctx.shouldSendIfEmpty (hz : Nat) (c : Ctx) : Bool := decide (c.sub.reportDueAt hz ≤ c.nextReportedAt)

end Subs
