/-! # C15 — property theorems (not built yet) -/
