import RsMatterVerif.Lemmas.AdminHist
/-!
# Lemmas for C11: the committed view

`View` = what a restart can come up with: the fabric records by index and the stored network list.
`committedView` is built from the ACKNOWLEDGEMENTS of a history only: a fabric-scoped write that is
answered with success outside a fail-safe commits the record of that fabric, an acknowledged
CommissioningComplete commits the record of its fabric and the networks, an acknowledged RemoveFabric
removes the record; nothing else changes it.  `store_is_committed`: at every operation boundary the
store holds exactly the committed view.
-/
namespace Admin

/-- the committed view: fabric records (one per index) and the stored network list (`none` = no
network key) -/
structure View where
  fabs : List Fabric := []
  nets : Option (List Nat × Bool) := none
deriving Repr, DecidableEq, Inhabited

def View.get (v : View) (i : Nat) : Option Fabric := v.fabs.find? (fun f => f.idx = i)

/-- the record of fabric `f.idx` becomes `f` -/
def View.put (v : View) (f : Fabric) : View := { v with fabs := f :: v.fabs.filter (fun g => g.idx ≠ f.idx) }

/-- the record of fabric `i` goes away -/
def View.del (v : View) (i : Nat) : View := { v with fabs := v.fabs.filter (fun g => g.idx ≠ i) }

def View.putOpt (v : View) : Option Fabric → View
  | some f => v.put f
  | none => v

/-- the networks a view stands for in memory: the stored list and the `managed` flag, or the defaults -/
def View.netsD (v : View) : List Nat × Bool := match v.nets with | some p => p | none => ([], false)

/-- what a store holds, on the committed projections -/
def viewOf (kv : KV) : View := { fabs := kv.fabs, nets := kv.nets }

/-- equal views: the same record for every index, the same networks -/
def View.Same (a b : View) : Prop := (∀ i, a.get i = b.get i) ∧ a.nets = b.nets

theorem View.Same.refl (a : View) : View.Same a a := ⟨fun _ => rfl, rfl⟩
theorem View.Same.symm {a b : View} (h : View.Same a b) : View.Same b a := ⟨fun i => (h.1 i).symm, h.2.symm⟩
theorem View.Same.trans {a b c : View} (h1 : View.Same a b) (h2 : View.Same b c) : View.Same a c :=
  ⟨fun i => (h1.1 i).trans (h2.1 i), h1.2.trans h2.2⟩

theorem viewOf_get (kv : KV) (i : Nat) : (viewOf kv).get i = kvF kv i := rfl

theorem viewOf_same {a b : KV} : KV.Same a b ↔ View.Same (viewOf a) (viewOf b) := Iff.rfl

theorem View.get_put (v : View) (f : Fabric) (i : Nat) :
    (v.put f).get i = if i = f.idx then some f else v.get i :=
  kvF_putFabric { fabs := v.fabs, nets := v.nets } f i

theorem View.get_del (v : View) (k i : Nat) : (v.del k).get i = if i = k then none else v.get i :=
  kvF_delFabric { fabs := v.fabs, nets := v.nets } k i

theorem View.same_put {a b : View} (f : Fabric) (h : View.Same a b) : View.Same (a.put f) (b.put f) :=
  ⟨fun i => by rw [View.get_put, View.get_put, h.1 i], h.2⟩

theorem View.same_del {a b : View} (k : Nat) (h : View.Same a b) : View.Same (a.del k) (b.del k) :=
  ⟨fun i => by rw [View.get_del, View.get_del, h.1 i], h.2⟩

theorem View.same_nets {a b : View} (x : Option (List Nat × Bool)) (h : View.Same a b) :
    View.Same { a with nets := x } { b with nets := x } := ⟨h.1, rfl⟩

theorem viewOf_putFabric (kv : KV) (f : Fabric) : viewOf (kv.putFabric f) = (viewOf kv).put f := rfl
theorem viewOf_delFabric (kv : KV) (k : Nat) : viewOf (kv.delFabric k) = (viewOf kv).del k := rfl

/-! ## the context a session-borne command runs in -/

/-- the state after the IM prologue (the expiry check of the fail-safe timer) of a command over session `sid` -/
def proOf (cfg : Cfg) (n : Node) (sid : Nat) : Node := (checkTimeouts cfg n (some sid)).1

/-- the mode (PASE / CASE + fabric index) of session `sid` when the command runs -/
def cmdMode (cfg : Cfg) (n : Node) (sid : Nat) : Option Mode := (getSess (proOf cfg n sid) sid).map (·.mode)

/-- a session-borne command either stops in the prologue with an error (no session, reserved session,
prologue error, session gone or expired) or is `sessOp` on the state after the prologue -/
theorem step_sess_full (cfg : Cfg) (n : Node) (op : Op) (sid : Nat) (hso : isSessOp op = some sid) :
    (∃ e, step cfg n op = (n, .err e)) ∨ (∃ e, step cfg n op = (proOf cfg n sid, .err e)) ∨
    ∃ s1, getSess (proOf cfg n sid) sid = some s1 ∧
      step cfg n op = sessOp cfg (proOf cfg n sid) sid s1.mode op := by
  unfold step proOf
  simp only [hso]
  cases hg : getSess n sid with
  | none => exact Or.inl ⟨_, rfl⟩
  | some s0 =>
    simp only []
    split
    · exact Or.inl ⟨_, rfl⟩
    rcases hct : checkTimeouts cfg n (some sid) with ⟨n1, e⟩
    cases e with
    | some e => exact Or.inr (Or.inl ⟨_, rfl⟩)
    | none =>
      simp only []
      cases hg1 : getSess n1 sid with
      | none => exact Or.inr (Or.inl ⟨_, rfl⟩)
      | some s1 =>
        simp only []
        split
        · exact Or.inr (Or.inl ⟨_, rfl⟩)
        · exact Or.inr (Or.inr ⟨s1, rfl, rfl⟩)

/-! ## what the store-changing commands do to the store -/

/-- the shape every fabric-scoped write has in the model (`acl.rs:306`, `groups.rs:178`, `noc.rs:636`,
`grp_key_mgmt.rs:193`): the record in memory is replaced; armed for this fabric - the change is
remembered as deferred; else the record is stored, and a failing store answers the error -/
def writeResult (n : Node) (f f' : Fabric) : Node × Status :=
  if armedFor (setFabric n f') f.idx then ok (markDeferred (setFabric n f'))
  else match storeFabric (setFabric n f') f' with
    | (n, true) => ok n
    | (n, false) => (n, .err "NoSpace")

/-- acknowledged outside a fail-safe for the fabric - the store is the old one with the new record
put (and the node holds that record); in every other case (deferred under the fail-safe, or answered
with an error) the store is untouched -/
theorem write_kv (n : Node) (f f' : Fabric) (hidx : f'.idx = f.idx) (hget : getFabric n f.idx = some f) :
    ((writeResult n f f').2 = .ok ∧ armedFor n f.idx = false →
      (writeResult n f f').1.kv = n.kv.putFabric f' ∧ getFabric (writeResult n f f').1 f.idx = some f') ∧
    (¬ ((writeResult n f f').2 = .ok ∧ armedFor n f.idx = false) → (writeResult n f f').1.kv = n.kv) := by
  have harm : armedFor (setFabric n f') f.idx = armedFor n f.idx := rfl
  have hg1 : getFabric (setFabric n f') f.idx = some f' := by
    rw [getFabric_setFabric, hidx]; simp [hget]
  unfold writeResult
  simp only [harm]
  cases ha : armedFor n f.idx with
  | true =>
    simp only [if_true, ok]
    refine ⟨fun h => by simp at h, fun _ => ?_⟩
    exact (markDeferred_fields (setFabric n f')).2.2.2.1
  | false =>
    simp only [Bool.false_eq_true, if_false]
    have ⟨hfr, hst⟩ := storeFabric_spec (setFabric n f') f'
    rcases hr : storeFabric (setFabric n f') f' with ⟨n2, b⟩
    rw [hr] at hfr hst
    simp only at hfr hst
    rcases hst with ⟨hb, hkv, _⟩ | ⟨hb, hkv, _⟩
    · subst hb
      simp only [ok]
      refine ⟨fun _ => ⟨hkv, ?_⟩, fun h => absurd (by simp) h⟩
      simp only [getFabric, hfr.fabrics]; exact hg1
    · subst hb
      simp only []
      exact ⟨fun h => by simp at h, fun _ => hkv⟩

/-- whatever the store answers, the node holds the new record afterwards -/
theorem writeResult_get (n : Node) (f f' : Fabric) (hidx : f'.idx = f.idx) (hget : getFabric n f.idx = some f) :
    getFabric (writeResult n f f').1 f.idx = some f' := by
  have hg1 : getFabric (setFabric n f') f.idx = some f' := by
    rw [getFabric_setFabric, hidx]; simp [hget]
  unfold writeResult
  split
  · simp only [ok, getFabric, (markDeferred_fields _).1]; exact hg1
  · have hfr := (storeFabric_spec (setFabric n f') f').1
    rcases hr : storeFabric (setFabric n f') f' with ⟨n2, b⟩
    rw [hr] at hfr
    have hfab : n2.fabrics = (setFabric n f').fabrics := hfr.fabrics
    cases b <;> (simp only [ok, getFabric]; rw [hfab]; exact hg1)

/-- the fabric-scoped writes -/
def isWriteOp : Op → Bool
  | .acl .. | .grp .. | .label .. | .fwrite _ => true
  | _ => false

/-- **A fabric-scoped write** (ACL, group table, fabric label, group key map) over a session of fabric
`mode.fab`: acknowledged with success while no fail-safe is armed for that fabric - the store is the
store before with the record the node now holds for the fabric put into it; otherwise (answered with
an error, or deferred under the fail-safe) the store is exactly as it was. -/
theorem sessOp_write_kv (cfg : Cfg) (n : Node) (sid : Nat) (mode : Mode) (op : Op) (hw : isWriteOp op = true) :
    ((sessOp cfg n sid mode op).2 = .ok ∧ armedFor n mode.fab = false →
      ∃ f', f'.idx = mode.fab ∧ (sessOp cfg n sid mode op).1.kv = n.kv.putFabric f' ∧
        getFabric (sessOp cfg n sid mode op).1 mode.fab = some f') ∧
    (¬ ((sessOp cfg n sid mode op).2 = .ok ∧ armedFor n mode.fab = false) →
      (sessOp cfg n sid mode op).1.kv = n.kv) := by
  have err : ∀ (e : String), ((((n, Status.err e) : Node × Status).2 = .ok ∧ armedFor n mode.fab = false →
      ∃ f', f'.idx = mode.fab ∧ ((n, Status.err e) : Node × Status).1.kv = n.kv.putFabric f' ∧
        getFabric ((n, Status.err e) : Node × Status).1 mode.fab = some f') ∧
    (¬ (((n, Status.err e) : Node × Status).2 = .ok ∧ armedFor n mode.fab = false) →
      ((n, Status.err e) : Node × Status).1.kv = n.kv)) :=
    fun e => ⟨fun h => by simp at h, fun _ => rfl⟩
  have main : ∀ (f f' : Fabric), f'.idx = f.idx → getFabric n mode.fab = some f →
      ((writeResult n f f').2 = .ok ∧ armedFor n mode.fab = false →
        ∃ f'', f''.idx = mode.fab ∧ (writeResult n f f').1.kv = n.kv.putFabric f'' ∧
          getFabric (writeResult n f f').1 mode.fab = some f'') ∧
      (¬ ((writeResult n f f').2 = .ok ∧ armedFor n mode.fab = false) → (writeResult n f f').1.kv = n.kv) := by
    intro f f' hidx hg
    have hfi := getFabric_idx hg
    have := write_kv n f f' hidx (by rw [hfi]; exact hg)
    rw [hfi] at this
    exact ⟨fun h => ⟨f', by rw [hidx, hfi], this.1 h⟩, this.2⟩
  cases op with
  | acl s v =>
    simp only [sessOp]
    split
    · exact err _
    · cases hg : getFabric n mode.fab with
      | none => exact err _
      | some f =>
        simp only []
        split
        · exact err _
        · exact main f { f with acl := f.acl ++ [v] } rfl hg
  | grp s v =>
    simp only [sessOp]
    split
    · exact err _
    · cases hg : getFabric n mode.fab with
      | none => exact err _
      | some f =>
        simp only []
        split
        · exact err _
        · exact main f (if f.grp.contains v then f else { f with grp := f.grp ++ [v] }) (by split <;> rfl) hg
  | label s v =>
    simp only [sessOp]
    split
    · exact err _
    · split
      · exact err _
      · cases hg : getFabric n mode.fab with
        | none => exact err _
        | some f => exact main f { f with label := v } rfl hg
  | fwrite s =>
    simp only [sessOp]
    split
    · exact err _
    · cases hg : getFabric n mode.fab with
      | none => exact err _
      | some f => exact main f f rfl hg
  | _ => simp [isWriteOp] at hw

/-- **SetVIDVerificationStatement** over a session of fabric `mode.fab`: acknowledged with success while
the record carries no staged change of an armed fail-safe (no NOC command, no deferred write) - the
store is the store before with the record the node holds for the fabric put into it; otherwise
(answered with an error, or riding along with the staged changes) the store is exactly as it was. -/
theorem sessOp_vvs_kv (cfg : Cfg) (n : Node) (sid s : Nat) (mode : Mode) :
    ((sessOp cfg n sid mode (.vvs s)).2 = .ok ∧ pendingFor n mode.fab = false →
      ∃ f', f'.idx = mode.fab ∧ (sessOp cfg n sid mode (.vvs s)).1.kv = n.kv.putFabric f' ∧
        getFabric (sessOp cfg n sid mode (.vvs s)).1 mode.fab = some f') ∧
    (¬ ((sessOp cfg n sid mode (.vvs s)).2 = .ok ∧ pendingFor n mode.fab = false) →
      (sessOp cfg n sid mode (.vvs s)).1.kv = n.kv) := by
  simp only [sessOp]
  split
  · exact ⟨fun h => by simp at h, fun _ => rfl⟩
  · cases hg : getFabric n mode.fab with
    | none => exact ⟨fun h => by simp at h, fun _ => rfl⟩
    | some f =>
      have hfi := getFabric_idx hg
      simp only [hfi]
      by_cases hp : pendingFor n mode.fab = true
      · simp only [hp, if_true, ok]
        exact ⟨fun h => by simp at h, fun _ => by first | rfl | trivial⟩
      · have hp' : pendingFor n mode.fab = false := by simpa using hp
        simp only [hp', Bool.false_eq_true, if_false]
        have ⟨hfr, hst⟩ := storeFabric_spec n f
        rcases hr : storeFabric n f with ⟨n2, b⟩
        rw [hr] at hfr hst
        simp only at hfr hst
        rcases hst with ⟨hb, hkv, _⟩ | ⟨hb, hkv, _⟩
        · subst hb
          simp only [ok]
          refine ⟨fun _ => ⟨f, hfi, hkv, ?_⟩, fun h => absurd ⟨by first | rfl | trivial, by first | rfl | trivial⟩ h⟩
          simp only [getFabric, hfr.fabrics]; exact hg
        · subst hb
          exact ⟨fun h => by simp at h, fun _ => hkv⟩

/-- what a fabric-scoped write does to the record of its fabric -/
def applyWrite (op : Op) (f : Fabric) : Fabric :=
  match op with
  | .acl _ v => { f with acl := f.acl ++ [v] }
  | .grp _ v => if f.grp.contains v then f else { f with grp := f.grp ++ [v] }
  | .label _ v => { f with label := v }
  | _ => f

/-- **What the acknowledged record contains**: after a fabric-scoped write that is answered with
success the node holds, for the fabric of the session, the record it held before with exactly the
written change applied (`applyWrite`) -/
theorem sessOp_write_mem (cfg : Cfg) (n : Node) (sid : Nat) (mode : Mode) (op : Op) (hw : isWriteOp op = true)
    (hok : (sessOp cfg n sid mode op).2 = .ok) :
    ∃ f, getFabric n mode.fab = some f ∧ getFabric (sessOp cfg n sid mode op).1 mode.fab = some (applyWrite op f) := by
  have main : ∀ (f f' : Fabric), f'.idx = f.idx → getFabric n mode.fab = some f →
      getFabric (writeResult n f f').1 mode.fab = some f' := by
    intro f f' hidx hg
    have hfi := getFabric_idx hg
    have := writeResult_get n f f' hidx (by rw [hfi]; exact hg)
    rwa [hfi] at this
  cases op with
  | acl s v =>
    simp only [sessOp] at hok ⊢
    split at hok
    · simp at hok
    · rename_i h0
      simp only [h0, if_false]
      cases hg : getFabric n mode.fab with
      | none => rw [hg] at hok; simp at hok
      | some f =>
        rw [hg] at hok
        simp only [] at hok ⊢
        split at hok
        · simp at hok
        · rename_i h1
          simp only [h1, if_false]
          exact ⟨f, rfl, main f { f with acl := f.acl ++ [v] } rfl hg⟩
  | grp s v =>
    simp only [sessOp] at hok ⊢
    split at hok
    · simp at hok
    · rename_i h0
      simp only [h0, if_false]
      cases hg : getFabric n mode.fab with
      | none => rw [hg] at hok; simp at hok
      | some f =>
        rw [hg] at hok
        simp only [] at hok ⊢
        split at hok
        · simp at hok
        · rename_i h1
          simp only [h1, if_false]
          exact ⟨f, rfl, main f (if f.grp.contains v then f else { f with grp := f.grp ++ [v] }) (by split <;> rfl) hg⟩
  | label s v =>
    simp only [sessOp] at hok ⊢
    split at hok
    · simp at hok
    · rename_i h0
      simp only [h0, if_false]
      split at hok
      · simp at hok
      · rename_i h1
        simp only [h1, if_false]
        cases hg : getFabric n mode.fab with
        | none => rw [hg] at hok; simp at hok
        | some f => exact ⟨f, rfl, main f { f with label := v } rfl hg⟩
  | fwrite s =>
    simp only [sessOp] at hok ⊢
    split at hok
    · simp at hok
    · rename_i h0
      simp only [h0, if_false]
      cases hg : getFabric n mode.fab with
      | none => rw [hg] at hok; simp at hok
      | some f => exact ⟨f, rfl, main f f rfl hg⟩
  | _ => simp [isWriteOp] at hw

/-- **RemoveFabric**: acknowledged - the fabric key is gone from the store (nothing else changed on
the projection); answered with an error - the projection of the store is as it was -/
theorem sessOp_rmfab_kv (cfg : Cfg) (n : Node) (sid s idx : Nat) (mode : Mode) :
    ((sessOp cfg n sid mode (.rmfab s idx)).2 = .ok →
      KV.Same (sessOp cfg n sid mode (.rmfab s idx)).1.kv (n.kv.delFabric idx)) ∧
    ((sessOp cfg n sid mode (.rmfab s idx)).2 ≠ .ok → KV.Same (sessOp cfg n sid mode (.rmfab s idx)).1.kv n.kv) := by
  simp only [sessOp]
  split
  · exact ⟨fun h => by simp at h, fun _ => KV.Same.refl _⟩
  · split
    · have hq := purgeResum_quiet n idx
      rcases hp : purgeResum n idx with ⟨n2, b⟩
      rw [hp] at hq
      simp only at hq
      cases b with
      | false => exact ⟨fun h => by simp at h, fun _ => hq.1⟩
      | true =>
        simp only []
        have ⟨_, hn, _, hst⟩ := removeFabricKey_spec n2 idx
        rcases hrk : removeFabricKey n2 idx with ⟨n3, b3⟩
        rw [hrk] at hn hst
        simp only at hn hst
        cases b3 with
        | false =>
          rcases hst with ⟨hb, _⟩ | ⟨_, hkv, _⟩
          · cases hb
          · exact ⟨fun h => by simp at h, fun _ => by rw [hkv]; exact hq.1⟩
        | true =>
          rcases hst with ⟨_, hk, _⟩ | ⟨hb, _⟩
          · refine ⟨fun _ => ⟨fun i => ?_, ?_⟩, fun h => absurd rfl h⟩
            · show kvF n3.kv i = kvF (n.kv.delFabric idx) i
              rw [hk i, kvF_delFabric, hq.1.1 i]
            · show n3.kv.nets = (n.kv.delFabric idx).nets
              rw [hn]; exact hq.1.2
          · cases hb
    · exact ⟨fun h => by simp at h, fun _ => KV.Same.refl _⟩

/-- the CommissioningComplete issued in state `n` (after the prologue) is a **partial commit**: its
first write (the fabric record) reaches the store, its second write (the networks) fails, and it is
not the repaired case - a fabric added under this fail-safe that had no stored record, whose record
is removed again.  What is left of the open findings `C08-complete-partial-commit` /
`C11-complete-store-failure` (a fabric that existed before the fail-safe). -/
def partialCommit (cfg : Cfg) (n : Node) (sid : Nat) (mode : Mode) (s : Nat) : Bool :=
  (sessOp cfg n sid mode (.complete s)).2 != .ok &&
  decide (n.hist.length < (sessOp cfg n sid mode (.complete s)).1.hist.length) &&
  !(addingFabric n mode.fab && (kvF n.kv mode.fab).isNone)

/-- **CommissioningComplete**: acknowledged - the store is the store before with the record the node
holds for the fabric put into it and the networks of the node stored (`managed` set); answered with
an error - unless it is a partial commit - the projection of the store is as it was -/
theorem sessOp_complete_kv (cfg : Cfg) (n : Node) (sid s : Nat) (mode : Mode) :
    ((sessOp cfg n sid mode (.complete s)).2 = .ok →
      ∃ f', f'.idx = mode.fab ∧ getFabric (sessOp cfg n sid mode (.complete s)).1 mode.fab = some f' ∧
        (sessOp cfg n sid mode (.complete s)).1.kv =
          { n.kv.putFabric f' with nets := some ((sessOp cfg n sid mode (.complete s)).1.nets,
                                                 (sessOp cfg n sid mode (.complete s)).1.managed) }) ∧
    ((sessOp cfg n sid mode (.complete s)).2 ≠ .ok → partialCommit cfg n sid mode s = false →
      KV.Same (sessOp cfg n sid mode (.complete s)).1.kv n.kv) := by
  unfold partialCommit
  generalize hres : sessOp cfg n sid mode (.complete s) = r
  simp only [sessOp] at hres
  have quiet : ∀ (e : String), r = (n, .err e) →
      (r.2 = .ok → ∃ f', f'.idx = mode.fab ∧ getFabric r.1 mode.fab = some f' ∧
        r.1.kv = { n.kv.putFabric f' with nets := some (r.1.nets, r.1.managed) }) ∧
      (r.2 ≠ .ok → (r.2 != .ok && decide (n.hist.length < r.1.hist.length) &&
          !(addingFabric n mode.fab && (kvF n.kv mode.fab).isNone)) = false → KV.Same r.1.kv n.kv) := by
    intro e he
    subst he
    exact ⟨fun h => by simp at h, fun _ _ => KV.Same.refl _⟩
  cases hca : checkArmed n mode with
  | some e => rw [hca] at hres; exact quiet _ hres.symm
  | none =>
    rw [hca] at hres
    simp only [] at hres
    split at hres
    · exact quiet _ hres.symm
    · cases hg : getFabric n mode.fab with
      | none => rw [hg] at hres; exact quiet _ hres.symm
      | some f =>
        have hidx := getFabric_idx hg
        rw [hg] at hres
        simp only [] at hres
        have ⟨hfr1, hst1⟩ := storeFabric_spec n f
        rcases hr1 : storeFabric n f with ⟨n1, b1⟩
        rw [hr1] at hfr1 hst1 hres
        simp only at hfr1 hst1 hres
        rcases hst1 with ⟨hb1, hkv1, hh1⟩ | ⟨hb1, hkv1, hh1⟩
        · subst hb1
          simp only [] at hres
          have ⟨hfr2, hst2⟩ := storeNets_spec { n1 with managed := true }
          have hfi := storeNets_fail_failIn { n1 with managed := true }
          rcases hr2 : storeNets { n1 with managed := true } with ⟨n2, b2⟩
          rw [hr2] at hfr2 hst2 hfi hres
          simp only at hfr2 hst2 hfi hres
          cases b2 with
          | true =>
            simp only [] at hres
            subst hres
            rcases hst2 with ⟨_, hkv2, _⟩ | ⟨hb, _⟩
            · refine ⟨fun _ => ⟨f, hidx, ?_, ?_⟩, fun h => absurd rfl h⟩
              · simp only [ok, getFabric]
                rw [hfr2.fabrics]
                show List.find? (fun g => decide (g.idx = mode.fab)) n1.fabrics = some f
                rw [hfr1.fabrics]; exact hg
              · simp only [ok]
                rw [hkv2]
                show ({ n1.kv with nets := some (n1.nets, true) } : KV) = _
                rw [hkv1, hfr2.nets, hfr2.managed]
            · cases hb
          | false =>
            simp only [] at hres
            subst hres
            rcases hst2 with ⟨hb, _⟩ | ⟨_, hkv2, hh2⟩
            · cases hb
            · refine ⟨fun h => by simp at h, fun _ hpc => ?_⟩
              have hkv2' : n2.kv = n.kv.putFabric f := by rw [hkv2]; exact hkv1
              have hgrow : n.hist.length < (undoAdded { n2 with managed := n1.managed } f.idx).hist.length := by
                rcases undoAdded_hist { n2 with managed := n1.managed } f.idx with ⟨_, hh0⟩ | ⟨_, hh0⟩
                · rw [hh0]; show n.hist.length < n2.hist.length
                  rw [hh2]; show n.hist.length < n1.hist.length
                  rw [hh1]; simp only [List.length_cons]; omega
                · rw [hh0]; show n.hist.length < (n2.hist).length + 1
                  rw [hh2]; show n.hist.length < (n1.hist).length + 1
                  rw [hh1]; simp only [List.length_cons]; omega
              simp only [Bool.and_eq_false_iff, bne_eq_false_iff_eq, decide_eq_false_iff_not,
                Bool.not_eq_false', Bool.and_eq_true, Option.isNone_iff_eq_none] at hpc
              rcases hpc with (hpc | hpc) | hpc
              · simp at hpc
              · exact absurd hgrow hpc
              · have hadd : addingFabric n mode.fab = true := hpc.1
                have hnone : kvF n.kv mode.fab = none := hpc.2
                have hfs2 : ({ n2 with managed := n1.managed } : Node).fs = n.fs := by
                  show n2.fs = n.fs
                  rw [hfr2.fs]; exact hfr1.fs
                have hadding : addingFabric { n2 with managed := n1.managed } f.idx = true := by
                  unfold addingFabric at hadd ⊢
                  rw [hfs2, hidx]; exact hadd
                unfold undoAdded
                have hfi' : ({ n2 with managed := n1.managed } : Node).failIn = 0 := hfi rfl
                rw [if_pos hadding, removeFabricKey_calm f.idx hfi']
                have hhas : ({ n2 with managed := n1.managed } : Node).kv.hasFabric f.idx = true := by
                  show n2.kv.hasFabric f.idx = true
                  rw [hkv2']
                  simp [KV.hasFabric, KV.putFabric]
                rw [if_pos hhas]
                refine ⟨fun i => ?_, ?_⟩
                · show kvF (n2.kv.delFabric f.idx) i = kvF n.kv i
                  rw [kvF_delFabric, hkv2', kvF_putFabric]
                  by_cases hi : i = f.idx
                  · rw [if_pos hi, hi, hidx, hnone]
                  · rw [if_neg hi, if_neg hi]
                · show (n2.kv.delFabric f.idx).nets = n.kv.nets
                  rw [hkv2']; rfl
        · subst hb1
          simp only [] at hres
          subst hres
          exact ⟨fun h => by simp at h, fun _ _ => by rw [hkv1]; exact KV.Same.refl _⟩

/-! ## the committed view of a history -/

/-- **What one acknowledgement commits.**  `C` is the committed view before the operation `op`, issued
in state `n`; the result is the committed view after it.  Only the ANSWER of the operation and the
record / networks the node shows afterwards enter:
* a fabric-scoped write (ACL, group table, label, group key map) over a session of fabric `i` that is
  answered with success while no fail-safe is armed for `i` (when the command runs, i.e. after the
  expiry check of its prologue) commits the record the node now holds for `i` (the implementation
  stores whole fabric records: what the acknowledgement confirms is the record);
* a SetVIDVerificationStatement answered with success commits the record of its fabric as well - unless
  that record carries staged changes of the armed fail-safe (a NOC command, a deferred write): then it
  rides along with them and commits nothing;
* a CommissioningComplete answered with success commits the record of its fabric and the networks;
* a RemoveFabric answered with success removes the record;
* `crash k` restarts from an earlier store: what comes up is the committed state from there on (the
  later history never happened); the reset-before-start-up / recovery reset commit the empty state;
* nothing else changes the committed view - in particular no command that is answered with an error,
  no write that is deferred under a fail-safe, no credential command, no expiry, no restart. -/
def commitStep (cfg : Cfg) (n : Node) (C : View) (op : Op) : View :=
  let r := step cfg n op
  match op with
  | .acl s _ | .grp s _ | .label s _ | .fwrite s =>
    match cmdMode cfg n s with
    | some mode =>
      if r.2 = .ok ∧ armedFor (proOf cfg n s) mode.fab = false then C.putOpt (getFabric r.1 mode.fab) else C
    | none => C
  | .vvs s =>
    match cmdMode cfg n s with
    | some mode =>
      if r.2 = .ok ∧ pendingFor (proOf cfg n s) mode.fab = false then C.putOpt (getFabric r.1 mode.fab) else C
    | none => C
  | .complete s =>
    match cmdMode cfg n s with
    | some mode =>
      if r.2 = .ok then { C.putOpt (getFabric r.1 mode.fab) with nets := some (r.1.nets, r.1.managed) } else C
    | none => C
  | .rmfab _ idx => if r.2 = .ok then C.del idx else C
  | .crash _ => viewOf r.1.kv
  | .coldreset | .fabrecover _ => {}
  | _ => C

/-- the committed view after a history that starts in state `n` with the committed view `C` -/
def commitRun (cfg : Cfg) (n : Node) (C : View) : List Op → View
  | [] => C
  | op :: rest => commitRun cfg (step cfg n op).1 (commitStep cfg n C op) rest

/-- **The committed view of a history** (from the factory-fresh node): the abstract state made of
exactly the changes that were acknowledged with success -/
def committedView (cfg : Cfg) (ops : List Op) : View := commitRun cfg {} {} ops

theorem commitRun_append (cfg : Cfg) (n : Node) (C : View) (a b : List Op) :
    commitRun cfg n C (a ++ b) = commitRun cfg (run cfg n a) (commitRun cfg n C a) b := by
  induction a generalizing n C with
  | nil => rfl
  | cons op rest ih => exact ih _ _

theorem committedView_snoc (cfg : Cfg) (ops : List Op) (op : Op) :
    committedView cfg (ops ++ [op]) = commitStep cfg (run cfg {} ops) (committedView cfg ops) op := by
  unfold committedView
  rw [commitRun_append]
  rfl

/-- the operation `op` issued in state `n` is a partial commit (see `partialCommit`) -/
def partialCommitOp (cfg : Cfg) (n : Node) (op : Op) : Bool :=
  match op with
  | .complete s =>
    match cmdMode cfg n s with
    | some mode => (step cfg n op).2 != .ok && partialCommit cfg (proOf cfg n s) s mode s
    | none => false
  | _ => false

/-- **the exclusion**: no CommissioningComplete of the history is a partial commit (decidable on
histories) -/
def noPartialCommit (cfg : Cfg) : Node → List Op → Bool
  | _, [] => true
  | n, op :: rest => !partialCommitOp cfg n op && noPartialCommit cfg (step cfg n op).1 rest

theorem noPartialCommit_append (cfg : Cfg) (n : Node) (a b : List Op) :
    noPartialCommit cfg n (a ++ b) = (noPartialCommit cfg n a && noPartialCommit cfg (run cfg n a) b) := by
  induction a generalizing n with
  | nil => simp [noPartialCommit, run]
  | cons op rest ih =>
    simp only [List.cons_append, noPartialCommit, run, ih, Bool.and_assoc]

/-- **One operation: the store follows the acknowledgement.**  If the store holds the committed view
before the operation, it holds the committed view after it - for every operation but the factory
reset and the partial commit. -/
theorem step_commit (cfg : Cfg) (n : Node) (C : View) (op : Op) (h : View.Same (viewOf n.kv) C)
    (hop : op ≠ .freset) (hpc : partialCommitOp cfg n op = false) :
    View.Same (viewOf (step cfg n op).1.kv) (commitStep cfg n C op) := by
  cases hso : isSessOp op with
  | none =>
    by_cases hrw : rewinds op = false
    · have hq := (step_nosess_quiet cfg n op hso hop hrw).1
      have hC : commitStep cfg n C op = C := by
        cases op <;> first | rfl | (simp [isSessOp] at hso; done) | (simp [rewinds] at hrw; done)
      rw [hC]
      exact (viewOf_same.mp hq).trans h
    · cases op with
      | crash k => exact View.Same.refl _
      | coldreset => exact View.Same.refl _
      | fabrecover i => exact View.Same.refl _
      | _ => simp [rewinds] at hrw
  | some sid =>
    have hpro : View.Same (viewOf (proOf cfg n sid).kv) C :=
      (viewOf_same.mp (checkTimeouts_quiet cfg n (some sid)).1).trans h
    rcases step_sess_full cfg n op sid hso with ⟨e, he⟩ | ⟨e, he⟩ | ⟨s1, hg1, he⟩
    · -- stopped before the prologue: an error, nothing changed
      have hC : commitStep cfg n C op = C := by
        unfold commitStep
        rw [he]
        cases op <;> first | rfl | (simp only []; split <;> (try split) <;> first | rfl | (rename_i hh; simp at hh)) | (simp [isSessOp] at hso; done)
      rw [hC, he]; exact h
    · have hC : commitStep cfg n C op = C := by
        unfold commitStep
        rw [he]
        cases op <;> first | rfl | (simp only []; split <;> (try split) <;> first | rfl | (rename_i hh; simp at hh)) | (simp [isSessOp] at hso; done)
      rw [hC, he]; exact hpro
    · have hmode : cmdMode cfg n sid = some s1.mode := by unfold cmdMode; rw [hg1]; rfl
      by_cases hst : storeOp op = false
      · have hq := (sessOp_quiet cfg (proOf cfg n sid) sid s1.mode op hst).1
        have hC : commitStep cfg n C op = C := by
          cases op <;> first | rfl | (simp [storeOp] at hst; done) | (simp [isSessOp] at hso; done)
        rw [hC, he]
        exact (viewOf_same.mp hq).trans hpro
      · cases op with
        | rmfab s idx =>
          have hk := sessOp_rmfab_kv cfg (proOf cfg n sid) sid s idx s1.mode
          unfold commitStep
          rw [he]
          simp only []
          by_cases hok : (sessOp cfg (proOf cfg n sid) sid s1.mode (.rmfab s idx)).2 = .ok
          · rw [if_pos hok]
            exact (viewOf_same.mp (hk.1 hok)).trans (View.same_del idx hpro)
          · rw [if_neg hok]
            exact (viewOf_same.mp (hk.2 hok)).trans hpro
        | complete s =>
          have hsid : sid = s := by simpa [isSessOp] using hso.symm
          subst hsid
          have hk := sessOp_complete_kv cfg (proOf cfg n sid) sid sid s1.mode
          unfold partialCommitOp at hpc
          simp only [hmode, he] at hpc
          unfold commitStep
          rw [he]
          simp only [hmode]
          by_cases hok : (sessOp cfg (proOf cfg n sid) sid s1.mode (.complete sid)).2 = .ok
          · rw [if_pos hok]
            obtain ⟨f', _, hgf, hkv⟩ := hk.1 hok
            rw [hgf, hkv]
            exact View.same_nets _ (View.same_put f' hpro)
          · rw [if_neg hok]
            have : partialCommit cfg (proOf cfg n sid) sid s1.mode sid = false := by
              have hne : ((sessOp cfg (proOf cfg n sid) sid s1.mode (.complete sid)).2 != .ok) = true := by
                simpa using hok
              rw [hne] at hpc
              simpa using hpc
            exact (viewOf_same.mp (hk.2 hok this)).trans hpro
        | acl s v =>
          have hsid : sid = s := by simpa [isSessOp] using hso.symm
          subst hsid
          have hk := sessOp_write_kv cfg (proOf cfg n sid) sid s1.mode (.acl sid v) rfl
          unfold commitStep
          rw [he]
          simp only [hmode]
          split
          · rename_i hcond
            obtain ⟨f', _, hkv, hgf⟩ := hk.1 hcond
            rw [hgf, hkv]
            exact View.same_put f' hpro
          · rename_i hcond
            rw [hk.2 hcond]; exact hpro
        | grp s v =>
          have hsid : sid = s := by simpa [isSessOp] using hso.symm
          subst hsid
          have hk := sessOp_write_kv cfg (proOf cfg n sid) sid s1.mode (.grp sid v) rfl
          unfold commitStep
          rw [he]
          simp only [hmode]
          split
          · rename_i hcond
            obtain ⟨f', _, hkv, hgf⟩ := hk.1 hcond
            rw [hgf, hkv]
            exact View.same_put f' hpro
          · rename_i hcond
            rw [hk.2 hcond]; exact hpro
        | label s v =>
          have hsid : sid = s := by simpa [isSessOp] using hso.symm
          subst hsid
          have hk := sessOp_write_kv cfg (proOf cfg n sid) sid s1.mode (.label sid v) rfl
          unfold commitStep
          rw [he]
          simp only [hmode]
          split
          · rename_i hcond
            obtain ⟨f', _, hkv, hgf⟩ := hk.1 hcond
            rw [hgf, hkv]
            exact View.same_put f' hpro
          · rename_i hcond
            rw [hk.2 hcond]; exact hpro
        | fwrite s =>
          have hsid : sid = s := by simpa [isSessOp] using hso.symm
          subst hsid
          have hk := sessOp_write_kv cfg (proOf cfg n sid) sid s1.mode (.fwrite sid) rfl
          unfold commitStep
          rw [he]
          simp only [hmode]
          split
          · rename_i hcond
            obtain ⟨f', _, hkv, hgf⟩ := hk.1 hcond
            rw [hgf, hkv]
            exact View.same_put f' hpro
          · rename_i hcond
            rw [hk.2 hcond]; exact hpro
        | vvs s =>
          have hsid : sid = s := by simpa [isSessOp] using hso.symm
          subst hsid
          have hk := sessOp_vvs_kv cfg (proOf cfg n sid) sid sid s1.mode
          unfold commitStep
          rw [he]
          simp only [hmode]
          split
          · rename_i hcond
            obtain ⟨f', _, hkv, hgf⟩ := hk.1 hcond
            rw [hgf, hkv]
            exact View.same_put f' hpro
          · rename_i hcond
            rw [hk.2 hcond]; exact hpro
        | _ => simp [storeOp] at hst

/-- **At every operation boundary the store holds exactly the committed view** - for every history
without factory reset and without partial commit (any commands, any sessions, store faults at any
write, restarts, crashes). -/
theorem run_commit (cfg : Cfg) (ops : List Op) : ∀ (n : Node) (C : View), View.Same (viewOf n.kv) C →
    Op.freset ∉ ops → noPartialCommit cfg n ops = true →
    View.Same (viewOf (run cfg n ops).kv) (commitRun cfg n C ops) := by
  induction ops with
  | nil => intro n C h _ _; exact h
  | cons op rest ih =>
    intro n C h hno hpc
    simp only [noPartialCommit, Bool.and_eq_true, Bool.not_eq_true'] at hpc
    have hop : op ≠ .freset := fun he => hno (by rw [he]; exact List.mem_cons_self)
    exact ih _ _ (step_commit cfg n C op h hop hpc.1) (fun hm => hno (List.mem_cons_of_mem _ hm)) hpc.2

theorem store_is_committed (cfg : Cfg) (ops : List Op) (hno : Op.freset ∉ ops)
    (hpc : noPartialCommit cfg {} ops = true) :
    View.Same (viewOf (run cfg {} ops).kv) (committedView cfg ops) :=
  run_commit cfg ops {} {} (View.Same.refl _) hno hpc

/-! ## every crash point, in order -/

/-- the newest store of a store history (the empty store before the first mutation) -/
def newest : List KV → KV
  | kv :: _ => kv
  | [] => {}

/-- the store after the `k`-th mutation in a store history `h` (newest first); `k` beyond it = the newest -/
def histAt (h : List KV) (k : Nat) : KV := newest (h.drop (h.length - min k h.length))

theorem histAt_old (new old : List KV) (k : Nat) (hk : k ≤ old.length) :
    histAt (new ++ old) k = histAt old k := by
  unfold histAt
  have h1 : (new ++ old).length - min k (new ++ old).length = new.length + (old.length - min k old.length) := by
    simp only [List.length_append]; omega
  rw [h1, List.drop_append, List.drop_eq_nil_of_le (by omega), Nat.add_sub_cancel_left, List.nil_append]

theorem histAt_new (new old : List KV) (k : Nat) (h1 : old.length < k) (h2 : k < (new ++ old).length) :
    histAt (new ++ old) k ∈ new.drop 1 := by
  unfold histAt
  simp only [List.length_append] at h2 ⊢
  have hi : new.length + old.length - min k (new.length + old.length) = (new.length + old.length - k) := by omega
  rw [hi]
  have hlt : new.length + old.length - k < new.length := by omega
  rw [List.drop_append_of_le_length (by omega)]
  cases hd : List.drop (new.length + old.length - k) new with
  | nil =>
    have := List.drop_eq_nil_iff.mp hd
    omega
  | cons x xs =>
    simp only [List.cons_append, newest]
    have : x ∈ List.drop (new.length + old.length - k) new := by rw [hd]; exact List.mem_cons_self
    have h3 : List.drop (new.length + old.length - k) new = List.drop ((new.length + old.length - k - 1)) (List.drop 1 new) := by
      rw [List.drop_drop]; congr 1; omega
    rw [h3] at this
    exact List.mem_of_mem_drop this

theorem histAt_top (h : List KV) (k : Nat) (hk : h.length ≤ k) : histAt h k = newest h := by
  unfold histAt
  have : h.length - min k h.length = 0 := by omega
  rw [this, List.drop_zero]
/-- the newest element of the store history is the store (on the projection); before the first
mutation the store is empty -/
def HeadOK (n : Node) : Prop := KV.Same (newest n.hist) n.kv

theorem headOK_init : HeadOK ({} : Node) := KV.Same.refl _

theorem headOK_seg {n n' : Node} {mid : List KV} (h : HeadOK n) (hs : Seg n n' mid) : HeadOK n' := by
  obtain ⟨a, bs, e, ha, pb, pa, pe⟩ := hs
  unfold HeadOK
  rw [e]
  match a, ha, pa, pe with
  | [], _, _, pe =>
    obtain ⟨hm, hk⟩ := pe rfl
    subst hm
    cases bs with
    | nil => exact h.trans hk.symm
    | cons b r => exact (pb b List.mem_cons_self).trans hk.symm
  | [x], _, pa, _ => exact pa x List.mem_cons_self
  | _ :: _ :: _, ha, _, _ => simp at ha

theorem seg_grows {n n' : Node} {mid : List KV} (hs : Seg n n' mid) : ∃ new, n'.hist = new ++ n.hist := by
  obtain ⟨a, bs, e, _⟩ := hs
  exact ⟨a ++ (mid ++ bs), by rw [e]; simp⟩

/-- the history only grows the store history: no crash / reset-before-start-up / recovery reset
(they rewind it or start a new one) and no factory reset in it -/
def growOnly (ops : List Op) : Prop := ∀ op ∈ ops, rewinds op = false ∧ op ≠ .freset

instance (ops : List Op) : Decidable (growOnly ops) := by unfold growOnly; infer_instance

theorem run_grows (cfg : Cfg) : ∀ (ops : List Op) (n : Node), growOnly ops →
    ∃ new, (run cfg n ops).hist = new ++ n.hist := by
  intro ops
  induction ops with
  | nil => intro n _; exact ⟨[], rfl⟩
  | cons op rest ih =>
    intro n hg
    have ⟨h1, h2⟩ := hg op List.mem_cons_self
    obtain ⟨mid, hseg, _⟩ := step_seg cfg n op h2 h1
    obtain ⟨new1, e1⟩ := seg_grows hseg
    obtain ⟨new2, e2⟩ := ih (step cfg n op).1 (fun o ho => hg o (List.mem_cons_of_mem _ ho))
    exact ⟨new2 ++ new1, by show (run cfg (step cfg n op).1 rest).hist = _; rw [e2, e1, List.append_assoc]⟩

/-- the number of store mutations after the first `m` operations of the history -/
def muts (cfg : Cfg) (ops : List Op) (m : Nat) : Nat := (run cfg {} (ops.take m)).hist.length

theorem muts_le (cfg : Cfg) (ops : List Op) (hg : growOnly ops) (m : Nat) :
    muts cfg ops m ≤ (run cfg {} ops).hist.length := by
  unfold muts
  have hsplit : ops = ops.take m ++ ops.drop m := (List.take_append_drop m ops).symm
  have hgd : growOnly (ops.drop m) := fun o ho => hg o (List.mem_of_mem_drop ho)
  obtain ⟨new, e⟩ := run_grows cfg (ops.drop m) (run cfg {} (ops.take m)) hgd
  have : run cfg {} ops = run cfg (run cfg {} (ops.take m)) (ops.drop m) := by
    conv => lhs; rw [hsplit]
    exact run_append cfg {} _ _
  rw [this, e]
  simp

/-- **Positional**: the store after the `k`-th mutation of the history equals (on the projection) the
store at the boundary after the first `m` operations, where `m` is the LONGEST prefix all of whose
store mutations are among the first `k` (`muts m ≤ k < muts (m+1)`) - unless `k` lies strictly inside
the two store mutations of a CommissioningComplete (operation `m`) -/
def Positional (cfg : Cfg) (ops : List Op) : Prop :=
  ∀ m k, m ≤ ops.length → muts cfg ops m ≤ k → (m < ops.length → k < muts cfg ops (m + 1)) →
    (k = muts cfg ops m ∨ ∀ op, ops[m]? = some op → ¬ twoWriteComplete cfg (run cfg {} (ops.take m)) op) →
    KV.Same (histAt (run cfg {} ops).hist k) (run cfg {} (ops.take m)).kv

theorem positional_nil (cfg : Cfg) : Positional cfg [] := by
  intro m k hm _ _ _
  have : m = 0 := by simpa using hm
  subst this
  have h0 : histAt ([] : List KV) k = {} := by simp [histAt, newest]
  show KV.Same (histAt [] k) ({} : KV)
  rw [h0]; exact KV.Same.refl _

theorem positional_snoc (cfg : Cfg) (pre : List Op) (op : Op) (hg : growOnly (pre ++ [op]))
    (hh : HeadOK (run cfg {} pre)) (hp : Positional cfg pre) :
    HeadOK (run cfg {} (pre ++ [op])) ∧ Positional cfg (pre ++ [op]) := by
  have hgp : growOnly pre := fun o ho => hg o (List.mem_append_left _ ho)
  have ⟨hrw, hop⟩ := hg op (List.mem_append_right _ List.mem_cons_self)
  have hrun : run cfg {} (pre ++ [op]) = (step cfg (run cfg {} pre) op).1 := by rw [run_append]; rfl
  obtain ⟨mid, hseg, hmid⟩ := step_seg cfg (run cfg {} pre) op hop hrw
  have hh' : HeadOK (run cfg {} (pre ++ [op])) := by rw [hrun]; exact headOK_seg hh hseg
  refine ⟨hh', ?_⟩
  obtain ⟨a, bs, e, ha, pb, pa, pe⟩ := hseg
  have htake : ∀ m, m ≤ pre.length → (pre ++ [op]).take m = pre.take m := fun m hm =>
    List.take_append_of_le_length hm
  have htakeL : (pre ++ [op]).take (pre.length + 1) = pre ++ [op] := by
    rw [List.take_of_length_le]; simp
  have hmutsL : muts cfg pre pre.length = (run cfg {} pre).hist.length := by
    unfold muts; rw [List.take_length]
  intro m k hm hlo hhi hmidk
  simp only [List.length_append, List.length_singleton] at hm hhi
  have hlen' : (run cfg {} (pre ++ [op])).hist = (a ++ (mid ++ bs)) ++ (run cfg {} pre).hist := by
    rw [hrun, e]; simp
  by_cases hmL : m ≤ pre.length
  · -- a boundary of `pre`
    have hmm : muts cfg (pre ++ [op]) m = muts cfg pre m := by unfold muts; rw [htake m hmL]
    rw [htake m hmL]
    rw [hmm] at hlo hmidk
    by_cases hmlt : m < pre.length
    · have hm1 : muts cfg (pre ++ [op]) (m + 1) = muts cfg pre (m + 1) := by
        unfold muts; rw [htake (m + 1) (by omega)]
      have hk1 := hhi (by omega)
      rw [hm1] at hk1
      have hkle : k ≤ (run cfg {} pre).hist.length := by
        have := muts_le cfg pre hgp (m + 1); omega
      rw [hlen', histAt_old _ _ _ hkle]
      refine hp m k (by omega) hlo (fun _ => hk1) ?_
      rcases hmidk with h | h
      · exact Or.inl h
      · refine Or.inr (fun o ho => ?_)
        have : (pre ++ [op])[m]? = some o := by rw [List.getElem?_append_left hmlt]; exact ho
        have := h o this
        rwa [htake m hmL] at this
    · have hmeq : m = pre.length := by omega
      subst hmeq
      rw [hmutsL] at hlo hmidk
      have hk1 := hhi (by omega)
      have hm1 : muts cfg (pre ++ [op]) (pre.length + 1) = (run cfg {} (pre ++ [op])).hist.length := by
        unfold muts; rw [htakeL]
      rw [hm1] at hk1
      rw [List.take_length]
      by_cases hkeq : k = (run cfg {} pre).hist.length
      · rw [hlen', histAt_old _ _ _ (by omega), hkeq, histAt_top _ _ (Nat.le_refl _)]
        exact hh
      · -- strictly inside what `op` added: not the newest element, and not in the middle of a commit
        have hmid0 : mid = [] := by
          rcases hmid with h | ⟨htw, _⟩
          · exact h
          · rcases hmidk with h | h
            · exact absurd h hkeq
            · have hget : (pre ++ [op])[pre.length]? = some op := by simp
              have := h op hget
              rw [htake pre.length (Nat.le_refl _), List.take_length] at this
              exact absurd htw this
        subst hmid0
        have hin := histAt_new (a ++ ([] ++ bs)) (run cfg {} pre).hist k (by omega) (by rw [← hlen']; exact hk1)
        rw [hlen']
        have hbs : histAt ((a ++ ([] ++ bs)) ++ (run cfg {} pre).hist) k ∈ bs := by
          simp only [List.nil_append] at hin ⊢
          match a, ha with
          | [], _ => exact List.mem_of_mem_drop hin
          | [x], _ => simpa using hin
          | _ :: _ :: _, ha => simp at ha
        exact pb _ hbs
  · -- the new boundary: the whole history
    have hmeq : m = pre.length + 1 := by omega
    subst hmeq
    have hm1 : muts cfg (pre ++ [op]) (pre.length + 1) = (run cfg {} (pre ++ [op])).hist.length := by
      unfold muts; rw [htakeL]
    rw [hm1] at hlo
    rw [htakeL, histAt_top _ _ hlo]
    exact hh'

/-- **Every history that only grows the store history is positional** -/
theorem positional_all (cfg : Cfg) : ∀ (rest pre : List Op), growOnly (pre ++ rest) →
    HeadOK (run cfg {} pre) → Positional cfg pre →
    HeadOK (run cfg {} (pre ++ rest)) ∧ Positional cfg (pre ++ rest) := by
  intro rest
  induction rest with
  | nil => intro pre _ hh hp; rw [List.append_nil]; exact ⟨hh, hp⟩
  | cons op r ih =>
    intro pre hg hh hp
    have e : pre ++ op :: r = (pre ++ [op]) ++ r := by simp
    rw [e] at hg ⊢
    have ⟨h1, h2⟩ := positional_snoc cfg pre op (fun o ho => hg o (List.mem_append_left _ ho)) hh hp
    exact ih (pre ++ [op]) hg h1 h2

theorem positional (cfg : Cfg) (ops : List Op) (hg : growOnly ops) : Positional cfg ops := by
  have := positional_all cfg ops [] (by simpa using hg) headOK_init (positional_nil cfg)
  simpa using this.2

end Admin
