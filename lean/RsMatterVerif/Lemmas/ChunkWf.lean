import RsMatterVerif.Lemmas.ChunkAcc
/-!
# Every message is well-formed on its own (C14, token view of `Model/Chunk.lean`)

`msgToks_wellFormed`: the container structure that a message opens and closes — derived from its
reports and the flags of its size accounting (`Accounts`) — is one top-level struct, every container
closed by its own `end_container`, the struct by the last token.
-/
namespace Chunk

theorem walk_report (rest : List Tok) (d : Nat) : walk (reportToks ++ rest) (d + 1) = walk rest (d + 1) := by
  simp [reportToks, walk]

theorem walk_reports {α : Type} (l : List α) (rest : List Tok) (d : Nat) :
    walk (l.flatMap (fun _ => reportToks) ++ rest) (d + 1) = walk rest (d + 1) := by
  induction l with
  | nil => rfl
  | cons x l ih => rw [List.flatMap_cons, List.append_assoc, walk_report, ih]

/-- **every message is well-formed on its own**, given the flags of its size accounting: a non-final
message has an array open when the trailer closes it -/
theorem msgToks_wellFormed (subId suppress a e : Bool) (ch : ChunkOut) (h : ch.more = true → a = true ∨ e = true) :
    wellFormed (msgToks subId suppress a e ch) = true := by
  cases hm : ch.more <;> cases a <;> cases e <;> cases subId <;> cases suppress <;>
    simp_all [msgToks, wellFormed, walk, walk_reports]

end Chunk
