/-! # C05 — property theorems (not built yet) -/
