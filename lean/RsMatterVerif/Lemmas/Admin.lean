import RsMatterVerif.Model.Admin
/-!
# Lemmas about `Model/Admin` shared by the C07 / C08 / C11 property files
-/
namespace Admin

/-- the stored copy of the fabric with index `i` -/
def kvF (kv : KV) (i : Nat) : Option Fabric := kv.fabs.find? (fun f => f.idx = i)

theorem find_filter_ne (l : List Fabric) (k i : Nat) :
    (l.filter (fun f => f.idx ≠ k)).find? (fun f => f.idx = i) =
      if i = k then none else l.find? (fun f => f.idx = i) := by
  induction l with
  | nil => simp
  | cons g r ih =>
    by_cases hg : g.idx = k
    · by_cases hi : i = k
      · simp_all
      · have : g.idx ≠ i := by omega
        simp_all
    · by_cases hgi : g.idx = i
      · have : i ≠ k := by omega
        simp_all
      · simp_all

theorem find_filter_neB (l : List Fabric) (k i : Nat) :
    (l.filter (fun f => !decide (f.idx = k))).find? (fun f => decide (f.idx = i)) =
      if i = k then none else l.find? (fun f => decide (f.idx = i)) := by
  have := find_filter_ne l k i
  simpa [decide_not] using this

theorem find_append_single (l : List Fabric) (f : Fabric) (i : Nat) :
    (l ++ [f]).find? (fun g => g.idx = i) =
      match l.find? (fun g => g.idx = i) with
      | some g => some g
      | none => if f.idx = i then some f else none := by
  induction l with
  | nil => simp
  | cons g r ih => by_cases hg : g.idx = i <;> simp_all

theorem find_map_set (l : List Fabric) (f : Fabric) (i : Nat) :
    (l.map (fun g => if g.idx = f.idx then f else g)).find? (fun g => g.idx = i) =
      if i = f.idx then (l.find? (fun g => g.idx = i)).map (fun _ => f) else l.find? (fun g => g.idx = i) := by
  induction l with
  | nil => simp
  | cons g r ih =>
    by_cases hg : g.idx = f.idx
    · by_cases hi : i = f.idx
      · simp_all
      · have : ¬ g.idx = i := by omega
        have h2 : ¬ f.idx = i := by omega
        simp_all
    · by_cases hgi : g.idx = i
      · have : ¬ i = f.idx := by omega
        simp_all
      · simp_all

theorem getFabric_setFabric (n : Node) (f : Fabric) (i : Nat) :
    getFabric (setFabric n f) i =
      if i = f.idx then (getFabric n i).map (fun _ => f) else getFabric n i := by
  simp only [getFabric, setFabric]
  exact find_map_set n.fabrics f i

theorem kvF_putFabric (kv : KV) (f : Fabric) (i : Nat) :
    kvF (kv.putFabric f) i = if i = f.idx then some f else kvF kv i := by
  simp only [kvF, KV.putFabric]
  by_cases h : i = f.idx
  · subst h; simp
  · have h' : ¬ f.idx = i := by omega
    rw [List.find?_cons]
    simp only [h', decide_false]
    rw [find_filter_ne]
    simp [h]

theorem kvF_delFabric (kv : KV) (k i : Nat) :
    kvF (kv.delFabric k) i = if i = k then none else kvF kv i := by
  simp only [kvF, KV.delFabric]
  exact find_filter_ne kv.fabs k i

def kvNets (kv : KV) : List Nat × Bool := match kv.nets with | some p => p | none => ([], false)
def exemptIdx (n : Node) : Nat := match n.fs with | some a => a.fab | none => 0


/-! ## the store primitives, with or without an injected fault -/

/-- everything the invariants look at, except the store, is unchanged -/
structure Frame (n n' : Node) : Prop where
  fabrics : n'.fabrics = n.fabrics
  sessions : n'.sessions = n.sessions
  resum : n'.resum = n.resum
  fs : n'.fs = n.fs
  nets : n'.nets = n.nets
  managed : n'.managed = n.managed
  nextGen : n'.nextGen = n.nextGen

theorem Frame.refl (n : Node) : Frame n n := ⟨rfl, rfl, rfl, rfl, rfl, rfl, rfl⟩

theorem Frame.trans {a b c : Node} (h1 : Frame a b) (h2 : Frame b c) : Frame a c :=
  ⟨by rw [h2.fabrics, h1.fabrics], by rw [h2.sessions, h1.sessions], by rw [h2.resum, h1.resum],
   by rw [h2.fs, h1.fs], by rw [h2.nets, h1.nets], by rw [h2.managed, h1.managed],
   by rw [h2.nextGen, h1.nextGen]⟩

theorem kvTick_frame (n : Node) :
    Frame n (kvTick n).1 ∧ (kvTick n).1.kv = n.kv ∧ (kvTick n).1.hist = n.hist := by
  refine ⟨⟨?_, ?_, ?_, ?_, ?_, ?_, ?_⟩, ?_, ?_⟩
  all_goals (unfold kvTick; split <;> (try split) <;> rfl)

/-- closes `x = x` goals, also after `simp only` has turned them into `True` -/
macro "triv" : term => `(by first | rfl | trivial)

/-- `FabricPersist::store`: either the blob is written (one new element of the store history), or
the call fails and the store is untouched -/
theorem storeFabric_spec (n : Node) (f : Fabric) :
    Frame n (storeFabric n f).1 ∧
    (((storeFabric n f).2 = true ∧ (storeFabric n f).1.kv = n.kv.putFabric f ∧
        (storeFabric n f).1.hist = n.kv.putFabric f :: n.hist) ∨
     ((storeFabric n f).2 = false ∧ (storeFabric n f).1.kv = n.kv ∧ (storeFabric n f).1.hist = n.hist)) := by
  have ⟨hfr, hkv, hh⟩ := kvTick_frame n
  unfold storeFabric
  rcases ht : kvTick n with ⟨n1, bad⟩
  rw [ht] at hfr hkv hh
  simp only at hfr hkv hh
  cases bad with
  | true => exact ⟨hfr, Or.inr ⟨triv, hkv, hh⟩⟩
  | false =>
    simp only [Bool.false_eq_true, if_false, kvCommit]
    refine ⟨⟨hfr.fabrics, hfr.sessions, hfr.resum, hfr.fs, hfr.nets, hfr.managed, hfr.nextGen⟩, Or.inl ⟨triv, ?_, ?_⟩⟩
    · simp only [hkv]
    · simp only [hkv, hh]

/-- `FabricPersist::remove` -/
theorem removeFabricKey_spec (n : Node) (idx : Nat) :
    Frame n (removeFabricKey n idx).1 ∧ (removeFabricKey n idx).1.kv.nets = n.kv.nets ∧
    (removeFabricKey n idx).1.kv.resum = n.kv.resum ∧
    (((removeFabricKey n idx).2 = true ∧
        (∀ i, kvF (removeFabricKey n idx).1.kv i = if i = idx then none else kvF n.kv i) ∧
        ((removeFabricKey n idx).1.kv = n.kv.delFabric idx ∧
            (removeFabricKey n idx).1.hist = n.kv.delFabric idx :: n.hist ∨
         (removeFabricKey n idx).1.kv = n.kv ∧ (removeFabricKey n idx).1.hist = n.hist)) ∨
     ((removeFabricKey n idx).2 = false ∧ (removeFabricKey n idx).1.kv = n.kv ∧
        (removeFabricKey n idx).1.hist = n.hist)) := by
  have ⟨hfr, hkv, hh⟩ := kvTick_frame n
  unfold removeFabricKey
  rcases ht : kvTick n with ⟨n1, bad⟩
  rw [ht] at hfr hkv hh
  simp only at hfr hkv hh
  cases bad with
  | true => exact ⟨hfr, by simp only [if_true, hkv], by simp only [if_true, hkv], Or.inr ⟨triv, hkv, hh⟩⟩
  | false =>
    simp only [Bool.false_eq_true, if_false]
    by_cases hk : n1.kv.hasFabric idx = true
    · simp only [hk, if_true, kvCommit]
      refine ⟨⟨hfr.fabrics, hfr.sessions, hfr.resum, hfr.fs, hfr.nets, hfr.managed, hfr.nextGen⟩, ?_, ?_, Or.inl ⟨triv, ?_, Or.inl ⟨?_, ?_⟩⟩⟩
      · simp only [KV.delFabric, hkv]
      · simp only [KV.delFabric, hkv]
      · intro i; rw [kvF_delFabric, hkv]
      · simp only [hkv]
      · simp only [hkv, hh]
    · have hk' : n1.kv.hasFabric idx = false := by simpa using hk
      simp only [hk', Bool.false_eq_true, if_false]
      refine ⟨hfr, by rw [hkv], by rw [hkv], Or.inl ⟨triv, ?_, Or.inr ⟨hkv, hh⟩⟩⟩
      intro i
      rw [hkv]
      by_cases hi : i = idx
      · subst hi
        simp only [if_true]
        rw [hkv] at hk'
        unfold KV.hasFabric at hk'
        unfold kvF
        rw [List.find?_eq_none]
        intro f hfm
        have := (List.any_eq_false.mp hk') f hfm
        simpa using this
      · simp only [hi, if_false]

theorem storeNets_spec (n : Node) :
    Frame n (storeNets n).1 ∧
    (((storeNets n).2 = true ∧ (storeNets n).1.kv = { n.kv with nets := some (n.nets, n.managed) } ∧
        (storeNets n).1.hist = { n.kv with nets := some (n.nets, n.managed) } :: n.hist) ∨
     ((storeNets n).2 = false ∧ (storeNets n).1.kv = n.kv ∧ (storeNets n).1.hist = n.hist)) := by
  have ⟨hfr, hkv, hh⟩ := kvTick_frame n
  unfold storeNets
  rcases ht : kvTick n with ⟨n1, bad⟩
  rw [ht] at hfr hkv hh
  simp only at hfr hkv hh
  cases bad with
  | true => exact ⟨hfr, Or.inr ⟨triv, hkv, hh⟩⟩
  | false =>
    simp only [Bool.false_eq_true, if_false, kvCommit]
    refine ⟨⟨hfr.fabrics, hfr.sessions, hfr.resum, hfr.fs, hfr.nets, hfr.managed, hfr.nextGen⟩, Or.inl ⟨triv, ?_, ?_⟩⟩
    · simp only [hkv, hfr.nets, hfr.managed]
    · simp only [hkv, hh, hfr.nets, hfr.managed]

/-- `MatterState::purge_resumption_for_fabric`: the records of `idx` are gone from the cache; the
store is touched in its resumption blob only (if at all) -/
theorem purgeResum_spec (n : Node) (idx : Nat) :
    (purgeResum n idx).1.fabrics = n.fabrics ∧ (purgeResum n idx).1.sessions = n.sessions ∧
    (purgeResum n idx).1.fs = n.fs ∧ (purgeResum n idx).1.nets = n.nets ∧
    (purgeResum n idx).1.managed = n.managed ∧ (purgeResum n idx).1.nextGen = n.nextGen ∧
    (purgeResum n idx).1.resum = n.resum.filter (fun r => r.fab ≠ idx) ∧
    (purgeResum n idx).1.kv.fabs = n.kv.fabs ∧ (purgeResum n idx).1.kv.nets = n.kv.nets ∧
    (((purgeResum n idx).1.kv = n.kv ∧ (purgeResum n idx).1.hist = n.hist) ∨
     ((purgeResum n idx).2 = true ∧
      (purgeResum n idx).1.kv = { n.kv with resum := .recs (n.resum.filter (fun r => r.fab ≠ idx)) } ∧
      (purgeResum n idx).1.hist = { n.kv with resum := .recs (n.resum.filter (fun r => r.fab ≠ idx)) } :: n.hist)) := by
  unfold purgeResum
  generalize hn0 : ({ n with resum := n.resum.filter (fun r => decide (r.fab ≠ idx)) } : Node) = n0
  have ⟨hfr, hkv, hh⟩ := kvTick_frame n0
  rcases ht : kvTick n0 with ⟨n1, bad⟩
  rw [ht] at hfr hkv hh
  simp only at hfr hkv hh
  have e1 : n0.fabrics = n.fabrics := by rw [← hn0]
  have e2 : n0.sessions = n.sessions := by rw [← hn0]
  have e3 : n0.fs = n.fs := by rw [← hn0]
  have e4 : n0.nets = n.nets := by rw [← hn0]
  have e5 : n0.managed = n.managed := by rw [← hn0]
  have e6 : n0.nextGen = n.nextGen := by rw [← hn0]
  have e7 : n0.resum = n.resum.filter (fun r => decide (r.fab ≠ idx)) := by rw [← hn0]
  have e8 : n0.kv = n.kv := by rw [← hn0]
  have e9 : n0.hist = n.hist := by rw [← hn0]
  simp only [ht]
  cases bad with
  | true =>
    simp only [if_true]
    exact ⟨by rw [hfr.fabrics, e1], by rw [hfr.sessions, e2], by rw [hfr.fs, e3], by rw [hfr.nets, e4],
      by rw [hfr.managed, e5], by rw [hfr.nextGen, e6], by rw [hfr.resum, e7], by rw [hkv, e8], by rw [hkv, e8],
      Or.inl ⟨by rw [hkv, e8], by rw [hh, e9]⟩⟩
  | false =>
    simp only [Bool.false_eq_true, if_false, kvCommit]
    refine ⟨by rw [hfr.fabrics, e1], by rw [hfr.sessions, e2], by rw [hfr.fs, e3], by rw [hfr.nets, e4],
      by rw [hfr.managed, e5], by rw [hfr.nextGen, e6], by rw [hfr.resum, e7], ?_, ?_, Or.inr ⟨triv, ?_, ?_⟩⟩
    · simp only [hkv, e8]
    · simp only [hkv, e8]
    · simp only [hkv, e8, hfr.resum, e7]
    · simp only [hkv, e8, hfr.resum, e7, hh, e9]


/-! ## coherence of node and store, store faults included -/

/-- the fabric the fail-safe context is bound to was not changed in memory behind the store's back:
no deferred write, no `UpdateNOC`, not the (unstored) fabric of an `AddNOC` -/
def DefOK (n : Node) (D : List Nat) : Prop :=
  ∀ a, n.fs = some a → a.fab ≠ 0 → a.deferred = false → a.flags.updNoc = false → a.flags.addNoc = false →
    a.fab ∈ D ∨ getFabric n a.fab = kvF n.kv a.fab

/-- node and store agree: on every fabric index except the one the fail-safe is armed for and the
*dirty* ones (`D`: a fabric-scoped write outside the fail-safe was answered with a store error - the
change is in memory, not in the store), and - while no fail-safe is armed - on the networks -/
def CohD (n : Node) (D : List Nat) : Prop :=
  (∀ i, i ≠ 0 → i ≠ exemptIdx n → i ∉ D → getFabric n i = kvF n.kv i) ∧
  (n.fs = none → (n.nets, n.managed) = kvNets n.kv) ∧ DefOK n D

/-- coherence proper: nothing is dirty -/
def Coh (n : Node) : Prop := CohD n []

/-- full agreement of node and store (what `Coh` says once no fail-safe is armed) -/
def Agree (n : Node) : Prop :=
  (∀ i, i ≠ 0 → getFabric n i = kvF n.kv i) ∧ (n.nets, n.managed) = kvNets n.kv

theorem cohD_mono {n : Node} {D D' : List Nat} (hs : ∀ i, i ∈ D → i ∈ D') (h : CohD n D) : CohD n D' :=
  ⟨fun i h0 he hd => h.1 i h0 he (fun hm => hd (hs i hm)), h.2.1,
   fun a ha h0 h1 h2 h3 => (h.2.2 a ha h0 h1 h2 h3).elim (fun hm => Or.inl (hs _ hm)) Or.inr⟩

theorem cohD_of_agree {n : Node} (D : List Nat) (h : Agree n) : CohD n D :=
  ⟨fun i hi _ _ => h.1 i hi, fun _ => h.2, fun a _ h0 _ _ _ => Or.inr (h.1 a.fab h0)⟩

theorem agree_of_cohD_idle {n : Node} (h : CohD n []) (hfs : n.fs = none) : Agree n := by
  refine ⟨fun i hi => h.1 i hi ?_ (by simp), h.2.1 hfs⟩
  simp [exemptIdx, hfs]; omega

theorem cohD_congr {n n' : Node} {D : List Nat} (h1 : n'.fabrics = n.fabrics) (h2 : n'.fs = n.fs)
    (h3 : n'.nets = n.nets) (h4 : n'.managed = n.managed) (h5 : n'.kv.fabs = n.kv.fabs)
    (h6 : n'.kv.nets = n.kv.nets) (h : CohD n D) : CohD n' D := by
  unfold CohD DefOK getFabric kvF kvNets exemptIdx at *
  simp only [h1, h2, h3, h4, h5, h6]
  exact h

theorem cohD_frame {n n' : Node} {D : List Nat} (hf : Frame n n') (h5 : n'.kv.fabs = n.kv.fabs)
    (h6 : n'.kv.nets = n.kv.nets) (h : CohD n D) : CohD n' D :=
  cohD_congr hf.fabrics hf.fs hf.nets hf.managed h5 h6 h

/-- a change of the fail-safe context that keeps its fabric (re-arming, a flag) or starts a context -/
theorem cohD_setfs {n : Node} {D : List Nat} (b : Armed) (bc st : Nat) (hc : CohD n D)
    (h : (n.fs = none ∧ b.deferred = false ∨
         ∃ a, n.fs = some a ∧ a.fab = b.fab ∧ (b.deferred = false → a.deferred = false) ∧
           (b.flags.updNoc = false → a.flags.updNoc = false) ∧
           (b.flags.addNoc = false → a.flags.addNoc = false))) :
    CohD { n with fs := some b, bc := bc, staged := st } D := by
  refine ⟨fun i hi he hd => ?_, fun hn => by simp at hn, fun a ha h0 h1 h2 h3 => ?_⟩
  · have he' : i ≠ b.fab := by simpa [exemptIdx] using he
    rcases h with ⟨hn, _⟩ | ⟨a, ha, hab, _⟩
    · have := hc.1 i hi (by simp [exemptIdx, hn]; omega) hd
      simpa [getFabric, kvF] using this
    · have := hc.1 i hi (by simp [exemptIdx, ha, hab]; exact he') hd
      simpa [getFabric, kvF] using this
  · have hab : a = b := by simpa using ha.symm
    subst hab
    rcases h with ⟨hn, _⟩ | ⟨a0, ha0, hab, d1, d2, d3⟩
    · by_cases hd : a.fab ∈ D
      · exact Or.inl hd
      · right
        have := hc.1 a.fab h0 (by simp [exemptIdx, hn]; omega) hd
        simpa [getFabric, kvF] using this
    · have := hc.2.2 a0 ha0 (by rw [hab]; exact h0) (d1 h1) (d2 h2) (d3 h3)
      rw [hab] at this
      simpa [getFabric, kvF] using this

/-- network changes are only made while the fail-safe is armed -/
theorem cohD_nets_armed {n : Node} {D : List Nat} (l : List Nat) (m : Bool) (hc : CohD n D) (ha : n.fs ≠ none) :
    CohD { n with nets := l, managed := m } D := by
  refine ⟨fun i hi he hd => ?_, fun hn => absurd hn ha, fun a ha' h0 h1 h2 h3 => ?_⟩
  · have := hc.1 i hi (by simpa [exemptIdx] using he) hd
    simpa [getFabric, kvF] using this
  · have := hc.2.2 a ha' h0 h1 h2 h3
    simpa [getFabric, kvF] using this

theorem checkArmed_none {n : Node} {mode : Mode} (h : checkArmed n mode = none) :
    ∃ a, n.fs = some a ∧ a.fab = mode.fab := by
  unfold checkArmed at h
  cases hfs : n.fs with
  | none => simp [hfs] at h
  | some a =>
    simp only [hfs] at h
    by_cases hab : a.fab = mode.fab
    · exact ⟨a, triv, hab⟩
    · simp [hab] at h

theorem getFabric_idx {n : Node} {i : Nat} {f : Fabric} (h : getFabric n i = some f) : f.idx = i := by
  simpa using List.find?_some h

theorem armedFor_iff (n : Node) (i : Nat) : armedFor n i = true ↔ ∃ a, n.fs = some a ∧ a.fab = i := by
  unfold armedFor
  cases n.fs with
  | none => simp
  | some a => simp

/-- a fabric-scoped write of fabric `f.idx` (ACL, group, label): the new record replaces the old one
in the node; it is stored unless the fail-safe is armed for this fabric (then the context remembers
the deferred change); a failing store leaves the fabric dirty -/
theorem cohD_fabric_write (n : Node) (D : List Nat) (f f' : Fabric) (hidx : f'.idx = f.idx) (hne : f.idx ≠ 0)
    (hget : getFabric n f.idx = some f) (hc : CohD n D) :
    CohD (if armedFor (setFabric n f') f.idx then ok (markDeferred (setFabric n f'))
      else match storeFabric (setFabric n f') f' with
        | (n, true) => ok n
        | (n, false) => (n, .err "NoSpace")).1
      (if (if armedFor (setFabric n f') f.idx then ok (markDeferred (setFabric n f'))
      else match storeFabric (setFabric n f') f' with
        | (n, true) => ok n
        | (n, false) => (n, .err "NoSpace")).2 = .err "NoSpace" then f.idx :: D else D) := by
  generalize hn1 : setFabric n f' = n1
  have hfs1 : n1.fs = n.fs := by rw [← hn1]; rfl
  have hkv1 : n1.kv = n.kv := by rw [← hn1]; rfl
  have hnets1 : n1.nets = n.nets := by rw [← hn1]; rfl
  have hman1 : n1.managed = n.managed := by rw [← hn1]; rfl
  have hget1 : ∀ i, getFabric n1 i = if i = f.idx then some f' else getFabric n i := by
    intro i
    rw [← hn1, getFabric_setFabric, hidx]
    by_cases hi : i = f.idx
    · subst hi; simp [hget]
    · simp [hi]
  have hex1 : exemptIdx n1 = exemptIdx n := by simp [exemptIdx, hfs1]
  by_cases harm : armedFor n1 f.idx = true
  · simp only [harm, if_true, ok]
    have ⟨a, ha, hab⟩ := (armedFor_iff n1 f.idx).mp harm
    have hmd : markDeferred n1 = { n1 with fs := some { a with deferred := true } } := by
      unfold markDeferred; rw [ha]
    rw [hmd]
    have hne2 : (Status.ok = Status.err "NoSpace") = False := by simp
    simp only [hne2, if_false]
    refine ⟨fun i hi he hd => ?_, fun hn => by simp at hn, fun b hb h0 h1 _ _ => ?_⟩
    · have hif : i ≠ f.idx := by simpa [exemptIdx, hab] using he
      show getFabric n1 i = kvF n1.kv i
      rw [hget1, if_neg hif, hkv1]
      exact hc.1 i hi (by rw [← hex1]; simp [exemptIdx, ha, hab]; exact hif) hd
    · have : b = { a with deferred := true } := by simpa using hb.symm
      subst this
      simp at h1
  · have harm' : armedFor n1 f.idx = false := by simpa using harm
    simp only [harm', Bool.false_eq_true, if_false]
    have hna : ∀ a, n1.fs = some a → a.fab ≠ f.idx := by
      intro a ha hab
      exact harm ((armedFor_iff n1 f.idx).mpr ⟨a, ha, hab⟩)
    have hexne : exemptIdx n1 ≠ f.idx := by
      unfold exemptIdx
      cases hfs : n1.fs with
      | none => simp only []; omega
      | some a => exact hna a hfs
    have ⟨hfr, hst⟩ := storeFabric_spec n1 f'
    rcases hr : storeFabric n1 f' with ⟨n2, b⟩
    rw [hr] at hfr hst
    simp only at hfr hst
    have hget2 : ∀ i, getFabric n2 i = getFabric n1 i := by intro i; simp only [getFabric, hfr.fabrics]
    have hex2 : exemptIdx n2 = exemptIdx n1 := by simp [exemptIdx, hfr.fs]
    rcases hst with ⟨hb, hkv, _⟩ | ⟨hb, hkv, _⟩
    · subst hb
      simp only [ok]
      have hne2 : (Status.ok = Status.err "NoSpace") = False := by simp
      simp only [hne2, if_false]
      refine ⟨fun i hi he hd => ?_, fun hn => ?_, fun a ha h0 h1 h2 h3 => ?_⟩
      · rw [hget2, hget1, hkv, kvF_putFabric, hidx, hkv1]
        by_cases hif : i = f.idx
        · simp [hif]
        · simp only [hif, if_false]
          exact hc.1 i hi (by rw [← hex1, ← hex2]; exact he) hd
      · have := hc.2.1 (by rw [← hfs1, ← hfr.fs]; exact hn)
        rw [hfr.nets, hfr.managed, hnets1, hman1, this, hkv]
        simp [kvNets, KV.putFabric, hkv1]
      · have haf : a.fab ≠ f.idx := hna a (by rw [← hfr.fs]; exact ha)
        rcases hc.2.2 a (by rw [← hfs1, ← hfr.fs]; exact ha) h0 h1 h2 h3 with hm | he
        · exact Or.inl hm
        · right
          rw [hget2, hget1, if_neg haf, hkv, kvF_putFabric, hidx, if_neg haf, hkv1]
          exact he
    · subst hb
      simp only [if_true]
      refine ⟨fun i hi he hd => ?_, fun hn => ?_, fun a ha h0 h1 h2 h3 => ?_⟩
      · have hif : i ≠ f.idx := fun h => hd (by rw [h]; exact List.mem_cons_self)
        rw [hget2, hget1, if_neg hif, hkv, hkv1]
        exact hc.1 i hi (by rw [← hex1, ← hex2]; exact he) (fun hm => hd (List.mem_cons_of_mem _ hm))
      · have := hc.2.1 (by rw [← hfs1, ← hfr.fs]; exact hn)
        rw [hfr.nets, hfr.managed, hnets1, hman1, this, hkv, hkv1]
      · have haf : a.fab ≠ f.idx := hna a (by rw [← hfr.fs]; exact ha)
        rcases hc.2.2 a (by rw [← hfs1, ← hfr.fs]; exact ha) h0 h1 h2 h3 with hm | he
        · exact Or.inl (List.mem_cons_of_mem _ hm)
        · right
          rw [hget2, hget1, if_neg haf, hkv, hkv1]
          exact he

/-! ### rollback -/

theorem rollbackFabrics_find (cfg : Cfg) (n : Node) (D : List Nat) (a : Armed) (fs : List Fabric)
    (hc : CohD n D) (hfs : n.fs = some a) (h : rollbackFabrics cfg n a = .ok fs) :
    ∀ i, i ≠ 0 → i ∉ D ∨ i = a.fab → fs.find? (fun f => decide (f.idx = i)) = kvF n.kv i := by
  have hex : exemptIdx n = a.fab := by simp [exemptIdx, hfs]
  unfold rollbackFabrics at h
  simp only [decide_not] at h
  intro i hi hd
  by_cases h0 : a.fab = 0
  · rw [if_pos h0] at h
    injection h with h; subst h
    have hd' : i ∉ D := by
      rcases hd with hd | hd
      · exact hd
      · exact absurd (hd.trans h0) hi
    have := hc.1 i hi (by rw [hex, h0]; exact hi) hd'
    simpa [getFabric] using this
  · rw [if_neg h0] at h
    cases hk : n.kv.fabs.find? (fun f => decide (f.idx = a.fab)) with
    | none =>
      simp only [hk] at h
      injection h with h; subst h
      rw [find_filter_neB]
      by_cases hia : i = a.fab
      · simp [hia, kvF, hk]
      · simp only [hia, if_false]
        have hd' : i ∉ D := hd.elim id (fun h => absurd h hia)
        have := hc.1 i hi (by rw [hex]; exact hia) hd'
        simpa [getFabric] using this
    | some f =>
      simp only [hk] at h
      have hfidx : f.idx = a.fab := by simpa using List.find?_some hk
      by_cases hroom : (n.fabrics.filter (fun f => !decide (f.idx = a.fab))).length < cfg.maxFabrics
      · rw [if_pos hroom] at h
        injection h with h; subst h
        rw [find_append_single, find_filter_neB]
        by_cases hia : i = a.fab
        · subst hia
          simp [kvF, hk, hfidx]
        · have hfi : ¬ f.idx = i := by omega
          simp only [hia, if_false, hfi]
          have hd' : i ∉ D := hd.elim id (fun h => absurd h hia)
          have := hc.1 i hi (by rw [hex]; exact hia) hd'
          simp only [getFabric] at this
          rw [this]
          cases kvF n.kv i <;> simp
      · rw [if_neg hroom] at h
        simp at h

/-- **Rollback restores the stored view.**  If `FailSafe::expire` succeeds, the fail-safe is disarmed,
the store is untouched, and node and store agree on the networks and on every fabric that is not
dirty - the fail-safe's own fabric included. -/
theorem expireArmed_cohD (cfg : Cfg) (n : Node) (D : List Nat) (a : Armed) (exp : Option Nat)
    (hc : CohD n D) (hfs : n.fs = some a) (hok : (expireArmed cfg n a exp).2.1 = none) :
    CohD (expireArmed cfg n a exp).1 D ∧ (expireArmed cfg n a exp).1.fs = none ∧
    (expireArmed cfg n a exp).1.kv = n.kv ∧ (expireArmed cfg n a exp).1.hist = n.hist ∧
    (a.fab ≠ 0 → getFabric (expireArmed cfg n a exp).1 a.fab = kvF n.kv a.fab) ∧
    ((expireArmed cfg n a exp).1.nets, (expireArmed cfg n a exp).1.managed) = kvNets n.kv := by
  unfold expireArmed at hok ⊢
  cases hr : rollbackFabrics cfg n a with
  | error e => simp [hr] at hok
  | ok fs =>
    simp only [hr]
    have hfind := rollbackFabrics_find cfg n D a fs hc hfs hr
    refine ⟨⟨fun i hi _ hd => ?_, fun _ => ?_, fun b hb => by simp at hb⟩, triv, triv, triv, fun h0 => ?_, ?_⟩
    · simpa [getFabric] using hfind i hi (Or.inl hd)
    · simp [kvNets]; cases n.kv.nets <;> simp
    · simpa [getFabric] using hfind a.fab h0 (Or.inr triv)
    · simp [kvNets]; cases n.kv.nets <;> simp

theorem expireArmed_error (cfg : Cfg) (n : Node) (a : Armed) (exp : Option Nat) (e : String)
    (h : (expireArmed cfg n a exp).2.1 = some e) : (expireArmed cfg n a exp).1 = n := by
  unfold expireArmed at h ⊢
  cases hr : rollbackFabrics cfg n a <;> simp_all

/-- `expire` + the purge of the resumption cache done by its callers (whatever the store answers) -/
theorem expireAndPurge_cohD (cfg : Cfg) (n : Node) (D : List Nat) (a : Armed) (exp : Option Nat)
    (hc : CohD n D) (hfs : n.fs = some a) :
    CohD (expireAndPurge cfg n a exp).1 D ∧
    (expireAndPurge cfg n a exp).1.kv.fabs = n.kv.fabs ∧ (expireAndPurge cfg n a exp).1.kv.nets = n.kv.nets ∧
    ((expireArmed cfg n a exp).2.1 = none →
      (expireAndPurge cfg n a exp).1.fs = none ∧
      (a.fab ≠ 0 → getFabric (expireAndPurge cfg n a exp).1 a.fab = kvF n.kv a.fab) ∧
      ((expireAndPurge cfg n a exp).1.nets, (expireAndPurge cfg n a exp).1.managed) = kvNets n.kv) := by
  unfold expireAndPurge
  have key := expireArmed_cohD cfg n D a exp hc hfs
  have kerr := expireArmed_error cfg n a exp
  rcases hres : expireArmed cfg n a exp with ⟨n1, e, r⟩
  rw [hres] at key kerr
  cases e with
  | some e =>
    have := kerr e triv
    simp only at this
    subst this
    exact ⟨hc, triv, triv, fun h => by simp at h⟩
  | none =>
    have ⟨hcd, hfs1, hkv, _, hfab, hnets⟩ := key triv
    simp only at hcd hfs1 hkv hfab hnets
    cases r with
    | none => exact ⟨hcd, by rw [hkv], by rw [hkv], fun _ => ⟨hfs1, hfab, hnets⟩⟩
    | some idx =>
      have ⟨p1, _, p3, p4, p5, _, _, p8, p9, _⟩ := purgeResum_spec n1 idx
      rcases hp : purgeResum n1 idx with ⟨n2, b⟩
      rw [hp] at p1 p3 p4 p5 p8 p9
      simp only at p1 p3 p4 p5 p8 p9
      have hc2 : CohD n2 D := cohD_congr p1 p3 p4 p5 p8 p9 hcd
      have fin : CohD n2 D ∧ n2.kv.fabs = n.kv.fabs ∧ n2.kv.nets = n.kv.nets ∧
          ((none : Option String) = none → n2.fs = none ∧ (a.fab ≠ 0 → getFabric n2 a.fab = kvF n.kv a.fab) ∧
            (n2.nets, n2.managed) = kvNets n.kv) := by
        refine ⟨hc2, by rw [p8, hkv], by rw [p9, hkv], fun _ => ⟨by rw [p3]; exact hfs1, fun h0 => ?_, ?_⟩⟩
        · have := hfab h0
          simpa [getFabric, p1] using this
        · rw [p4, p5]; exact hnets
      simp only [hp]
      cases b <;> (simp only []; exact ⟨fin.1, fin.2.1, fin.2.2.1, fun _ => fin.2.2.2 triv⟩)

theorem windowTimeout_cohD (n : Node) (D : List Nat) (hc : CohD n D) : CohD (windowTimeout n) D := by
  unfold windowTimeout
  split
  · split
    · exact cohD_congr triv triv triv triv triv triv hc
    · exact hc
  · exact hc

/-- the prologue of every command (`check_timeouts`) keeps coherence -/
theorem checkTimeouts_cohD (cfg : Cfg) (n : Node) (D : List Nat) (sid : Option Nat) (hc : CohD n D) :
    CohD (checkTimeouts cfg n sid).1 D := by
  unfold checkTimeouts
  cases hfs : n.fs with
  | none => simp only []; exact windowTimeout_cohD n D hc
  | some a =>
    simp only []
    by_cases ht : n.now ≥ a.armedAt + a.timeout
    · simp only [ht, if_true]
      have h1 := (expireAndPurge_cohD cfg n D a (expSid n sid) hc hfs).1
      have heq : (expireAndPurgeLenient cfg n a (expSid n sid)).1 = (expireAndPurge cfg n a (expSid n sid)).1 := rfl
      cases he : (expireAndPurgeLenient cfg n a (expSid n sid)).2 with
      | some e => simp only []; rw [heq]; exact h1
      | none => simp only []; rw [heq]; exact windowTimeout_cohD _ D h1
    · simp only [ht, if_false]
      exact windowTimeout_cohD n D hc

theorem expire_cohD (cfg : Cfg) (n : Node) (D : List Nat) (exp : Option Nat) (hc : CohD n D) :
    CohD (expire cfg n exp).1 D := by
  unfold expire
  cases hfs : n.fs with
  | none => exact hc
  | some a => exact (expireAndPurge_cohD cfg n D a exp hc hfs).1

end Admin
