import RsMatterVerif.Lemmas.Chunk
/-!
# Size accounting and per-message progress for answers that carry events (C14)

`Accounts c a e ch`: the length of message `ch` is header + (attribute array, if the message has one:
`a`) + (event array, if it has one: `e`) + one `end_container` per array that ends inside the
message by a structural write + trailer (the trailer of a non-final message contains the end of the
array that is still open).  `XInv`: the invariant of the event section that carries it, and the
count of report-less messages (`bare`): while the open message still contains the attribute array
no finished message is bare; afterwards at most one is — the message in which the attribute array
ended, when the first event report did not fit behind it.
-/
namespace Chunk

theorem sumEv_reverse (ps : List EvPiece) : sumEv ps.reverse = sumEv ps := by
  simp [sumEv, List.sum_reverse]

/-- the message carries no report -/
def ChunkOut.bare (ch : ChunkOut) : Bool := ch.pieces.isEmpty && ch.events.isEmpty

def bareCount (l : List ChunkOut) : Nat := (l.filter ChunkOut.bare).length

theorem bareCount_cons (ch : ChunkOut) (l : List ChunkOut) :
    bareCount (ch :: l) = (if ch.bare then 1 else 0) + bareCount l := by
  unfold bareCount
  simp only [List.filter_cons]
  split <;> simp <;> omega

/-- **size accounting of one message**; `a`: the message contains the attribute array (or its
continuation), `e`: it contains the event array (or its continuation) -/
def Accounts (c : Cfg) (a e : Bool) (ch : ChunkOut) : Prop :=
  ch.size = c.hdr + (if a then c.arrOpen + sumSizes ch.pieces else 0) +
      (if e then c.evOpen + sumEv ch.events else 0) +
      (if a && (e || !ch.more) then c.close else 0) + (if e && !ch.more then c.close else 0) +
      (if ch.more then c.trailerMore else c.trailerDone) ∧
    (a = false → ch.pieces = []) ∧ (e = false → ch.events = [])

/-- a finished message: accounted for; a bare one closes the attribute array and opens the event array -/
def DoneOk (c : Cfg) (hasAttrs hasEv : Bool) (ch : ChunkOut) : Prop :=
  ch.more = true ∧ ∃ a e, (a = true → hasAttrs = true) ∧ (e = true → hasEv = true) ∧ Accounts c a e ch ∧
    (ch.bare = true → a = true ∧ e = true)

/-- invariant of the event section for accounting and progress -/
structure XInv (c : Cfg) (hasAttrs : Bool) (s : ESt) : Prop where
  used : s.used = s.base + sumEv s.evs
  baseF : s.fresh = true → s.base = c.hdr + c.evOpen ∧ s.attrs = []
  baseN : s.fresh = false → hasAttrs = true ∧ s.base = c.hdr + c.arrOpen + sumSizes s.attrs + c.close + c.evOpen
  done : ∀ ch ∈ s.done, DoneOk c hasAttrs true ch
  bareF : s.fresh = true → bareCount s.done ≤ (if hasAttrs then 1 else 0)
  bareN : s.fresh = false → bareCount s.done = 0

theorem xinv_cursor {c : Cfg} {t : Bool} {s : ESt} (h : XInv c t s) (k : Nat) : XInv c t { s with cursor := k } :=
  ⟨h.used, h.baseF, h.baseN, h.done, h.bareF, h.bareN⟩

theorem xinv_writeEv {c : Cfg} {t : Bool} {s : ESt} (h : XInv c t s) (p : EvPiece) : XInv c t (s.writeEv p) := by
  refine ⟨?_, h.baseF, h.baseN, h.done, h.bareF, h.bareN⟩
  show s.used + p.size = s.base + sumEv (p :: s.evs)
  rw [sumEv_cons, h.used]; omega

theorem xinv_wr {c : Cfg} {t : Bool} {s : ESt} (h : XInv c t s) (e : Ev) : XInv c t (s.wr e) :=
  xinv_cursor (xinv_writeEv h (.data e.num e.size)) e.num

/-- sending the open message: allowed when it carries an event report or still contains the
attribute array -/
theorem xinv_flushEv {c : Cfg} {t : Bool} {s : ESt} (h : XInv c t s) (hne : s.fresh = true → s.evs ≠ []) :
    XInv c t (s.flushEv c) := by
  have hnew : DoneOk c t true { pieces := s.attrs.reverse, events := s.evs.reverse, size := s.used + c.trailerMore, more := true } ∧
      (s.fresh = true → ({ pieces := s.attrs.reverse, events := s.evs.reverse, size := s.used + c.trailerMore, more := true } : ChunkOut).bare = false) := by
    cases hf : s.fresh with
    | true =>
      obtain ⟨hb, ha⟩ := h.baseF hf
      have hnb : ({ pieces := s.attrs.reverse, events := s.evs.reverse, size := s.used + c.trailerMore, more := true } : ChunkOut).bare = false := by
        have := hne hf
        simp [ChunkOut.bare, this]
      refine ⟨⟨rfl, false, true, (fun h0 => by cases h0), (fun _ => rfl), ⟨?_, (fun _ => by simp [ha]), (fun h0 => by cases h0)⟩, ?_⟩, (fun _ => hnb)⟩
      · simp only [Bool.false_eq_true, if_false, if_true, Bool.false_and, Bool.not_true, Bool.and_false, sumEv_reverse]
        rw [h.used, hb]; omega
      · intro hbare
        rw [hnb] at hbare; cases hbare
    | false =>
      obtain ⟨ht, hb⟩ := h.baseN hf
      refine ⟨⟨rfl, true, true, (fun _ => ht), (fun _ => rfl), ⟨?_, (fun h0 => by cases h0), (fun h0 => by cases h0)⟩, (fun _ => ⟨rfl, rfl⟩)⟩, (fun h0 => by cases h0)⟩
      simp only [if_true, Bool.true_or, Bool.and_self, Bool.not_true, Bool.and_false, Bool.false_eq_true, if_false,
        sumEv_reverse, sumSizes_reverse]
      rw [h.used, hb]; omega
  refine ⟨by simp [ESt.flushEv, sumEv], (fun _ => ⟨rfl, rfl⟩), (fun h0 => by simp [ESt.flushEv] at h0), ?_, (fun _ => ?_), (fun h0 => by simp [ESt.flushEv] at h0)⟩
  · intro ch hch
    simp only [ESt.flushEv, List.mem_cons] at hch
    rcases hch with rfl | hch
    · exact hnew.1
    · exact h.done ch hch
  · show bareCount (_ :: s.done) ≤ _
    rw [bareCount_cons]
    cases hf : s.fresh with
    | true =>
      rw [hnew.2 hf]
      have := h.bareF hf
      simpa using this
    | false =>
      have h0 := h.bareN hf
      obtain ⟨ht, _⟩ := h.baseN hf
      rw [h0, ht]
      split <;> simp

theorem xinv_putEvStatus {c : Cfg} {t : Bool} {s s' : ESt} {k sz : Nat} (h : XInv c t s) (he : EInv c s)
    (hp : putEvStatus c s k sz = .ok s') : XInv c t s' := by
  unfold putEvStatus at hp
  split at hp
  · injection hp with hp; subst hp
    exact xinv_writeEv h _
  · rename_i hnofit
    split at hp
    · rename_i hfit
      injection hp with hp; subst hp
      refine xinv_writeEv (xinv_flushEv h ?_) _
      intro hf hev
      -- an empty event message would have had room for the status
      obtain ⟨hb, hl⟩ := he.freshOk hf
      have hu := h.used
      rw [hev] at hu
      simp only [sumEv, List.map_nil, List.sum_nil, Nat.add_zero] at hu
      simp only [ESt.flushEv] at hfit
      omega
    · cases hp

theorem xinv_putEvStatuses {c : Cfg} {t : Bool} (hw : c.WF) : ∀ (szs : List Nat) (k : Nat) (s s' : ESt), XInv c t s →
    EInv c s → putEvStatuses c k szs s = .ok s' → XInv c t s' := by
  intro szs
  induction szs with
  | nil => intro k s s' h _ hp; simp [putEvStatuses] at hp; subst hp; exact h
  | cons sz szs ih =>
    intro k s s' h he hp
    simp only [putEvStatuses] at hp
    cases h1 : putEvStatus c s k sz with
    | error e => rw [h1] at hp; cases hp
    | ok s1 =>
      rw [h1] at hp
      exact ih (k + 1) s1 s' (xinv_putEvStatus h he h1) (putEvStatus_ok hw he h1).1 hp

theorem xinv_sweep {c : Cfg} {t : Bool} (hw : c.WF) (r : EvReq) : ∀ (es : List Ev) (s s' : ESt), XInv c t s → EInv c s →
    sweep c r es s = .ok s' → XInv c t s' := by
  intro es
  induction es with
  | nil => intro s s' h _ hp; simp [sweep] at hp; subst hp; exact h
  | cons e es ih =>
    intro s s' h he hp
    simp only [sweep] at hp
    split at hp
    · split at hp
      · split at hp
        · rename_i hfit
          exact ih _ s' (xinv_wr h e) (wr_ok e he hfit).1 hp
        · split at hp
          · cases hp
          · rename_i hnf
            split at hp
            · rename_i hfit
              have hfl : XInv c t (s.flushEv c) := by
                refine xinv_flushEv h ?_
                intro hf hev
                apply hnf
                have hu := h.used
                rw [hev] at hu
                simp only [sumEv, List.map_nil, List.sum_nil, Nat.add_zero] at hu
                simp [hf, hu]
              exact ih _ s' (xinv_wr hfl e) (wr_ok e (flushEv_ok hw he).1 hfit).1 hp
            · cases hp
      · exact ih _ s' (xinv_cursor h e.num) ⟨he.usedLe, he.limLe, he.doneOk, he.freshOk⟩ hp
    · exact ih _ s' h he hp

end Chunk
