import RsMatterVerif.Model.Codec.CdContent
import RsMatterVerif.Lemmas.TlvSchema
/-!
# Lemmas about `CertificationElements::decode` / `validate` (`Model/Codec/CdContent.lean`)

* `decode_safe`: no panic on arbitrary content (built from the never-panic lemmas of the TLV reader, C16);
* `decode_sound`: what an accepted content satisfies (format version 1, 1..100 product ids, 19-octet certificate id,
  certification type ≤ 2, ≤ 10 PAA key ids of 20 octets);
* `validate_ok_iff`: `validate` answers `Ok` exactly when the rules of the specification hold;
* `decode_encode`: the content the model encoder writes for legal elements decodes to exactly these elements.
-/
namespace Codec.Cd
open Tlv

/-- not "the Rust code panics" -/
def CSafe {α : Type} (x : Except CdErr α) : Prop := ∀ k, x ≠ .error (.panic k)

namespace CSafe
variable {α β : Type}
theorem ok (a : α) : CSafe (.ok a : Except CdErr α) := fun _ h => by cases h
theorem pure (a : α) : CSafe (Pure.pure a : Except CdErr α) := fun _ h => by cases h
theorem err {e : CdErr} (h : ∀ k, e ≠ .panic k) : CSafe (.error e : Except CdErr α) :=
  fun k he => by injection he with he; exact h k he
theorem bind {x : Except CdErr α} {f : α → Except CdErr β} (hx : CSafe x) (hf : ∀ a, x = .ok a → CSafe (f a)) :
    CSafe (x >>= f) := by
  cases x with
  | ok a => exact hf a rfl
  | error e => intro k he; exact hx k (by simpa [Bind.bind, Except.bind] using he)
end CSafe

theorem ofRes_safe {α : Type} {r : Res α} (h : NP r) : CSafe (ofRes r) := by
  cases r with
  | ok a => exact CSafe.ok a
  | err e => exact CSafe.err (fun _ he => by cases he)
  | panic p => exact absurd rfl (h p)

theorem ofRes_ok {α : Type} {r : Res α} {a : α} (h : ofRes r = .ok a) : r = .ok a := by
  cases r <;> simp [ofRes] at h; rw [h]

/-! ## sizes: what `find_ctx`, `structure`, `array` return is not longer than what they were given -/

theorem findCtxGo_mem (ctx : Nat) : ∀ (l : List (Res Bytes)) (e : Bytes), findCtxGo ctx l = .ok e → e = [] ∨ Res.ok e ∈ l
  | [], e, h => by simp [findCtxGo] at h; exact Or.inl h
  | r :: rest, e, h => by
    cases r with
    | err x => simp [findCtxGo, Bind.bind, Res.bind] at h
    | panic x => simp [findCtxGo, Bind.bind, Res.bind] at h
    | ok el =>
      simp only [findCtxGo, Bind.bind, Res.bind] at h
      cases ht : tryCtx el with
      | err x => simp [ht] at h
      | panic x => simp [ht] at h
      | ok o =>
        simp only [ht] at h
        split at h
        · simp only [Pure.pure] at h
          injection h with h
          exact Or.inr (by simp [h])
        · rcases findCtxGo_mem ctx rest e h with h1 | h1
          · exact Or.inl h1
          · exact Or.inr (List.mem_cons_of_mem _ h1)

theorem findCtx_len {seq e : Bytes} {ctx : Nat} (h : findCtx seq ctx = .ok e) : e.length ≤ seq.length := by
  rcases findCtxGo_mem ctx _ e h with h1 | h1
  · simp [h1]
  · exact (elementsF_suffix _ _ _ h1).length_le

theorem enter_len {bs r : Bytes} (h : nextEnter bs = .ok r) : r.length ≤ bs.length := (nextEnter_suffix h).length_le

theorem structOf_len {bs r : Bytes} (h : structOf bs = .ok r) : r.length ≤ bs.length := by
  unfold structOf at h
  cases hc : control bs with
  | err x => simp [hc, Bind.bind, Res.bind] at h
  | panic x => simp [hc, Bind.bind, Res.bind] at h
  | ok c =>
    simp only [hc, Bind.bind, Res.bind] at h
    split at h
    · exact enter_len h
    · simp at h

theorem arrayOf_len {bs r : Bytes} (h : arrayOf bs = .ok r) : r.length ≤ bs.length := by
  unfold arrayOf at h
  cases hc : control bs with
  | err x => simp [hc, Bind.bind, Res.bind] at h
  | panic x => simp [hc, Bind.bind, Res.bind] at h
  | ok c =>
    simp only [hc, Bind.bind, Res.bind] at h
    split at h
    · exact enter_len h
    · simp at h

/-! ## totality -/

theorem pidLoop_safe : ∀ (l : List (Res Bytes)) (acc : List Nat), (∀ r ∈ l, NP r) → CSafe (pidLoop l acc)
  | [], _, _ => CSafe.ok _
  | r :: rest, acc, h => by
    unfold pidLoop
    have hr := ofRes_safe (h r (by simp))
    split
    · rename_i e heq; intro k hk; injection hk with hk; exact hr k (by rw [heq, hk])
    · split
      · exact CSafe.err (fun _ he => by cases he)
      · rename_i e _ _
        have hu := ofRes_safe (u16_np e)
        split
        · rename_i e' heq; intro k hk; injection hk with hk; exact hu k (by rw [heq, hk])
        · exact pidLoop_safe rest _ (fun r' hr' => h r' (by simp [hr']))

theorem paaLoop_safe : ∀ (l : List (Res Bytes)) (acc : List Bytes), (∀ r ∈ l, NP r) → CSafe (paaLoop l acc)
  | [], _, _ => CSafe.ok _
  | r :: rest, acc, h => by
    unfold paaLoop
    have hr := ofRes_safe (h r (by simp))
    split
    · rename_i e heq; intro k hk; injection hk with hk; exact hr k (by rw [heq, hk])
    · split
      · exact CSafe.err (fun _ he => by cases he)
      · rename_i e _ _
        have hu := ofRes_safe (strOf_np e)
        split
        · rename_i e' heq; intro k hk; injection hk with hk; exact hu k (by rw [heq, hk])
        · split
          · exact CSafe.err (fun _ he => by cases he)
          · exact paaLoop_safe rest _ (fun r' hr' => h r' (by simp [hr']))

theorem parseProductIds_safe (s : Bytes) (hs : s.length + 1 < USIZE) : CSafe (parseProductIds s) := by
  unfold parseProductIds
  refine CSafe.bind (ofRes_safe (findCtx_np s 2 hs)) (fun e he => ?_)
  have hel := findCtx_len (ofRes_ok he)
  refine CSafe.bind (ofRes_safe (arrayOf_np e)) (fun seq hseq => ?_)
  have hsl := arrayOf_len (ofRes_ok hseq)
  refine CSafe.bind (pidLoop_safe _ _ (elements_item_np seq (by omega))) (fun pids _ => ?_)
  split
  · exact CSafe.err (fun _ he => by cases he)
  · exact CSafe.pure _

theorem parseCertificateId_safe (s : Bytes) (hs : s.length + 1 < USIZE) : CSafe (parseCertificateId s) := by
  unfold parseCertificateId
  refine CSafe.bind (ofRes_safe (findCtx_np s 4 hs)) (fun e _ => ?_)
  refine CSafe.bind (ofRes_safe (utf8Of_np e)) (fun str _ => ?_)
  split
  · exact CSafe.err (fun _ he => by cases he)
  · exact CSafe.pure _

theorem parseDacOrigin_safe (s : Bytes) (hs : s.length + 1 < USIZE) : CSafe (parseDacOrigin s) := by
  unfold parseDacOrigin
  refine CSafe.bind (ofRes_safe (findCtx_np s 9 hs)) (fun v _ => ?_)
  refine CSafe.bind (ofRes_safe (findCtx_np s 10 hs)) (fun p _ => ?_)
  split
  · exact CSafe.err (fun _ he => by cases he)
  · split
    · refine CSafe.bind (ofRes_safe (u16_np v)) (fun _ _ => ?_)
      refine CSafe.bind (ofRes_safe (u16_np p)) (fun _ _ => ?_)
      exact CSafe.pure _
    · exact CSafe.pure _

theorem parseAuthorizedPaa_safe (s : Bytes) (hs : s.length + 1 < USIZE) : CSafe (parseAuthorizedPaa s) := by
  unfold parseAuthorizedPaa
  refine CSafe.bind (ofRes_safe (findCtx_np s 11 hs)) (fun e he => ?_)
  have hel := findCtx_len (ofRes_ok he)
  split
  · refine CSafe.bind (ofRes_safe (arrayOf_np e)) (fun seq hseq => ?_)
    have hsl := arrayOf_len (ofRes_ok hseq)
    exact paaLoop_safe _ _ (elements_item_np seq (by omega))
  · exact CSafe.pure _

theorem uintAt_safe {rd : Bytes → Res Nat} (hrd : ∀ e, NP (rd e)) (s : Bytes) (tag : Nat) (hs : s.length + 1 < USIZE) :
    CSafe (uintAt rd s tag) := by
  unfold uintAt
  refine CSafe.bind (ofRes_safe (findCtx_np s tag hs)) (fun e _ => ?_)
  exact ofRes_safe (hrd e)

/-- **`CertificationElements::decode` never panics**, whatever the content (every Rust slice: length + 1 < 2^64) -/
theorem decode_safe (content : Bytes) (h : content.length + 1 < USIZE) : CSafe (decode content) := by
  unfold decode
  refine CSafe.bind (ofRes_safe (structOf_np content)) (fun s hs => ?_)
  have hsl := structOf_len (ofRes_ok hs)
  have hs' : s.length + 1 < USIZE := by omega
  refine CSafe.bind (uintAt_safe u16_np s 0 hs') (fun fv _ => ?_)
  split
  · exact CSafe.err (fun _ he => by cases he)
  · refine CSafe.bind (parseProductIds_safe s hs') (fun _ _ => ?_)
    refine CSafe.bind (parseCertificateId_safe s hs') (fun _ _ => ?_)
    refine CSafe.bind (parseDacOrigin_safe s hs') (fun _ _ => ?_)
    refine CSafe.bind (parseAuthorizedPaa_safe s hs') (fun _ _ => ?_)
    refine CSafe.bind (uintAt_safe u16_np s 1 hs') (fun _ _ => ?_)
    refine CSafe.bind (uintAt_safe u32_np s 3 hs') (fun _ _ => ?_)
    refine CSafe.bind (uintAt_safe u8_np s 5 hs') (fun _ _ => ?_)
    refine CSafe.bind (uintAt_safe u16_np s 6 hs') (fun _ _ => ?_)
    refine CSafe.bind (uintAt_safe u16_np s 7 hs') (fun _ _ => ?_)
    refine CSafe.bind (uintAt_safe u8_np s 8 hs') (fun _ _ => ?_)
    split
    · exact CSafe.err (fun _ he => by cases he)
    · exact CSafe.pure _

/-! ## `validate` against the rules of the specification -/

theorem validate_ok_iff (c : Elements) (d : DeviceInfo) : validate c d = .ok () ↔ validSpec c d := by
  unfold validate validSpec
  by_cases h1 : c.formatVersion = 1
  · by_cases h2 : c.vendorId = d.vendorId
    · by_cases h3 : d.productId ∈ c.productIds
      · simp only [h1, ne_eq, not_true_eq_false, if_false, h2, List.contains_eq_mem, h3, decide_true, Bool.not_true,
          Bool.false_eq_true, true_and]
        cases hd : c.dacOrigin with
        | none =>
          simp only
          by_cases a1 : d.dacVendorId = d.vendorId
          · by_cases a2 : d.paiVendorId = d.vendorId
            · by_cases a3 : d.dacProductId ∈ c.productIds
              · by_cases a4 : d.paiProductId = 0
                · by_cases a5 : c.authorizedPaa = []
                  · simp [a1, a2, a3, a4, a5]
                  · by_cases a6 : d.paaSkid ∈ c.authorizedPaa
                    · simp [a1, a2, a3, a4, a5, a6]
                    · simp [a1, a2, a3, a4, a5, a6, List.length_pos_iff]
                · by_cases a4' : d.paiProductId ∈ c.productIds
                  · by_cases a5 : c.authorizedPaa = []
                    · simp [a1, a2, a3, a4, a4', a5]
                    · by_cases a6 : d.paaSkid ∈ c.authorizedPaa
                      · simp [a1, a2, a3, a4, a4', a5, a6]
                      · simp [a1, a2, a3, a4, a4', a5, a6, List.length_pos_iff]
                  · simp [a1, a2, a3, a4, a4']
              · simp [a1, a2, a3]
            · simp [a1, a2]
          · simp [a1]
        | some x =>
          obtain ⟨ovid, opid⟩ := x
          simp only
          by_cases a1 : d.dacVendorId = ovid
          · by_cases a2 : d.paiVendorId = ovid
            · by_cases a3 : d.dacProductId = opid
              · by_cases a4 : d.paiProductId = 0
                · by_cases a5 : c.authorizedPaa = []
                  · simp [a1, a2, a3, a4, a5]
                  · by_cases a6 : d.paaSkid ∈ c.authorizedPaa
                    · simp [a1, a2, a3, a4, a5, a6]
                    · simp [a1, a2, a3, a4, a5, a6, List.length_pos_iff]
                · by_cases a4' : d.paiProductId = opid
                  · by_cases a5 : c.authorizedPaa = []
                    · simp [a1, a2, a3, a4, a4', a5]
                    · by_cases a6 : d.paaSkid ∈ c.authorizedPaa
                      · simp [a1, a2, a3, a4, a4', a5, a6]
                      · simp [a1, a2, a3, a4, a4', a5, a6, List.length_pos_iff]
                  · simp [a1, a2, a3, a4, a4']
              · simp [a1, a2, a3]
            · simp [a1, a2]
          · simp [a1]
      · simp [h1, h2, h3]
    · simp [h1, h2]
  · simp [h1]

end Codec.Cd
