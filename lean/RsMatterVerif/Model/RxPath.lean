import RsMatterVerif.Model.Transport
/-!
# The receive path as a transition system (C10)

State = session table (`Model/Transport.lean`, unchanged) + the single RX packet slot + the clock.
Steps = the atomic sections of the tasks that touch the RX slot, transliterated from
* `transport.rs`: `process_rx` (waits for an EMPTY slot) → `decode_packet` (`get_for_rx`, creation of an
  unsecured session for `PBKDFParamRequest` / `CASESigma1`, `Session::post_recv`) → the arms of
  `handle_rx_packet` (`Ok` ⇒ the message stays in the slot, except standalone acks and `CloseSession`;
  `Duplicate`, `NoExchange`, `NoSession` ⇒ dropped; `NoSpaceExchanges` ⇒ the session is closed;
  `NoSpaceSessions` ⇒ Busy and `write_evict_some_session_packet`);
  `accept_if` (state change AcceptPending → Owned of the exchange `get_for_rx` / `get_exch_for_rx` find
  for the waiting message); `handle_accept_timeout_rx_packet`, `handle_orphaned_rx_packet`,
  `handle_dropped_exchange` (the existing `Table.sweepAccept / sweepOrphan / sweepDropped`);
* `exchange.rs`: `ExchangeId::recv` — `check_no_pending_retrans`, then the RX-slot predicate
  `sess.is_for_rx(&packet.peer, &packet.header.plain) && exch.is_for_rx(&packet.header.proto)`
  evaluated on the exchange's OWN session (`with_state`: error if the session is gone);
  `Exchange::drop` (`Table.dropExchange`), `Transport::initiate_for_session` (`Table.initiate`),
  sending on an owned exchange (`Session::pre_send`), removal of a session for any reason.

`port` stands for the complete peer identity `Session::is_for_rx` compares (peer address and, for
unsecured sessions, the node ids); `sid` is the session id of the plain header (0 = unsecured).
Not modelled: group sessions, the TX slot (the closer waits for it), initiator-side unsecured
sessions (`initiate_plaintext`; they are told apart by the ephemeral node id, which is folded into
`port`), the payload. A secure session enters the table by `establish` — the net effect of
`ReservedSession::reserve_now` + `update` + `complete` (modelled step by step for C20); while
reserved it is invisible to the receive path (`is_for_rx` is false) and carries no exchange.
Sessions are added by `addSess` = `Sessions::add` after the repair of finding `C10-session-id-wrap`
(`Table.add` of `Model/Transport`, shared with other properties, models the allocation before it; the
two differ only when the 28-bit id counter has wrapped onto an id that is still in use).
Import-free apart from `Model/Transport`.
-/
namespace RxPath
open Transport

/-- what the receive path looks at in the protocol header besides exchange id / flags -/
inductive Kind
  /-- `MRPStandAloneAck` -/
  | sack
  /-- secure-channel status report with `CloseSession` -/
  | close
  /-- any other secure-channel status report -/
  | status
  /-- `PBKDFParamRequest` / `CASESigma1` (may create an unsecured session) -/
  | newSess
  | other
deriving Repr, DecidableEq, Inhabited

structure Msg where
  /-- `packet.peer` (and the node ids of the plain header) -/
  port : Nat
  /-- `header.plain.sess_id` -/
  sid : Nat
  ctr : Nat
  exch : Nat
  initiator : Bool
  ack : Option Nat := none
  reliable : Bool := true
  kind : Kind := .other
deriving Repr, DecidableEq, Inhabited

/-- `MessageMeta::is_new_exchange()`: not a standalone ack, not a secure-channel status report -/
def Kind.newOk : Kind → Bool
  | .newSess | .other => true
  | _ => false

def Msg.hdr (m : Msg) : RxHdr :=
  { ctr := m.ctr, exch := m.exch, initiator := m.initiator, ack := m.ack, reliable := m.reliable,
    newOk := m.kind.newOk }

/-- the occupied RX slot: the message and (ghost) the time it was put there -/
structure Held where
  m : Msg
  arrivedAt : Nat
deriving Repr, DecidableEq, Inhabited

structure Node where
  t : Table := { nextExch := 1 }
  /-- `Transport::rx`: `none` = `packet.buf.is_empty()` -/
  rx : Option Held := none
  now : Nat := 0
deriving Repr, DecidableEq, Inhabited

inductive Op
  /-- a datagram is available and `process_rx` runs; `rnd` = the random initial counter of a new session -/
  | arrive (m : Msg) (rnd : Nat)
  /-- some responder's `accept_if` (with a predicate that says yes) is polled -/
  | accept
  /-- the live `Exchange` (session uid, slot idx) is polled in `recv` -/
  | recv (uid idx : Nat)
  /-- the live `Exchange` sends a message -/
  | send (uid idx : Nat) (reliable : Bool)
  /-- the live `Exchange` is dropped -/
  | dropEx (uid idx : Nat)
  /-- `Exchange::initiate_for_session` -/
  | initiate (uid : Nat)
  /-- a PASE / CASE handshake completes: a secure session enters the table -/
  | establish (port : Nat) (mode : Mode) (ctr : Nat)
  /-- a session is removed (eviction, `CloseSession`, `remove_pase`, fabric removal, …) -/
  | removeSess (uid : Nat)
  /-- time passes -/
  | tick (d : Nat)
  /-- `process_accept_timeout_rx` is polled (every 50 ms and on every change of the slot) -/
  | sweepAccept
  /-- `process_orphaned_rx` is polled -/
  | sweepOrphan
  /-- `process_dropped_exchanges` is polled (and has the TX slot) -/
  | closer
deriving Repr, DecidableEq, Inhabited

inductive Out
  /-- the step is not enabled in this state (its task keeps waiting); nothing changed -/
  | blocked
  /-- arrival: the message stays in the RX slot for the exchange at (uid, idx); `new` = just opened -/
  | kept (uid idx : Nat) (new : Bool)
  /-- arrival: the message was dropped (standalone ack: `why = none`) -/
  | dropped (why : Option Err)
  /-- arrival: a session was closed (`NoSpaceExchanges` / `CloseSession`) -/
  | closed (uid : Nat)
  /-- arrival: no room for an unsecured session: Busy, and `evicted` was evicted -/
  | busy (evicted : Option Nat)
  | accepted (uid idx : Nat)
  /-- `recv` returned this message to the exchange (uid, idx) and emptied the slot -/
  | delivered (uid idx : Nat) (m : Msg)
  /-- `recv`: `check_no_pending_retrans` failed (`InvalidState`), slot untouched -/
  | retransPending
  /-- `recv` (or another call through the handle) found its session gone: error, slot untouched -/
  | gone
  | err (e : Err)
  | ok
  /-- a sweep ran: `true` = it emptied the RX slot -/
  | swept (emptied : Bool)
  | closer (o : SweepOut)
deriving Repr, DecidableEq, Inhabited

/-- the role sub-states in which a live `Exchange` object exists -/
def RoleSt.isOwned : RoleSt → Bool
  | .io | .ro => true
  | _ => false

/-- `next_sess_unique_id` advanced by one: 28 bits (the upper 4 bits of an `ExchangeId` hold the slot index) -/
def incUid (c : Nat) : Nat := if c + 1 > 0x0fffffff then 0 else c + 1

/-- the loop of the repaired `Sessions::add`: the first id from `c` on that no session of the table uses -/
def skipLive (live : List Nat) : Nat → Nat → Nat
  | 0, c => c
  | fuel + 1, c => if live.all (· != c) then c else skipLive live fuel (incUid c)

/-- `Sessions::add` after the repair of finding `C10-session-id-wrap`: the internal id is the first one
from `next_sess_unique_id` on that no live session has (the 28-bit counter wraps; before the repair a
wrapped counter handed out the id of a session that was still alive); everything else as `Table.add`.
(The loop needs at most as many steps as there are sessions.) -/
def addSess (t : Table) (ctr : Nat) (reserved : Bool) (now port : Nat) : Table × Except Err Nat :=
  Table.add { t with nextUid := skipLive (t.sessions.map (·.uid)) t.sessions.length t.nextUid } ctr reserved now port

/-- `write_evict_some_session_packet`: (table, evicted uid) -/
def evictSome (t : Table) (now : Nat) : Table × Option Nat :=
  match t.evictionUid now with
  | some uid => (((t.nextExchId).1.remove uid).1, some uid)
  | none => (t, none)

/-- `session.post_recv(&packet.header)` on the session `decode_packet` found or created, and the arm of
`handle_rx_packet` that follows -/
def finishArrive (n : Node) (t : Table) (s : Sess) (m : Msg) : Node × Out :=
  let r := s.postRecv m.hdr n.now
  let t1 := t.setSess r.1
  match r.2 with
  | .ok new =>
    if m.kind = .sack then ({ n with t := t1 }, .dropped none)
    else if m.kind = .close then ({ n with t := (t1.remove s.uid).1 }, .closed s.uid)
    else
      match r.1.getExchForRx m.hdr with
      | some i => ({ n with t := t1, rx := some { m := m, arrivedAt := n.now } }, .kept s.uid i new)
      | none => ({ n with t := t1 }, .err .panic)
  | .error .noSpaceExchanges =>
    ({ n with t := ((t1.nextExchId).1.remove s.uid).1 }, .closed s.uid)
  | .error .duplicate =>
    -- a duplicate that is not itself a standalone ack is acknowledged again: a standalone ack is
    -- written on the session, outside any exchange slot (`pre_send` consumes a message counter)
    if m.kind = .sack then ({ n with t := t1 }, .dropped (some .duplicate))
    else ({ n with t := t.setSess (r.1.preSend none false (some m.ctr) none).1 }, .dropped (some .duplicate))
  | .error e => ({ n with t := t1 }, .dropped (some e))

/-- `process_rx`: take the EMPTY slot, `decode_packet`, `handle_rx_packet` -/
def arrive (n : Node) (m : Msg) (rnd : Nat) : Node × Out :=
  match n.rx with
  | some _ => (n, .blocked)
  | none =>
    let g := n.t.getForRx m.port m.sid n.now
    match g.2 with
    | some s => finishArrive n g.1 s m
    | none =>
      if m.sid = 0 ∧ m.kind = .newSess then
        let a := addSess g.1 rnd false n.now m.port
        match a.2 with
        | .ok uid =>
          match a.1.sess uid with
          | some s => finishArrive n a.1 s m
          | none => ({ n with t := a.1 }, .err .panic)
        | .error _ =>
          let e := evictSome a.1 n.now
          ({ n with t := e.1 }, .busy e.2)
      else ({ n with t := g.1 }, .dropped (some .noSession))

/-- `Transport::accept_if` with a predicate that accepts -/
def accept (n : Node) : Node × Out :=
  match n.rx with
  | none => (n, .blocked)
  | some r =>
    let g := n.t.getForRx r.m.port r.m.sid n.now
    match g.2 with
    | none => ({ n with t := g.1 }, .blocked)
    | some s =>
      match s.getExchForRx r.m.hdr with
      | none => ({ n with t := g.1 }, .blocked)
      | some i =>
        let a := g.1.accept s.uid i n.now
        ({ n with t := a.1 }, if a.2 then .accepted s.uid i else .blocked)

/-- the RX-slot predicate of `ExchangeId::recv`, evaluated on the exchange's own session -/
def recvMatch (s : Sess) (e : Exch) (m : Msg) : Bool :=
  s.isForRx m.port m.sid && e.isForRx m.hdr

/-- `ExchangeId::recv` polled once -/
def recv (n : Node) (uid idx : Nat) : Node × Out :=
  let g := n.t.get uid n.now
  match g.2 with
  | none => (n, .gone)
  | some s =>
    match s.slot idx with
    | none => (n, .blocked)
    | some e =>
      if !RoleSt.isOwned e.role then (n, .blocked)
      else if e.mrp.isRetransPending then ({ n with t := g.1 }, .retransPending)
      else
        match n.rx with
        | none => ({ n with t := g.1 }, .blocked)
        | some r =>
          if recvMatch s e r.m then ({ n with t := g.1, rx := none }, .delivered uid idx r.m)
          else ({ n with t := g.1 }, .blocked)

/-- a message sent on an owned exchange (`Session::pre_send`) -/
def send (n : Node) (uid idx : Nat) (reliable : Bool) : Node × Out :=
  let g := n.t.get uid n.now
  match g.2 with
  | none => (n, .gone)
  | some s =>
    match s.slot idx with
    | none => (n, .blocked)
    | some e =>
      if !RoleSt.isOwned e.role then (n, .blocked)
      else
        let p := s.preSend (some idx) reliable none none
        ({ n with t := g.1.setSess p.1 },
          match p.2 with
          | .ok _ => .ok
          | .error er => .err er)

/-- `Exchange::drop` -/
def dropEx (n : Node) (uid idx : Nat) : Node × Out :=
  match (n.t.sess uid).bind (·.slot idx) with
  | none => (n, .blocked)
  | some e =>
    if !RoleSt.isOwned e.role then (n, .blocked)
    else
      let d := n.t.dropExchange uid idx n.now
      ({ n with t := d.1 },
        match d.2 with
        | .ok _ => .ok
        | .error er => .err er)

def initiate (n : Node) (uid : Nat) : Node × Out :=
  let r := n.t.initiate uid n.now
  ({ n with t := r.1 },
    match r.2 with
    | .ok _ => .ok
    | .error er => .err er)

/-- the net effect of `reserve_now` + `update` + `complete`: a secure session with a local session id
from `get_next_sess_id` -/
def establish (n : Node) (port : Nat) (mode : Mode) (ctr : Nat) : Node × Out :=
  if mode.enc = false then (n, .blocked) else
  let a := n.t.nextSessId
  let b := addSess a.1 ctr false n.now port
  match b.2 with
  | .ok uid =>
    match b.1.sess uid with
    | some s => ({ n with t := b.1.setSess { s with localSid := a.2, mode := mode } }, .ok)
    | none => ({ n with t := b.1 }, .err .panic)
  | .error er => ({ n with t := b.1 }, .err er)

def sweepAccept (n : Node) : Node × Out :=
  match n.rx with
  | none => (n, .swept false)
  | some r =>
    let w := n.t.sweepAccept r.m.port r.m.sid r.m.hdr n.now
    ({ n with t := w.1, rx := if w.2 then none else n.rx }, .swept w.2)

def sweepOrphan (n : Node) : Node × Out :=
  match n.rx with
  | none => (n, .swept false)
  | some r =>
    let w := n.t.sweepOrphan r.m.port r.m.sid r.m.hdr n.now
    ({ n with t := w.1, rx := if w.2 then none else n.rx }, .swept w.2)

def closer (n : Node) : Node × Out :=
  let w := n.t.sweepDropped n.now
  ({ n with t := w.1 }, .closer w.2)

def step (n : Node) : Op → Node × Out
  | .arrive m rnd => arrive n m rnd
  | .accept => accept n
  | .recv uid idx => recv n uid idx
  | .send uid idx rel => send n uid idx rel
  | .dropEx uid idx => dropEx n uid idx
  | .initiate uid => initiate n uid
  | .establish port mode ctr => establish n port mode ctr
  | .removeSess uid => ({ n with t := (n.t.remove uid).1 }, .ok)
  | .tick d => ({ n with now := n.now + d }, .ok)
  | .sweepAccept => sweepAccept n
  | .sweepOrphan => sweepOrphan n
  | .closer => closer n

/-- run a history; the outputs in order -/
def run (n : Node) : List Op → Node × List Out
  | [] => (n, [])
  | op :: rest =>
    let r := step n op
    let q := run r.1 rest
    (q.1, r.2 :: q.2)

/-- the exchange the transport itself would look up for a waiting message
(`get_for_rx` + `get_exch_for_rx`, as in `accept_if` and both sweeps): (session uid, slot) -/
def ownerOf (t : Table) (m : Msg) : Option (Nat × Nat) :=
  match t.sessions.find? (fun s => s.isForRx m.port m.sid) with
  | some s => (s.getExchForRx m.hdr).map (fun i => (s.uid, i))
  | none => none

def slotDropped : Option Exch → Bool
  | some e => e.role.isDropped
  | none => false

/-- number of exchange slots of a session in a dropped state -/
def droppedIn (s : Sess) : Nat :=
  ((List.range s.exchs.length).filter (fun j => slotDropped (s.slot j))).length

/-- number of dropped exchanges of the node: the work left for the closer -/
def droppedCount (t : Table) : Nat := (t.sessions.map droppedIn).sum

/-- `k` runs of the closer -/
def closerRuns : Nat → Node → Node
  | 0, n => n
  | k + 1, n => closerRuns k (closer n).1

end RxPath
