import RsMatterVerif.Lemmas.BtpFair
import RsMatterVerif.Lemmas.BtpTimed
import RsMatterVerif.Lemmas.BtpRing
/-!
# C18 — BTP delivers each message intact, once and in order, or fails cleanly

Property theorems over `Model/Btp.lean` / `Model/BtpLink.lean`.
-/
namespace C18
open Btp

/-! ## Hostile peer: `process_rx` is total -/

/-- **Hostile peer, clause "can not crash the node"**: for every session state satisfying the
invariant, every GATT MTU, every byte string and every instant, `Session::process_rx` returns
either a new state satisfying the invariant or a clean error (`Fail.isPanic = false`); on an error
the state is unchanged (the model returns `Except`, the caller keeps the old state). -/
theorem process_rx_total (s : Session) (hs : SInv s) (g : Option Nat) (data : List Nat)
    (hd : Bytes data) (now : Nat) :
    (∃ s', s.processRx g data now = .ok s' ∧ SInv s') ∨
    (∃ e, s.processRx g data now = .error e ∧ e.isPanic = false) := by
  have c := processRx_clean s hs g data hd now
  cases h : s.processRx g data now with
  | ok s' => rw [h] at c; exact .inl ⟨s', rfl, c⟩
  | error e => rw [h] at c; exact .inr ⟨e, rfl, c⟩

/-- the invariant holds initially (`Session::new` + `set_initiator` + `set_relaxed_mtu_nego`) -/
theorem inv_init (initiator relaxed : Bool) : SInv (Session.fresh initiator relaxed) :=
  sinv_fresh initiator relaxed

/-- Non-vacuity: an established responder state satisfying the invariant exists (handshake request
with MTU 23 and window 5 processed by a fresh responder). -/
example : ∃ s, (Session.fresh false false).processRx none [0x65, 0x6c, 4, 0, 0, 0, 23, 0, 5] 0 = .ok s ∧
    s.established = true ∧ s.windowSize = 5 ∧ s.mtu = 20 := by
  exact ⟨_, rfl, rfl, rfl, rfl⟩

/-! ## One end under every operation of the outside world -/

/-- run a list of operations on a monitored end; a refused operation leaves the state unchanged -/
def run (m : Mon) : List EOp → Mon
  | [] => m
  | op :: ops =>
    match m.step op with
    | .ok (m', _) => run m' ops
    | .error _ => run m ops

/-- the bytes on the wire are bytes -/
def WfOps (ops : List EOp) : Prop := ∀ d now, EOp.rx d now ∈ ops → Bytes d

def freshMon (initiator relaxed : Bool) (gatt : Option Nat) : Mon :=
  { e := { s := Session.fresh initiator relaxed, gattMtu := gatt } }

theorem minv_fresh (i r : Bool) (g : Option Nat) : MInv (freshMon i r g) := by
  refine ⟨⟨sinv_fresh i r, by simp [freshMon], by simp [freshMon]⟩, ?_, ?_⟩
  · simpa [freshMon, Session.fresh] using ringRep_init
  · intro i b c h; simp [freshMon] at h

/-- **Invariant**: preserved by every operation — application, GATT glue, and a peer that sends
arbitrary bytes — in every order, for every negotiated MTU and window, including sequence wrap. -/
theorem end_inv (ops : List EOp) : ∀ (m : Mon), MInv m → WfOps ops → MInv (run m ops) := by
  induction ops with
  | nil => intro m hm _; exact hm
  | cons op ops ih =>
    intro m hm hw
    have hw' : WfOps ops := fun d now h => hw d now (List.mem_cons_of_mem _ h)
    have c := mon_step m hm op (fun d now h => hw d now (by rw [h]; exact List.mem_cons_self))
    simp only [run]
    cases h : m.step op with
    | ok r => rw [h] at c; exact ih r.1 c hw'
    | error f => exact ih m hm hw'

/-- **No operation ever panics**, whatever happened before: after any history of operations from a
fresh end, the next operation yields a state satisfying the invariant or a clean error. -/
theorem end_never_panics (i r : Bool) (g : Option Nat) (ops : List EOp) (hw : WfOps ops) (op : EOp)
    (hop : ∀ d now, op = .rx d now → Bytes d) :
    (∃ m' out, (run (freshMon i r g) ops).step op = .ok (m', out) ∧ MInv m') ∨
    (∃ e, (run (freshMon i r g) ops).step op = .error e ∧ e.isPanic = false) := by
  have hm := end_inv ops _ (minv_fresh i r g) hw
  have c := mon_step _ hm op hop
  cases h : (run (freshMon i r g) ops).step op with
  | ok r => rw [h] at c; exact .inl ⟨r.1, r.2, rfl, c⟩
  | error e => rw [h] at c; exact .inr ⟨e, rfl, c⟩

/-- **Nothing corrupted, duplicated or reordered, whoever the peer is**: after any history of
operations, the `i`-th message handed to the application is the `i`-th message of the
specification-side reassembly (`Spec.Reasm`) of the segments that were accepted in the current
session, cut to the caller's buffer. -/
theorem delivered_is_reassembly (i r : Bool) (g : Option Nat) (ops : List EOp) (hw : WfOps ops)
    (k : Nat) (b : List Nat) (c : Nat)
    (hk : (run (freshMon i r g) ops).fetched[k]? = some (b, c)) :
    ∃ full, (run (freshMon i r g) ops).rs.done[k]? = some full ∧ b = full.take c :=
  (end_inv ops _ (minv_fresh i r g) hw).dlv k b c hk

/-! ## Hostile peer: protocol violations are refused -/

/-- **Hostile peer, clause "refused with an error"** (⇒ direction, kept under its old name; the
full statement is `segment_refused_iff` below): a data segment that violates the protocol in one of
the ways named by the property — wrong sequence number, window overrun, acknowledgement of
something that is not awaiting one, inconsistent length or flags (`Spec.mustReject`, evaluated on
the protocol-level view `viewOf s` of the state) — is refused with `InvalidData`; the state is
unchanged (`Except`), so by `delivered_is_reassembly` it can never reach the application. -/
theorem hostile_segment_refused (s : Session) (hs : SInv s) (h : Hdr) (hh : h.Wf) (hhs : h.hs = false)
    (p : List Nat) (now : Nat) (hm : Spec.mustReject (viewOf s) h p = true) :
    s.processRxData h p now = .error .invalidData :=
  mustReject_refused s hs h hh hhs p now hm

/-- **`segment_refused_iff`** (one step, every state satisfying the invariant): a decoded data
segment (`h.hs = false`) is refused with `InvalidData` **if and only if** it violates the protocol
as specified by `Spec.mustReject` — wrong sequence number; window overrun; acknowledgement of a
sequence number that is not among the `outstanding` most recently sent ones (`Spec.awaitingAck`,
written from the meaning, equivalent to the code's wrap-around test by `mem_awaitingAck`);
inconsistent flags (`Spec.badFlags`: management opcode, no flag at all, stand-alone acknowledgement
with data, beginning+continue, short non-final segment, one-segment message not final) or length
(`Spec.badLength`) — or the receive buffer has no room for it (`Spec.noRoom`, a resource limit, not
a protocol violation; never the case between two well-behaved ends, `never_refused`). Otherwise the
segment is accepted: there is no other outcome (second conjunct), in particular no other error
kind and no panic.  Handshake segments (`h.hs = true`) are not covered by this statement
(`process_rx_total` covers them: accepted with the invariant or a clean error). -/
theorem segment_refused_iff (s : Session) (hs : SInv s) (h : Hdr) (hh : h.Wf) (hhs : h.hs = false)
    (p : List Nat) (now : Nat) :
    (s.processRxData h p now = .error .invalidData ↔
      (Spec.mustReject (viewOf s) h p = true ∨ Spec.noRoom (ringFree s.recv.buf) h p = true)) ∧
    ((∃ s', s.processRxData h p now = .ok s') ↔
      (Spec.mustReject (viewOf s) h p = false ∧ Spec.noRoom (ringFree s.recv.buf) h p = false)) :=
  segment_refused_iff_aux s hs h hh hhs p now

/-- the acknowledgement clause of `Spec.mustReject` (membership in the list of sequence numbers
awaiting an acknowledgement) is the code's test `(last_sent − ack) mod 256 < outstanding` -/
theorem ack_clause_is_code_test (s : Session) (hs : SInv s) (a : Nat) (ha : a < 256) :
    a ∈ Spec.awaitingAck (viewOf s) ↔ wrapSub s.send.lastSent a < s.windowSize - s.send.level :=
  mem_awaitingAck (viewOf s) a hs.lastLt ha
    (by show s.windowSize - s.send.level ≤ 256; have := hs.wsLe; omega)

/-- Non-vacuity: on an established session (window 5, segment size 20, nothing sent yet) a
stand-alone acknowledgement of the never-sent sequence number 77 is a violation, and so are a data
segment with sequence number 5 when 0 is expected, a segment with beginning+continue, a
non-final segment that does not fill the segment size, a management opcode, and an empty ENDING
(or CONTINUE+ENDING) segment with no message in progress (accepted by the code before the fix
`C18-orphan-ending-segment`: it took a sequence number and a window slot and delivered nothing); a well-formed
one-segment message is not, and is accepted. -/
example : ∃ s, (Session.fresh false false).processRx none [0x65, 0x6c, 4, 0, 0, 0, 23, 0, 5] 0 = .ok s ∧
    Spec.mustReject (viewOf s) { ack := true, ackNum := 77, seqNum := 0 } [] = true ∧
    Spec.mustReject (viewOf s) { beg := true, fin := true, msgLen := 1, seqNum := 5 } [7] = true ∧
    Spec.mustReject (viewOf s) { beg := true, cont := true, fin := true, msgLen := 1, seqNum := 0 } [7] = true ∧
    Spec.mustReject (viewOf s) { beg := true, msgLen := 40, seqNum := 0 } [7] = true ∧
    Spec.mustReject (viewOf s) { mgmt := true, opcode := 1, beg := true, fin := true, msgLen := 1, seqNum := 0 } [7] = true ∧
    Spec.mustReject (viewOf s) { fin := true, seqNum := 0 } [] = true ∧
    Spec.mustReject (viewOf s) { cont := true, fin := true, seqNum := 0 } [] = true ∧
    Spec.mustReject (viewOf s) { beg := true, fin := true, msgLen := 1, seqNum := 0 } [7] = false ∧
    Spec.noRoom (ringFree s.recv.buf) { beg := true, fin := true, msgLen := 1, seqNum := 0 } [7] = false ∧
    (∃ s', s.processRxData { beg := true, fin := true, msgLen := 1, seqNum := 0 } [7] 3 = .ok s') := by
  exact ⟨_, rfl, by decide, by decide, by decide, by decide, by decide, by decide, by decide, by decide, by decide, _, rfl⟩

/-! ## Window slots and the acknowledgement deadline (session level) -/

/-- **Never more unacknowledged segments than the window (sender side)**: a segment is emitted only
while the send window has a free slot and takes exactly one; together with `SInv.sendLe`
(`level ≤ window`) and `SendWindow.checkIncoming` (only acknowledgements of segments that are
awaiting one re-open slots) the number `window − level` of unacknowledged segments never exceeds
the negotiated window. -/
theorem emits_only_with_free_slot {s : Session} {data : List Nat} {off now : Nat} {s' : Session}
    {seg : List Nat} {off' : Nat} (hok : s.prepTxData data off now = .ok (s', seg, off'))
    (hseg : seg ≠ []) :
    1 ≤ s.send.level ∧ s'.send.level + 1 = s.send.level ∧ s'.send.windowSize = s.send.windowSize := by
  obtain ⟨h1, h2, _, h4, _⟩ := prepTxData_emits hok hseg
  exact ⟨h1, h2, h4⟩

/-- **Acknowledgement before the deadline**: every accepted data segment stamps the receive window
with the current instant and leaves an acknowledgement pending ... -/
theorem accepted_segment_is_stamped {s : Session} {h : Hdr} {p : List Nat} {now : Nat} {s' : Session}
    (hok : s.processRxData h p now = .ok s') :
    s'.recv.receivedAt = some now ∧ s'.recv.ackLevel = s.recv.ackLevel + 1 ∧ s'.recv.ackSeq = h.seqNum :=
  accepted_stamps hok

/-- ... `is_ack_due` answers yes no later than `received_at + ack timeout` whenever an
acknowledgement is pending (i.e. something is unacknowledged and no complete message waits to be
fetched) ... -/
theorem ack_due_at_deadline (s : Session) (t now : Nat) (hp : s.recv.pendingAck.isSome = true)
    (ht : s.recv.receivedAt = some t) (hd : t + ackTimeoutSecs ≤ now) :
    s.isAckDue now ackTimeoutSecs = true :=
  isAckDue_at_deadline s t now hp ht hd

/-- ... and the pump then emits a segment carrying exactly that acknowledgement, provided the send
window has a free slot (when it has none, the peer owes us an acknowledgement first). -/
theorem due_ack_is_emitted (e : End) (he : EInv e) (now : Nat)
    (hdue : e.s.isAckDue now ackTimeoutSecs = true) (hl : 1 ≤ e.s.send.level) :
    ∃ e' seg, e.ackStep now = .ok (e', seg) ∧ seg ≠ [] ∧ e'.s.recv.ackLevel = 0 ∧
      (decodeHdr seg).toOption.map (fun hp => hp.1.getAck) = some (some e.s.recv.ackSeq) :=
  ack_emitted e he now hdue hl

/-! ## Two ends joined by two FIFO queues -/

/-- run a schedule on the monitored link; an operation that fails leaves the link unchanged
(in particular a refused segment stays at the head of its queue — the GATT glue would tear the
connection down) -/
def runLink (l : LMon) : List Op → LMon
  | [] => l
  | op :: ops =>
    match l.step op with
    | .ok (l', _) => runLink l' ops
    | .error _ => runLink l ops

def WfSched (ops : List Op) : Prop := ∀ op ∈ ops, WfOp op

/-- two fresh ends: `a` the initiator (GATT central), `b` the responder (peripheral) -/
def freshLink (relaxedA relaxedB : Bool) (gattA gattB : Option Nat) : LMon :=
  { a := freshMon true relaxedA gattA, b := freshMon false relaxedB gattB }

theorem linv_fresh (ra rb : Bool) (ga gb : Option Nat) : LInv (freshLink ra rb ga gb) := by
  refine ⟨minv_fresh _ _ _, minv_fresh _ _ _, ⟨by simp [freshLink, freshMon, Session.fresh], bytes_nil⟩,
    ⟨by simp [freshLink, freshMon, Session.fresh], bytes_nil⟩, ?_, ?_⟩ <;>
  · intro seg h; simp [freshLink] at h

/-- **`link_inv`**: the invariant (window accounting `level + ack_level = window`,
`send level ≤ window`, counters within their 8/16-bit ranges, ring buffer = queue of reassembled
messages, everything on the wire a byte string) is preserved by every scheduler operation
`Send | Poll | Deliver | Tick | Fetch` at either end, in every order — for every negotiated MTU
and window and across sequence-number wrap (the sequence numbers are only constrained `< 256`). -/
theorem link_inv (ops : List Op) : ∀ (l : LMon), LInv l → WfSched ops → LInv (runLink l ops) := by
  induction ops with
  | nil => intro l hl _; exact hl
  | cons op ops ih =>
    intro l hl hw
    have hw' : WfSched ops := fun o h => hw o (List.mem_cons_of_mem _ h)
    have c := link_step l hl op (hw op List.mem_cons_self)
    simp only [runLink]
    cases h : l.step op with
    | ok r => rw [h] at c; exact ih r.1 c hw'
    | error f => exact ih l hl hw'

/-- **Between two ends no scheduler operation ever panics**, whatever the schedule so far; and the
monitored step is the model's `Link.step` (`step_erase`). -/
theorem link_never_panics (ra rb : Bool) (ga gb : Option Nat) (ops : List Op) (hw : WfSched ops)
    (op : Op) (hop : WfOp op) :
    (∃ l' out, (runLink (freshLink ra rb ga gb) ops).erase.step op = .ok (l', out)) ∨
    (∃ e, (runLink (freshLink ra rb ga gb) ops).erase.step op = .error e ∧ e.isPanic = false) := by
  have hl := link_inv ops _ (linv_fresh ra rb ga gb) hw
  have c := link_step _ hl op hop
  rw [← step_erase]
  cases h : (runLink (freshLink ra rb ga gb) ops).step op with
  | ok r => exact .inl ⟨r.1.erase, r.2, rfl⟩
  | error e => rw [h] at c; exact .inr ⟨e, rfl, c⟩

/-- **Receiving side of "intact, once, in order"** on the link: at either end, after any schedule,
the `k`-th fetched message is the `k`-th message of the specification-side reassembly of the
segments that end accepted. -/
theorem link_delivered_is_reassembly (ra rb : Bool) (ga gb : Option Nat) (ops : List Op) (hw : WfSched ops)
    (x : Side) (k : Nat) (b : List Nat) (c : Nat)
    (hk : ((runLink (freshLink ra rb ga gb) ops).get x).fetched[k]? = some (b, c)) :
    ∃ full, ((runLink (freshLink ra rb ga gb) ops).get x).rs.done[k]? = some full ∧ b = full.take c :=
  ((link_inv ops _ (linv_fresh ra rb ga gb) hw).get x).1.dlv k b c hk

/-! ## The acknowledgement deadline, over whole runs -/

theorem ackRun_link (y : Side) (ops : List Op) : ∀ m : AckMon, (ackRun y m ops).l = runLink m.l ops := by
  induction ops with
  | nil => intro m; rfl
  | cons op ops ih =>
    intro m
    simp only [ackRun, runLink]
    rw [ih]
    unfold AckMon.step
    cases m.l.step op with
    | ok r => rfl
    | error e => rfl

/-- **`ack_within_deadline`** (run level; every state of the link, every schedule).  Observe end `y`
along ANY schedule `ops` from ANY state `l0` of the link (time advances by `tick` only), with two
ghost clocks (`Btp.AckMon`): `polledAt` = when `y`'s pump (`process_outgoing`) last ran, `since` =
since when an acknowledgement has been *sendable* at `y` without interruption
(`Session.ackable`: `pending_ack().is_some()` - something accepted and not acknowledged, and no
complete message waiting to be fetched -, a free slot in the send window, no handshake response
pending).  Then in the state reached, if an acknowledgement is sendable and `y` has been polled
during the last `p` seconds, the clock is at most `max (received_at + 15 s, since) + p`: **an
acknowledgement that can be sent never stays unsent for more than the poll period `p` after its
15 s timer has fired** (`received_at` = the instant the LAST segment was accepted: every accepted
segment restarts the timer, as in the code; an acknowledgement emitted earlier - stand-alone or
piggy-backed on data, `poll_ackable` - makes `ackable` false, so "already acknowledged" is covered).
If `y` is polled at least every `p` seconds throughout, this holds in every state of the run.

The three cases in which NO acknowledgement is due, all from the code, are exactly the negation of
`ackable`: (1) a complete message waits to be fetched (`buf_messages_ct > 0`: the acknowledgement
is withheld as back-pressure until the application takes the message - with an application that
never fetches, the acknowledgement is never sent and the peer's idle timeout closes the session);
(2) the send window is exhausted (`level = 0`: the stand-alone acknowledgement needs a sequence
number of its own; it waits for the peer's acknowledgement - between two rs-matter ends this cannot
persist: `never_dead`, `C18_live_holds`); (3) the responder has not sent its handshake response
yet (it goes out first, on the same poll sequence). `since` records when the last of them ended.
("Exactly the negation of `ackable`" is a statement about the CODE's `pending_ack`; before the fix
`C18-handshake-response-never-acked` it hid a fourth case: at an initiator `ack_level` was 0 although
the handshake response - the responder's segment 0 - had been received, so its acknowledgement was
never pending. The fixed `setup` counts it, and the oracle of the correspondence check demands it.) -/
theorem ack_within_deadline (l0 : LMon) (y : Side) (ops : List Op) (p : Nat) :
    let m := ackRun y (AckMon.init l0 y) ops
    m.l = runLink l0 ops ∧
    (((runLink l0 ops).get y).e.s.ackable = true → (runLink l0 ops).now ≤ m.polledAt + p →
      ∃ u, m.since = some u ∧ u ≤ (runLink l0 ops).now ∧
        ∀ t, ((runLink l0 ops).get y).e.s.recv.receivedAt = some t →
          (runLink l0 ops).now ≤ max (t + ackTimeoutSecs) u + p) := by
  intro m
  have hl : m.l = runLink l0 ops := ackRun_link y ops _
  refine ⟨hl, ?_⟩
  rw [← hl]
  intro ha hp
  have hi : AckInv y m := ackInv_run ops (ackInv_init l0 y)
  obtain ⟨u, hu, hle, hall⟩ := hi.ok ha
  refine ⟨u, hu, hle, fun t ht => ?_⟩
  rcases hall t ht with h | h
  · have : t + ackTimeoutSecs ≤ max (t + ackTimeoutSecs) u := Nat.le_max_left _ _
    omega
  · have : u ≤ max (t + ackTimeoutSecs) u := Nat.le_max_right _ _
    omega

/-- the pump step behind it (one step, every end state): polled in an `ackable` state, the end
either emits a segment that carries the acknowledgement number `ack_seq` (and then counts
everything as acknowledged), or emits nothing, is unchanged, and `is_ack_due` is false -/
theorem poll_emits_ack {e : End} (ha : e.s.ackable = true) {now : Nat} {e' : End} {seg : List Nat}
    (hok : e.processOutgoing now = .ok (e', seg)) :
    (seg = [] ∧ e' = e ∧ e.s.isAckDue now ackTimeoutSecs = false) ∨
    (seg ≠ [] ∧ e'.s.recv.ackLevel = 0 ∧
      ∃ (h : Hdr) (p : List Nat), seg = h.encode ++ p ∧ h.getAck = some e.s.recv.ackSeq) :=
  poll_ackable ha hok

def ackSampleOps : List Op :=
  [.poll .a, .deliver .b, .poll .b, .deliver .a, .send .a [1, 2, 3], .poll .a, .deliver .b, .fetch .b 100,
   .tick 4, .poll .b, .tick 4, .poll .b, .tick 4, .poll .b]

/-- Non-vacuity / a sample run (`ackSampleOps`): after the handshake `a` sends a one-segment message at time 0, `b`
accepts it and the application fetches it: an acknowledgement is sendable at `b` since time 0,
stamped 0.  `b` is polled every 4 s: at time 12 nothing has been sent yet (the timer has not
fired), the hypotheses of `ack_within_deadline` hold with `p = 4` and the bound `15 + 4` is
respected; the poll at time 16 emits the stand-alone acknowledgement (`b`'s sequence number 1,
acknowledging 0). -/
example :
    ((runLink (freshLink false false none none) ackSampleOps).get .b).e.s.ackable = true ∧
    (ackRun .b (AckMon.init (freshLink false false none none) .b) ackSampleOps).polledAt = 12 ∧
    (ackRun .b (AckMon.init (freshLink false false none none) .b) ackSampleOps).since = some 0 ∧
    (runLink (freshLink false false none none) ackSampleOps).now = 12 ∧
    ((runLink (freshLink false false none none) ackSampleOps).get .b).e.s.recv.receivedAt = some 0 ∧
    (runLink (freshLink false false none none) ackSampleOps).qba = [] ∧
    (runLink (freshLink false false none none) (ackSampleOps ++ [.tick 4, .poll .b])).qba = [[0x08, 0, 1]] := by
  decide

/-! ## Intact, exactly once, in order -/

theorem steady_run (ops : List Op) : ∀ (l : LMon), LInv l → Steady l → WfSched ops →
    LInv (runLink l ops) ∧ Steady (runLink l ops) := by
  induction ops with
  | nil => intro l hl hs _; exact ⟨hl, hs⟩
  | cons op ops ih =>
    intro l hl hs hw
    have hw' : WfSched ops := fun o h => hw o (List.mem_cons_of_mem _ h)
    have c := link_step l hl op (hw op List.mem_cons_self)
    simp only [runLink]
    cases h : l.step op with
    | ok r =>
      rw [h] at c
      exact ih r.1 c (steady_step hl hs (l' := r.1) (o := r.2) h) hw'
    | error f => exact ih l hl hs hw'

/-- in a steady state, what an end has fetched is what the other end submitted -/
theorem fetched_is_submitted {l : LMon} (hl : LInv l) (hs : Steady l) (y : Side) (k : Nat) (b : List Nat)
    (c : Nat) (hk : (l.get y).fetched[k]? = some (b, c)) :
    ∃ full, (l.get y.other).submitted[k]? = some full ∧ b = full.take c := by
  obtain ⟨full, hfull, hb⟩ := (hl.get y).1.dlv k b c hk
  refine ⟨full, ?_, hb⟩
  have d := hs y.other
  have hq := d.q
  simp only [other_other] at hq
  obtain ⟨l1, hl1⟩ := feedAll_done (l.inq y) (l.get y).rs
  rw [hq] at hl1
  have hklt : k < (l.get y).rs.done.length := (List.getElem?_eq_some_iff.mp hfull).1
  have htx : (l.get y.other).tx.done[k]? = some full := by
    rw [hl1, List.getElem?_append_left hklt]; exact hfull
  have hklt2 : k < (l.get y.other).tx.done.length := (List.getElem?_eq_some_iff.mp htx).1
  rw [← d.tx.done, List.getElem?_append_left hklt2]
  exact htx

/-- **`in_order_once`** (for the class of schedules stated here, see `C18_full` below): start from
any state of the link in which both handshakes are done and only data / acknowledgement segments
travel (`Steady`: e.g. the state right after the handshake, `steady_after_handshake`), and run ANY
schedule of `Send | Poll | Deliver | Tick | Fetch` operations at both ends — any interleaving, any
message lengths `1..1232`, any negotiated MTU and window, across sequence-number wrap, with
slow applications and withheld acknowledgements. Then at either end the `k`-th fetched message is
byte-identical to the `k`-th message submitted at the other end (cut to the caller's buffer): no
message is corrupted, duplicated, reordered, or invented.

In this model a refused `Deliver` leaves the link unchanged (the refused segment is never skipped;
the GATT glue closes the connection on an error); that no `Deliver` *is* refused between two
well-behaved ends is the part of `C18_full` that is not proved here (it is what the link stream of
the harness checks on the real code). -/
theorem in_order_once (l0 : LMon) (hl : LInv l0) (hs : Steady l0) (ops : List Op) (hw : WfSched ops)
    (y : Side) (k : Nat) (b : List Nat) (c : Nat)
    (hk : ((runLink l0 ops).get y).fetched[k]? = some (b, c)) :
    ∃ full, ((runLink l0 ops).get y.other).submitted[k]? = some full ∧ b = full.take c := by
  obtain ⟨hl', hs'⟩ := steady_run ops l0 hl hs hw
  exact fetched_is_submitted hl' hs' y k b c hk

/-- the handshake between two fresh ends (GATT MTU unknown at both) -/
def handshakeOps : List Op := [.poll .a, .deliver .b, .poll .b, .deliver .a]

/-- Non-vacuity of `Steady` / `in_order_once`: the state reached by the handshake from two fresh
ends is steady (segment size 20, window 79 negotiated, both queues empty). -/
theorem steady_after_handshake :
    LInv (runLink (freshLink false false none none) handshakeOps) ∧
    Steady (runLink (freshLink false false none none) handshakeOps) ∧
    ((runLink (freshLink false false none none) handshakeOps).a.e.s.established = true ∧
     (runLink (freshLink false false none none) handshakeOps).b.e.s.windowSize = 79 ∧
     (runLink (freshLink false false none none) handshakeOps).b.e.s.mtu = 20) := by
  refine ⟨link_inv _ _ (linv_fresh _ _ _ _) (fun op h => ?_), ?_, ?_⟩
  · simp [handshakeOps] at h
    rcases h with rfl | rfl | rfl | rfl <;> trivial
  · intro x
    cases x
    · refine ⟨by decide, ⟨by decide, by decide, by decide, ?_, ?_⟩, ?_, by decide⟩
      · intro h; exact absurd (by decide) h
      · intro _; decide
      · have hq : (runLink (freshLink false false none none) handshakeOps).inq Side.a.other = [] := by decide
        intro seg h; rw [hq] at h; exact absurd h List.not_mem_nil
    · refine ⟨by decide, ⟨by decide, by decide, by decide, ?_, ?_⟩, ?_, by decide⟩
      · intro h; exact absurd (by decide) h
      · intro _; decide
      · have hq : (runLink (freshLink false false none none) handshakeOps).inq Side.b.other = [] := by decide
        intro seg h; rw [hq] at h; exact absurd h List.not_mem_nil
  · decide

/-- Non-vacuity of the conclusion: after the handshake, `a` submits `[1, 2, 3]`, the segment
travels, `b` fetches exactly `[1, 2, 3]`. -/
example : ((runLink (freshLink false false none none)
    (handshakeOps ++ [.send .a [1, 2, 3], .poll .a, .deliver .b, .fetch .b 2048])).b.fetched) =
    [([1, 2, 3], 2048)] := by decide

/-! ## Two well-behaved ends never refuse each other (cross-end invariant, from two fresh ends) -/

theorem phase_fresh (ra rb : Bool) (ga gb : Option Nat) : Phase ra rb ga gb (freshLink ra rb ga gb) := by
  refine .p0 ⟨rfl, rfl, ?_, ?_, rfl, rfl, rfl, rfl, rfl⟩ rfl rfl rfl rfl rfl
  all_goals
    constructor <;> simp [freshLink, freshMon]

/-- **`phase_run`**: after ANY schedule from two fresh ends the link is in one of the handshake
phases or synchronised (`Phase`), and satisfies the representation invariant (`LInv`). -/
theorem phase_run (ra rb : Bool) (ga gb : Option Nat) (ops : List Op) (hw : WfSched ops) :
    LInv (runLink (freshLink ra rb ga gb) ops) ∧ Phase ra rb ga gb (runLink (freshLink ra rb ga gb) ops) := by
  suffices h : ∀ (ops : List Op) (l : LMon), LInv l → Phase ra rb ga gb l → WfSched ops →
      LInv (runLink l ops) ∧ Phase ra rb ga gb (runLink l ops) from
    h ops _ (linv_fresh ra rb ga gb) (phase_fresh ra rb ga gb) hw
  intro ops
  induction ops with
  | nil => intro l hl hp _; exact ⟨hl, hp⟩
  | cons op ops ih =>
    intro l hl hp hw
    have hw' : WfSched ops := fun o h => hw o (List.mem_cons_of_mem _ h)
    have c := link_step l hl op (hw op List.mem_cons_self)
    simp only [runLink]
    rcases phase_step hl hp op with ⟨l', o, h1, h2⟩ | ⟨h1, _⟩
    · rw [h1] at c ⊢
      exact ih l' c h2 hw'
    · rw [h1]
      exact ih l hl hp hw'

/-- **`never_refused`** (clause 1 of the property between two well-behaved ends): after ANY
schedule from two fresh ends — every interleaving of `Send | Poll | Deliver | Tick | Fetch` at both
ends, every GATT MTU / negotiation mode (hence every negotiated segment size and window), across
sequence-number wrap — the next operation never fails: no `Deliver` is refused (sequence numbers,
acknowledgements, window levels, flags, lengths and ring-buffer space of the two ends always
match), no `Poll` or `Fetch` fails. The only error is `Send` refusing an empty or over-long
message (`InvalidArgument`). -/
theorem never_refused (ra rb : Bool) (ga gb : Option Nat) (ops : List Op) (hw : WfSched ops) (op : Op) :
    (∃ l' o, (runLink (freshLink ra rb ga gb) ops).step op = .ok (l', o)) ∨
    ((runLink (freshLink ra rb ga gb) ops).step op = .error .invalidArgument ∧ ∃ x m, op = .send x m) := by
  obtain ⟨hl, hp⟩ := phase_run ra rb ga gb ops hw
  rcases phase_step hl hp op with ⟨l', o, h1, _⟩ | h
  · exact .inl ⟨l', o, h1⟩
  · exact .inr h

/-- a `Send` with a message of 1..1232 bytes is never refused either -/
example : ∃ l' o, (runLink (freshLink false false none none) handshakeOps).step (.send .a [1, 2, 3]) = .ok (l', o) :=
  ⟨_, _, rfl⟩

/-- **Cross-end form of "never more unacknowledged segments than the peer's window allows"**:
in every state reachable from two fresh ends in which both ends are established, for each
direction `x → y`: the segments in flight fit the free slots the peer's receive window really has
(`level`), and `x`'s count of unacknowledged segments `window − level` = covers the segments in
flight plus those `y` has received and not yet acknowledged, and never exceeds the window. -/
theorem window_respected (ra rb : Bool) (ga gb : Option Nat) (ops : List Op) (hw : WfSched ops)
    (hest : (runLink (freshLink ra rb ga gb) ops).a.e.s.established = true) (x : Side) :
    let l := runLink (freshLink ra rb ga gb) ops
    (l.inq x.other).length ≤ (l.get x.other).e.s.recv.level ∧
    (l.inq x.other).length + (l.get x.other).e.s.recv.ackLevel ≤
      (l.get x).e.s.windowSize - (l.get x).e.s.send.level ∧
    (l.get x).e.s.windowSize - (l.get x).e.s.send.level ≤ (l.get x.other).e.s.windowSize := by
  obtain ⟨_, hp⟩ := phase_run ra rb ga gb ops hw
  intro l
  cases hp with
  | p0 _ sa => rw [sa] at hest; cases hest
  | p1 _ sa => rw [sa] at hest; cases hest
  | p2 _ sa => rw [sa] at hest; cases hest
  | p3 _ h => rw [h.sa] at hest; cases hest
  | sync h =>
    have d := (h.dir x).inflight_le
    rw [(h.ses x).2.1, (h.ses x.other).2.1]
    exact d

/-- Non-vacuity: after the handshake and three polls with a 60-byte message queued at `b`
(segment size 20), three segments are in flight towards `a` and `b` counts four unacknowledged
ones (the handshake response included). -/
example :
    let l := runLink (freshLink false false none none)
      (handshakeOps ++ [.send .b (List.replicate 60 7), .poll .b, .poll .b, .poll .b])
    l.a.e.s.established = true ∧ (l.inq .a).length = 3 ∧ l.b.e.s.windowSize - l.b.e.s.send.level = 4 := by
  decide

/-! ## Intact, exactly once, in order — from two fresh ends -/

/-- **`in_order_once_fresh`**: start from two FRESH ends (any GATT MTUs, any negotiation mode: every
negotiated segment size and window), run ANY schedule — the handshake is part of the schedule,
messages may be submitted before it completes, the responder may send data behind its response.
Then at either end the `k`-th fetched message is byte-identical to the `k`-th message submitted at
the other end (cut to the caller's buffer). Together with `never_refused` (nothing is ever refused,
so the semantics "a refused Deliver leaves the link unchanged" is never exercised) this is
"exactly once, unmodified, in order". -/
theorem in_order_once_fresh (ra rb : Bool) (ga gb : Option Nat) (ops : List Op) (hw : WfSched ops)
    (y : Side) (k : Nat) (b : List Nat) (c : Nat)
    (hk : ((runLink (freshLink ra rb ga gb) ops).get y).fetched[k]? = some (b, c)) :
    ∃ full, ((runLink (freshLink ra rb ga gb) ops).get y.other).submitted[k]? = some full ∧ b = full.take c := by
  obtain ⟨hl, hp⟩ := phase_run ra rb ga gb ops hw
  have hnil : ∀ pre : Pre ga gb (runLink (freshLink ra rb ga gb) ops), False := by
    intro pre
    cases y
    · simp only [LMon.get, pre.fA] at hk; cases hk
    · simp only [LMon.get, pre.fB] at hk; cases hk
  cases hp with
  | p0 pre => exact (hnil pre).elim
  | p1 pre => exact (hnil pre).elim
  | p2 pre => exact (hnil pre).elim
  | p3 _ h => exact (hnil h.pre).elim
  | sync h => exact fetched_is_submitted hl h.st y k b c hk

/-- Non-vacuity: from two fresh ends, `a` submits before the handshake, the handshake runs, the
segment travels, `b` fetches exactly what was submitted. -/
example : ((runLink (freshLink false true (some 100) (some 64))
    ([.send .a [9, 8, 7]] ++ handshakeOps ++ [.poll .a, .deliver .b, .fetch .b 2048])).b.fetched) =
    [([9, 8, 7], 2048)] := by decide

/-! ## Windows outside the range two rs-matter ends negotiate

All from-fresh theorems of this file (`never_refused`, `in_order_once_fresh`, `window_respected`,
`never_dead`, `never_stuck`, `C18_live_holds`) speak about the link of two rs-matter ends, which
negotiate a window in `[6, 79]` (`negWin_ge`; `POk.wm`: `W * mtu ≤ 1583`).  For other windows
(a peer that is not rs-matter) only the per-end theorems (`process_rx_total`, `end_inv`,
`delivered_is_reassembly`, `segment_refused_iff`: every window 1..255) and the theorems that
start from an ASSUMED `Sync` / `Steady` state (`sync_step`, `in_order_once`) apply.  The examples
below show that those assumptions are satisfiable for small windows and for window 255. -/

/-- The link reached from two fresh ends when the handshake request is rewritten in flight to
announce the window `w`: the initiator is a peer that is not rs-matter and asks for a small window
(two rs-matter ends always negotiate a window in `[6, 79]`, `negWin_ge`; the harness does the same
rewriting with its `hsw` operation). -/
def smallWindowLink (w : Nat) : LMon :=
  runLink ((runLink (freshLink false false none none) [.poll .a]).setInq .b
    [[0x65, 0x6c, 4, 0, 0, 0, 23, 0, w]]) [.deliver .b, .poll .b, .deliver .a]

/-- it satisfies the representation invariant (it is a run of the model from two fresh ends with one
segment replaced in the queue) -/
theorem small_window_linv (w : Nat) (hw : w < 256) : LInv (smallWindowLink w) := by
  refine link_inv _ _ ((link_inv _ _ (linv_fresh _ _ _ _) ?_).setInq .b ?_) ?_
  · intro op h; simp at h; subst h; trivial
  · intro seg h; simp at h; subst h
    intro b hb; simp at hb; omega
  · intro op h; simp at h
    rcases h with rfl | rfl | rfl <;> trivial

/-- a link on which nothing has been submitted or received yet and nothing travels is steady -/
theorem steady_of_idle (l : LMon) (hqab : l.qab = []) (hqba : l.qba = [])
    (ha : l.a.e.s.handshakePending = false ∧ l.a.e.sdu = [] ∧ l.a.e.off = 0 ∧ l.a.tx = {} ∧ l.a.submitted = [] ∧ l.a.rs = {})
    (hb : l.b.e.s.handshakePending = false ∧ l.b.e.sdu = [] ∧ l.b.e.off = 0 ∧ l.b.tx = {} ∧ l.b.submitted = [] ∧ l.b.rs = {}) :
    Steady l := by
  obtain ⟨a1, a2, a3, a4, a5, a6⟩ := ha
  obtain ⟨b1, b2, b3, b4, b5, b6⟩ := hb
  intro x
  cases x
  · refine ⟨a1, ⟨?_, ?_, ?_, ?_, ?_⟩, ?_, ?_⟩
    · simp [LMon.get, a2, a4, a5]
    · simp [LMon.get, a2, a4]
    · simp [LMon.get, a3, a4]
    · intro h; exact absurd a2 h
    · intro _; exact a3
    · show NoHs l.qab
      rw [hqab]; intro seg h; exact absurd h List.not_mem_nil
    · show feedAll l.b.rs l.qab = l.a.tx
      rw [hqab, b6, a4]; rfl
  · refine ⟨b1, ⟨?_, ?_, ?_, ?_, ?_⟩, ?_, ?_⟩
    · simp [LMon.get, b2, b4, b5]
    · simp [LMon.get, b2, b4]
    · simp [LMon.get, b3, b4]
    · intro h; exact absurd b2 h
    · intro _; exact b3
    · show NoHs l.qba
      rw [hqba]; intro seg h; exact absurd h List.not_mem_nil
    · show feedAll l.a.rs l.qba = l.b.tx
      rw [hqba, a6, b4]; rfl

/-- **`Steady` is satisfiable with window 1** (hypotheses of `in_order_once`) ... -/
theorem small_window_steady_1 : Steady (smallWindowLink 1) ∧
    (smallWindowLink 1).a.e.s.windowSize = 1 ∧ (smallWindowLink 1).b.e.s.windowSize = 1 ∧
    (smallWindowLink 1).a.e.s.established = true :=
  ⟨steady_of_idle _ (by decide) (by decide) (by decide) (by decide), by decide, by decide, by decide⟩

/-- ... and with window 2 -/
theorem small_window_steady_2 : Steady (smallWindowLink 2) ∧
    (smallWindowLink 2).a.e.s.windowSize = 2 ∧ (smallWindowLink 2).b.e.s.windowSize = 2 ∧
    (smallWindowLink 2).a.e.s.established = true :=
  ⟨steady_of_idle _ (by decide) (by decide) (by decide) (by decide), by decide, by decide, by decide⟩

/-- **Window 1** (not a statement about two rs-matter ends, which never negotiate it): the
responder's only slot is taken by the handshake response; the initiator counts the response as a
received, unacknowledged segment (`setup`, fix `C18-handshake-response-never-acked`), so its
acknowledgement is due at once (`recv.level ≤ 1`) and goes out with the first data segment; from
then on the two ends alternate. Messages cross in both directions. (Before the fix neither end
ever emitted anything: the initiator's only slot is reserved for a segment that carries an
acknowledgement, and it had none to send.) Liveness is *proved* for windows ≥ 3 only. -/
example :
    let l := runLink (smallWindowLink 1) [.send .a [1, 2, 3], .send .b [9], .poll .a, .poll .b, .deliver .b, .poll .b,
      .poll .a, .deliver .a, .poll .a, .poll .b, .deliver .b, .fetch .b 100, .poll .b, .deliver .a, .fetch .a 100]
    l.b.fetched = [([1, 2, 3], 100)] ∧ l.a.fetched = [([9], 100)] := by decide

/-- window 2: messages cross in both directions -/
example :
    let l := runLink (smallWindowLink 2) [.send .a [1, 2, 3], .send .b [9], .poll .a, .deliver .b, .fetch .b 100, .poll .b,
      .deliver .a, .poll .a, .deliver .b, .poll .b, .deliver .a, .fetch .a 100]
    l.b.fetched = [([1, 2, 3], 100)] ∧ l.a.fetched = [([9], 100)] := by decide


/-- **The cross-end invariant `Sync` is satisfiable for a window below 6** (window 2, segment size
20): `sync_step`, `never_dead`-style reasoning and `in_order_once` apply from this state. -/
theorem small_window_sync_2 : Sync 2 20 (smallWindowLink 2) := by
  have hp : POk 2 20 := ⟨by omega, by omega, by omega, by omega, by omega⟩
  refine sync_mk .b small_window_steady_2.1 hp (by decide) (by decide) ?_ ?_ ?_
  · have := d1_init hp (some 0) 0
    have e1 : ((smallWindowLink 2).get .b).e.s.send = { windowSize := 2, level := 2 - 1, lastSent := 0, sentAt := some 0 } := by decide
    have e2 : ((smallWindowLink 2).get Side.b.other).e.s.recv = { level := 2 - 1, ackLevel := 1, ackSeq := 0, receivedAt := some 0 } := by decide
    have e3 : ((smallWindowLink 2).get Side.b.other).rs = {} := by decide
    have e4 : (smallWindowLink 2).inq Side.b.other = [] := by decide
    have e5 : (smallWindowLink 2).inq Side.b = [] := by decide
    rw [e1, e2, e3, e4, e5]; exact this
  · have := d2_init hp false
    have e1 : ((smallWindowLink 2).get Side.b.other).e.s.send = { windowSize := 2, level := 2 } := by decide
    have e2 : ((smallWindowLink 2).get Side.b).e.s.recv = ((Session.fresh false false).setup 4 20 2 0).recv := by decide
    have e3 : ((smallWindowLink 2).get Side.b).rs = {} := by decide
    have e4 : (smallWindowLink 2).inq Side.b.other = [] := by decide
    have e5 : (smallWindowLink 2).inq Side.b = [] := by decide
    rw [e1, e2, e3, e4, e5]; exact this
  · intro h
    have : ((smallWindowLink 2).get Side.b).e.s.send.level = 1 := by decide
    omega

/-- `in_order_once` instantiated at a window outside `[6, 79]`: from the window-2 link, any schedule. -/
example (ops : List Op) (hw : WfSched ops) (y : Side) (k : Nat) (b : List Nat) (c : Nat)
    (hk : ((runLink (smallWindowLink 2) ops).get y).fetched[k]? = some (b, c)) :
    ∃ full, ((runLink (smallWindowLink 2) ops).get y.other).submitted[k]? = some full ∧ b = full.take c :=
  in_order_once _ (small_window_linv 2 (by omega)) small_window_steady_2.1 ops hw y k b c hk

/-- A window above 79 can only arise at an rs-matter *initiator* whose peer answers with a larger
window than was requested (`process_rx_handshake_resp` accepts every window 1..255; an rs-matter
responder never chooses more than 79): the response is rewritten in flight to announce 255. -/
def bigWindowLink : LMon :=
  runLink ((runLink (freshLink false false none none) [.poll .a, .deliver .b, .poll .b]).setInq .a
    [[0x65, 0x6c, 4, 20, 0, 255]]) [.deliver .a]

/-- `LInv` and `Steady` (the hypotheses of `in_order_once`) are satisfiable with window 255 at the
initiator (the responder keeps 79: the two ends disagree, no cross-end invariant `Sync` exists for
this link; only the per-end theorems and `in_order_once` - under whose link semantics a refused
segment is never skipped - apply). -/
theorem big_window_steady : LInv bigWindowLink ∧ Steady bigWindowLink ∧
    bigWindowLink.a.e.s.windowSize = 255 ∧ bigWindowLink.a.e.s.established = true := by
  refine ⟨?_, steady_of_idle _ (by decide) (by decide) (by decide) (by decide), by decide, by decide⟩
  refine link_inv _ _ ((link_inv _ _ (linv_fresh _ _ _ _) ?_).setInq .a ?_) ?_
  · intro op h; simp at h
    rcases h with rfl | rfl | rfl <;> trivial
  · intro seg h; simp at h; subst h
    intro b hb; simp at hb; omega
  · intro op h; simp at h; subst h; trivial

/-! ## No deadlock (towards delivery under a fair schedule) -/

theorem negWin_ge (ga gb : Option Nat) (rb : Bool) : 6 ≤ negWin ga gb rb := by
  obtain ⟨m1, m2⟩ := negMtu_bounds ga gb rb
  obtain ⟨r1, _⟩ := reqWin_bounds ga
  obtain ⟨w, hw, _, h2⟩ := initialWindowSize_ok (mtu := negMtu ga gb rb) m1
  unfold initialWindowSize at hw
  have : ¬ (negMtu ga gb rb = 0) := by omega
  simp only [this, if_false] at hw
  have hw' := Except.ok.inj hw
  have := h2 m2
  unfold negWin; omega

/-- **`never_dead`**: in every state reachable from two fresh ends it is never the case that both
send windows are exhausted while no acknowledgement is travelling (the state from which nothing can
ever be sent again — reachable in the code before the `is_full` fix, `corpus/C18/deadlock.txt`). -/
theorem never_dead (ra rb : Bool) (ga gb : Option Nat) (ops : List Op) (hw : WfSched ops)
    (hest : (runLink (freshLink ra rb ga gb) ops).a.e.s.established = true) :
    ¬ Dead (runLink (freshLink ra rb ga gb) ops) := by
  obtain ⟨_, hp⟩ := phase_run ra rb ga gb ops hw
  cases hp with
  | p0 _ sa => rw [sa] at hest; cases hest
  | p1 _ sa => rw [sa] at hest; cases hest
  | p2 _ sa => rw [sa] at hest; cases hest
  | p3 _ h => rw [h.sa] at hest; cases hest
  | sync h => exact h.nodead

/-- **`never_stuck`** (absence of deadlock): in every state reachable from two fresh ends by ANY
schedule, if an end has a message waiting to be sent then the link is not stuck: a segment is
waiting to be delivered (and `Deliver` never fails, `never_refused`), or a complete message is
waiting to be fetched, or the pump of one end emits a segment — polled now or, at the latest,
`n` seconds from now when the peer's acknowledgement timer has fired. Under a schedule that keeps
draining the queues, fetching, and polling after the timers, something therefore always moves. -/
theorem never_stuck (ra rb : Bool) (ga gb : Option Nat) (ops : List Op) (hw : WfSched ops) (x : Side)
    (hx : ((runLink (freshLink ra rb ga gb) ops).get x).e.sdu ≠ []) :
    let l := runLink (freshLink ra rb ga gb) ops
    (∃ y, l.inq y ≠ []) ∨ (∃ y, 0 < (l.get y).e.s.recv.msgCt) ∨
    (∃ y n e' seg, (l.get y).e.processOutgoing (l.now + n) = .ok (e', seg) ∧ seg ≠ []) := by
  obtain ⟨hl, hp⟩ := phase_run ra rb ga gb ops hw
  intro l
  have hne : ∀ p : List Nat, handshakeHdr.encode ++ p ≠ [] := by
    intro p h0
    have := hsLen p
    rw [h0] at this; simp at this
  cases hp with
  | p0 pre sa =>
    -- the initiator's pump emits the handshake request
    right; right
    refine ⟨.a, 0, { l.a.e with s := initSent ra }, reqBytes ga, ?_, hne _⟩
    have h1 : l.a.e.s.prepTxHandshake l.a.e.gattMtu (l.now + 0) = .ok (initSent ra, reqBytes ga) := by
      rw [sa, pre.gA, prepTxHandshake_init]
    show l.a.e.processOutgoing (l.now + 0) = _
    unfold End.processOutgoing
    rw [h1]
    simp only [reqBytes, hsLen, if_true]
  | p1 _ _ _ qab =>
    left; exact ⟨.b, by show l.qab ≠ []; rw [qab]; simp⟩
  | p2 pre _ sb =>
    -- the responder's pump emits the handshake response
    right; right
    have hpar := negPar ga gb rb
    have h1 := prepTxHandshake_resp rb l.b.e.gattMtu (negMtu ga gb rb) (negWin ga gb rb) (l.now + 0) hpar.w1
    rw [← sb] at h1
    refine ⟨.b, 0, { l.b.e with s := { l.b.e.s with send := { windowSize := negWin ga gb rb, level := negWin ga gb rb - 1, lastSent := 0, sentAt := some (l.now + 0) }, handshakePending := false } }, respBytes (negMtu ga gb rb) (negWin ga gb rb), ?_, hne _⟩
    show l.b.e.processOutgoing (l.now + 0) = _
    unfold End.processOutgoing
    rw [h1]
    simp only [respBytes, hsLen, if_true]
    rfl
  | p3 dq h =>
    left; exact ⟨.a, by show l.qba ≠ []; rw [h.qba]; simp⟩
  | sync h =>
    exact sync_enabled hl h (by have := negWin_ge ga gb rb; omega) x hx

/-- Non-vacuity of `never_stuck` / `never_dead`: a message waiting at `a` before the handshake (the
pump of `a` then emits the request), and an established link. -/
example : ((runLink (freshLink false false none none) [.send .a [1]]).get .a).e.sdu ≠ [] := by decide
example : (runLink (freshLink false false none none) handshakeOps).a.e.s.established = true := by decide

/-- The former deadlock (`corpus/C18/deadlock.txt`: window 6, both ends fill their send windows
while the applications are slow) on the fixed model: once the applications have fetched and the
acknowledgement timers have fired, everything that was submitted arrives and both send windows
re-open. -/
def deadlockSchedule : List Op := handshakeOps ++ [
  .send .a [1], .poll .a, .deliver .b, .send .b [2], .poll .b, .deliver .a,
  .send .a [3], .poll .a, .send .a [4], .poll .a, .send .a [5], .poll .a, .send .a [6], .poll .a,
  .send .a [7], .poll .a,
  .send .b [0x12], .poll .b, .send .b [0x13], .poll .b, .send .b [0x14], .poll .b, .send .b [0x15], .poll .b,
  .deliver .a, .deliver .a, .deliver .a, .deliver .a, .deliver .b, .deliver .b, .deliver .b, .deliver .b, .deliver .b,
  .fetch .a 100, .fetch .a 100, .fetch .a 100, .fetch .a 100, .fetch .a 100,
  .fetch .b 100, .fetch .b 100, .fetch .b 100, .fetch .b 100, .fetch .b 100, .fetch .b 100,
  .tick 15, .poll .a, .poll .b, .deliver .a, .deliver .b, .poll .a, .poll .b, .deliver .a, .deliver .b,
  .fetch .a 100, .fetch .b 100]

example :
    let l := runLink (freshLink false false (some 247) (some 247)) deadlockSchedule
    l.a.e.s.windowSize = 6 ∧ l.b.fetched.map (·.1) = l.a.submitted ∧ l.a.fetched.map (·.1) = l.b.submitted ∧
    l.a.submitted.length = 6 ∧ l.b.submitted.length = 5 ∧ l.a.e.s.send.level = 5 ∧ l.b.e.s.send.level = 5 := by
  decide

/-- **Delivery under a fair schedule** (liveness): for every schedule `ops` from two fresh ends and
every message accepted by `send` at `x` (index `k` of `submitted`), every *fair* continuation
eventually lets the other end fetch it — where a continuation `f : Nat → Op` is fair if every queue
is drained (`deliver y` occurs infinitely often for both `y`), every pump runs after the
acknowledgement timer has fired (`tick 15` immediately followed by `poll y`, infinitely often) and
the applications fetch (`fetch y 1232` infinitely often). Anything else may happen in between: more
`send`s (accepted or not), more `tick`s, `poll`s at any time, in any order.  Proved: `C18_live_holds`. -/
def C18_live : Prop :=
  ∀ (ra rb : Bool) (ga gb : Option Nat) (ops : List Op) (f : Nat → Op), WfSched ops → (∀ i, WfOp (f i)) →
    (∀ y i, ∃ j ≥ i, f j = .deliver y) →
    (∀ y i, ∃ j ≥ i, f j = .tick 15 ∧ f (j + 1) = .poll y) →
    (∀ y i, ∃ j ≥ i, f j = .fetch y 1232) →
    ∀ (x : Side) (k : Nat), k < ((runLink (freshLink ra rb ga gb) ops).get x).submitted.length →
      ∃ n, k < ((runLink (freshLink ra rb ga gb) (ops ++ (List.range n).map f)).get x.other).fetched.length

theorem runLink_cons (l : LMon) (op : Op) (ops : List Op) : runLink l (op :: ops) = runLink (l.step1 op) ops := by
  simp only [runLink, LMon.step1]
  cases l.step op with
  | ok r => rfl
  | error e => rfl

theorem runLink_append (ops1 : List Op) : ∀ (l : LMon) (ops2 : List Op),
    runLink l (ops1 ++ ops2) = runLink (runLink l ops1) ops2 := by
  induction ops1 with
  | nil => intro l ops2; rfl
  | cons op ops ih =>
    intro l ops2
    rw [List.cons_append, runLink_cons, runLink_cons, ih]

/-- the first `n` operations of the infinite schedule `f`, run by `runLink`, give `runF` -/
theorem runLink_range (l : LMon) (f : Nat → Op) : ∀ n, runLink l ((List.range n).map f) = runF l f n := by
  intro n
  induction n with
  | zero => rfl
  | succ n ih =>
    rw [List.range_succ, List.map_append, runLink_append, ih]
    show runLink (runF l f n) [f n] = (runF l f n).step1 (f n)
    rw [runLink_cons]; rfl

/-- **`C18_live` holds: every submitted message is delivered under every fair schedule.**
From two fresh ends (any GATT MTUs / negotiation mode), after ANY schedule `ops`, for every message
`k` accepted by `send` at `x`, and every fair continuation `f` (see `C18_live` / `Btp.Fair`), there is
an `n` such that after `n` further operations the other end has fetched more than `k` messages — and
by `in_order_once_fresh` the `k`-th fetched message IS the `k`-th submitted one.

The measure behind it (`Lemmas/BtpFair.lean`): the handshake rank (`hsRank`, 4 … 0), then per
message three stages — SDU still in `x`'s buffer (lexicographic: bytes still to send, then `phi` =
1024·segments in flight towards `y` + 4·free slots of `y`'s send window + 2·segments in flight towards
`x` + unfetched messages + `y`'s free SDU slot), segments of the message in flight (`needN`), message
received and not fetched.  Every scheduler step leaves the link unchanged up to the clock or
decreases the measure (`stage1_step`); stand-alone acknowledgements do not increase it: each one
takes a slot of the sender's window, so the keep-alive ping-pong is bounded by the window sizes, not by
time.  A link that stays unchanged under a fair schedule is quiet (empty queues, nothing to fetch,
`x`'s window exhausted); then `y` owes an acknowledgement whose 15 s timer (`ackTimeoutSecs`, the
`tick 15; poll y` of the fairness hypothesis; the clock of a fair schedule is unbounded) fires and
`y`'s pump emits (`quiet_enabled`) — or both windows are exhausted with no acknowledgement travelling,
which `never_dead` excludes.  A bounded form ("after N rounds", N computed from the state) is NOT
stated or proved: stage 1 argues by contradiction from a link that never changes, which gives no
explicit number of rounds; the unbounded form below is the statement `C18_live` asks for. -/
theorem C18_live_holds : C18_live := by
  intro ra rb ga gb ops f hw hwf hdel htp hfet x k hk
  obtain ⟨hl, hp⟩ := phase_run ra rb ga gb ops hw
  have hfair : Fair f := ⟨hwf, fun y i => by obtain ⟨j, h1, h2⟩ := hdel y i; exact ⟨j, h1, h2⟩,
    fun y i => by obtain ⟨j, h1, h2⟩ := htp y i; exact ⟨j, h1, h2⟩,
    fun y i => by obtain ⟨j, h1, h2⟩ := hfet y i; exact ⟨j, h1, h2⟩⟩
  have h3 : 3 ≤ negWin ga gb rb := by have := negWin_ge ga gb rb; omega
  obtain ⟨n, hn⟩ := phase_delivers h3 hl hp f hfair x k hk
  refine ⟨n, ?_⟩
  rw [runLink_append, runLink_range]
  exact hn

/-- a fair schedule: round robin over deliver / (tick 15; poll) / fetch at both ends -/
def roundRobin (i : Nat) : Op :=
  match i % 8 with
  | 0 => .deliver .a
  | 1 => .deliver .b
  | 2 => .tick 15
  | 3 => .poll .a
  | 4 => .tick 15
  | 5 => .poll .b
  | 6 => .fetch .a 1232
  | _ => .fetch .b 1232

/-- Non-vacuity of the fairness hypothesis of `C18_live`: the round-robin schedule is fair. -/
example : Fair roundRobin := by
  have key : ∀ (i c : Nat), c < 8 → roundRobin (8 * i + c) = roundRobin c := by
    intro i c hc
    simp only [roundRobin, Nat.mul_add_mod, Nat.mod_eq_of_lt hc]
  refine ⟨?_, ?_, ?_, ?_⟩
  · intro i
    unfold roundRobin
    split <;> trivial
  · intro y i
    cases y
    · exact ⟨8 * i + 0, by omega, key i 0 (by omega)⟩
    · exact ⟨8 * i + 1, by omega, key i 1 (by omega)⟩
  · intro y i
    cases y
    · exact ⟨8 * i + 2, by omega, key i 2 (by omega), key i 3 (by omega)⟩
    · exact ⟨8 * i + 4, by omega, key i 4 (by omega), key i 5 (by omega)⟩
  · intro y i
    cases y
    · exact ⟨8 * i + 6, by omega, key i 6 (by omega)⟩
    · exact ⟨8 * i + 7, by omega, key i 7 (by omega)⟩

/-- Non-vacuity of the conclusion: a message submitted at each end before the handshake has even
started; four rounds of the round-robin schedule (handshake included) carry both across. -/
example :
    let l := runLink (freshLink false false none none)
      ([.send .a [1, 2, 3], .send .b [9]] ++ (List.range 32).map roundRobin)
    l.b.fetched = [([1, 2, 3], 1232)] ∧ l.a.fetched = [([9], 1232)] := by
  decide

/-- **`C18_live_partial`** — the safety side used by `C18_live_holds`, kept as one statement: in every
state reachable from two fresh ends by any schedule, (1) every scheduler operation succeeds (except
`send` of an empty / over-long message), so a fair continuation is never cut short by an error;
(2) whenever a message is waiting to be sent, a `deliver`, a `fetch` or — at the latest `n` seconds
later — a `poll` does something; (3) what has been fetched so far is a prefix of what was
submitted. -/
theorem C18_live_partial (ra rb : Bool) (ga gb : Option Nat) (ops : List Op) (hw : WfSched ops) :
    let l := runLink (freshLink ra rb ga gb) ops
    (∀ op, (∃ l' o, l.step op = .ok (l', o)) ∨ (l.step op = .error .invalidArgument ∧ ∃ x m, op = .send x m)) ∧
    (∀ x, (l.get x).e.sdu ≠ [] →
      (∃ y, l.inq y ≠ []) ∨ (∃ y, 0 < (l.get y).e.s.recv.msgCt) ∨
      (∃ y n e' seg, (l.get y).e.processOutgoing (l.now + n) = .ok (e', seg) ∧ seg ≠ [])) ∧
    (∀ (y : Side) (k : Nat) (b : List Nat) (c : Nat), (l.get y).fetched[k]? = some (b, c) →
      ∃ full : List Nat, (l.get y.other).submitted[k]? = some full ∧ b = full.take c) :=
  ⟨never_refused ra rb ga gb ops hw, never_stuck ra rb ga gb ops hw, in_order_once_fresh ra rb ga gb ops hw⟩

/-! ## The connection idle timeout (30 s)

`btp.rs`: `Btp::wait_timeout` polls `Btp::timeout()` = `Session::is_timed_out(now, 30 s)`
(`send_window.sent_at + 30 s < now`; `sent_at` = instant of our last transmission or of the last
partial acknowledgement, `Instant::MAX` while nothing is outstanding) every 2 s; when it answers
`true` the GATT glue ends the session.  Model: `End.timeout`, the operation `TOp.timeout x` of the
timed link `TMon` (`Lemmas/BtpTimed.lean`): once it has fired the session is closed - the transport
operations `Poll` / `Deliver` are no longer executed; the applications may still `Send` / `Fetch`.

* Safety is unaffected: `in_order_once_timed`, `window_respected_timed`.
* Liveness becomes "delivered, or the session is closed by the idle timeout": `C18_live_timed`.
* Does it fire between two healthy ends?  Under a *timely* schedule (`TimelyFrom`: the clock
  advances only when nothing travels, nothing waits to be fetched and both pumps have run, and by
  at most 15 s at a time), from a `Timed` state (e.g. right after the handshake), window ≥ 2:
  **never** (`timeout_never_fires`, `never_closed`): the peer holds every unacknowledged segment
  for acknowledgement (`Tight`), its 15 s acknowledgement timer started no later than our 30 s
  idle timer (`TDir.t2`) and fires first; every stand-alone acknowledgement is a segment that
  must itself be acknowledged 15 s later, so the ping-pong keeps an established link alive for
  ever.  Hence `C18_live_timely`: under a fair AND timely schedule every submitted message is
  fetched and the session is never closed.
  This holds for the code WITH the fix `C18-handshake-response-never-acked` (`Session::setup`: the
  initiator counts the handshake response as a received, unacknowledged segment).  Before it the
  responder's handshake response was acknowledged only together with a later segment of the
  responder, `Tight` had a slack of one segment, and a responder that sent nothing for 30 s after
  the handshake closed a healthy session (`late_first_message_example`; `corpus/C18/idle-timeout.txt` case 3 on the real code). -/

theorem runT_link (tops : List TOp) : ∀ t : TMon, (runT t tops).l = runLink t.l (executed t tops) := by
  induction tops with
  | nil => intro t; rfl
  | cons o os ih =>
    intro t
    cases o with
    | op o =>
      simp only [runT, executed]
      by_cases hc : (t.closed && o.isTransport) = true
      · have hs : t.step (.op o) = t := by simp only [TMon.step, hc, if_true]
        rw [hs, ih]; simp only [hc, if_true]
      · simp only [hc, Bool.false_eq_true, if_false]
        rw [ih, runLink_cons]
        simp only [TMon.step, hc, Bool.false_eq_true, if_false]
    | timeout x =>
      simp only [runT, executed]
      rw [ih]
      simp only [TMon.step]
      split <;> rfl

theorem executed_sub (tops : List TOp) : ∀ t : TMon, ∀ o ∈ executed t tops, TOp.op o ∈ tops := by
  induction tops with
  | nil => intro t o h; cases h
  | cons o' os ih =>
    intro t o h
    cases o' with
    | op o2 =>
      simp only [executed] at h
      split at h
      · exact List.mem_cons_of_mem _ (ih _ o h)
      · rcases List.mem_cons.mp h with rfl | h
        · exact List.mem_cons_self
        · exact List.mem_cons_of_mem _ (ih _ o h)
    | timeout x =>
      simp only [executed] at h
      exact List.mem_cons_of_mem _ (ih _ o h)

def WfTSched (tops : List TOp) : Prop := ∀ o, TOp.op o ∈ tops → WfOp o

theorem executed_wf {tops : List TOp} (hw : WfTSched tops) (t : TMon) : WfSched (executed t tops) :=
  fun o h => hw o (executed_sub tops t o h)

theorem runT_append (a : List TOp) : ∀ (t : TMon) (b : List TOp), runT t (a ++ b) = runT (runT t a) b := by
  induction a with
  | nil => intro t b; rfl
  | cons o os ih => intro t b; simp only [List.cons_append, runT]; exact ih _ _

theorem step1_tick0 (l : LMon) : l.step1 (.tick 0) = l := rfl

/-- as long as the session is not closed, the timed run is the run of the projected schedule -/
theorem runT_open (f : Nat → TOp) (t : TMon) :
    ∀ n, (runT t ((List.range n).map f)).closed = false →
      (runT t ((List.range n).map f)).l = runF t.l (fun i => (f i).proj) n := by
  intro n
  induction n with
  | zero => intro _; rfl
  | succ n ih =>
    intro hc
    rw [List.range_succ, List.map_append, runT_append] at hc ⊢
    simp only [List.map_cons, List.map_nil, runT] at hc ⊢
    -- closed is monotone: the state before was open too
    have hprev : (runT t ((List.range n).map f)).closed = false := by
      cases hcl : (runT t ((List.range n).map f)).closed with
      | false => rfl
      | true =>
        exfalso
        have : ((runT t ((List.range n).map f)).step (f n)).closed = true := by
          cases f n with
          | op o => simp only [TMon.step]; split <;> exact hcl
          | timeout x => simp only [TMon.step]; split <;> first | rfl | exact hcl
        rw [this] at hc; cases hc
    have e := ih hprev
    show ((runT t ((List.range n).map f)).step (f n)).l = (runF t.l (fun i => (f i).proj) n).step1 ((f n).proj)
    rw [← e]
    cases hf : f n with
    | op o =>
      simp only [TMon.step, hprev, Bool.false_and, Bool.false_eq_true, if_false, TOp.proj]
    | timeout x =>
      rw [hf] at hc
      simp only [TMon.step] at hc ⊢
      split
      · rename_i h; simp only [h, if_true] at hc; cases hc
      · rfl

def freshT (ra rb : Bool) (ga gb : Option Nat) : TMon := { l := freshLink ra rb ga gb }

/-- **Safety with the idle timeout present** (`C18_full` for the timed link): from two fresh ends,
under every schedule of `Send | Poll | Deliver | Tick | Fetch` and timeout checks at both ends -
after the timeout of one end has fired the session is closed: the transport operations
(`Poll`, `Deliver`) are no longer executed, the applications may still `Send` / `Fetch` - what has
been fetched at one end is a prefix of what was submitted at the other, byte-identical, and the
windows are respected. ("Exactly once, in order - or the session fails cleanly": a closed session
delivers nothing that was not submitted and nothing twice.) -/
theorem in_order_once_timed (ra rb : Bool) (ga gb : Option Nat) (tops : List TOp) (hw : WfTSched tops)
    (y : Side) (k : Nat) (b : List Nat) (c : Nat)
    (hk : ((runT (freshT ra rb ga gb) tops).l.get y).fetched[k]? = some (b, c)) :
    ∃ full, ((runT (freshT ra rb ga gb) tops).l.get y.other).submitted[k]? = some full ∧ b = full.take c := by
  rw [runT_link] at hk ⊢
  exact in_order_once_fresh ra rb ga gb _ (executed_wf hw _) y k b c hk

theorem window_respected_timed (ra rb : Bool) (ga gb : Option Nat) (tops : List TOp) (hw : WfTSched tops)
    (hest : (runT (freshT ra rb ga gb) tops).l.a.e.s.established = true) (x : Side) :
    let l := (runT (freshT ra rb ga gb) tops).l
    (l.inq x.other).length ≤ (l.get x.other).e.s.recv.level ∧
    (l.inq x.other).length + (l.get x.other).e.s.recv.ackLevel ≤
      (l.get x).e.s.windowSize - (l.get x).e.s.send.level ∧
    (l.get x).e.s.windowSize - (l.get x).e.s.send.level ≤ (l.get x.other).e.s.windowSize := by
  rw [runT_link] at hest ⊢
  exact window_respected ra rb ga gb _ (executed_wf hw _) hest x

/-- **Liveness with the idle timeout present**: from two fresh ends, after any timed schedule
`tops`, for every message accepted by `send` at `x` and every continuation `f` whose projection
(timeout checks erased) is fair in the sense of `C18_live`: the message is eventually fetched at the
other end, **or the session is eventually closed by the idle timeout**.  (Without further
assumptions on the schedule the second case is real: a schedule that lets the clock run while
segments are in flight or messages unfetched; under timely schedules it is not: `C18_live_timely`.) -/
theorem C18_live_timed (ra rb : Bool) (ga gb : Option Nat) (tops : List TOp) (f : Nat → TOp)
    (hw : WfTSched tops) (hwf : ∀ i, WfOp (f i).proj)
    (hdel : ∀ y i, ∃ j ≥ i, (f j).proj = .deliver y)
    (htp : ∀ y i, ∃ j ≥ i, (f j).proj = .tick 15 ∧ (f (j + 1)).proj = .poll y)
    (hfet : ∀ y i, ∃ j ≥ i, (f j).proj = .fetch y 1232)
    (x : Side) (k : Nat) (hk : k < ((runT (freshT ra rb ga gb) tops).l.get x).submitted.length) :
    ∃ n, k < ((runT (freshT ra rb ga gb) (tops ++ (List.range n).map f)).l.get x.other).fetched.length ∨
      (runT (freshT ra rb ga gb) (tops ++ (List.range n).map f)).closed = true := by
  by_cases hc : ∃ n, (runT (freshT ra rb ga gb) (tops ++ (List.range n).map f)).closed = true
  · obtain ⟨n, hn⟩ := hc
    exact ⟨n, .inr hn⟩
  · have hopen : ∀ n, (runT (runT (freshT ra rb ga gb) tops) ((List.range n).map f)).closed = false := by
      intro n
      cases h : (runT (runT (freshT ra rb ga gb) tops) ((List.range n).map f)).closed with
      | false => rfl
      | true => exact absurd ⟨n, by rw [runT_append]; exact h⟩ hc
    have hlive := C18_live_holds ra rb ga gb (executed (freshT ra rb ga gb) tops) (fun i => (f i).proj)
      (executed_wf hw _) hwf hdel htp hfet x k (by rw [runT_link] at hk; exact hk)
    obtain ⟨n, hn⟩ := hlive
    refine ⟨n, .inl ?_⟩
    rw [runT_append, runT_open f _ n (hopen n), runT_link]
    rw [runLink_append, runLink_range] at hn
    exact hn


/-- **`timed_run`**: along every timely schedule from a synchronised state satisfying the time-stamp
invariant (window ≥ 2), the invariants are preserved. -/
theorem timed_run {W M : Nat} (hw2 : 2 ≤ W) (ops : List Op) : ∀ (l : LMon), Timed W M l → WfSched ops →
    TimelyFrom l ops → Timed W M (runLink l ops) := by
  induction ops with
  | nil => intro l h _ _; exact h
  | cons op ops ih =>
    intro l h hw ht
    rw [runLink_cons]
    exact ih _ (timed_step1 h hw2 (hw op List.mem_cons_self) ht.1)
      (fun o ho => hw o (List.mem_cons_of_mem _ ho)) ht.2

/-- **`timeout_never_fires`**: in every state reached by a timely schedule from a `Timed` state
(window ≥ 2) the idle timeout of either end (`Btp::timeout()`) answers `false`, however long the
link is idle: the peer's 15 s acknowledgement timer fires first. -/
theorem timeout_never_fires {W M : Nat} (hw2 : 2 ≤ W) (l0 : LMon) (h0 : Timed W M l0) (ops : List Op)
    (hw : WfSched ops) (ht : TimelyFrom l0 ops) (x : Side) :
    ((runLink l0 ops).get x).e.timeout (runLink l0 ops).now = false :=
  timeout_never (timed_run hw2 ops l0 h0 hw ht) x

/-- **`never_closed`** (timed link, whole run): start from an open timed link whose state satisfies
`Timed` (e.g. right after the handshake, `timed_after_handshake`) and run any schedule of
operations and timeout checks whose executed link operations are timely: the session is never
closed (and `Timed` still holds). -/
theorem never_closed {W M : Nat} (hw2 : 2 ≤ W) (tops : List TOp) : ∀ (t : TMon), t.closed = false →
    Timed W M t.l → WfTSched tops → TimelyFrom t.l (executed t tops) →
    (runT t tops).closed = false ∧ Timed W M (runT t tops).l := by
  induction tops with
  | nil => intro t hc ht _ _; exact ⟨hc, ht⟩
  | cons o os ih =>
    intro t hc ht hw htl
    have hw' : WfTSched os := fun o' ho => hw o' (List.mem_cons_of_mem _ ho)
    cases o with
    | op o =>
      have hstep : t.step (.op o) = { t with l := t.l.step1 o } := by
        simp only [TMon.step, hc, Bool.false_and, Bool.false_eq_true, if_false]
      simp only [executed, hc, Bool.false_and, Bool.false_eq_true, if_false] at htl
      rw [hstep] at htl
      have ht' : Timed W M (t.l.step1 o) := timed_step1 ht hw2 (hw o List.mem_cons_self) htl.1
      simp only [runT]
      rw [hstep]
      exact ih { t with l := t.l.step1 o } hc ht' hw' htl.2
    | timeout x =>
      have hf : (t.l.get x).e.timeout t.l.now = false := timeout_never ht x
      have hstep : t.step (.timeout x) = t := by simp only [TMon.step, hf, Bool.false_eq_true, if_false]
      simp only [executed] at htl
      rw [hstep] at htl
      simp only [runT]
      rw [hstep]
      exact ih t hc ht hw' htl

/-- **`C18_live_timely`** (liveness with the idle timeout present and no "or closed" disjunct): from
an open timed link in a `Timed` state (window ≥ 3), under every continuation `f` of operations and
timeout checks whose projection is fair (`C18_live`) and whose executed operations are timely, every
message accepted by `send` at `x` is eventually fetched at the other end, and the session is still
open then.  (Joint satisfiability of "fair" and "timely" for an infinite schedule depends on the
state - enough delivery / fetch / poll rounds before every tick - and is shown on finite prefixes
only: 40 periods of the fair schedule `timelyRR` (`timelyRR_fair`) from the handshake state; the
schedule `roundRobin` of the `C18_live` examples is fair but not timely.) -/
theorem C18_live_timely {W M : Nat} (hw3 : 3 ≤ W) (t : TMon) (hc : t.closed = false) (ht : Timed W M t.l)
    (f : Nat → TOp) (hwf : ∀ i, WfOp (f i).proj)
    (hdel : ∀ y i, ∃ j ≥ i, (f j).proj = .deliver y)
    (htp : ∀ y i, ∃ j ≥ i, (f j).proj = .tick 15 ∧ (f (j + 1)).proj = .poll y)
    (hfet : ∀ y i, ∃ j ≥ i, (f j).proj = .fetch y 1232)
    (htl : ∀ n, TimelyFrom t.l (executed t ((List.range n).map f)))
    (x : Side) (k : Nat) (hk : k < (t.l.get x).submitted.length) :
    ∃ n, k < ((runT t ((List.range n).map f)).l.get x.other).fetched.length ∧
      (runT t ((List.range n).map f)).closed = false := by
  have hwT : ∀ n, WfTSched ((List.range n).map f) := by
    intro n o ho
    obtain ⟨i, _, hi⟩ := List.mem_map.mp ho
    have := hwf i
    rw [hi] at this; exact this
  have hopen : ∀ n, (runT t ((List.range n).map f)).closed = false := fun n =>
    (never_closed (by omega) _ t hc ht (hwT n) (htl n)).1
  have hfair : Fair (fun i => (f i).proj) :=
    ⟨hwf, fun y i => by obtain ⟨j, h1, h2⟩ := hdel y i; exact ⟨j, h1, h2⟩,
      fun y i => by obtain ⟨j, h1, h2⟩ := htp y i; exact ⟨j, h1, h2⟩,
      fun y i => by obtain ⟨j, h1, h2⟩ := hfet y i; exact ⟨j, h1, h2⟩⟩
  obtain ⟨n, hn⟩ := sync_delivers hw3 x k (fun i => (f i).proj) t.l hfair ht.linv ht.sync hk
  refine ⟨n, ?_, hopen n⟩
  rw [runT_open f t n (hopen n)]
  exact hn

/-- the handshake between two fresh ends, whatever the GATT MTUs and negotiation modes, leads to the
explicit state `hsDone` -/
theorem handshake_run (ra rb : Bool) (ga gb : Option Nat) :
    runLink (freshLink ra rb ga gb) handshakeOps = hsDone ra rb ga gb := by
  show runLink (fresh2 ra rb ga gb) [.poll .a, .deliver .b, .poll .b, .deliver .a] = _
  rw [runLink_cons, step1_ok (hs_step1 ra rb ga gb), runLink_cons, step1_ok (hs_step2 ra rb ga gb),
    runLink_cons, step1_ok (hs_step3 ra rb ga gb), runLink_cons, step1_ok (hs_step4 ra rb ga gb)]
  rfl

/-- **`timed_after_handshake`** (non-vacuity of `Timed`, for EVERY configuration two rs-matter ends
can negotiate): the state right after an (instantaneous) handshake between two fresh ends - any
GATT MTUs, strict / relaxed negotiation - satisfies the representation, cross-end and time-stamp
invariants with the negotiated window and segment size. -/
theorem timed_after_handshake (ra rb : Bool) (ga gb : Option Nat) :
    Timed (negWin ga gb rb) (negMtu ga gb rb) (runLink (freshLink ra rb ga gb) handshakeOps) := by
  have hwf : WfSched handshakeOps := by
    intro op h; simp [handshakeOps] at h
    rcases h with rfl | rfl | rfl | rfl <;> trivial
  obtain ⟨hl, hp⟩ := phase_run ra rb ga gb handshakeOps hwf
  have hW := (negPar ga gb rb).w1
  rw [handshake_run] at hl hp ⊢
  have hest : (hsDone ra rb ga gb).a.e.s.established = true := rfl
  have hsync : Sync (negWin ga gb rb) (negMtu ga gb rb) (hsDone ra rb ga gb) := by
    cases hp with
    | p0 _ sa => rw [sa] at hest; cases hest
    | p1 _ sa => rw [sa] at hest; cases hest
    | p2 _ sa => rw [sa] at hest; cases hest
    | p3 _ h => rw [h.sa] at hest; cases hest
    | sync h => exact h
  refine ⟨hl, hsync, fun x => ?_⟩
  cases x
  · refine ⟨?_, ?_, ?_, ?_, ?_, ?_⟩
    · intro h; exact absurd h (Nat.lt_irrefl _)
    · intro h; cases h
    · intro r hr
      have : r = 0 := (Option.some.inj hr).symm
      omega
    · intro hne; exact absurd rfl hne
    · intro hal; exact absurd hal (Nat.lt_irrefl _)
    · intro s hs; cases hs
  · refine ⟨?_, ?_, ?_, ?_, ?_, ?_⟩
    · intro _; rfl
    · intro _; show negWin ga gb rb - 1 < negWin ga gb rb; omega
    · intro r hr; cases hr
    · intro hne; exact absurd rfl hne
    · intro _ r s hr hs
      have h1 : r = 0 := (Option.some.inj hr).symm
      have h2 : s = 0 := (Option.some.inj hs).symm
      omega
    · intro s hs
      have h2 : s = 0 := (Option.some.inj hs).symm
      show 0 ≤ _; omega

/-- a timely schedule after the handshake: one message `a → b`, then three rounds of the
acknowledgement ping-pong, the clock advancing by 15 s only when everything has settled -/
def pingPongOps : List Op :=
  [.send .a [1, 2, 3], .poll .a, .deliver .b, .fetch .b 100, .poll .b, .poll .a,
   .tick 15, .poll .b, .deliver .a, .poll .a, .poll .b,
   .tick 15, .poll .a, .deliver .b, .poll .b, .poll .a,
   .tick 15, .poll .b, .deliver .a, .poll .a, .poll .b,
   .tick 14, .poll .a, .poll .b]

/-- Non-vacuity of `TimelyFrom` / `timeout_never_fires`: `pingPongOps` is timely; the clock reaches
59 s, three stand-alone acknowledgements have crossed, `b`'s idle timer (last restarted at 45 s) runs,
and neither timeout fires. -/
example :
    TimelyFrom (runLink (freshLink false false none none) handshakeOps) pingPongOps ∧
    (runLink (freshLink false false none none) (handshakeOps ++ pingPongOps)).now = 59 ∧
    (runLink (freshLink false false none none) (handshakeOps ++ pingPongOps)).b.fetched = [([1, 2, 3], 100)] ∧
    (runLink (freshLink false false none none) (handshakeOps ++ pingPongOps)).b.e.s.send.sentAt = some 45 ∧
    (runLink (freshLink false false none none) (handshakeOps ++ pingPongOps)).a.e.timeout 59 = false ∧
    (runLink (freshLink false false none none) (handshakeOps ++ pingPongOps)).b.e.timeout 59 = false :=
  ⟨timely_of_B _ _ (by decide), by decide, by decide, by decide, by decide, by decide⟩

/-- nothing is submitted for 20 s after the handshake: the initiator's stand-alone acknowledgement
of the handshake response goes out when its 15 s timer fires; then the first message -/
def lateOps1 : List Op :=
  [.tick 15, .poll .a, .deliver .b, .poll .b, .poll .a, .tick 5,
   .send .a [1, 2, 3], .poll .a, .deliver .b, .fetch .b 100, .poll .b, .poll .a, .tick 11]

def lateOps2 : List Op := [.send .a [4, 5], .poll .a, .deliver .b, .fetch .b 100]

/-- handshake (4 operations), `lateOps1`, the timeout tasks of both ends, `lateOps2` -/
def lateTops : List TOp :=
  (handshakeOps ++ lateOps1).map TOp.op ++ [.timeout .a, .timeout .b] ++ lateOps2.map TOp.op

/-- **`late_first_message_example`** (the former `idle_close_example`: on the code before the fix
`C18-handshake-response-never-acked` this history closed the session at 31 s - the responder's
handshake response, sent at 0 s, was never acknowledged - and the second message was accepted by
`send` and never delivered; `corpus/C18/idle-timeout.txt` case 3).  Now: the initiator acknowledges
the handshake response when its 15 s timer fires, the responder's idle timer stops, the first
message (submitted at 20 s) and the second (at 31 s) are delivered, no timeout fires.  The schedule
is timely. -/
theorem late_first_message_example :
    (runT (freshT false false none none) lateTops).closed = false ∧
    (runT (freshT false false none none) lateTops).l.b.fetched = [([1, 2, 3], 100), ([4, 5], 100)] ∧
    (runT (freshT false false none none) lateTops).l.a.submitted = [[1, 2, 3], [4, 5]] ∧
    (runT (freshT false false none none) lateTops).l.now = 31 ∧
    TimelyFrom (runLink (freshLink false false none none) handshakeOps) lateOps1 :=
  ⟨by decide, by decide, by decide, by decide, timely_of_B _ _ (by decide)⟩

/-- one round in which everything that can move does: both pumps, both queues, both applications -/
def settleOps : List Op := [.poll .a, .deliver .b, .poll .b, .deliver .a, .fetch .a 1232, .fetch .b 1232]

/-- one period (28 operations) of the fair AND timely schedule: the 15 s timer fires and `a`'s pump
runs, two settle rounds, the timer fires and `b`'s pump runs, two settle rounds -/
def timelyPeriod : List Op :=
  [.tick 15, .poll .a] ++ settleOps ++ settleOps ++ [.tick 15, .poll .b] ++ settleOps ++ settleOps

/-- its infinite repetition -/
def timelyRR (i : Nat) : Op := timelyPeriod.getD (i % 28) (.tick 0)

def notSend : Op → Bool
  | .send _ _ => false
  | _ => true

theorem wf_of_notSend {o : Op} (h : notSend o = true) : WfOp o := by
  cases o <;> first | trivial | cases h

theorem timelyRR_fair : Fair timelyRR := by
  have key : ∀ (i c : Nat), c < 28 → timelyRR (28 * i + c) = timelyRR c := by
    intro i c hc
    simp only [timelyRR, Nat.mul_add_mod, Nat.mod_eq_of_lt hc]
  refine ⟨?_, ?_, ?_, ?_⟩
  · intro i
    have h : ∀ c, c < 28 → notSend (timelyPeriod.getD c (.tick 0)) = true := by decide
    exact wf_of_notSend (h _ (Nat.mod_lt _ (by omega)))
  · intro y i
    cases y
    · exact ⟨28 * i + 5, by omega, (key i 5 (by omega)).trans rfl⟩
    · exact ⟨28 * i + 3, by omega, (key i 3 (by omega)).trans rfl⟩
  · intro y i
    cases y
    · exact ⟨28 * i + 0, by omega, (key i 0 (by omega)).trans rfl, (key i 1 (by omega)).trans rfl⟩
    · exact ⟨28 * i + 14, by omega, (key i 14 (by omega)).trans rfl, (key i 15 (by omega)).trans rfl⟩
  · intro y i
    cases y
    · exact ⟨28 * i + 6, by omega, (key i 6 (by omega)).trans rfl⟩
    · exact ⟨28 * i + 7, by omega, (key i 7 (by omega)).trans rfl⟩

/-- the first `28 n` operations of `timelyRR` are `n` periods -/
example : (List.range 56).map timelyRR = timelyPeriod ++ timelyPeriod := by decide

set_option maxRecDepth 100000 in
/-- **`Fair` and `TimelyFrom` are jointly satisfiable**, as far as shown: the first 40 periods
(1200 s of model time, 80 stand-alone acknowledgements) of the fair schedule `timelyRR`, run from the
state right after the handshake, are timely - the link is quiescent at every `tick`, the
acknowledgement ping-pong settles within the two settle rounds. Timeliness of the INFINITE
repetition (a periodicity argument on the state up to sequence numbers and clock) is not proved:
finite prefixes only. -/
example : TimelyFrom (runLink (freshLink false false none none) handshakeOps) ((List.range (28 * 40)).map timelyRR) :=
  timely_of_B _ _ (by decide)

/-- `roundRobin` (the fair schedule of the `C18_live` examples) is fair but NOT timely: its second
`tick 15` comes while the acknowledgement emitted by `poll a` is still in flight -/
example : timelyB (runLink (freshLink false false none none) handshakeOps) ((List.range 16).map roundRobin) = false := by
  decide

/-- **Windows 1 and 2 never come to rest** (only with a peer that asks for such a window; two
rs-matter ends negotiate ≥ 6): `is_ack_due` is true whenever `recv.level ≤ 1`, which with a window
of 1 or 2 holds after EVERY accepted segment, stand-alone acknowledgements included - the two ends
exchange stand-alone acknowledgements endlessly at zero elapsed time (6 poll / deliver rounds without
a tick: sequence numbers 5 / 6, clock 0, never `Quiescent`), whereas window 3 stays quiet. So
`TimelyFrom` admits no `tick` at all from these states: `timeout_never_fires` / `never_closed`
(stated for window ≥ 2) have time content only for window ≥ 3. -/
def pingRound : List Op := [.poll .a, .deliver .b, .poll .b, .deliver .a]

example :
    (runLink (smallWindowLink 1) (pingRound ++ pingRound ++ pingRound ++ pingRound ++ pingRound ++ pingRound)).a.e.s.send.lastSent = 5 ∧
    (runLink (smallWindowLink 2) (pingRound ++ pingRound ++ pingRound ++ pingRound ++ pingRound ++ pingRound)).b.e.s.send.lastSent = 6 ∧
    (runLink (smallWindowLink 2) (pingRound ++ pingRound ++ pingRound ++ pingRound ++ pingRound ++ pingRound)).now = 0 ∧
    quiescentB (runLink (smallWindowLink 1) (pingRound ++ pingRound ++ pingRound ++ pingRound ++ pingRound ++ pingRound)) = false ∧
    quiescentB (runLink (smallWindowLink 2) (pingRound ++ pingRound ++ pingRound ++ pingRound ++ pingRound ++ pingRound)) = false ∧
    (runLink (smallWindowLink 3) (pingRound ++ pingRound ++ pingRound ++ pingRound ++ pingRound ++ pingRound)).a.e.s.send.lastSent = 255 ∧
    quiescentB (runLink (smallWindowLink 3) (pingRound ++ pingRound ++ pingRound ++ pingRound ++ pingRound ++ pingRound)) = true := by
  decide

/-! ## The ring buffer: the real (checked) index arithmetic never panics and refines the byte queue of the session model -/

/-- **`RingBuf<N>` (model of the real `start` / `end` / `non_empty` arithmetic of
`utils/storage/ringbuf.rs`, `Model/BtpRing.lean`, with a panic outcome at every `usize` `-` / `+`,
index, slice range and `copy_from_slice`) refines the bounded byte FIFO — and never panics**: for
every capacity `0 < N ≤ 2^63` and every sequence of `push` (any length, dropping the oldest bytes on
overflow) / `pop` / `push_byte` / `pop_byte` / `clear`, every call returns normally (`.ok`), the bytes
handed out and `len`, `free`, `is_full`, `is_empty` are those of the byte queue, however often the
indices wrap. `RingOp.Wf` (slice lengths `< 2^64`) is what the Rust type system guarantees of any
`&[u8]`; `2 * N ≤ 2^64` holds for every array type (`[u8; N]` is at most `isize::MAX` bytes). -/
theorem ringbuf_refines_queue (n : Nat) (hn : 0 < n) (hs : 2 * n ≤ USIZE) (ops : List RingOp)
    (hw : ∀ op ∈ ops, op.Wf) :
    Ring.run (Ring.new n) ops = .ok (Ring.qRun n [] ops) :=
  Ring.ring_refines_queue n hn hs ops hw

/-- **No run of the ring buffer panics or hangs** (corollary of `ringbuf_refines_queue`, stated on
its own): no arithmetic overflow, no index / slice-range panic, no `copy_from_slice` length
mismatch, no endless loop, for any operation list from `RingBuf::<N>::new()`. -/
theorem ring_never_panics (n : Nat) (hn : 0 < n) (hs : 2 * n ≤ USIZE) (ops : List RingOp)
    (hw : ∀ op ∈ ops, op.Wf) (e : RingFail) : Ring.run (Ring.new n) ops ≠ .error e := by
  rw [ringbuf_refines_queue n hn hs ops hw]; intro h; cases h

/-- … and per call: on every ring reachable from `RingBuf::<N>::new()` each public method, with any
data / any output buffer length, and each observer returns normally. -/
theorem ring_op_never_panics (n : Nat) (hn : 0 < n) (hs : 2 * n ≤ USIZE) (r : Ring) (h : Ring.Reach n r) :
    (∀ d, d.length < USIZE → ∃ r2 l, r.push d = .ok (r2, l)) ∧
    (∀ k, k < USIZE → ∃ r2 out, r.pop k = .ok (r2, out)) ∧
    (∀ b, ∃ r2 l, r.pushByte b = .ok (r2, l)) ∧
    (∃ r2 o, r.popByte = .ok (r2, o)) ∧
    (∃ l, r.len = .ok l) ∧ (∃ f, r.free = .ok f) ∧
    (∀ op, op.Wf → ∃ r2 o, r.step op = .ok (r2, o)) :=
  Ring.ring_never_panics hn hs h

/-- Non-vacuity of the hypotheses of `ringbuf_refines_queue` / `ring_never_panics` /
`ring_op_never_panics`: capacity 4, an overflowing push and an over-long pop are well-formed
operations, and the ring after them (indices wrapped) is reachable. -/
example : (0 < 4 ∧ 2 * 4 ≤ USIZE) ∧ (∀ op ∈ [RingOp.push [1, 2, 3, 4, 5, 6], .pop 9, .pushByte 7], op.Wf) := by
  refine ⟨by unfold USIZE; omega, ?_⟩
  intro op h
  simp only [List.mem_cons, List.not_mem_nil, or_false] at h
  rcases h with rfl | rfl | rfl <;> simp [RingOp.Wf, USIZE]

example : Ring.Reach 4 { n := 4, buf := [5, 6, 3, 4], start := 1, end_ := 2, nonEmpty := true } :=
  have h1 : Ring.Reach 4 { n := 4, buf := [5, 6, 3, 4], start := 2, end_ := 2, nonEmpty := true } :=
    Ring.Reach.step (o := ⟨[], 4, 0, true, false⟩) (.push [1, 2, 3, 4, 5, 6]) Ring.Reach.new
      (by simp [RingOp.Wf, USIZE]) rfl
  Ring.Reach.step (o := ⟨[3, 4, 5], 1, 3, false, false⟩) (.pop 3) h1 (by simp [RingOp.Wf, USIZE]) rfl

/-- the capacity BTP uses (`RingBuf<MAX_MESSAGE_SIZE>`, a constant: session.rs:184/191) satisfies
the hypotheses of the ring theorems -/
theorem session_ring_capacity : 0 < maxMessageSize ∧ 2 * maxMessageSize ≤ USIZE := by
  rw [maxMessageSize_eq]; unfold USIZE; omega

/-- `N = 0` (not used by BTP) is outside the theorems, and really misbehaves: `push_byte` panics
(index 0 of an empty `Vec`), `push` of a non-empty slice neither panics nor returns (each
iteration copies 0 bytes), everything else works on the always-empty ring. -/
theorem ring_zero_capacity (b : Nat) (d : List Nat) (hd : d ≠ []) :
    (Ring.new 0).pushByte b = .error (.panic "push_byte: buf[end]") ∧
    (Ring.new 0).push d = .error .hang ∧
    (Ring.new 0).push [] = .ok (Ring.new 0, 0) ∧ (Ring.new 0).free = .ok 0 :=
  ⟨Ring.zero_cap_pushByte_panics b, Ring.zero_cap_push_hangs d hd, rfl, rfl⟩

/-- the byte-list ring of the session model (`Model/Btp.lean`) *is* that byte queue with
`N = MAX_MESSAGE_SIZE` … -/
theorem session_ring_is_queue (buf data : List Nat) :
    ringPush buf data = qPush maxMessageSize buf data ∧ ringFree buf = maxMessageSize - buf.length :=
  ⟨rfl, rfl⟩

/-- … so a real `RingBuf<MAX_MESSAGE_SIZE>` that represents the session's byte list `buf` behaves
exactly as the session model assumes, **without panicking**: `push` gives `ringPush` (and returns
its length), `free()` gives `ringFree`, `len()` the length, `pop(k)` hands out `buf.take k` and leaves
`buf.drop k`, `pop_byte()` hands out the first byte (if any), `clear()` empties it. Per operation;
the lift to whole sequences of `RecvWindow` buffer operations is `session_buffer_on_ring` below. -/
theorem session_ring_ops (r : Ring) (buf : List Nat) (h : Ring.Rep maxMessageSize r buf)
    (data : List Nat) (hd : data.length < USIZE) (k : Nat) (hk : k < USIZE) :
    (∃ r2, r.push data = .ok (r2, (ringPush buf data).length) ∧ Ring.Rep maxMessageSize r2 (ringPush buf data)) ∧
    r.free = .ok (ringFree buf) ∧ r.len = .ok buf.length ∧
    (∃ r2, r.pop k = .ok (r2, buf.take k) ∧ Ring.Rep maxMessageSize r2 (buf.drop k)) ∧
    (∃ r2, r.popByte = .ok (r2, buf.head?) ∧ Ring.Rep maxMessageSize r2 (buf.drop 1)) ∧
    Ring.Rep maxMessageSize r.clear [] := by
  obtain ⟨hi, hn, hq⟩ := h
  obtain ⟨r2, a, b, c, d⟩ := Ring.push_spec hi data hd
  obtain ⟨r3, e, f, g, i⟩ := Ring.pop_spec hi k hk
  obtain ⟨r4, j, l, m, o⟩ := Ring.popByte_spec hi
  obtain ⟨p, q, s⟩ := Ring.clear_spec hi
  have hd2 : r2.contents = ringPush buf data := by rw [d, hn, hq]; rfl
  refine ⟨⟨r2, ?_, b, c.trans hn, hd2⟩, ?_, ?_, ⟨r3, by rw [e, hq], f, g.trans hn, by rw [i, hq]⟩,
    ⟨r4, by rw [j, hq], l, m.trans hn, by rw [o, hq]⟩, ⟨p, q.trans hn, s⟩⟩
  · rw [a, ← hd2, Ring.contents_length]
  · rw [Ring.free_ok hi]; unfold ringFree; rw [hn, ← hq, Ring.contents_length]
  · rw [Ring.len_ok hi, ← hq, Ring.contents_length]

/-- Non-vacuity of `session_ring_ops`: the fresh ring represents the empty byte list. -/
example : Ring.Rep maxMessageSize (Ring.new maxMessageSize) [] :=
  Ring.rep_new _ session_ring_capacity.1 session_ring_capacity.2

/-- Non-vacuity / a wrap-around sample: capacity 4, push 3, pop 2, push 3 (wraps, ring full), pop 4. -/
example : Ring.run (Ring.new 4) [.push [1, 2, 3], .pop 2, .push [4, 5, 6], .pop 4] =
    .ok [⟨[], 3, 1, false, false⟩, ⟨[1, 2], 1, 3, false, false⟩, ⟨[], 4, 0, true, false⟩,
     ⟨[3, 4, 5, 6], 0, 4, false, true⟩] := rfl

/-- an over-long push (9 bytes into capacity 4) keeps the newest 4 bytes and does not panic; a pop of
more than is available (7 > 4) hands out what is there; then byte-wise operations across the wrap,
`clear`, and `pop_byte` on the empty ring. -/
example : Ring.run (Ring.new 4) [.push [1, 2, 3, 4, 5, 6, 7, 8, 9], .pop 7, .pushByte 1, .pushByte 2,
      .push [3, 4, 5], .popByte, .clear, .popByte, .pop 0, .push []] =
    .ok [⟨[], 4, 0, true, false⟩, ⟨[6, 7, 8, 9], 0, 4, false, true⟩, ⟨[], 1, 3, false, false⟩,
      ⟨[], 2, 2, false, false⟩, ⟨[], 4, 0, true, false⟩, ⟨[2], 3, 1, false, false⟩,
      ⟨[], 0, 4, false, true⟩, ⟨[], 0, 4, false, true⟩, ⟨[], 0, 4, false, true⟩,
      ⟨[], 0, 4, false, true⟩] := rfl

/-- the panic outcome is live in the model (the theorems are not vacuous because the model could
never fail): a ring whose indices violate the invariant panics — `end = 5` in a 4-byte storage:
`buf.len() - end` underflows — and so does `RingBuf<0>::push_byte`. -/
example : ({ n := 4, buf := [0, 0, 0, 0], start := 0, end_ := 5, nonEmpty := true } : Ring).push [1] =
    .error (.panic "push: buf.len() - end") := rfl
/-- (contrast: a ring satisfying the invariant - a pop across the wrap - answers `.ok`) -/
example : ({ n := 4, buf := [0, 0, 0, 0], start := 3, end_ := 1, nonEmpty := true } : Ring).pop 3 =
    .ok ({ n := 4, buf := [0, 0, 0, 0], start := 1, end_ := 1, nonEmpty := false }, [0, 0]) := rfl
/-- a storage shorter than the indices assume: the slice range panics -/
example : ({ n := 4, buf := [0, 0], start := 0, end_ := 3, nonEmpty := true } : Ring).pop 3 =
    .error (.panic "pop: buf[start..start + len]") := rfl
example : Ring.run (Ring.new 0) [.pop 3, .pushByte 1] = .error (.panic "push_byte: buf[end]") := rfl
example : Ring.run (Ring.new 0) [.push [1]] = .error .hang := rfl

/-! ### The receive window's buffer calls, as a whole run, over the checked ring -/

/-- **The session's receive buffer, run over the real ring** (lifts `session_ring_ops` from one
operation to whole histories): take any sequence of the buffer calls `RecvWindow` makes —
`accept`: `accept_incoming`'s `if self.buf.free() < prefix_len + payload.len() { Err }`, optional
`push` of the two length bytes, `push(payload)` (session.rs:300-310); `fetch cap`:
`fetch_message`'s two `pop_byte()`, `pop(&mut buf[..min(len, cap)])`, and `pop_byte()` for the
truncated rest (session.rs:417-436); `reset`: `clear()`. Whenever the byte LIST of the session model
can run the sequence (`qBufRun` with `N = MAX_MESSAGE_SIZE`, i.e. `ringFree` / `ringPush` /
`lo :: hi :: rest`, `rest.take`, `rest.drop` exactly as in `Model/Btp.lean`, see
`recv_accept_is_bufop`, `recv_fetch_is_bufop`), the checked `RingBuf<3166>` started from `new()` never
panics and answers the same (refused / accepted / the fetched bytes). The session model itself
still keeps the `List`; this theorem is what justifies it. -/
theorem session_buffer_on_ring (ops : List BufOp) (hw : ∀ op ∈ ops, op.Wf) (outs : List BufOut)
    (hq : qBufRun maxMessageSize [] ops = some outs) :
    Ring.bufRun (Ring.new maxMessageSize) ops = .ok (some outs) :=
  Ring.bufRun_refines maxMessageSize session_ring_capacity.1 session_ring_capacity.2 ops hw outs hq

/-- the prefix argument of the buffer operation that `accept_incoming` performs for a segment -/
def pfxOf (begun : Option Nat) : Option (List Nat) :=
  if sduPrefix begun = [] then none else some (sduPrefix begun)

theorem pfxOf_getD (begun : Option Nat) : (pfxOf begun).getD [] = sduPrefix begun := by
  unfold pfxOf; split <;> simp [*]

theorem recv_accept_is_bufop {r r2 : RecvWindow} {h : Hdr} {p : List Nat} {mtu now : Nat}
    (hok : r.acceptIncoming h p mtu now = .ok r2) :
    qBufStep maxMessageSize r.buf (.accept (pfxOf h.getMsgLen) p) = some (r2.buf, .accepted) := by
  obtain ⟨_, _, _, _, _, _, _, hfree, hc⟩ := acceptIncoming_inv hok
  obtain ⟨hb, _⟩ := commit_inv hc
  have : ¬ maxMessageSize - r.buf.length < (sduPrefix h.getMsgLen).length + p.length := by
    unfold ringFree at hfree; omega
  simp only [qBufStep, pfxOf_getD, this, if_false, hb]
  rfl

theorem recv_fetch_is_bufop {r r2 : RecvWindow} {cap : Nat} {out : List Nat}
    (hok : r.fetchMessage cap = .ok (r2, some out)) :
    qBufStep maxMessageSize r.buf (.fetch cap) = some (r2.buf, .fetched out) := by
  unfold RecvWindow.fetchMessage at hok
  split at hok
  · cases hok
  · split at hok
    · rename_i lo hi rest hbuf
      simp only at hok
      split at hok
      · cases hok
      · split at hok
        · cases hok
        · rename_i h1 h2
          split at hok
          · cases hok
          · cases hok
            simp only [hbuf, qBufStep]
            rw [if_pos (by omega)]
    · cases hok


/-- Non-vacuity of `session_buffer_on_ring`: two segments of one 5-byte message (length prefix
`05 00`), a refusal-free run, a truncating fetch (`cap = 3`: 3 bytes handed out, 2 drained with
`pop_byte`), then an empty message list again. -/
example : qBufRun maxMessageSize [] [.accept (some [5, 0]) [1, 2, 3], .accept none [4, 5], .fetch 3, .reset] =
    some [.accepted, .accepted, .fetched [1, 2, 3], .cleared] := by decide
example : ∀ op ∈ [BufOp.accept (some [5, 0]) [1, 2, 3], .accept none [4, 5], .fetch 3, .reset], op.Wf := by
  intro op h
  simp only [List.mem_cons, List.not_mem_nil, or_false] at h
  rcases h with rfl | rfl | rfl | rfl <;> simp [BufOp.Wf, USIZE]
example : Ring.bufRun (Ring.new 8) [.accept (some [5, 0]) [1, 2, 3], .accept none [4, 5], .accept none [6, 7],
      .fetch 3, .accept (some [2, 0]) [8, 9], .fetch 9] =
    .ok (some [.accepted, .accepted, .refused, .fetched [1, 2, 3], .accepted, .fetched [8, 9]]) := rfl

/-! ## The full statement -/

/-- The full safety statement of the property on the model: from two fresh ends, under every
schedule, (1) no operation fails — in particular no `Deliver` is refused — except `Send` refusing
an empty / over-long message, (2) what is fetched at one end is a prefix of what was submitted at
the other end, (3) once both ends are established an end never has more segments in flight than
the peer's receive window has free slots, and never more unacknowledged segments than the window. -/
def C18_full : Prop :=
  ∀ (ra rb : Bool) (ga gb : Option Nat) (ops : List Op), WfSched ops →
    (∀ op, WfOp op → ∀ e, (runLink (freshLink ra rb ga gb) ops).step op ≠ .error e ∨
        e = .invalidArgument) ∧
    (∀ (y : Side) (k : Nat) (b : List Nat) (c : Nat),
        ((runLink (freshLink ra rb ga gb) ops).get y).fetched[k]? = some (b, c) →
        ∃ full, ((runLink (freshLink ra rb ga gb) ops).get y.other).submitted[k]? = some full ∧
          b = full.take c) ∧
    ((runLink (freshLink ra rb ga gb) ops).a.e.s.established = true → ∀ x : Side,
        ((runLink (freshLink ra rb ga gb) ops).inq x.other).length ≤
          ((runLink (freshLink ra rb ga gb) ops).get x.other).e.s.recv.level ∧
        ((runLink (freshLink ra rb ga gb) ops).get x).e.s.windowSize -
          ((runLink (freshLink ra rb ga gb) ops).get x).e.s.send.level ≤
          ((runLink (freshLink ra rb ga gb) ops).get x.other).e.s.windowSize)

/-- **`C18_full` holds.** -/
theorem C18_full_holds : C18_full := by
  intro ra rb ga gb ops hw
  refine ⟨?_, in_order_once_fresh ra rb ga gb ops hw, ?_⟩
  · intro op _ e
    rcases never_refused ra rb ga gb ops hw op with ⟨l', o, h⟩ | ⟨h, _⟩
    · left; rw [h]; intro h2; cases h2
    · by_cases he : e = .invalidArgument
      · right; exact he
      · left; rw [h]; intro h2; exact he (Except.error.inj h2).symm
  · intro hest x
    have := window_respected ra rb ga gb ops hw hest x
    exact ⟨this.1, this.2.2⟩

end C18
