//! C02: PASE admits only a peer that knows the passcode, only while a window is open.
//!
//! One case = a real device `Matter` with the real `SecureChannel` responder and a real controller
//! `Matter` (transport only) on the simulated network with virtual time. A script plays the PASE
//! initiator message by message with the real `Spake2P` prover, so that between any two messages
//! it can open / revoke the window, let time pass, run a second initiator, send a wrong passcode,
//! an invalid share, a mutated or replayed confirmation.
//!
//! `case <id> pw=<device passcode>`
//! ops: `open t=<secs>` | `revoke` | `tick ms=<n>` | `poll`
//!      `pbkdf i=<k> [req=good|malformed|pid]`            first message of initiator k (new exchange)
//!      `pake1 i=<k> pw=<n> [pt=valid|zero|offcurve|short]`
//!      `pake3 i=<k> [ca=good|flip|zero|short|replay:<j>]`   (replay: the cA initiator j computed)
//!      `abort i=<k>`                                       status report InvalidParameter instead of the next message
//! `case <id> pw=<n> tamper=<k>:<bit>`: additionally exactly one bit of the *payload* (the TLV handshake
//!      message behind the two headers) of the k-th payload-carrying datagram towards the device - or of the
//!      PBKDFParamResponse - is flipped in flight (bit index modulo the payload length); such cases are checked
//!      by the oracle only (no session may result).
//! every answer: `t=<virtual ms at the op> <reply> | w=<0|1> f=<failures|-> m=<0|1> s=<PASE sessions> adv=<0|1>`
use crate::proto::{parse_cases, Case, Out};
use crate::rng::Rng;
use crate::simnet::{addr_of, now_ms, run_sim, Perfect, SimEnd, SimNet};
use crate::Args;

use std::cell::RefCell;
use std::collections::HashMap;

use embassy_futures::select::{select, select4, Either};
use embassy_time::{Duration, Timer};

use rs_matter::crypto::{test_only_crypto, Crypto, EC_POINT_ZEROED, HMAC_HASH_ZEROED};
use rs_matter::dm::devices::test::{TEST_DEV_ATT, TEST_DEV_DET};
use rs_matter::error::{Error, ErrorCode};
use rs_matter::respond::Responder;
use rs_matter::sc::pase::verif_spake2p::{ProverContext, Spake2P};
use rs_matter::sc::pase::{verif_parse_pbkdf_resp, verif_parse_pake2, Spake2pVerifierPassword, Spake2pVerifierPasswordRef};
use rs_matter::sc::{sc_write, OpCode, SCStatusCodes, SecureChannel, StatusReport, PROTO_ID_SECURE_CHANNEL};
use rs_matter::tlv::{OctetStr, TLVTag, TLVWrite, ToTLV};
use rs_matter::transport::exchange::{Exchange, MessageMeta};
use rs_matter::transport::network::NoNetwork;
use rs_matter::transport::session::SessionMode;
use rs_matter::transport::packet::PacketHdr;
use rs_matter::utils::storage::{ParseBuf, ReadBuf};
use rs_matter::transport::network::MatterLocalService;
use rs_matter::BasicCommData;
use rs_matter::Matter;

const REPLY_WAIT_MS: u64 = 1500;

fn kv(op: &str) -> HashMap<String, String> {
    let mut m = HashMap::new();
    for w in op.split_whitespace() {
        if let Some((k, v)) = w.split_once('=') {
            m.insert(k.to_string(), v.to_string());
        }
    }
    m
}

fn num(m: &HashMap<String, String>, k: &str) -> u64 {
    m.get(k).and_then(|v| v.parse().ok()).unwrap_or(0)
}

struct Init<'a> {
    ex: Option<Exchange<'a>>,
    spake: Spake2P,
    req: Vec<u8>,
    local_sessid: u16,
    salt: Vec<u8>,
    iterations: u32,
    pa: Vec<u8>,
    prover: Option<ProverContext>,
    pb: Vec<u8>,
    cb: Vec<u8>,
    ca: Option<Vec<u8>>,
}

fn observe(device: &Matter) -> String {
    let (w, f, m) = device.with_state(|st| st.verif_pase().verif_state());
    let sessions = device.with_state(|st| {
        st.verif_sessions_mut().iter().filter(|s| matches!(s.get_session_mode(), SessionMode::Pase { .. })).count()
    });
    let mut adv = 0;
    let _ = device.mdns_services(|s| {
        if matches!(s, MatterLocalService::Commissionable { .. }) {
            adv += 1;
        }
        Ok(())
    });
    format!(
        "w={} f={} m={} s={} adv={}",
        w as u8,
        f.map(|x| x.to_string()).unwrap_or("-".into()),
        m as u8,
        sessions,
        adv
    )
}

/// wait for the next message on the exchange (or silence)
async fn reply(ex: &mut Exchange<'_>) -> Result<(u8, Vec<u8>), String> {
    let r = {
        let rx = core::pin::pin!(ex.recv());
        let to = core::pin::pin!(Timer::after(Duration::from_millis(REPLY_WAIT_MS)));
        match select(rx, to).await {
            Either::First(Ok(rx)) => Ok((rx.meta().proto_opcode, rx.payload().to_vec())),
            Either::First(Err(e)) => Err(format!("exch-err:{:?}", e.code())),
            Either::Second(_) => Err("silent".to_string()),
        }
    };
    r
}

fn describe(op: u8, payload: &[u8]) -> String {
    if op == OpCode::StatusReport as u8 {
        let mut rb = ReadBuf::new(payload);
        match StatusReport::read(&mut rb) {
            Ok(s) => format!("status:{}", s.proto_code),
            Err(_) => "status:?".into(),
        }
    } else if op == OpCode::PBKDFParamResponse as u8 {
        "pbkdfresp".into()
    } else if op == OpCode::PASEPake2 as u8 {
        "pake2".into()
    } else {
        format!("op:{:02x}", op)
    }
}

async fn run_script<'a, C: Crypto>(device: &'a Matter<'a>, ctrl: &'a Matter<'a>, crypto: &'a C, ops: &[String], outs: &RefCell<Vec<String>>, notes: &RefCell<Vec<String>>) -> Result<(), Error> {
    let mut inits: HashMap<u64, Init<'a>> = HashMap::new();
    for op in ops {
        let m = kv(op);
        let t0 = now_ms();
        let head = op.split_whitespace().next().unwrap_or("");
        let res: String = match head {
            "open" => match device.open_basic_comm_window(num(&m, "t") as u16, crypto, &()) {
                Ok(()) => "ok".into(),
                Err(e) => format!("err:{:?}", e.code()),
            },
            "revoke" => match device.close_comm_window(&()) {
                Ok(_) => "ok".into(),
                Err(e) => format!("err:{:?}", e.code()),
            },
            "tick" => {
                Timer::after(Duration::from_millis(num(&m, "ms"))).await;
                "-".into()
            }
            "poll" => {
                let _ = device.with_state(|st| st.verif_pase().check_comm_window_timeout(|| {}, |_, _| {}));
                "-".into()
            }
            "pbkdf" => {
                let k = num(&m, "i");
                let mut ex = Exchange::initiate_plaintext(ctrl, crypto, addr_of(0)).await?;
                let local_sessid = 100 + k as u16;
                let kind = m.get("req").cloned().unwrap_or("good".into());
                let mut rnd = [0u8; 32];
                for (i, b) in rnd.iter_mut().enumerate() {
                    *b = (k as u8).wrapping_mul(31).wrapping_add(i as u8);
                }
                let mut req: Vec<u8> = Vec::new();
                ex.send_with(|_, wb| {
                    if kind == "malformed" {
                        // a structure that lacks the mandatory fields
                        wb.start_struct(&TLVTag::Anonymous)?;
                        7u16.to_tlv(&TLVTag::Context(9), &mut *wb)?;
                        wb.end_container()?;
                    } else {
                        wb.start_struct(&TLVTag::Anonymous)?;
                        OctetStr::new(&rnd).to_tlv(&TLVTag::Context(1), &mut *wb)?;
                        local_sessid.to_tlv(&TLVTag::Context(2), &mut *wb)?;
                        (if kind == "pid" { 1u16 } else { 0u16 }).to_tlv(&TLVTag::Context(3), &mut *wb)?;
                        false.to_tlv(&TLVTag::Context(4), &mut *wb)?;
                        wb.end_container()?;
                    }
                    req = wb.as_slice().to_vec();
                    Ok(Some(MessageMeta::new(PROTO_ID_SECURE_CHANNEL, OpCode::PBKDFParamRequest as u8, true)))
                })
                .await?;
                let mut init = Init { ex: None, spake: Spake2P::new(), req, local_sessid, salt: vec![], iterations: 0, pa: vec![], prover: None, pb: vec![], cb: vec![], ca: None };
                let r = reply(&mut ex).await;
                let s = match r {
                    Ok((opc, payload)) => {
                        if opc == OpCode::PBKDFParamResponse as u8 {
                            if let Ok((salt, iterations)) = verif_parse_pbkdf_resp(&payload).and_then(|(s, i)| if i > 100_000 { Err(ErrorCode::Invalid.into()) } else { Ok((s, i)) }) {
                                init.salt = salt.to_vec();
                                init.iterations = iterations;
                                let ctx = init.spake.start_context(crypto, init.local_sessid, 0, &init.req)?;
                                init.spake.finish_context::<C>(ctx, &payload)?;
                            }
                        }
                        describe(opc, &payload)
                    }
                    Err(e) => e,
                };
                init.ex = Some(ex);
                inits.insert(k, init);
                s
            }
            "pake1" => {
                let k = num(&m, "i");
                match inits.get_mut(&k) {
                    Some(init) if init.ex.is_some() && !init.salt.is_empty() => {
                        let pw = (num(&m, "pw") as u32).to_le_bytes();
                        let mut pa = EC_POINT_ZEROED;
                        let prover = init.spake.setup_prover(crypto, Spake2pVerifierPasswordRef::new(&pw), &init.salt, init.iterations, &mut pa)?;
                        init.prover = Some(prover);
                        init.pa = pa.access().to_vec();
                        let mut wire = init.pa.clone();
                        match m.get("pt").map(|s| s.as_str()).unwrap_or("valid") {
                            "zero" => wire = vec![0u8; 65],
                            "offcurve" => wire[64] ^= 1,
                            "short" => wire.truncate(33),
                            _ => {}
                        }
                        let ex = init.ex.as_mut().unwrap();
                        ex.send_with(|_, wb| {
                            wb.start_struct(&TLVTag::Anonymous)?;
                            OctetStr::new(&wire).to_tlv(&TLVTag::Context(1), &mut *wb)?;
                            wb.end_container()?;
                            Ok(Some(MessageMeta::new(PROTO_ID_SECURE_CHANNEL, OpCode::PASEPake1 as u8, true)))
                        })
                        .await?;
                        match reply(ex).await {
                            Ok((opc, payload)) => {
                                if opc == OpCode::PASEPake2 as u8 {
                                    if let Ok((pb, cb)) = verif_parse_pake2(&payload) {
                                        init.pb = pb.to_vec();
                                        init.cb = cb.to_vec();
                                        // complete the prover; with a wrong passcode cB does not verify, the
                                        // confirmation value the prover would have sent is still taken
                                        let mut ca = HMAC_HASH_ZEROED;
                                        let pa_ref = init.pa.as_slice().try_into()?;
                                        let pb_ref = init.pb.as_slice().try_into()?;
                                        let cb_ref = init.cb.as_slice().try_into()?;
                                        let _ = init.spake.complete_prover(crypto, init.prover.as_ref().unwrap(), pa_ref, pb_ref, cb_ref, &mut ca);
                                        init.ca = Some(init.spake.verif_ca().to_vec());
                                    }
                                }
                                describe(opc, &payload)
                            }
                            Err(e) => e,
                        }
                    }
                    _ => "skip".into(),
                }
            }
            "pake3" => {
                let k = num(&m, "i");
                let mode = m.get("ca").cloned().unwrap_or("good".into());
                let replayed: Option<Vec<u8>> = mode.strip_prefix("replay:").and_then(|j| j.parse::<u64>().ok()).and_then(|j| inits.get(&j).and_then(|i| i.ca.clone()));
                match inits.get_mut(&k) {
                    Some(init) if init.ex.is_some() && init.ca.is_some() => {
                        let mut ca = init.ca.clone().unwrap();
                        match mode.as_str() {
                            "flip" => ca[7] ^= 0x10,
                            "zero" => ca = vec![0u8; 32],
                            "short" => ca.truncate(16),
                            "good" => {}
                            _ => {
                                if let Some(r) = replayed {
                                    ca = r
                                } else {
                                    ca[0] ^= 1
                                }
                            }
                        }
                        let ex = init.ex.as_mut().unwrap();
                        ex.send_with(|_, wb| {
                            wb.start_struct(&TLVTag::Anonymous)?;
                            OctetStr::new(&ca).to_tlv(&TLVTag::Context(1), &mut *wb)?;
                            wb.end_container()?;
                            Ok(Some(MessageMeta::new(PROTO_ID_SECURE_CHANNEL, OpCode::PASEPake3 as u8, true)))
                        })
                        .await?;
                        let s = match reply(ex).await {
                            Ok((opc, payload)) => {
                                let _ = ex.acknowledge().await;
                                describe(opc, &payload)
                            }
                            Err(e) => e,
                        };
                        init.ex = None;
                        s
                    }
                    _ => "skip".into(),
                }
            }
            "abort" => {
                let k = num(&m, "i");
                match inits.get_mut(&k) {
                    Some(init) if init.ex.is_some() => {
                        let ex = init.ex.as_mut().unwrap();
                        let _ = ex.send_with(|_, wb| sc_write(wb, SCStatusCodes::InvalidParameter, &[])).await;
                        // give the responder the time to digest it
                        Timer::after(Duration::from_millis(50)).await;
                        init.ex = None;
                        "-".into()
                    }
                    _ => "skip".into(),
                }
            }
            _ => "skip".into(),
        };
        // let the device finish what the message triggered
        Timer::after(Duration::from_millis(20)).await;
        let mut line = format!("t={} {} | {}", t0, res, observe(device));
        for n in notes.borrow_mut().drain(..) {
            line.push(' ');
            line.push_str(&n);
        }
        outs.borrow_mut().push(line);
    }
    Ok(())
}

/// offset of the application payload of an unsecured datagram and its protocol opcode (real header parsers)
fn payload_start(bytes: &[u8]) -> Option<(usize, u8)> {
    let mut c = bytes.to_vec();
    let mut pb = ParseBuf::new(&mut c);
    let mut hdr = PacketHdr::new();
    hdr.plain.decode(&mut pb).ok()?;
    if hdr.plain.is_encrypted() {
        return None;
    }
    hdr.decode_remaining(test_only_crypto(), None, 0, &mut pb).ok()?;
    Some((pb.read_off(), hdr.proto.proto_opcode))
}

fn run_case(out: &mut Out, case: &Case) {
    out.case(case.id, &case.kind);
    let m = kv(&case.kind);
    let pw = (num(&m, "pw") as u32).to_le_bytes();
    let comm = BasicCommData { password: Spake2pVerifierPassword::new_from_ref(Spake2pVerifierPasswordRef::new(&pw)), discriminator: 3840 };
    let net = SimNet::new(2, Box::new(Perfect));
    let device = Matter::new(&TEST_DEV_DET, comm.clone(), &TEST_DEV_ATT, 0);
    let ctrl = Matter::new(&TEST_DEV_DET, comm, &TEST_DEV_ATT, 0);
    let crypto = test_only_crypto();
    let ds = net.socket(0);
    let cs = net.socket(1);
    let sc = SecureChannel::new(&crypto, &());
    let responder = Responder::new("device", sc, &device, 0);
    let outs: RefCell<Vec<String>> = RefCell::new(Vec::new());
    let notes: std::rc::Rc<RefCell<Vec<String>>> = std::rc::Rc::new(RefCell::new(Vec::new()));
    if let Some(t) = m.get("tamper") {
        let notes = notes.clone();
        let mut it = t.split(':');
        let k: u64 = it.next().and_then(|x| x.parse().ok()).unwrap_or(0);
        let bit: usize = it.next().and_then(|x| x.parse().ok()).unwrap_or(0);
        let mut seen = 0u64;
        net.set_tamper(Box::new(move |_seq, from, _to, bytes| {
            let (start, opcode) = payload_start(bytes)?;
            if start >= bytes.len() {
                return None; // stand-alone acknowledgement
            }
            // towards the device: every handshake message; towards the initiator: the PBKDFParamResponse only
            // (a damaged Pake2 is the initiator's to detect, not the responder's)
            if from == 0 && opcode != OpCode::PBKDFParamResponse as u8 {
                return None;
            }
            seen += 1;
            if seen != k {
                return None;
            }
            let mut v = bytes.to_vec();
            let b = bit % ((bytes.len() - start) * 8);
            // which payload byte of which message was hit: `hit=<opcode hex>:<offset>/<payload length>:<bit>:<old byte hex>`
            notes.borrow_mut().push(format!("hit={:02x}:{}/{}:{}:{:02x}", opcode, b / 8, bytes.len() - start, b % 8, v[start + b / 8]));
            v[start + b / 8] ^= 1 << (b % 8);
            Some(v)
        }));
    }
    let end = {
        let script = run_script(&device, &ctrl, &crypto, &case.ops, &outs, &notes);
        let all = async {
            match select4(device.run(&crypto, &ds, &ds, NoNetwork), responder.run::<4>(), ctrl.run(&crypto, &cs, &cs, NoNetwork), script).await {
                embassy_futures::select::Either4::Fourth(r) => r,
                _ => Err(ErrorCode::Invalid.into()),
            }
        };
        run_sim(&net, all, 4_000_000)
    };
    let outs = outs.into_inner();
    for (i, op) in case.ops.iter().enumerate() {
        match outs.get(i) {
            Some(o) => {
                out.stat(&format!("reply_{}", o.split_whitespace().nth(1).unwrap_or("?").split(':').next().unwrap_or("?")), 1);
                out.op(op, o)
            }
            None => out.op(
                op,
                match &end {
                    SimEnd::Done(Err(e)) => Box::leak(format!("script-err:{:?}", e.code()).into_boxed_str()),
                    SimEnd::Timeout => "sim-timeout",
                    _ => "missing",
                },
            ),
        }
    }
}

// ------------------------------------------------------------------------------------------ generator

fn gen_case(id: u64, r: &mut Rng, out: &mut Out) -> (String, Vec<String>) {
    let dev_pw = *r.pick(&[20202021u64, 12345679, 1, 99999998]);
    let mut ops: Vec<String> = Vec::new();
    let scenario = id % 12;
    out.stat(&format!("scenario_{}", scenario), 1);
    let good_pw = dev_pw;
    let bad_pw = if dev_pw == 1 { 2 } else { dev_pw - 1 };
    let win = *r.pick(&[180u64, 181, 300, 900]);
    match scenario {
        0 => {
            // the honest run, after an arbitrary part of the window's life
            ops.push(format!("open t={}", win));
            ops.push(format!("tick ms={}", r.below(win * 1000 - 5000)));
            ops.push("pbkdf i=1".into());
            ops.push(format!("pake1 i=1 pw={}", good_pw));
            ops.push("pake3 i=1".into());
        }
        1 => {
            // wrong passcodes until the window is revoked, then the right one
            ops.push(format!("open t={}", win));
            let n = r.range(18, 22);
            for k in 0..n {
                ops.push(format!("pbkdf i={}", k + 1));
                ops.push(format!("pake1 i={} pw={}", k + 1, bad_pw));
                ops.push(format!("pake3 i={}", k + 1));
            }
            ops.push("pbkdf i=50".into());
            ops.push(format!("pake1 i=50 pw={}", good_pw));
            ops.push("pake3 i=50".into());
        }
        2 => {
            // the window is revoked between two steps of a valid handshake
            let at = r.below(3);
            ops.push(format!("open t={}", win));
            if at == 0 {
                ops.push("revoke".into());
            }
            ops.push("pbkdf i=1".into());
            if at == 1 {
                ops.push("revoke".into());
            }
            ops.push(format!("pake1 i=1 pw={}", good_pw));
            if at == 2 {
                ops.push("revoke".into());
            }
            ops.push("pake3 i=1".into());
            out.stat(&format!("revoke_at_{}", at), 1);
        }
        3 => {
            // the window expires between two steps (with / without the poll having run)
            let at = r.below(3);
            let poll = r.chance(1, 2);
            ops.push(format!("open t={}", win));
            let mut left = win * 1000;
            let wait = |ops: &mut Vec<String>, until_after: bool, left: &mut u64| {
                if until_after {
                    ops.push(format!("tick ms={}", *left + 500));
                    *left = 0;
                    if poll {
                        ops.push("poll".into());
                    }
                }
            };
            ops.push(format!("tick ms={}", win * 1000 - 20_000));
            left -= win * 1000 - 20_000;
            wait(&mut ops, at == 0, &mut left);
            ops.push("pbkdf i=1".into());
            wait(&mut ops, at == 1, &mut left);
            ops.push(format!("pake1 i=1 pw={}", good_pw));
            wait(&mut ops, at == 2, &mut left);
            ops.push("pake3 i=1".into());
            out.stat(&format!("expire_at_{}", at), 1);
        }
        4 => {
            // a second initiator while one is in progress; then the first one goes on
            ops.push(format!("open t={}", win));
            ops.push("pbkdf i=1".into());
            ops.push("pbkdf i=2".into());
            ops.push(format!("pake1 i=1 pw={}", good_pw));
            if r.chance(1, 2) {
                ops.push("pbkdf i=3".into());
            }
            ops.push("pake3 i=1".into());
            ops.push("pbkdf i=4".into());
            ops.push(format!("pake1 i=4 pw={}", good_pw));
            ops.push("pake3 i=4".into());
        }
        5 => {
            // invalid prover shares
            ops.push(format!("open t={}", win));
            for (k, pt) in ["zero", "offcurve", "short"].iter().enumerate() {
                ops.push(format!("pbkdf i={}", k + 1));
                ops.push(format!("pake1 i={} pw={} pt={}", k + 1, good_pw, pt));
                ops.push(format!("pake3 i={}", k + 1));
            }
        }
        6 => {
            // mutated confirmation values
            ops.push(format!("open t={}", win));
            for (k, ca) in ["flip", "zero", "short"].iter().enumerate() {
                ops.push(format!("pbkdf i={}", k + 1));
                ops.push(format!("pake1 i={} pw={}", k + 1, good_pw));
                ops.push(format!("pake3 i={} ca={}", k + 1, ca));
            }
            ops.push("pbkdf i=9".into());
            ops.push(format!("pake1 i=9 pw={}", good_pw));
            ops.push("pake3 i=9".into());
        }
        7 => {
            // a confirmation value replayed from an earlier (successful) handshake
            ops.push(format!("open t={}", win));
            ops.push("pbkdf i=1".into());
            ops.push(format!("pake1 i=1 pw={}", good_pw));
            ops.push("pake3 i=1".into());
            ops.push("pbkdf i=2".into());
            ops.push(format!("pake1 i=2 pw={}", good_pw));
            ops.push("pake3 i=2 ca=replay:1".into());
        }
        8 => {
            // malformed first messages, aborts
            ops.push(format!("open t={}", win));
            ops.push(format!("pbkdf i=1 req={}", r.pick(&["malformed", "pid"])));
            ops.push("pbkdf i=2".into());
            ops.push("abort i=2".into());
            ops.push("pbkdf i=3".into());
            ops.push(format!("pake1 i=3 pw={}", good_pw));
            ops.push("abort i=3".into());
            ops.push("pbkdf i=4".into());
            ops.push(format!("pake1 i=4 pw={}", good_pw));
            ops.push("pake3 i=4".into());
        }
        9 => {
            // no window at all; window opened twice; bad timeouts
            ops.push("pbkdf i=1".into());
            ops.push(format!("open t={}", r.pick(&[0u64, 179, 901, 65535])));
            ops.push(format!("open t={}", win));
            ops.push(format!("open t={}", win));
            ops.push("revoke".into());
            ops.push("revoke".into());
            ops.push("pbkdf i=2".into());
        }
        10 => {
            // the in-progress marker expires (60 s) between two steps
            ops.push(format!("open t={}", win));
            ops.push("pbkdf i=1".into());
            ops.push(format!("tick ms={}", r.range(61_000, 70_000)));
            if r.chance(1, 2) {
                ops.push("pbkdf i=2".into());
            }
            ops.push(format!("pake1 i=1 pw={}", good_pw));
            ops.push("pake3 i=1".into());
        }
        _ => {
            // free mix
            ops.push(format!("open t={}", win));
            let mut k = 0;
            for _ in 0..r.range(2, 5) {
                k += 1;
                let pw = if r.chance(2, 3) { good_pw } else { bad_pw };
                ops.push(format!("pbkdf i={}", k));
                if r.chance(1, 6) {
                    ops.push("revoke".into());
                }
                if r.chance(1, 6) {
                    ops.push(format!("open t={}", win));
                }
                ops.push(format!("pake1 i={} pw={}", k, pw));
                if r.chance(1, 6) {
                    ops.push("revoke".into());
                }
                if r.chance(1, 6) {
                    // never inside the band in which the responder's own receive timeout fires (~38 s)
                    ops.push(format!("tick ms={}", if r.chance(2, 3) { r.range(1000, 25_000) } else { r.range(50_000, 70_000) }));
                }
                ops.push(format!("pake3 i={}{}", k, if r.chance(1, 5) { " ca=flip" } else { "" }));
            }
        }
    }
    (format!("pw={}", dev_pw), ops)
}

/// the honest handshake with one payload bit flipped in flight
fn gen_tamper(r: &mut Rng, out: &mut Out) -> (String, Vec<String>) {
    let dev_pw = *r.pick(&[20202021u64, 12345679]);
    // payload-carrying datagrams in order: 1 PBKDFParamRequest, 2 PBKDFParamResponse, 3 Pake1, 4 Pake3
    let k = r.range(1, 4);
    let bit = r.below(4096);
    out.stat(&format!("tamper_msg_{}", k), 1);
    let ops = vec!["open t=300".to_string(), "pbkdf i=1".into(), format!("pake1 i=1 pw={}", dev_pw), "pake3 i=1".into()];
    (format!("pw={} tamper={}:{}", dev_pw, k, bit), ops)
}

const RULE: &str = "a case = one device (real Matter + SecureChannel responder, passcode from {20202021,12345679,1,99999998}) and one controller on the simulated network with virtual time; the script plays 1-50 PASE initiators message by message with the real Spake2P prover; scenarios: honest run at an arbitrary point of the window's life, 18-22 wrong passcodes then the right one, revoke / expiry (with and without the 1 s poll) before PBKDFParamRequest / before Pake1 / before Pake3, concurrent second initiator, invalid prover shares (zero, off-curve, short), mutated / short / replayed confirmation values, malformed first messages and aborts, no window / double open / illegal timeouts, in-progress marker expiry, free mixes; non-trivial = the case contains at least one step that was refused or dropped and one that was answered; distinct = by operation list";

pub fn gen(a: &Args) -> String {
    let mut r = Rng::new(a.seed);
    let mut out = Out::default();
    out.buf.push_str(&format!("#rule {}\n", RULE));
    let n_cases = if a.thorough { 600 } else { 60 };
    for id in 0..n_cases {
        let mut cr = r.fork();
        let (kind, ops) = gen_case(id, &mut cr, &mut out);
        run_case(&mut out, &Case { id, kind, ops });
    }
    // tamper stream: single-bit mutations of the handshake messages in flight (oracle only)
    let n_tamper = if a.thorough { 4000 } else { 300 };
    for id in 0..n_tamper {
        let mut cr = r.fork();
        let (kind, ops) = gen_tamper(&mut cr, &mut out);
        run_case(&mut out, &Case { id: n_cases + id, kind, ops });
    }
    out.finish()
}

pub fn replay(a: &Args) -> String {
    let text = std::fs::read_to_string(a.input.as_ref().expect("--in")).expect("read input");
    let mut out = Out::default();
    for c in parse_cases(&text) {
        run_case(&mut out, &c);
    }
    out.finish()
}
