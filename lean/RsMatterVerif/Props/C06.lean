import RsMatterVerif.Model.Expand
import RsMatterVerif.Props.C05
/-! # C06 — every Interaction Model operation is mediated by the access check -/
namespace C06
open Acl Expand

end C06
