import RsMatterVerif.Lemmas.ExpandMeasure
/-!
# The node composition is replaced between `next` calls (`resume_endpoint_index`)

Part 1 (needs only: endpoints sorted by id in every composition): the cursor
`(endpoint id, cluster_index, leaf_index)` increases strictly (lexicographically) with every yield,
whatever node each call sees — "the insertion point is strictly past everything already yielded".
Part 2 (adds: an endpoint id denotes the same endpoint throughout, well-formed nodes): no leaf is
yielded twice, and every permitted leaf of an endpoint that exists throughout is yielded.
-/
namespace C06
open Acl Expand

/-! ## part 1: the cursor only moves forward -/

/-- lexicographic order on cursors; a fresh cursor is before every anchored one -/
def curLt (a b : Cursor) : Prop :=
  match a.endpointId, b.endpointId with
  | none, some _ => True
  | some x, some y => x < y ∨ (x = y ∧ (a.clusterIndex < b.clusterIndex ∨
      (a.clusterIndex = b.clusterIndex ∧ a.leafIndex < b.leafIndex)))
  | _, none => False

theorem curLt_trans {a b c : Cursor} (h1 : curLt a b) (h2 : curLt b c) : curLt a c := by
  unfold curLt at *
  cases ha : a.endpointId <;> cases hb : b.endpointId <;> cases hc : c.endpointId <;>
    simp only [ha, hb, hc] at h1 h2 ⊢ <;> first | trivial | omega

theorem curLt_irrefl (a : Cursor) : ¬ curLt a a := by
  unfold curLt
  cases ha : a.endpointId <;> simp

theorem sorted_split (l : List Endpoint) (a : Nat) (hs : (l.map (·.id)).Pairwise (· < ·)) :
    l = l.filter (fun e => e.id < a) ++ l.filter (fun e => !decide (e.id < a)) := by
  induction l with
  | nil => rfl
  | cons y ys ih =>
    simp only [List.map_cons, List.pairwise_cons, List.mem_map, forall_exists_index, and_imp,
      forall_apply_eq_imp_iff₂] at hs
    by_cases hy : y.id < a
    · simp only [List.filter_cons, hy, decide_true, if_true, Bool.not_true, Bool.false_eq_true, if_false,
        List.cons_append]
      rw [← ih hs.2]
    · have hnil : ys.filter (fun e => decide (e.id < a)) = [] := by
        rw [List.filter_eq_nil_iff]
        intro e he
        have := hs.1 e he
        simp only [decide_eq_true_eq]
        omega
      have hall : ys.filter (fun e => !decide (e.id < a)) = ys := by
        rw [List.filter_eq_self]
        intro e he
        have := hs.1 e he
        simp only [Bool.not_eq_eq_eq_not, Bool.not_true, decide_eq_false_iff_not]
        omega
      simp only [List.filter_cons, hy, decide_false, Bool.false_eq_true, if_false, Bool.not_false, if_true,
        hnil, hall, List.nil_append]

theorem drop_filter_lt (l : List Endpoint) (a : Nat) (hs : (l.map (·.id)).Pairwise (· < ·)) :
    l.drop (l.filter (fun e => e.id < a)).length = l.filter (fun e => !decide (e.id < a)) := by
  conv => lhs; arg 2; rw [sorted_split l a hs]
  simp

/-- one call of `next_for_path` on a node with sorted endpoints: the cursor moves strictly forward
and the yielded triple sits at the new cursor position of an endpoint of *that* node -/
theorem nextForPath_cursor {ctx : Ctx} {op : Operation} {node : Node} {path : Path} {cur cur' : Cursor}
    {la : Option (Nat × Nat × Nat)} {ep cl lf : Nat} {arr : Bool}
    (hs : (node.map (·.id)).Pairwise (· < ·))
    (h : nextForPath ctx op node path cur la = .yield ep cl lf arr cur') :
    curLt cur cur' ∧ ∃ e ∈ node, cur'.endpointId = some e.id ∧
      AtPos op e cur'.clusterIndex cur'.leafIndex ep cl lf := by
  rw [nextForPath_unfold] at h
  split at h
  · cases h
  split at h
  · cases h
  obtain ⟨j, e, post, h1, h2, _, h4, h5⟩ := endpointLoop_yield_measure h
  have hemem : e ∈ node := by
    have : e ∈ (node.drop (resumeEndpointIndex node cur).1).drop j := by rw [h1]; simp
    exact List.mem_of_mem_drop (List.mem_of_mem_drop this)
  have hid : cur'.endpointId = some e.id := by rw [h2]
  refine ⟨?_, e, hemem, hid, h5⟩
  unfold curLt
  rw [hid]
  cases hc : cur.endpointId with
  | none => trivial
  | some E =>
    simp only
    unfold resumeEndpointIndex at h1 h4
    simp only [hc] at h1 h4
    cases hf : node.findIdx? (fun e => e.id == E) with
    | some i =>
      simp only [hf] at h1 h4
      obtain ⟨hi, hp, _⟩ := List.findIdx?_eq_some_iff_getElem.mp hf
      have hp' : node[i].id = E := by simpa using hp
      have hd : node.drop i = node[i] :: node.drop (i + 1) := List.drop_eq_getElem_cons hi
      cases j with
      | zero =>
        rw [List.drop_zero, hd] at h1
        injection h1 with h1 _
        right
        exact ⟨by rw [← h1, hp'], h4 rfl⟩
      | succ k =>
        left
        rw [hd, List.drop_succ_cons] at h1
        have hmem : e ∈ node.drop (i + 1) := by
          have : e ∈ (node.drop (i + 1)).drop k := by rw [h1]; simp
          exact List.mem_of_mem_drop this
        have hs' : ((node.drop i).map (·.id)).Pairwise (· < ·) :=
          List.Pairwise.sublist (List.Sublist.map _ (List.drop_sublist _ _)) hs
        rw [hd] at hs'
        simp only [List.map_cons, List.pairwise_cons, List.mem_map, forall_exists_index, and_imp,
          forall_apply_eq_imp_iff₂] at hs'
        have := hs'.1 e hmem
        omega
    | none =>
      simp only [hf] at h1
      left
      rw [drop_filter_lt node E hs] at h1
      have hmem : e ∈ node.filter (fun e => !decide (e.id < E)) := by
        have : e ∈ (node.filter (fun e => !decide (e.id < E))).drop j := by rw [h1]; simp
        exact List.mem_of_mem_drop this
      have hge : ¬ e.id < E := by simpa using (List.mem_filter.mp hmem).2
      have hne : e.id ≠ E := by
        intro heq
        have := List.findIdx?_eq_none_iff.mp hf e hemem
        simp [heq] at this
      omega

/-- the swap run, each output paired with the cursor it leaves behind -/
def runSwapC (ctx : Ctx) (op : Operation) : List Node → St → List (Out × Cursor)
  | [], _ => []
  | node :: rest, st =>
    match next ctx op node st with
    | none => []
    | some (o, st') => (o, st'.cur) :: runSwapC ctx op rest st'

theorem runSwapC_fst (ctx : Ctx) (op : Operation) (nodes : List Node) (st : St) :
    (runSwapC ctx op nodes st).map (·.1) = runSwap ctx op nodes st := by
  induction nodes generalizing st with
  | nil => rfl
  | cons n rest ih =>
    unfold runSwapC runSwap
    cases next ctx op n st with
    | none => rfl
    | some r => simp [ih]

/-- what is recorded about one output of the swap run -/
def PosOk (op : Operation) (all : List Node) (x : Out × Cursor) : Prop :=
  ∃ n ∈ all, ∃ e ∈ n, x.2.endpointId = some e.id ∧ ∃ ep cl lf w arr, x.1 = Out.item ep cl lf w arr ∧
    AtPos op e x.2.clusterIndex x.2.leafIndex ep cl lf

/-- a state expanding one supported wildcard path `p` -/
def WildSt (p : Path) (st : St) : Prop := st.item = some p ∧ st.items = []

theorem next_wildSt {ctx : Ctx} {op : Operation} {node : Node} {p : Path} {st st' : St} {o : Out}
    (hsw : SupportedWildcard op p) (hst : WildSt p st) (h : next ctx op node st = some (o, st')) :
    ∃ ep cl lf arr, nextForPath ctx op node p st.cur st.lastAuthorized = .yield ep cl lf arr st'.cur ∧
      o = Out.item ep cl lf true arr ∧ WildSt p st' ∧ st'.lastAuthorized = some (ep, cl, lf) := by
  obtain ⟨hi, his⟩ := hst
  unfold next at h
  simp only [hi, his] at h
  unfold nextFrom at h
  cases hn : nextForPath ctx op node p st.cur st.lastAuthorized with
  | yield ep cl lf arr cur' =>
    simp only [hn, Option.some.injEq, Prod.mk.injEq] at h
    obtain ⟨rfl, rfl⟩ := h
    exact ⟨ep, cl, lf, arr, rfl, by rw [hsw.1], ⟨by simp [hsw.1], rfl⟩, rfl⟩
  | done => simp [hn] at h
  | err s => exact absurd hn (nextForPath_wildcard_no_err hsw s)

/-- **the documented invariant of `resume_endpoint_index`**: whatever (sorted) node each call sees,
the cursor positions of successive yields increase strictly, each yielded triple sits at its cursor
position in the node of its call -/
theorem runSwapC_increasing {ctx : Ctx} {op : Operation} {p : Path} (hsw : SupportedWildcard op p)
    (all : List Node) (hsorted : ∀ n ∈ all, (n.map (·.id)).Pairwise (· < ·))
    (nodes : List Node) (hsub : ∀ n ∈ nodes, n ∈ all) (st : St) (hst : WildSt p st) :
    (∀ x ∈ runSwapC ctx op nodes st, curLt st.cur x.2 ∧ PosOk op all x) ∧
    (runSwapC ctx op nodes st).Pairwise (fun a b => curLt a.2 b.2) := by
  induction nodes generalizing st with
  | nil => simp [runSwapC]
  | cons n rest ih =>
    unfold runSwapC
    cases hn : next ctx op n st with
    | none => simp
    | some r =>
      obtain ⟨o, st'⟩ := r
      obtain ⟨ep, cl, lf, arr, hy, ho, hst', _⟩ := next_wildSt hsw hst hn
      have hnall : n ∈ all := hsub n (by simp)
      obtain ⟨hlt, e, he, hid, hat⟩ := nextForPath_cursor (hsorted n hnall) hy
      obtain ⟨ih1, ih2⟩ := ih (fun m hm => hsub m (List.mem_cons_of_mem _ hm)) st' hst'
      simp only [List.mem_cons, List.pairwise_cons]
      refine ⟨?_, ?_, ih2⟩
      · intro x hx
        rcases hx with rfl | hx
        · exact ⟨hlt, n, hnall, e, he, hid, ep, cl, lf, true, arr, ho, hat⟩
        · exact ⟨curLt_trans hlt (ih1 x hx).1, (ih1 x hx).2⟩
      · intro x hx
        exact (ih1 x hx).1

/-! ## part 2: with stable endpoints, positions determine leaves -/

/-- an endpoint id denotes the same endpoint in every composition of the request -/
def Stable (all : List Node) : Prop :=
  ∀ n ∈ all, ∀ n' ∈ all, ∀ e ∈ n, ∀ e' ∈ n', e.id = e'.id → e = e'

theorem stableNodes_iff (all : List Node) : stableNodes all = true ↔ Stable all := by
  unfold stableNodes Stable
  simp only [List.all_eq_true, Bool.or_eq_true, bne_iff_ne, ne_eq, beq_iff_eq]
  constructor
  · intro h n hn n' hn' e he e' he' hid
    rcases h n hn n' hn' e he e' he' with h | h
    · exact absurd hid h
    · exact h
  · intro h n hn n' hn' e he e' he'
    by_cases hid : e.id = e'.id
    · exact Or.inr (h n hn n' hn' e he e' he' hid)
    · exact Or.inl hid

theorem getElem?_inj_of_nodup_map {α : Type} (f : α → Nat) : ∀ {l : List α}, (l.map f).Nodup →
    ∀ {i j : Nat} {a b : α}, l[i]? = some a → l[j]? = some b → f a = f b → i = j
  | [], _, _, _, _, _, h, _, _ => by simp at h
  | x :: xs, hnd, i, j, a, b, hi, hj, hab => by
    simp only [List.map_cons, List.nodup_cons, List.mem_map, not_exists, not_and] at hnd
    cases i with
    | zero =>
      cases j with
      | zero => rfl
      | succ j' =>
        simp only [List.getElem?_cons_zero, Option.some.injEq] at hi
        simp only [List.getElem?_cons_succ] at hj
        subst hi
        exact absurd hab.symm (hnd.1 b (List.mem_of_getElem? hj))
    | succ i' =>
      cases j with
      | zero =>
        simp only [List.getElem?_cons_zero, Option.some.injEq] at hj
        simp only [List.getElem?_cons_succ] at hi
        subst hj
        exact absurd hab (hnd.1 a (List.mem_of_getElem? hi))
      | succ j' =>
        simp only [List.getElem?_cons_succ] at hi hj
        rw [getElem?_inj_of_nodup_map f hnd.2 hi hj hab]

/-- in a stable family of well-formed nodes, the same triple of ids sits at one position only -/
theorem pos_unique {op : Operation} {all : List Node} (hwf : ∀ n ∈ all, nodeWF n = true) (hstab : Stable all)
    {x y : Out × Cursor} (hx : PosOk op all x) (hy : PosOk op all y)
    (hsame : ∃ ep cl lf w a w' a', x.1 = Out.item ep cl lf w a ∧ y.1 = Out.item ep cl lf w' a') :
    x.2.endpointId = y.2.endpointId ∧ x.2.clusterIndex = y.2.clusterIndex ∧ x.2.leafIndex = y.2.leafIndex := by
  obtain ⟨n, hn, e, he, hid, ep, cl, lf, w, a, hox, c, l, hc, hl, hpos, h1, h2, h3⟩ := hx
  obtain ⟨n', hn', e', he', hid', ep', cl', lf', w', a', hoy, c', l', hc', hl', hpos', h1', h2', h3'⟩ := hy
  obtain ⟨ep0, cl0, lf0, w0, a0, w1, a1, hx0, hy0⟩ := hsame
  rw [hox] at hx0; rw [hoy] at hy0
  injection hx0 with e1 e2 e3 _ _
  injection hy0 with f1 f2 f3 _ _
  have hee : e = e' := hstab n hn n' hn' e he e' he' (by omega)
  subst hee
  have hci : x.2.clusterIndex = y.2.clusterIndex :=
    getElem?_inj_of_nodup_map (·.id) (nodeWF_clusters (hwf n hn) he) hc hc' (by omega)
  rw [← hci, hc] at hc'
  injection hc' with hcc
  subst hcc
  have hnd : ((c.leaves (op == .invoke)).map (·.id)).Nodup := by
    obtain ⟨na, nc⟩ := nodeWF_tables (hwf n hn) he (List.mem_of_getElem? hc)
    unfold Cluster.leaves
    cases (op == .invoke)
    · exact List.Nodup.sublist (List.Sublist.map _ List.filter_sublist) na
    · exact List.Nodup.sublist (List.Sublist.map _ List.filter_sublist) nc
  have hli := getElem?_inj_of_nodup_map (·.id) hnd hl hl' (by omega)
  exact ⟨by rw [hid, hid'], hci, by omega⟩

def tripleOf : Out → Option (Nat × Nat × Nat)
  | .item ep cl lf _ _ => some (ep, cl, lf)
  | .status _ _ => none

/-- **no leaf is yielded twice**, whatever node each call sees -/
theorem runSwap_no_repeat {ctx : Ctx} {op : Operation} {p : Path} (hsw : SupportedWildcard op p)
    (all : List Node) (hwf : ∀ n ∈ all, nodeWF n = true) (hstab : Stable all)
    (nodes : List Node) (hsub : ∀ n ∈ nodes, n ∈ all) (st : St) (hst : WildSt p st) :
    (runSwap ctx op nodes st).Pairwise (fun a b => tripleOf a ≠ tripleOf b) := by
  obtain ⟨h1, h2⟩ := runSwapC_increasing (ctx := ctx) hsw all (fun n hn => nodeWF_sorted (hwf n hn)) nodes hsub st hst
  rw [← runSwapC_fst, List.pairwise_map]
  refine List.Pairwise.imp_of_mem ?_ h2
  intro x y hx hy hlt heq
  obtain ⟨n, hn, e, he, hid, ep, cl, lf, w, a, hox, hat⟩ := (h1 x hx).2
  obtain ⟨n', hn', e', he', hid', ep', cl', lf', w', a', hoy, hat'⟩ := (h1 y hy).2
  rw [hox, hoy] at heq
  simp only [tripleOf, Option.some.injEq, Prod.mk.injEq] at heq
  obtain ⟨rfl, rfl, rfl⟩ := heq
  obtain ⟨g1, g2, g3⟩ := pos_unique hwf hstab (h1 x hx).2 (h1 y hy).2 ⟨ep, cl, lf, w, a, w', a', hox, hoy⟩
  apply curLt_irrefl x.2
  have : x.2 = y.2 := by
    cases hx2 : x.2; cases hy2 : y.2
    simp only [hx2, hy2] at g1 g2 g3
    simp [g1, g2, g3]
  rw [this] at hlt ⊢
  exact hlt

/-! ## part 2b: every permitted leaf of an endpoint that exists throughout is yielded -/

/-- what wildcard path `p` still owes on `node` from cursor `cur` (re-anchored as `next_for_path` does) -/
def pendW (ctx : Ctx) (op : Operation) (p : Path) (node : Node) (cur : Cursor) : List Out :=
  wEndpointsFrom ctx op p (node.drop (resumeEndpointIndex node cur).1)
    (resumeEndpointIndex node cur).2.clusterIndex (resumeEndpointIndex node cur).2.leafIndex

/-- the cursor is anchored at the endpoint (value) `E`, inside a cluster the path matches -/
structure Anch (ctx : Ctx) (p : Path) (E : Endpoint) (cur : Cursor) : Prop where
  id : cur.endpointId = some E.id
  ok : epOk ctx p E = true
  cl : cur.leafIndex = 0 ∨ ∃ c post, E.clusters.drop cur.clusterIndex = c :: post ∧
    matchesOpt p.cluster c.id = true

/-- the cursor is fresh, or anchored at an endpoint whose id means the same endpoint on `node` -/
def CurOkOn (ctx : Ctx) (p : Path) (node : Node) (cur : Cursor) : Prop :=
  cur = {} ∨ ∃ E, Anch ctx p E cur ∧ ∀ e ∈ node, e.id = E.id → e = E

theorem resume_curPre {ctx : Ctx} {p : Path} {node : Node} {cur : Cursor} (hcur : CurOkOn ctx p node cur) :
    CurPre ctx p (node.drop (resumeEndpointIndex node cur).1) (resumeEndpointIndex node cur).2.clusterIndex
      (resumeEndpointIndex node cur).2.leafIndex := by
  rcases hcur with rfl | ⟨E, ha, hE⟩
  · exact Or.inl ⟨rfl, rfl⟩
  · unfold resumeEndpointIndex
    simp only [ha.id]
    cases hf : node.findIdx? (fun e => e.id == E.id) with
    | none => exact Or.inl ⟨rfl, rfl⟩
    | some i =>
      obtain ⟨hi, hp, _⟩ := List.findIdx?_eq_some_iff_getElem.mp hf
      have hEi : node[i] = E := hE _ (List.getElem_mem hi) (by simpa using hp)
      have hd : node.drop i = E :: node.drop (i + 1) := by rw [List.drop_eq_getElem_cons hi, hEi]
      simp only
      exact Or.inr ⟨E, _, hd, ha.ok, ha.cl⟩

theorem wild_step_on {ctx : Ctx} {op : Operation} {node : Node} {p : Path} {cur : Cursor}
    {la : Option (Nat × Nat × Nat)}
    (hn : nodeWF node = true) (hwf : WF ctx.fabrics) (hcan : CanonicalPrivs ctx.fabrics)
    (hla : CacheOk ctx op node la) (hsw : SupportedWildcard op p) (hcur : CurOkOn ctx p node cur) :
    (pendW ctx op p node cur = [] ∧ nextForPath ctx op node p cur la = .done) ∨
    (∃ ep cl lf arr cur' E', nextForPath ctx op node p cur la = .yield ep cl lf arr cur' ∧
      pendW ctx op p node cur = Out.item ep cl lf true arr :: pendW ctx op p node cur' ∧
      E' ∈ node ∧ Anch ctx p E' cur') := by
  obtain ⟨g1, g2⟩ := supportedWildcard_guards hsw
  have hnf := nextForPath_unfold ctx op node p cur la
  rw [g1, g2] at hnf
  simp only [Bool.false_eq_true, if_false] at hnf
  have hmem : ∀ e ∈ node.drop (resumeEndpointIndex node cur).1, e ∈ node := fun e he => List.mem_of_mem_drop he
  rcases endpointLoop_wild (ctx := ctx) (op := op) (path := p) (la := la) hsw.1 hwf _ _ _
      (fun e he c hc l hl => wItem_iff hn hwf hcan hla (hmem e he) hc hl)
      (fun e he c hc l hl => arrayFlag_spec hn (hmem e he) hc hl) (resume_curPre hcur) with
    ⟨h1, h2⟩ | ⟨j, e, post, ci', li', ep, cl, lf, arr, h1, h2, h3, h3', h4⟩
  · exact Or.inl ⟨h2, hnf.trans h1⟩
  · right
    rw [List.drop_drop] at h2
    have hnode : node = node.take ((resumeEndpointIndex node cur).1 + j) ++ e :: post := by
      rw [← h2, List.take_append_drop]
    have hs := nodeWF_sorted hn
    rw [hnode] at hs
    have hres := resume_sorted ci' li' hs
    rw [← hnode] at hres
    have hd : node.drop (node.take ((resumeEndpointIndex node cur).1 + j)).length = e :: post := by
      conv => lhs; arg 2; rw [hnode]
      simp
    have hemem : e ∈ node := by rw [hnode]; simp
    refine ⟨ep, cl, lf, arr, _, e, hnf.trans h1, ?_, hemem, ⟨rfl, h3', ?_⟩⟩
    · unfold pendW at ⊢
      rw [hres]
      simp only
      rw [hd]
      exact h4
    · rcases h3 with ⟨_, h⟩ | ⟨e0, rest, heq, _, h⟩
      · exact Or.inl h
      · injection heq with heq _
        subst heq
        exact h

def outEp : Out → Option Nat
  | .item ep _ _ _ _ => some ep
  | .status _ _ => none

theorem wItem_ep {ctx : Ctx} {op : Operation} {p : Path} {e : Endpoint} {c : Cluster} {l : Leaf} {o : Out}
    (h : wItem ctx op p e c l = some o) : outEp o = some e.id := by
  unfold wItem at h
  split at h
  · injection h with h; subst h; rfl
  · cases h

theorem mem_wCluster_ep {ctx : Ctx} {op : Operation} {p : Path} {e : Endpoint} {c : Cluster} {o : Out}
    (h : o ∈ wCluster ctx op p e c) : outEp o = some e.id := by
  unfold wCluster at h
  split at h
  · obtain ⟨l, _, hl⟩ := List.mem_filterMap.mp h
    exact wItem_ep hl
  · cases h

theorem mem_wClustersFrom_ep {ctx : Ctx} {op : Operation} {p : Path} {e : Endpoint} {cs : List Cluster}
    {li : Nat} {o : Out} (h : o ∈ wClustersFrom ctx op p e cs li) : outEp o = some e.id := by
  cases cs with
  | nil => cases h
  | cons c rest =>
    unfold wClustersFrom at h
    rcases List.mem_append.mp h with h | h
    · split at h
      · obtain ⟨l, _, hl⟩ := List.mem_filterMap.mp h
        exact wItem_ep hl
      · cases h
    · obtain ⟨c', _, hc'⟩ := List.mem_flatMap.mp h
      exact mem_wCluster_ep hc'

theorem mem_wEndpoint_ep {ctx : Ctx} {op : Operation} {p : Path} {e : Endpoint} {o : Out}
    (h : o ∈ wEndpoint ctx op p e) : outEp o = some e.id := by
  unfold wEndpoint at h
  split at h
  · obtain ⟨c', _, hc'⟩ := List.mem_flatMap.mp h
    exact mem_wCluster_ep hc'
  · cases h

/-- membership in the owed list of an anchored cursor on a node containing the anchor -/
theorem pendW_anchored {ctx : Ctx} {op : Operation} {p : Path} {pre post : List Endpoint} {E : Endpoint}
    {cur : Cursor} (hs : ((pre ++ E :: post).map (·.id)).Pairwise (· < ·)) (hid : cur.endpointId = some E.id) :
    pendW ctx op p (pre ++ E :: post) cur =
      wEndpointsFrom ctx op p (E :: post) cur.clusterIndex cur.leafIndex := by
  have hc : cur = { endpointId := some E.id, clusterIndex := cur.clusterIndex, leafIndex := cur.leafIndex } := by
    cases cur; simp_all
  unfold pendW
  rw [hc, resume_sorted _ _ hs]
  simp

/-- **replacing the node keeps what is owed for endpoints that exist on both compositions** -/
theorem pendW_swap {ctx : Ctx} {op : Operation} {p : Path} {n n' : Node} {cur : Cursor} {E E' : Endpoint}
    (hn : nodeWF n = true) (hn' : nodeWF n' = true) (ha : Anch ctx p E cur) (hE : E ∈ n)
    (hst : ∀ e ∈ n', e.id = E.id → e = E)
    (hE'n : E' ∈ n) (hE'n' : E' ∈ n') {o : Out} (ho : o ∈ wEndpoint ctx op p E')
    (hp : o ∈ pendW ctx op p n cur) : o ∈ pendW ctx op p n' cur := by
  obtain ⟨pre, post, rfl⟩ := List.append_of_mem hE
  have hs := nodeWF_sorted hn
  rw [pendW_anchored hs ha.id] at hp
  have hoE' := mem_wEndpoint_ep ho
  -- is the owed item in the anchored endpoint, or in a later one?
  have hcase : (E' = E ∧ o ∈ (if (matchesOpt p.endpoint E.id && reachable ctx E) = true then
        wClustersFrom ctx op p E (E.clusters.drop cur.clusterIndex) cur.leafIndex else [])) ∨ E.id < E'.id := by
    unfold wEndpointsFrom at hp
    rcases List.mem_append.mp hp with h | h
    · left
      refine ⟨?_, h⟩
      split at h
      · have := mem_wClustersFrom_ep h
        rw [hoE'] at this
        injection this with this
        exact endpoint_unique hs hE'n hE this
      · cases h
    · right
      obtain ⟨E'', hE'', ho''⟩ := List.mem_flatMap.mp h
      have := mem_wEndpoint_ep ho''
      rw [hoE'] at this
      injection this with this
      have hEE : E' = E'' := endpoint_unique hs hE'n (by simp [hE'']) this
      subst hEE
      simp only [List.map_append, List.map_cons, List.pairwise_append, List.pairwise_cons, List.mem_map,
        forall_exists_index, and_imp, forall_apply_eq_imp_iff₂] at hs
      exact hs.2.1.1 E' hE''
  have hs' := nodeWF_sorted hn'
  by_cases hex : ∃ e ∈ n', e.id = E.id
  · obtain ⟨e, he, heid⟩ := hex
    have := hst e he heid
    subst this
    obtain ⟨pre', post', rfl⟩ := List.append_of_mem he
    rw [pendW_anchored hs' ha.id]
    unfold wEndpointsFrom
    rcases hcase with ⟨rfl, h⟩ | hlt
    · exact List.mem_append_left _ h
    · apply List.mem_append_right
      apply List.mem_flatMap.mpr
      refine ⟨E', ?_, ho⟩
      simp only [List.map_append, List.map_cons, List.pairwise_append, List.pairwise_cons, List.mem_map,
        forall_exists_index, and_imp, forall_apply_eq_imp_iff₂] at hs'
      rcases List.mem_append.mp hE'n' with h | h
      · have := hs'.2.2 E' h e.id (by simp)
        omega
      · rcases List.mem_cons.mp h with rfl | h
        · omega
        · exact h
  · have hnone : n'.findIdx? (fun e => e.id == E.id) = none := by
      rw [List.findIdx?_eq_none_iff]
      intro e he
      have : e.id ≠ E.id := fun h => hex ⟨e, he, h⟩
      simpa using this
    have hlt : E.id < E'.id := by
      rcases hcase with ⟨rfl, _⟩ | h
      · exact absurd ⟨E', hE'n', rfl⟩ hex
      · exact h
    unfold pendW resumeEndpointIndex
    simp only [ha.id, hnone]
    rw [drop_filter_lt n' E.id hs', wEndpointsFrom_zero]
    apply List.mem_flatMap.mpr
    refine ⟨E', List.mem_filter.mpr ⟨hE'n', ?_⟩, ho⟩
    simp only [Bool.not_eq_eq_eq_not, Bool.not_true, decide_eq_false_iff_not]
    omega

theorem next_wild_eq {ctx : Ctx} {op : Operation} {node : Node} {p : Path} {st : St} (hst : WildSt p st) :
    next ctx op node st = nextFrom ctx op node p st.cur st.lastAuthorized [] := by
  unfold next
  simp only [hst.1, hst.2]

theorem authorised_transfer {ctx : Ctx} {op : Operation} {all : List Node} (hstab : Stable all)
    {n : Node} (hn : n ∈ all) {t : Nat × Nat × Nat} (h : Authorised ctx op n t) :
    ∀ n' ∈ all, CacheOk ctx op n' (some t) := by
  intro n' hn' t' ht'
  injection ht' with ht'
  subst ht'
  obtain ⟨e, he, hi, rest⟩ := h
  by_cases hex : ∃ e' ∈ n', e'.id = t.1
  · obtain ⟨e', he', hi'⟩ := hex
    have : e' = e := hstab n' hn' n hn e' he' e he (by omega)
    subst this
    exact Or.inl ⟨e', he', hi, rest⟩
  · exact Or.inr (fun e' he' hid => hex ⟨e', he', hid⟩)

/-- **every permitted leaf of an endpoint that exists throughout is yielded** once the expander is
exhausted, whatever (stable, well-formed) node each call sees -/
theorem runSwap_complete {ctx : Ctx} {op : Operation} {p : Path} (hsw : SupportedWildcard op p)
    (all : List Node) (hwfn : ∀ n ∈ all, nodeWF n = true) (hstab : Stable all)
    (hwf : WF ctx.fabrics) (hcan : CanonicalPrivs ctx.fabrics)
    (E' : Endpoint) (hE' : ∀ n ∈ all, E' ∈ n) (o : Out) (ho : o ∈ wEndpoint ctx op p E')
    (nodes : List Node) (hsub : ∀ n ∈ nodes, n ∈ all) (st : St) (hst : WildSt p st)
    (hla : ∀ n ∈ all, CacheOk ctx op n st.lastAuthorized)
    (hcur : st.cur = {} ∨ ∃ E n0, n0 ∈ all ∧ E ∈ n0 ∧ Anch ctx p E st.cur)
    (hpend : ∀ n ∈ all, o ∈ pendW ctx op p n st.cur)
    (hend : swapEnded ctx op nodes st = true) : o ∈ runSwap ctx op nodes st := by
  induction nodes generalizing st with
  | nil => simp [swapEnded] at hend
  | cons n rest ih =>
    have hn : n ∈ all := hsub n (by simp)
    have hcurOn : CurOkOn ctx p n st.cur := by
      rcases hcur with h | ⟨E, n0, hn0, hE, ha⟩
      · exact Or.inl h
      · exact Or.inr ⟨E, ha, fun e he hid => hstab n hn n0 hn0 e he E hE hid⟩
    unfold swapEnded at hend
    unfold runSwap
    rw [next_wild_eq hst] at hend ⊢
    unfold nextFrom at hend ⊢
    rcases wild_step_on (hwfn n hn) hwf hcan (hla n hn) hsw hcurOn with
      ⟨h1, _⟩ | ⟨ep, cl, lf, arr, cur', E2, hy, heq, hE2, ha2⟩
    · have := hpend n hn
      rw [h1] at this
      cases this
    · simp only [hy] at hend ⊢
      have hmem := hpend n hn
      rw [heq, hsw.1] at *
      rcases List.mem_cons.mp hmem with rfl | hmem'
      · exact List.mem_cons_self
      · apply List.mem_cons_of_mem
        apply ih (fun m hm => hsub m (List.mem_cons_of_mem _ hm)) _ ⟨by simp, rfl⟩
        · exact authorised_transfer hstab hn (yieldOk_authorised (hla n hn) (nextForPath_yield hy))
        · exact Or.inr ⟨E2, n, hn, hE2, ha2⟩
        · intro n' hn'
          exact pendW_swap (hwfn n hn) (hwfn n' hn') ha2 hE2
            (fun e he hid => hstab n' hn' n hn e he E2 hE2 hid) (hE' n hn) (hE' n' hn') ho hmem'
        · exact hend

/-- a request of one path: the first call fetches it -/
theorem runSwap_init (ctx : Ctx) (op : Operation) (nodes : List Node) (p : Path) :
    runSwap ctx op nodes { items := [p] } = runSwap ctx op nodes { items := [], item := some p } ∧
    swapEnded ctx op nodes { items := [p] } = swapEnded ctx op nodes { items := [], item := some p } := by
  cases nodes with
  | nil => exact ⟨rfl, rfl⟩
  | cons n rest => exact ⟨rfl, rfl⟩

/-- **soundness across node replacements**: every item was authorised on the node of its call
(directly, or through the cache whose content was authorised for the same — stable — endpoint) -/
theorem runSwap_sound {ctx : Ctx} {op : Operation} {p : Path} (hsw : SupportedWildcard op p)
    (all : List Node) (hstab : Stable all)
    (nodes : List Node) (hsub : ∀ n ∈ nodes, n ∈ all) (st : St) (hst : WildSt p st)
    (hla : ∀ n ∈ all, CacheOk ctx op n st.lastAuthorized) :
    ∀ o ∈ runSwap ctx op nodes st, ∃ n ∈ nodes, ∃ ep cl lf arr, o = Out.item ep cl lf true arr ∧
      Authorised ctx op n (ep, cl, lf) ∧ PathMatches p ep cl lf := by
  induction nodes generalizing st with
  | nil => intro o ho; simp [runSwap] at ho
  | cons n rest ih =>
    intro o ho
    have hn : n ∈ all := hsub n (by simp)
    unfold runSwap at ho
    cases hnx : next ctx op n st with
    | none => simp [hnx] at ho
    | some r =>
      obtain ⟨o1, st'⟩ := r
      simp only [hnx, List.mem_cons] at ho
      obtain ⟨ep, cl, lf, arr, hy, ho1, hst', hla'⟩ := next_wildSt hsw hst hnx
      have hyo := nextForPath_yield hy
      have hauth := yieldOk_authorised (hla n hn) hyo
      have hpm : PathMatches p ep cl lf := by
        obtain ⟨_, _, _, _, _, _, _, _, _, m1, m2, m3, _⟩ := hyo
        exact ⟨m1, m2, m3⟩
      rcases ho with rfl | ho
      · exact ⟨n, by simp, ep, cl, lf, arr, ho1, hauth, hpm⟩
      · obtain ⟨m, hm, r⟩ := ih (fun m hm => hsub m (List.mem_cons_of_mem _ hm)) st' hst'
          (by rw [hla']; exact authorised_transfer hstab hn hauth) o ho
        exact ⟨m, List.mem_cons_of_mem _ hm, r⟩

/-- **soundness across node replacements, per call**: the `i`-th answer of the run was produced by the
`i`-th call of `next`, which saw `nodes[i]` — and the item is authorised **on that node** (directly, or
through the cache whose content was authorised for the same — stable — endpoint) -/
theorem runSwap_sound_at {ctx : Ctx} {op : Operation} {p : Path} (hsw : SupportedWildcard op p)
    (all : List Node) (hstab : Stable all)
    (nodes : List Node) (hsub : ∀ n ∈ nodes, n ∈ all) (st : St) (hst : WildSt p st)
    (hla : ∀ n ∈ all, CacheOk ctx op n st.lastAuthorized) :
    ∀ (i : Nat) (o : Out), (runSwap ctx op nodes st)[i]? = some o → ∃ n, nodes[i]? = some n ∧ ∃ ep cl lf arr,
      o = Out.item ep cl lf true arr ∧ Authorised ctx op n (ep, cl, lf) ∧ PathMatches p ep cl lf := by
  induction nodes generalizing st with
  | nil => intro i o ho; simp [runSwap] at ho
  | cons n rest ih =>
    intro i o ho
    have hn : n ∈ all := hsub n (by simp)
    unfold runSwap at ho
    cases hnx : next ctx op n st with
    | none => simp [hnx] at ho
    | some r =>
      obtain ⟨o1, st'⟩ := r
      simp only [hnx] at ho
      obtain ⟨ep, cl, lf, arr, hy, ho1, hst', hla'⟩ := next_wildSt hsw hst hnx
      have hyo := nextForPath_yield hy
      have hauth := yieldOk_authorised (hla n hn) hyo
      have hpm : PathMatches p ep cl lf := by
        obtain ⟨_, _, _, _, _, _, _, _, _, m1, m2, m3, _⟩ := hyo
        exact ⟨m1, m2, m3⟩
      cases i with
      | zero =>
        simp only [List.getElem?_cons_zero, Option.some.injEq] at ho
        subst ho
        exact ⟨n, by simp, ep, cl, lf, arr, ho1, hauth, hpm⟩
      | succ j =>
        simp only [List.getElem?_cons_succ] at ho
        obtain ⟨m, hm, r⟩ := ih (fun m hm => hsub m (List.mem_cons_of_mem _ hm)) st' hst'
          (by rw [hla']; exact authorised_transfer hstab hn hauth) j o ho
        exact ⟨m, by simpa using hm, r⟩

end C06
