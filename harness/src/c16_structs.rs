//! C16 stream `s`: real derived (`#[derive(FromTLV, ToTLV)]`) wire structures round-tripped.
//!
//! A value is a list of slots in field order: `-` (Option::None), `n` (Nullable null), a decimal
//! number, `T` / `F`. `enc <slots>` builds the Rust value and runs the derived `to_tlv` with an
//! anonymous tag; `dec <hex>` runs the derived `from_tlv` and prints the slots back.
use crate::proto::{hex, unhex};
use crate::rng::Rng;

use rs_matter::acl::Target;
use rs_matter::error::Error;
use rs_matter::im::{AttrPath, ClusterPath, CmdPath, DataVersionFilter, EventFilter, EventPath, TimedReq};
use rs_matter::tlv::{FromTLV, Nullable, TLVElement, TLVTag, ToTLV};
use rs_matter::utils::storage::WriteBuf;

#[derive(Clone, Copy, PartialEq)]
pub enum Ty {
    U8,
    U16,
    U32,
    U64,
    Bool,
}

/// (type, optional, nullable) per slot, in field order — used by the generator only
pub fn schema(name: &str) -> &'static [(Ty, bool, bool)] {
    use Ty::*;
    match name {
        "AttrPath" => &[(Bool, true, false), (U64, true, false), (U16, true, false), (U32, true, false), (U32, true, false), (U16, true, true)],
        "CmdPath" => &[(U16, true, false), (U32, true, false), (U32, true, false)],
        "EventPath" => &[(U64, true, false), (U16, true, false), (U32, true, false), (U32, true, false), (Bool, true, false)],
        "ClusterPath" => &[(U64, true, false), (U16, false, false), (U32, false, false)],
        "EventFilter" => &[(U64, true, false), (U64, true, false)],
        "TimedReq" => &[(U16, false, false), (U8, true, false)],
        "Target" => &[(U32, true, false), (U16, true, false), (U32, true, false)],
        "DataVersionFilter" => &[(U64, true, false), (U16, false, false), (U32, false, false), (U32, false, false)],
        _ => &[],
    }
}

pub const NAMES: &[&str] = &["AttrPath", "CmdPath", "EventPath", "ClusterPath", "EventFilter", "TimedReq", "Target", "DataVersionFilter"];

fn num(s: &str) -> Option<u64> {
    s.parse().ok()
}
fn o64(s: &str) -> Result<Option<u64>, String> {
    if s == "-" {
        Ok(None)
    } else {
        num(s).map(Some).ok_or_else(|| "BADSLOT".to_string())
    }
}
fn o32(s: &str) -> Result<Option<u32>, String> {
    Ok(o64(s)?.map(|x| x as u32))
}
fn o16(s: &str) -> Result<Option<u16>, String> {
    Ok(o64(s)?.map(|x| x as u16))
}
fn o8(s: &str) -> Result<Option<u8>, String> {
    Ok(o64(s)?.map(|x| x as u8))
}
fn ob(s: &str) -> Result<Option<bool>, String> {
    match s {
        "-" => Ok(None),
        "T" => Ok(Some(true)),
        "F" => Ok(Some(false)),
        _ => Err("BADSLOT".into()),
    }
}
fn r64(s: &str) -> Result<u64, String> {
    num(s).ok_or_else(|| "BADSLOT".to_string())
}

fn p<T: ToString>(o: &Option<T>) -> String {
    o.as_ref().map(|x| x.to_string()).unwrap_or("-".into())
}
fn pb(o: &Option<bool>) -> String {
    match o {
        None => "-".into(),
        Some(true) => "T".into(),
        Some(false) => "F".into(),
    }
}

fn enc_any<T: ToTLV>(v: &T) -> String {
    let mut buf = [0u8; 256];
    let mut wb = WriteBuf::new(&mut buf);
    match v.to_tlv(&TLVTag::Anonymous, &mut wb) {
        Ok(()) => format!("ok:{}", hex(wb.as_slice())),
        Err(e) => format!("e:{:?}", e.code()),
    }
}

fn err(e: Error) -> String {
    format!("e:{:?}", e.code())
}

pub fn op(name: &str, op: &str) -> String {
    let mut it = op.split_whitespace();
    let verb = it.next().unwrap_or("");
    let s: Vec<&str> = it.collect();
    match verb {
        "enc" => {
            if s.len() != schema(name).len() {
                return "BADSLOTS".into();
            }
            let r: Result<String, String> = (|| {
                Ok(match name {
                    "AttrPath" => enc_any(&AttrPath {
                        tag_compression: ob(s[0])?,
                        node: o64(s[1])?,
                        endpoint: o16(s[2])?,
                        cluster: o32(s[3])?,
                        attr: o32(s[4])?,
                        list_index: match s[5] {
                            "-" => None,
                            "n" => Some(Nullable::none()),
                            x => Some(Nullable::some(r64(x)? as u16)),
                        },
                    }),
                    "CmdPath" => enc_any(&CmdPath { endpoint: o16(s[0])?, cluster: o32(s[1])?, cmd: o32(s[2])? }),
                    "EventPath" => enc_any(&EventPath { node: o64(s[0])?, endpoint: o16(s[1])?, cluster: o32(s[2])?, event: o32(s[3])?, is_urgent: ob(s[4])? }),
                    "ClusterPath" => enc_any(&ClusterPath { node: o64(s[0])?, endpoint: r64(s[1])? as u16, cluster: r64(s[2])? as u32 }),
                    "EventFilter" => enc_any(&EventFilter { node: o64(s[0])?, event_min: o64(s[1])? }),
                    "TimedReq" => enc_any(&TimedReq { timeout: r64(s[0])? as u16, interaction_model_revision: o8(s[1])? }),
                    "Target" => enc_any(&Target { cluster: o32(s[0])?, endpoint: o16(s[1])?, device_type: o32(s[2])? }),
                    "DataVersionFilter" => enc_any(&DataVersionFilter {
                        path: ClusterPath { node: o64(s[0])?, endpoint: r64(s[1])? as u16, cluster: r64(s[2])? as u32 },
                        data_ver: r64(s[3])? as u32,
                    }),
                    _ => "BADNAME".into(),
                })
            })();
            r.unwrap_or_else(|e| e)
        }
        "dec" => {
            let bytes = unhex(s.first().copied().unwrap_or("-"));
            let e = TLVElement::new(&bytes);
            match name {
                "AttrPath" => AttrPath::from_tlv(&e)
                    .map(|v| {
                        let li = match &v.list_index {
                            None => "-".to_string(),
                            Some(n) => match n.as_opt_ref() {
                                None => "n".to_string(),
                                Some(x) => x.to_string(),
                            },
                        };
                        format!("ok:{} {} {} {} {} {}", pb(&v.tag_compression), p(&v.node), p(&v.endpoint), p(&v.cluster), p(&v.attr), li)
                    })
                    .unwrap_or_else(err),
                "CmdPath" => CmdPath::from_tlv(&e).map(|v| format!("ok:{} {} {}", p(&v.endpoint), p(&v.cluster), p(&v.cmd))).unwrap_or_else(err),
                "EventPath" => EventPath::from_tlv(&e)
                    .map(|v| format!("ok:{} {} {} {} {}", p(&v.node), p(&v.endpoint), p(&v.cluster), p(&v.event), pb(&v.is_urgent)))
                    .unwrap_or_else(err),
                "ClusterPath" => ClusterPath::from_tlv(&e).map(|v| format!("ok:{} {} {}", p(&v.node), v.endpoint, v.cluster)).unwrap_or_else(err),
                "EventFilter" => EventFilter::from_tlv(&e).map(|v| format!("ok:{} {}", p(&v.node), p(&v.event_min))).unwrap_or_else(err),
                "TimedReq" => TimedReq::from_tlv(&e).map(|v| format!("ok:{} {}", v.timeout, p(&v.interaction_model_revision))).unwrap_or_else(err),
                "Target" => Target::from_tlv(&e).map(|v| format!("ok:{} {} {}", p(&v.cluster), p(&v.endpoint), p(&v.device_type))).unwrap_or_else(err),
                "DataVersionFilter" => DataVersionFilter::from_tlv(&e)
                    .map(|v| format!("ok:{} {} {} {}", p(&v.path.node), v.path.endpoint, v.path.cluster, v.data_ver))
                    .unwrap_or_else(err),
                _ => "BADNAME".into(),
            }
        }
        _ => "BADOP".into(),
    }
}

fn gen_slot(r: &mut Rng, ty: Ty, opt: bool, nullable: bool) -> String {
    if opt && r.chance(1, 3) {
        return "-".into();
    }
    if nullable && r.chance(1, 3) {
        return "n".into();
    }
    let max: u64 = match ty {
        Ty::U8 => u8::MAX as u64,
        Ty::U16 => u16::MAX as u64,
        Ty::U32 => u32::MAX as u64,
        Ty::U64 => u64::MAX,
        Ty::Bool => return if r.chance(1, 2) { "T".into() } else { "F".into() },
    };
    // a nullable integer excludes the top value of its type
    let max = if nullable { max - 1 } else { max };
    let v = match r.below(8) {
        0 => 0,
        1 => max,
        2 => 255.min(max),
        3 => 256.min(max),
        4 => 65535.min(max),
        5 => 65536.min(max),
        6 => 4294967296u64.min(max),
        _ => {
            if max == u64::MAX {
                r.next()
            } else {
                r.below(max + 1)
            }
        }
    };
    v.to_string()
}

pub fn gen(r: &mut Rng) -> (String, Vec<String>) {
    let name = *r.pick(NAMES);
    let slots: Vec<String> = schema(name).iter().map(|(t, o, n)| gen_slot(r, *t, *o, *n)).collect();
    let enc_op = format!("enc {}", slots.join(" "));
    let mut ops = vec![enc_op.clone()];
    let o = op(name, &enc_op);
    if let Some(h) = o.strip_prefix("ok:") {
        ops.push(format!("dec {}", h));
        // a truncated / mutated encoding must be rejected or decoded, never panic
        let mut b = unhex(h);
        if !b.is_empty() {
            if r.chance(1, 2) {
                let n = r.below(b.len() as u64) as usize;
                b.truncate(n);
            } else {
                let i = r.below(b.len() as u64) as usize;
                b[i] = r.next() as u8;
            }
            ops.push(format!("dec {}", hex(&b)));
        }
    }
    (name.to_string(), ops)
}
