import RsMatterVerif.Lemmas.CodecDerLinkX509
/-!
# `as_asn1` output under rs-matter's X.509 parser: refusals, extensions, validity, the composed TBS walk
(audit C17 concern 2b, second round)

* `Fails p l e` — the failing counterpart of `Run`: on every reader whose remaining input is `l`, `p` answers `e`.
* `x509New_tbs_refused` — `X509Cert::new` answers `InvalidData` on a bare TBSCertificate (what `as_asn1` emits).
-/
namespace Codec.DerRd

/-- on every reader whose remaining input is exactly `l`, the action `p` fails with `e` -/
def Fails {α : Type} (p : Dec α) (l : List Nat) (e : E) : Prop := ∀ r, NextX r l → p r = .error e

namespace Fails
variable {α β : Type}

theorem bind_left {p : Dec α} {f : α → Dec β} {l : List Nat} {e : E} (hp : Fails p l e) : Fails (p >>= f) l e := by
  intro r hr
  rw [Dec.bind_run, hp r hr]

theorem bind_right {p : Dec α} {f : α → Dec β} {l l1 : List Nat} {Q : α → Prop} {e : E}
    (hp : Run p l Q l1) (hf : ∀ a, Q a → Fails (f a) l1 e) : Fails (p >>= f) l e := by
  intro r hr
  obtain ⟨a, pre, hq, hl, hpr⟩ := hp r hr
  subst hl
  rw [Dec.bind_run, hpr]
  exact hf a hq _ hr.adv

theorem fail {l : List Nat} {e : E} : Fails (Dec.fail e : Dec α) l e := fun _ _ => rfl

theorem lift {x : Except E α} {l : List Nat} {e : E} (hx : x = .error e) : Fails (Dec.lift x) l e := by
  intro r _; subst hx; rfl

theorem congr {p q : Dec α} {l : List Nat} {e : E} (h : Fails q l e) (hpq : p = q) : Fails p l e := hpq ▸ h

theorem of_len {p : Dec α} {l : List Nat} {e : E} (h : l.length ≤ MAX_LEN → Fails p l e) : Fails p l e :=
  fun r hr => h hr.next.length_le r hr

end Fails

theorem fails_nested {α : Type} {p : Dec α} {v rest : List Nat} {e : E} {n : Nat} (hn : v.length = n)
    (hp : Fails p v e) : Fails (dNested n p) (v ++ rest) e := by
  intro r hr
  subst hn
  obtain ⟨hnew, _⟩ := Next.nested hr.next
  unfold dNested readNested
  rw [hnew]
  simp only [Bind.bind, Except.bind, hp _ hr.nested]

theorem fromDer_of_fails {α : Type} {p : Dec α} {bytes : List Nat} {e : E} (hp : Fails p bytes e)
    (hlen : bytes.length ≤ MAX_LEN) : fromDer bytes p = .error e := by
  unfold fromDer Rdr.new
  rw [lenNew_of_le hlen]
  simp only [Bind.bind, Except.bind, Pure.pure, Except.pure, hp _ (NextX.ofSlice hlen)]

theorem runNew_of_fails {α : Type} {p : Dec α} {bytes : List Nat} {e : E} (hp : Fails p bytes e)
    (hlen : bytes.length ≤ MAX_LEN) : runNew bytes p = .error e := by
  unfold runNew Rdr.new
  rw [lenNew_of_le hlen]
  simp only [Bind.bind, Except.bind, Pure.pure, Except.pure, hp _ (NextX.ofSlice hlen)]

/-- a reader standing before a TLV with another tag: `T::decode` of a fixed-tag type answers `TagUnexpected` -/
theorem fails_headerOf {tag t : Nat} {v rest : List Nat} (ht : tagOfByte t = .ok t) (hne : t ≠ tag) :
    Fails (dHeaderOf tag) (encTlv t v ++ rest) .tagUnexpected := by
  unfold dHeaderOf
  refine Fails.bind_right (run_header ht) (fun x hx => ?_)
  subst hx
  simp only [ne_eq, hne, not_false_eq_true, if_true]
  exact Fails.fail

/-- **`X509Cert::new` refuses a bare TBSCertificate**: a SEQUENCE whose first element is the `[0]` version (what
`as_asn1` writes) instead of the TBSCertificate SEQUENCE is `InvalidData` for every certificate type -/
theorem x509New_tbs_refused (k : CertKind) (x rest : List Nat)
    (hlen : (encTlv TAG_SEQUENCE (encTlv 0xA0 x ++ rest)).length ≤ MAX_LEN) :
    x509New k (encTlv TAG_SEQUENCE (encTlv 0xA0 x ++ rest)) = .error .invalidData := by
  have hf : Fails (dCertificate k ((encTlv TAG_SEQUENCE (encTlv 0xA0 x ++ rest)).length + 1))
      (encTlv TAG_SEQUENCE (encTlv 0xA0 x ++ rest)) .tagUnexpected := by
    unfold dCertificate
    refine Fails.congr (l := encTlv TAG_SEQUENCE (encTlv 0xA0 x ++ rest)) ?_ rfl
    have h0 : encTlv TAG_SEQUENCE (encTlv 0xA0 x ++ rest) = encTlv TAG_SEQUENCE (encTlv 0xA0 x ++ rest) ++ [] := by simp
    rw [h0]
    refine Fails.bind_right (run_headerOf tagOfByte_seq) (fun n hn => ?_)
    subst hn
    refine fails_nested rfl ?_
    refine Fails.bind_left ?_
    unfold dTbs
    exact Fails.bind_left (fails_headerOf tagOfByte_a0 (by decide))
  unfold x509New
  rw [fromDer_of_fails hf hlen]
  rfl

end Codec.DerRd
