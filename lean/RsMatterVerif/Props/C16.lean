import RsMatterVerif.Lemmas.Tlv
import RsMatterVerif.Lemmas.TlvRound
import RsMatterVerif.Lemmas.TlvReencIter
import RsMatterVerif.Lemmas.TlvSchema
/-!
# C16 — the TLV codec round-trips every value and rejects every malformed input safely

Theorems over `Model/Tlv.lean` (the model of `tlv.rs`, `tlv/read.rs`, `tlv/write.rs` after the
C16 fix commits).  `NP r` = "`r` is not a panic of any kind": no arithmetic overflow, no failed
`unwrap!`/`unreachable!`, no out-of-range index, and no exhausted loop fuel (= the loop ends).
The hypothesis on the input is `bs.length < I32LIM = 2^31` (**inputs below 2 GiB**): the container walks
`container_next` / `container_value_len` count the nesting in an **`i32`** (`let mut level = 1`, read.rs), and
with 2^31 nested container-start bytes that counter overflows — a panic in an overflow-checks build, a
wrap-around in release (`level_overflow_reachable` below: the panic on every input of ≥ 2^31 structure starts).  Below 2^31
bytes the counter cannot get there, because every container start consumes at least one byte
(`skipLoop_np`, `cvlLoop_np`).  Matter messages are ≤ 1280 bytes (≤ 1 MB over TCP with large buffers).
`len < 2^31` implies the `len + 1 < 2^64` that every Rust slice satisfies (`usize_of_i32lim`).
The round-trip theorems carry `(encode v).length + 1 < 2^31` for the same reason.
-/
namespace C16
open Tlv

/-! ## 0. the model is built on the constants of the sources -/

/-- the value-type / tag-type codes and the control-byte layout used by the model are the ones
re-extracted from `tlv.rs` on every run (`Generated/Consts.lean`) -/
theorem consts_agree :
    2 ^ Consts.tlvTagShiftBits = 32 ∧ Consts.tlvTypeMask + 1 = 32 ∧
    Consts.tlvVtU8 = (ValueType.uint .w1).code ∧ Consts.tlvVtUtf8l = (ValueType.utf8 .w1).code ∧
    Consts.tlvVtStr8l = (ValueType.str .w1).code ∧ Consts.tlvVtNull = ValueType.null.code ∧
    Consts.tlvVtStruct = (ValueType.cont .struct).code ∧ Consts.tlvVtEndCnt = ValueType.endCnt.code ∧
    Consts.tlvTagFullQual64 = TagType.fullQual64.code ∧ endByte.toNat = Consts.tlvVtEndCnt := by decide

/-! ## 1. the findings, as theorems about the old arithmetic -/

/-- `TLVSequence::len` before the fix: the unchecked `1 + tag + lenlen + value_len` overflows on a
9-byte input (the model's `Old.elemLen` panics) … -/
theorem old_len_overflows :
    Old.elemLen [0x13, 0xff, 0xff, 0xff, 0xff, 0xff, 0xff, 0xff, 0xff] = .panic .overflow := by decide

/-- … the fixed one reports `TLVTypeMismatch`, also through `raw_value` of the enclosing struct -/
theorem fixed_len_rejects :
    elemLen [0x13, 0xff, 0xff, 0xff, 0xff, 0xff, 0xff, 0xff, 0xff] = .err .mismatch ∧
    rawValue [0x15, 0x13, 0xff, 0xff, 0xff, 0xff, 0xff, 0xff, 0xff, 0xff] = .err .mismatch ∧
    containerLen [0x15, 0x13, 0xff, 0xff, 0xff, 0xff, 0xff, 0xff, 0xff, 0xff] = .err .mismatch ∧
    containerLen [0x30, 0x05, 0x01] = .err .mismatch := by decide

/-! ## 2. no panic, no overflow, no out-of-range access, no unbounded loop -/

/-- checked arithmetic never panics: the element length is a value or an error for every input -/
theorem elemLen_total (bs : Bytes) : NP (elemLen bs) := elemLen_np bs

/-- each of the 30 **modelled** accessors of `TLVElement` returns a value or an error, never a panic and
never an exhausted loop, on every byte string shorter than 2^31 (the `i32` nesting counter of the
container walk, see the file header; `valueOf`, `rawValue`, `containerLen`, `reencode`, `reencodeIter`
are the ones that need the bound, the others hold for every input).  The public accessors that are
NOT in the model (and therefore not in this theorem) are listed in docs/C16.md "outside the theorem". -/
theorem no_panic (bs : Bytes) (h : bs.length < I32LIM) :
    NP (control bs) ∧ NP (tagOf bs) ∧ NP (valueOf bs) ∧ NP (rawValue bs) ∧ NP (containerLen bs) ∧
    NP (i8 bs) ∧ NP (u8 bs) ∧ NP (i16 bs) ∧ NP (u16 bs) ∧ NP (i32 bs) ∧ NP (u32 bs) ∧ NP (i64 bs) ∧ NP (u64 bs) ∧
    NP (f32 bs) ∧ NP (f64 bs) ∧ NP (strOf bs) ∧ NP (utf8Of bs) ∧ NP (octetsOf bs) ∧ NP (boolOf bs) ∧
    NP (nullOf bs) ∧ NP (isContainerOf bs) ∧ NP (structOf bs) ∧ NP (arrayOf bs) ∧ NP (listOf bs) ∧
    NP (containerOf bs) ∧ NP (confirmAnon bs) ∧ NP (ctxOf bs) ∧ NP (tryCtx bs) ∧
    NP (reencode bs) ∧ NP (reencodeIter bs) :=
  ⟨control_np bs, tagOf_np bs, valueOf_np bs h, rawValue_np bs h, containerLen_np bs h,
   i8_np bs, u8_np bs, i16_np bs, u16_np bs, i32_np bs, u32_np bs, i64_np bs, u64_np bs,
   f32_np bs, f64_np bs, strOf_np bs, utf8Of_np bs, octetsOf_np bs, boolOf_np bs,
   nullOf_np bs, isContainerOf_np bs, structOf_np bs, arrayOf_np bs, listOf_np bs,
   containerOf_np bs, confirmAnon_np bs, ctxOf_np bs, tryCtx_np bs,
   reencode_np bs h, reencodeIter_np bs h⟩

/-- the same for the `TLVSequence` API: element iteration step, skipping, lookup by context tag
(`find_ctx`, `ctx`, `scan_ctx`) and `raw_value` -/
theorem no_panic_seq (seq : Bytes) (ctx : Nat) (h : seq.length < I32LIM) :
    NP (current seq) ∧ NP (containerNext seq) ∧ NP (findCtx seq ctx) ∧ NP (seqCtx seq ctx) ∧
    NP (scanCtx seq ctx) ∧ NP (rawValue seq) ∧ (∀ r ∈ elements seq, NP r) ∧ (∀ r ∈ tlvElements seq, NP r) :=
  ⟨current_np seq, containerNext_np seq h, findCtx_np seq ctx h, seqCtx_np seq ctx h,
   scanCtx_np seq ctx h, rawValue_np seq h, elements_item_np seq h, tlvElements_item_np seq h⟩

/-- the public accessors added to the model after the audit: `TLVElement::tlv()` (= `tag()` then `value()`),
`total_len()` (the public wrapper of `container_len`), and the control flow of `Display` / `Debug` of an element
(`TLVElement::fmt`, recursive, `fmtOf`) and of a `TLVSequence` / `TLVSequenceIter` (`seqFmtOf`): a result or
`fmt::Error`, never a panic — in particular the `unreachable!()` is unreachable.  Since the fix
`C16-fmt-recursion-stack` the descent is capped: `fmtOf = fmtAt MAX_FMT_DEPTH`, where `fmtAt rem` is defined by
**structural recursion on the remaining depth budget** (no fuel): at most `MAX_FMT_DEPTH + 1 = 17` nested calls
for EVERY input, i.e. a constant stack need (17 × ≈ 450 bytes on x86_64) instead of one frame per nesting level. -/
theorem no_panic_extra (bs : Bytes) (h : bs.length < I32LIM) :
    NP (tlvOf bs) ∧ NP (totalLen bs) ∧ NP (fmtOf bs) ∧ NP (seqFmtOf bs) ∧ (∀ rem, NP (fmtAt rem bs)) :=
  ⟨tlvOf_np bs h, totalLen_np bs h, fmtOf_np bs h, seqFmtOf_np bs h, fun rem => fmtAt_np rem bs h⟩

example : fmtOf [0x15, 0x24, 0x01, 0x05, 0x18] = .ok () ∧ fmtOf [0x18] = .err .mismatch ∧
    fmtOf [0x15, 0x24, 0x01] = .err .mismatch ∧ Consts.tlvMaxFmtDepth = 16 := by decide

/-- **The cap changes nothing on inputs nested at most `rem + 1` containers deep**: whenever the uncapped
formatter of the tree before the fix (`Old.fmtOf`, on fuel) gets along with `rem + 1` levels of recursion, the
capped one with budget `rem` returns the same result (same error on malformed input).  With
`rem = MAX_FMT_DEPTH = 16`: identical behaviour on every element nested at most 17 deep. -/
theorem fmt_cap_transparent (rem : Nat) (bs : Bytes) (h : Old.fmtOf (rem + 1) bs ≠ .panic .fuel) :
    fmtAt rem bs = Old.fmtOf (rem + 1) bs :=
  fmtAt_eq_old rem bs h

/-- … while the uncapped formatter needed a recursion depth (fuel) that grows with the input: `len + 1` is
enough, and a depth below the nesting is not (next `example`) — the defect `C16-fmt-recursion-stack` -/
theorem fmt_uncapped_needs_depth (bs : Bytes) (h : bs.length < I32LIM) : NP (Old.fmtOf (bs.length + 1) bs) :=
  Old.fmtOf_np _ bs (Nat.lt_succ_self _) h

-- three nested structures: the uncapped formatter needs 3 levels (fuel 2 is exhausted), a budget of 1
-- formats two levels and elides the content of the second; with enough budget both agree (hypothesis and
-- conclusion of `fmt_cap_transparent` at `rem = 2`)
example : Old.fmtOf 2 [0x15, 0x15, 0x15, 0x18, 0x18, 0x18] = .panic .fuel ∧
    fmtAt 1 [0x15, 0x15, 0x15, 0x18, 0x18, 0x18] = .ok () ∧
    Old.fmtOf 3 [0x15, 0x15, 0x15, 0x18, 0x18, 0x18] = .ok () ∧
    Old.fmtOf 3 [0x15, 0x15, 0x15, 0x18, 0x18, 0x18] ≠ .panic .fuel ∧
    fmtAt 2 [0x15, 0x15, 0x15, 0x18, 0x18, 0x18] = .ok () := by decide

/-- one step of the counter: at `level = i32::MAX` one more container start overflows the `i32`
(debug / overflow-checks build: `attempt to add with overflow`), for every tag form and container kind; at
every smaller positive level the step does not panic.  (A one-step fact; the whole run is the next theorem.) -/
theorem level_step_overflows_at_max (tt : TagType) (k : Kind) :
    levelStep ⟨tt, .cont k⟩ (I32LIM - 1) = .panic .overflow ∧
    (∀ l, 1 ≤ l → l + 1 < I32LIM → NP (levelStep ⟨tt, .cont k⟩ l)) :=
  ⟨levelStep_overflow tt k, fun l h1 h2 => levelStep_np _ l h1 h2⟩

/-- **The bound is needed in the model — whole-run witness.**  On EVERY input that consists of at least 2^31
anonymous structure-start bytes (`0x15`), `container_next` — and with it the first `next()` of the element
iterator over such a sequence — panics with the `i32` overflow of `level`.  Proved symbolically by the loop
lemma `skipLoop_opens` (after `k` structure starts the level is `1 + k`, for every `k` that fits), no 2-GiB
list is evaluated.  So `no_panic_seq` is false without a length bound, and `len < 2^31` is the weakest bound of
the form `len < B` for which it holds. -/
theorem level_overflow_reachable (bs : Bytes) (hall : ∀ b ∈ bs, b = 0x15) (hlen : I32LIM ≤ bs.length) :
    containerNext bs = .panic .overflow ∧ iterNext bs = (some (.panic .overflow), []) :=
  ⟨containerNext_overflow bs hall hlen, iterNext_overflow bs hall hlen⟩

-- the hypotheses are satisfiable (by a list nobody has to build) and contradict the bound of `no_panic_seq`
example : ∃ bs : Bytes, (∀ b ∈ bs, b = 0x15) ∧ I32LIM ≤ bs.length ∧ ¬ bs.length < I32LIM :=
  ⟨List.replicate I32LIM 0x15, fun _ h => (List.mem_replicate.mp h).2, by simp, by simp⟩

/-- the bound of the theorems is weaker than what every Rust slice satisfies, and not vacuous -/
theorem bound_implies_slice (n : Nat) (h : n < I32LIM) : n + 1 < USIZE := usize_of_i32lim h
example : I32LIM = 2147483648 ∧ (1280 : Nat) < I32LIM ∧ (1048576 : Nat) < I32LIM := by decide

/-- decoding a whole tree with the public accessors terminates with a tree or an error for every
input below 2^31 bytes and every depth cap -/
theorem decode_total (d : Nat) (bs : Bytes) (h : bs.length < I32LIM) : NP (decodeTree d bs) :=
  decodeTree_np d bs h

example : ∃ bs : Bytes, bs.length < I32LIM ∧ (decodeTree 40 bs).isOk = true :=
  ⟨[0x15, 0x24, 0x01, 0x05, 0x18], by decide, by decide⟩
example : ∃ bs : Bytes, bs.length < I32LIM ∧ (decodeTree 40 bs).isOk = false :=
  ⟨[0x15, 0x13, 0xff, 0xff, 0xff, 0xff, 0xff, 0xff, 0xff, 0xff], by decide, by decide⟩

/-! ## 3. iteration is finite and ends at the first error -/

/-- `seq.iter()` consumed to the end is: at most `len` elements, then possibly **one** error, then
nothing (the loop fuel `len + 1` of the model is never used up).  Every element is a suffix of the
sequence and not longer than it. -/
theorem iter_terminates (seq : Bytes) (h : seq.length < I32LIM) :
    ∃ (oks : List Bytes) (tail : List (Res Bytes)),
      elements seq = oks.map .ok ++ tail ∧ (tail = [] ∨ ∃ e, tail = [.err e]) ∧
      oks.length ≤ seq.length ∧ (∀ e ∈ oks, e <:+ seq) := by
  obtain ⟨oks, tail, e1, e2, e3, _⟩ := elements_spec seq h
  refine ⟨oks, tail, e1, e2, e3, ?_⟩
  intro e he
  apply elementsF_suffix (seq.length + 1) seq e
  show Res.ok e ∈ elements seq
  rw [e1]; exact List.mem_append_left _ (List.mem_map.mpr ⟨e, he, rfl⟩)

/-- after the item that is an error the iterator is empty (`next()` on the emptied state is `None`) -/
theorem iter_fused (seq : Bytes) (e : Err) (h : (iterNext seq).1 = some (.err e)) :
    (iterNext (iterNext seq).2).1 = none := by
  have h2 : (iterNext seq).2 = [] := by
    unfold iterNext at h ⊢
    cases hc : current seq with
    | ok cur =>
      rw [hc] at h
      cases hn : containerNext seq with
      | ok s' => rw [hn] at h; simp only at h; split at h <;> simp at h
      | err e' => rfl
      | panic p => rfl
    | err e' => rfl
    | panic p => rfl
  rw [h2, iterNext_nil]

example : elements [0x13, 0x02, 0, 0, 0, 0, 0, 0, 0, 0x14] = [.err .mismatch] := by decide
example : elements [0x24, 0x01, 0x05, 0x24, 0x02, 0x06, 0x18] =
    [.ok [0x24, 0x01, 0x05, 0x24, 0x02, 0x06, 0x18], .ok [0x24, 0x02, 0x06, 0x18]] := by decide

/-- the same shape for `seq.tlv_iter()`: finitely many TLVs, at most one error, at the end -/
theorem tlv_iter_terminates (seq : Bytes) (h : seq.length < I32LIM) :
    ∃ (oks : List (Tag × TVal)) (tail : List (Res (Tag × TVal))),
      tlvElements seq = oks.map .ok ++ tail ∧ (tail = [] ∨ ∃ e, tail = [.err e]) ∧ oks.length ≤ seq.length :=
  tlvElements_spec seq h

/-! ## 4. reported lengths and returned slices lie within the input -/

/-- the length reported for an element (`container_len`) never exceeds the input.
**This one is true by the last guard of `containerLen`** (`if len ≤ bs.length then … else TLVTypeMismatch`,
the model of the post-fix check `if len > self.0.len()` in read.rs `container_len`): it says "the guard is
there" and nothing more.  The non-trivial content of section 4 is `container_value_len_within` (the walk alone
stays inside the input), `raw_value_within`, `str_within`, `container_within` (what is handed out is a
sub-slice) — none of them uses that guard. -/
theorem len_within (bs : Bytes) (n : Nat) (h : containerLen bs = .ok n) : n ≤ bs.length := by
  unfold containerLen at h
  rcases Res.bind_eq_ok.mp h with ⟨c, _, h2⟩
  rcases Res.bind_eq_ok.mp h2 with ⟨v, _, h3⟩
  rcases Res.bind_eq_ok.mp h3 with ⟨len, _, h4⟩
  split at h4
  · simp at h4; omega
  · simp at h4

example : containerLen [0x15, 0x24, 0x01, 0x05, 0x18, 0xff] = .ok 5 := by decide

/-- for a **container** the length computed by the `container_value_len` walk already lies within the
input — independently of the final bounds check of `container_len` (which is what rejects over-long
*strings*, e.g. `30 05 01`) -/
theorem container_value_len_within (bs : Bytes) (c : Control) (n : Nat) (hu : bs.length < I32LIM)
    (hc : control bs = .ok c) (hic : c.vt.isContainer = true) (h : containerValueLen bs c = .ok n) :
    hdrLen c + n ≤ bs.length :=
  containerValueLen_within bs c n hu hc hic h

example : control [0x15, 0x24, 0x01, 0x05, 0x18, 0xff] = .ok ⟨.anon, .cont .struct⟩ ∧
    containerValueLen [0x15, 0x24, 0x01, 0x05, 0x18, 0xff] ⟨.anon, .cont .struct⟩ = .ok 4 := by decide

/-- `raw_value()` is a contiguous sub-slice of the input -/
theorem raw_value_within (bs v : Bytes) (h : rawValue bs = .ok v) : v <:+: bs := by
  unfold rawValue at h
  rcases Res.bind_eq_ok.mp h with ⟨c, hc, h2⟩
  exact containerValue_infix h2 (control_ok_ne_nil hc)

/-- `str()`, `utf8()`, `octets()` return contiguous sub-slices of the input -/
theorem str_within (bs v : Bytes) (h : strOf bs = .ok v ∨ utf8Of bs = .ok v ∨ octetsOf bs = .ok v) : v <:+: bs := by
  rcases h with h | h | h
  · unfold strOf at h
    rcases Res.bind_eq_ok.mp h with ⟨c, hc, h2⟩
    split at h2
    · simp at h2
    · exact value_infix h2 (control_ok_ne_nil hc)
  · unfold utf8Of at h
    rcases Res.bind_eq_ok.mp h with ⟨c, hc, h2⟩
    split at h2
    · simp at h2
    · rcases Res.bind_eq_ok.mp h2 with ⟨s, hs, h3⟩
      split at h3
      · simp at h3; subst h3; exact value_infix hs (control_ok_ne_nil hc)
      · simp at h3
  · unfold octetsOf at h
    rcases Res.bind_eq_ok.mp h with ⟨c, hc, h2⟩
    split at h2
    · simp at h2
    · exact value_infix h2 (control_ok_ne_nil hc)

/-- the content of a container (`structure()/array()/list()/container()`) is a proper suffix -/
theorem container_within (bs seq : Bytes) (h : containerOf bs = .ok seq) : seq <:+ bs ∧ seq.length < bs.length := by
  unfold containerOf at h
  rcases Res.bind_eq_ok.mp h with ⟨c, hc, h2⟩
  split at h2
  · exact ⟨nextEnter_suffix h2, nextEnter_lt (control_ok_ne_nil hc) h2⟩
  · simp at h2

example : containerOf [0x15, 0x24, 0x01, 0x05, 0x18] = .ok [0x24, 0x01, 0x05, 0x18] := by decide

/-! ## 5. every written value tree decodes back to an equal tree -/

/-- **Round trip.**  Domain: `v.wf` = `v.typed` (what the Rust types of `TLVTag` / `TLVValue` enforce by
themselves: tag and integer values in the range of their type, `Utf*l(&str)` valid UTF-8) **and**
`v.lenFits` (every string length fits the length field of the element type it is written with — the
one thing the types do not enforce; `wf_iff_typed_and_accepted`).  A tree that violates `lenFits` is
*refused* by the fallible writer since the fix `C16-writer-length-truncation` (`writer_total`), so the
domain is exactly "the writer returned `Ok`" (`decode_written`); the infallible iterator writer
`TLV::bytes_iter` still truncates (`truncating_writer_corrupts`, open finding).
For every such tree of any nesting depth `≤ d` and an encoding shorter than
2^31 − 1 bytes, the bytes the writer produces (`encode v` = `TLVWrite::tlv` / `start_*` /
`end_container`), followed by arbitrary bytes, decode back — with the reader's public accessors
`tag()`, `value()`, `container()?.iter()` — to exactly `v`. -/
theorem decode_encode (v : Value) (d : Nat) (rest : Bytes) (hw : v.wf)
    (hl : (encode v).length + 1 < I32LIM) (hd : v.depth ≤ d) :
    decodeTree d (encode v ++ rest) = .ok v :=
  decodeTree_encode v d rest hw hl hd

/-- … in particular for the exact output of the writer -/
theorem decode_encode_exact (v : Value) (hw : v.wf) (hl : (encode v).length + 1 < I32LIM) :
    decodeTree v.depth (encode v) = .ok v := by
  have := decode_encode v v.depth [] hw hl (Nat.le_refl _)
  simpa using this

-- the hypotheses are satisfiable (nested containers, every tag form, extremes of the widths)
example :
    let v : Value := .cont .anon .struct (.cons (.leaf (.ctx 255) (.sint .w8 (-9223372036854775808)))
      (.cons (.cont (.fullQual64 65535 65535 4294967295) .list (.cons (.leaf .anon (.utf8 .w2 [0xc3, 0xa9])) .nil))
      (.cons (.leaf (.implPrf32 7) (.str .w8 [1, 2, 3])) .nil)))
    v.wf ∧ (encode v).length + 1 < I32LIM ∧ decodeTree 3 (encode v) = .ok v := by
  refine ⟨by simp [Value.wf, Values.wf, Tag.wf, Prim.wf, Width.bytes]; decide, by decide, by decide⟩

/-! ### the domain of the round trip = what the (fixed) writer accepts -/

/-- **What `TLVWrite::tlv` / `start_*` / `end_container` do with ANY tree** (no hypothesis): if every
string length fits the length field of its element type the bytes are `encode v`; otherwise the writer
answers `InvalidData` (the refused element itself is not started; `write : Value → Res Bytes` has no buffer state, so
"the buffer is unchanged for a refused top-level leaf" is checked by the Rust unit test only, and inside a container the
bytes written before the refused leaf remain).  (Before the fix it wrote `encode v` in both
cases, i.e. a length field truncated by `as u8/u16/u32`.) -/
theorem writer_total (v : Value) :
    (v.lenFits = true → write v = .ok (encode v)) ∧ (v.lenFits = false → write v = .err .invalidData) := by
  rw [write_eq]; constructor <;> intro h <;> simp [h]

/-- the well-formedness hypothesis of `decode_encode`, taken apart: what the Rust types enforce, and
"the writer returns `Ok`" -/
theorem wf_iff_typed_and_accepted (v : Value) : v.wf ↔ v.typed ∧ write v = .ok (encode v) := by
  rw [Value.wf_iff, write_ok_iff]; simp

/-- **Round trip over "the writer returned `Ok`".**  Every tree the Rust types can express (`v.typed`) that
the fallible writer accepts — whatever it is — decodes back to itself from the bytes the writer produced,
followed by anything. -/
theorem decode_written (v : Value) (b : Bytes) (d : Nat) (rest : Bytes) (ht : v.typed) (hwr : write v = .ok b)
    (hl : b.length + 1 < I32LIM) (hd : v.depth ≤ d) : decodeTree d (b ++ rest) = .ok v := by
  obtain ⟨hf, rfl⟩ := (write_ok_iff v b).mp hwr
  exact decodeTree_encode v d rest ((Value.wf_iff v).mpr ⟨ht, hf⟩) hl hd

example : ∃ v b, v.typed ∧ write v = .ok b ∧ b.length + 1 < I32LIM ∧ v.depth ≤ 2 :=
  ⟨.cont .anon .array (.cons (.leaf .anon (.str .w1 [7, 8])) .nil), [0x16, 0x10, 0x02, 7, 8, 0x18],
    ⟨trivial, ⟨trivial, trivial⟩, trivial⟩, by decide, by decide, by decide⟩

/-! ### writer entry points OUTSIDE `Value`: a caller-side length (`stri` / `utf8i`, `str_cb` / `utf8_cb`)

"The domain of the round trip = what the writer accepts" is a statement about `TLVWrite::tlv`, the integer /
bool / null / float methods, `str` / `utf8` and the container methods — the entry points that take a *value*.
`stri` / `utf8i` take a length **and** a byte iterator, `str_cb` / `utf8_cb` a callback that reports a length:
the code trusts both.  What holds, and what does not: -/

/-- `stri` / `utf8i` called with the true length (this is what `str` / `utf8` do) write the shortest-form leaf,
which round-trips; `str_cb` / `utf8_cb` do so for callbacks that write at most 65535 bytes (valid UTF-8 for the
`utf8` forms — a **caller precondition**, nothing in the code checks it) -/
theorem length_writers_roundtrip (t : Tag) (data rest : Bytes) (hl : data.length < 2 ^ 64) :
    writeStri false t data.length data = encode (.leaf t (Prim.mkStr data)) ∧
    strOf (writeStri false t data.length data ++ rest) = .ok data ∧
    (validUtf8 data = true → utf8Of (writeStri true t data.length data ++ rest) = .ok data) ∧
    (data.length ≤ 65535 → writeStrCb false t data = .ok (encode (.leaf t (Prim.mkStr data)))) ∧
    (data.length ≤ 65535 → writeStrCb true t data = .ok (encode (.leaf t (Prim.mkUtf8 data)))) := by
  refine ⟨writeStri_str t data, ?_, fun hu => ?_, writeStrCb_str t data, writeStrCb_utf8 t data⟩
  · rw [writeStri_str]; exact (str_roundtrip t _ data rest (lenWidth_fits _ hl)).1
  · rw [writeStri_utf8]; exact utf8_roundtrip t _ data rest ⟨lenWidth_fits _ hl, hu⟩

/-- **`str_cb` / `utf8_cb` panic** — a literal `panic!` in `finalize_len_header`, not an error — when the callback
reports more than 65535 bytes.  A caller precondition; the callers inside rs-matter (Sigma2 / Sigma3 encrypted
payloads, attestation elements, CSR response) write own certificates, fixed-length nonces and signatures. -/
theorem cb_writers_panic_above_u16 (u : Bool) (t : Tag) (data : Bytes) (h : 65535 < data.length) :
    writeStrCb u t data = .panic .explicit :=
  writeStrCb_panics u t data h

-- the preconditions are real: a wrong `len` or invalid UTF-8 is written without an error and the stream is
-- corrupt (too short a `len`: the value is cut and the rest is read as further elements; too long: the
-- element is truncated; `utf8i` with invalid UTF-8: the reader refuses what the writer accepted)
example : strOf (writeStri false .anon 2 [1, 2, 3]) = .ok [1, 2] ∧
    strOf (writeStri false .anon 4 [1, 2, 3]) = .err .mismatch ∧
    utf8Of (writeStri true .anon 1 [0x80]) = .err .invalidData ∧
    (writeStrCb true .anon [0x80]).isOk = true := by decide

/-- **The truncating writer is a defect, not a modelling choice.**  `Str8l` holding a 300-byte slice is a
value of the Rust type; the fixed `TLVWrite::tlv` refuses it; the truncating cast (`encode`: the writer before
the fix, and `TLV::bytes_iter` today) emits the length byte `300 mod 256 = 44`, and those bytes decode — without
an error — to a *different* value (the first 44 octets; the other 256 are read as further elements). -/
theorem truncating_writer_corrupts :
    let b : Bytes := List.replicate 300 0xab
    let v : Value := .leaf .anon (.str .w1 b)
    v.typed ∧ v.lenFits = false ∧ write v = .err .invalidData ∧
    (encode v).take 2 = [0x10, 0x2c] ∧ strOf (encode v) = .ok (List.replicate 44 0xab) ∧
    decodeTree 1 (encode v) = .ok (.leaf .anon (.str .w1 (List.replicate 44 0xab))) := by
  intro b v
  refine ⟨⟨trivial, trivial⟩, by decide +kernel, by decide +kernel, by decide +kernel, by decide +kernel,
    by decide +kernel⟩

/-- skipping (`container_next`, the iterator's advance) passes over exactly one written element -/
theorem skip_encode (v : Value) (rest : Bytes) (hw : v.wf) (hd : v.depth + 1 < I32LIM) :
    containerNext (encode v ++ rest) = .ok rest :=
  containerNext_encode v rest hw hd

/-- iterating over the content of a written container yields its children, in order, and stops
at the end marker -/
theorem iter_encode (t : Tag) (k : Kind) (cs : Values) (rest : Bytes) (hw : cs.wf) (hd : cs.depth + 1 < I32LIM) :
    containerOf (encode (.cont t k cs) ++ rest) = .ok (encodes cs ++ endByte :: rest) ∧
    elements (encodes cs ++ endByte :: rest) = (childSuffixes cs rest).map .ok :=
  ⟨containerOf_cont t k cs rest, elements_encodes cs rest hw hd⟩

/-- typed accessors: an integer written with **any** width is read back by the widest accessor
(the reader's `u64 → u32 → u16 → u8` / `i64 → … → i8` chains), strings by `str`/`octets`/`utf8`,
booleans and null by `bool`/`null` -/
theorem typed_roundtrip (t : Tag) (rest : Bytes) :
    (∀ w n, (Prim.uint w n).wf → u64 (encode (.leaf t (.uint w n)) ++ rest) = .ok n) ∧
    (∀ w i, (Prim.sint w i).wf → i64 (encode (.leaf t (.sint w i)) ++ rest) = .ok i) ∧
    (∀ w b, (Prim.str w b).wf → strOf (encode (.leaf t (.str w b)) ++ rest) = .ok b ∧
                                 octetsOf (encode (.leaf t (.str w b)) ++ rest) = .ok b) ∧
    (∀ w b, (Prim.utf8 w b).wf → utf8Of (encode (.leaf t (.utf8 w b)) ++ rest) = .ok b) ∧
    (∀ b, boolOf (encode (.leaf t (.bool b)) ++ rest) = .ok b) ∧
    nullOf (encode (.leaf t .null) ++ rest) = .ok () :=
  ⟨fun w n h => u64_uint t w n rest h, fun w i h => i64_sint t w i rest h,
   fun w b h => str_roundtrip t w b rest h, fun w b h => utf8_roundtrip t w b rest h,
   fun b => (bool_null_roundtrip t b rest).1, (bool_null_roundtrip t true rest).2⟩

/-- the writer methods that choose the width themselves (`u16/u32/u64`, `i16/i32/i64`, `str`,
`utf8`) always produce a well-formed primitive, so the round trip applies to them: the value comes
back through `u64()` / `i64()` whatever width was chosen; an octet string of any length (`str`: third clause)
and a **valid UTF-8** string (`utf8(&str)`: fourth clause — validity is what the `&str` type guarantees) are
well-formed with the width the writer picks -/
theorem shortest_form_roundtrip (t : Tag) (rest : Bytes) :
    (∀ n, n < 2 ^ 64 → u64 (encode (.leaf t (Prim.mkUint n)) ++ rest) = .ok n) ∧
    (∀ i : Int, -(2 ^ 63 : Nat) ≤ i ∧ i < (2 ^ 63 : Nat) → i64 (encode (.leaf t (Prim.mkSint i)) ++ rest) = .ok i) ∧
    (∀ b : Bytes, b.length < 2 ^ 64 → (Prim.mkStr b).wf) ∧
    (∀ b : Bytes, b.length < 2 ^ 64 → validUtf8 b = true → (Prim.mkUtf8 b).wf) := by
  refine ⟨fun n h => ?_, fun i h => ?_, fun b h => ?_, fun b h hu => ⟨lenWidth_fits b.length h, hu⟩⟩
  · obtain ⟨w, hw⟩ := mkUint_eq n
    have hwf := mkUint_wf n h
    rw [hw] at hwf ⊢
    exact u64_uint t w n rest hwf
  · obtain ⟨w, hw⟩ := mkSint_eq i
    have hwf := mkSint_wf i h
    rw [hw] at hwf ⊢
    exact i64_sint t w i rest hwf
  · exact lenWidth_fits b.length h

/-! ## 6. re-encoding a decoded element reproduces its bytes -/

/-- **Re-encoding.**  Whenever `elem.to_tlv(&elem.tag()?, ..)` succeeds on an arbitrary non-empty
input, its output is exactly the first `container_len()` bytes of that input — for well-formed and
malformed inputs alike (no hypothesis that `bs` was produced by the writer). -/
theorem reencode_bytes (bs out : Bytes) (hne : bs ≠ []) (hu : bs.length < I32LIM)
    (h : reencode bs = .ok out) : ∃ n, containerLen bs = .ok n ∧ n ≤ bs.length ∧ out = bs.take n := by
  obtain ⟨n, h1, h2⟩ := reencode_take bs out hne hu h
  exact ⟨n, h1, len_within bs n h1, h2⟩

example : reencode [0x15, 0x24, 0x01, 0x05, 0x18, 0xff, 0xff] = .ok [0x15, 0x24, 0x01, 0x05, 0x18] := by decide

/-- on the writer's own output the re-encoding succeeds and gives the written bytes back -/
example : reencode (encode (.cont .anon .array (.cons (.leaf .anon (.str .w8 [7])) .nil))) =
    .ok (encode (.cont .anon .array (.cons (.leaf .anon (.str .w8 [7])) .nil))) := by decide

/-! ### the iterator-based re-encoding (`elem.tlv_iter(tag)` through `TLV::bytes_iter`) versus `to_tlv`

For ARBITRARY input.  `headIsEnd bs`: the head element is an end-of-container marker;
`utf8Clean bs`: no token of the element (itself, children, grandchildren …) is a UTF-8 string
whose payload `utf8()` rejects.  Both are decidable predicates on the bytes
(`Lemmas/TlvReencIter.lean`). -/

/-- **The two re-encoders agree.**  Whenever `to_tlv` succeeds on an input whose head is not an
end-of-container element, the iterator-based re-encoding produces the *same bytes* — unless a UTF-8
string token inside carries invalid UTF-8, in which case (and only then) it fails with
`TLVTypeMismatch`, because `TLVElement::value()` validates what `raw_value()` only copies. -/
theorem reencode_iter_agrees (bs out : Bytes) (hu : bs.length < I32LIM) (hend : headIsEnd bs = false)
    (h : reencode bs = .ok out) :
    reencodeIter bs = if utf8Clean bs then .ok out else .err .mismatch :=
  reencodeIter_of_reencode bs out hu h hend

-- the hypotheses are satisfiable, in both branches of the conclusion
example : ∃ bs out : Bytes, bs.length < I32LIM ∧ headIsEnd bs = false ∧ reencode bs = .ok out ∧
    utf8Clean bs = true ∧ reencodeIter bs = .ok out :=
  ⟨[0x15, 0x36, 0x01, 0x2c, 0x02, 0x02, 0xc3, 0xa9, 0x18, 0x18, 0xff], [0x15, 0x36, 0x01, 0x2c, 0x02, 0x02, 0xc3, 0xa9, 0x18, 0x18],
    by decide, by decide, by decide, by decide, by decide⟩
example : ∃ bs out : Bytes, bs.length < I32LIM ∧ headIsEnd bs = false ∧ reencode bs = .ok out ∧
    utf8Clean bs = false ∧ reencodeIter bs = .err .mismatch :=
  ⟨[0x15, 0x2c, 0x02, 0x01, 0x80, 0x18], [0x15, 0x2c, 0x02, 0x01, 0x80, 0x18], by decide, by decide, by decide, by decide,
    by decide⟩

/-- … in the plain form: same bytes when every UTF-8 token is valid -/
theorem reencode_iter_agrees_ok (bs out : Bytes) (hu : bs.length < I32LIM) (hend : headIsEnd bs = false)
    (hclean : utf8Clean bs = true) (h : reencode bs = .ok out) : reencodeIter bs = .ok out :=
  reencodeIter_eq_reencode bs out hu hend hclean h

/-- an error of `to_tlv` is the error of the iterator-based re-encoding (no hypothesis) -/
theorem reencode_iter_err (bs : Bytes) (e : Err) (h : reencode bs = .err e) : reencodeIter bs = .err e :=
  reencodeIter_of_reencode_err bs e h

example : reencode [0x15, 0x38, 0x01, 0x18] = .err .invalidData := by decide

/-- **Converse.**  If the iterator-based re-encoding succeeds on a non-empty input whose head is not
an end-of-container element, then `to_tlv` succeeds with the same bytes, these are exactly the first
`container_len()` bytes of the input, and every UTF-8 token inside is valid. -/
theorem reencode_iter_bytes (bs out : Bytes) (hne : bs ≠ []) (hu : bs.length < I32LIM)
    (hend : headIsEnd bs = false) (h : reencodeIter bs = .ok out) :
    reencode bs = .ok out ∧ utf8Clean bs = true ∧ ∃ n, containerLen bs = .ok n ∧ n ≤ bs.length ∧ out = bs.take n := by
  obtain ⟨h1, h2, n, h3, h4⟩ := reencodeIter_take bs out hne hu h hend
  exact ⟨h2, h1, n, h3, len_within bs n h3, h4⟩

example : reencodeIter [0x15, 0x24, 0x01, 0x05, 0x18, 0xff, 0xff] = .ok [0x15, 0x24, 0x01, 0x05, 0x18] ∧
    headIsEnd [0x15, 0x24, 0x01, 0x05, 0x18, 0xff, 0xff] = false := by decide

/-- without any hypothesis: a success of the iterator-based re-encoding implies a success of `to_tlv` -/
theorem reencode_iter_implies_reencode (bs out : Bytes) (h : reencodeIter bs = .ok out) :
    ∃ out', reencode bs = .ok out' :=
  reencode_of_reencodeIter bs out h

/-- the complete relation as one equation: `reencodeIter` is a function of `reencode`, `headIsEnd`
and `utf8Clean` (`reencodeIterSpec`) -/
theorem reencode_iter_spec (bs : Bytes) (hu : bs.length < I32LIM) : reencodeIter bs = reencodeIterSpec bs :=
  reencodeIter_eq_spec bs hu

/-- **The side conditions cannot be dropped.**  On an end-of-container element at the head the two
re-encoders both succeed and *differ* (`tlv_iter` emits control byte and tag only, `to_tlv` appends a
non-empty `raw_value()`); and the unconditional agreement is false already for a one-element input. -/
theorem reencode_iter_end_differs (bs out : Bytes) (h : reencode bs = .ok out) (hend : headIsEnd bs = true) :
    ∃ c payload, control bs = .ok c ∧ rawValue bs = .ok payload ∧ payload ≠ [] ∧
      reencodeIter bs = .ok (bs.take (hdrLen c)) ∧ out = bs.take (hdrLen c) ++ payload :=
  reencodeIter_of_reencode_end bs out h hend

example : reencode [0x18, 0x18] = .ok [0x18, 0x18] ∧ headIsEnd [0x18, 0x18] = true ∧
    reencodeIter [0x18, 0x18] = .ok [0x18] := by decide

theorem reencode_iter_unconditional_false :
    ¬ ∀ bs out : Bytes, bs.length < I32LIM → reencode bs = .ok out → reencodeIter bs = .ok out :=
  reencodeIter_eq_reencode_unconditional_false

/-- **On the writer's output** (followed by arbitrary bytes) both re-encoders give the written bytes
back, for every well-formed tree of any depth -/
theorem reencode_iter_written (v : Value) (rest : Bytes) (hw : v.wf) (hl : (encode v).length + 1 < I32LIM) :
    reencodeIter (encode v ++ rest) = .ok (encode v) ∧ reencode (encode v ++ rest) = .ok (encode v) :=
  ⟨reencodeIter_encode v rest hw hl, reencode_encode v rest hw hl⟩

/-- `seq.tlv_iter()` over the content of a written container yields exactly the flattened TLV tokens
of the children (`Values.toks`: start token, tokens of the children, anonymous `EndCnt`, recursively),
whose `bytes_iter` concatenation is the written content -/
theorem tlv_iter_written (cs : Values) (rest : Bytes) (hw : cs.wf) (hl : (encodes cs).length + 1 < I32LIM) :
    tlvElements (encodes cs ++ endByte :: rest) = cs.toks.map .ok ∧ cs.toks.flatMap tlvBytes = encodes cs :=
  ⟨tlvElements_encodes cs rest hw hl, Values.toks_bytes cs⟩

-- the hypotheses are satisfiable (nested containers, a valid two-byte UTF-8 string)
example :
    let v : Value := .cont .anon .struct (.cons (.leaf (.ctx 255) (.sint .w8 (-9223372036854775808)))
      (.cons (.cont (.fullQual64 65535 65535 4294967295) .list (.cons (.leaf .anon (.utf8 .w2 [0xc3, 0xa9])) .nil))
      (.cons (.leaf (.implPrf32 7) (.str .w8 [1, 2, 3])) .nil)))
    v.wf ∧ (encode v).length + 1 < I32LIM ∧ reencodeIter (encode v ++ [0xff]) = .ok (encode v) := by
  refine ⟨by simp [Value.wf, Values.wf, Tag.wf, Prim.wf, Width.bytes]; decide, by decide, by decide⟩


/-! ## 7. derived structures (schema-directed model of `#[derive(FromTLV, ToTLV)]`) -/
section derived
open TlvSchema

/-- **Derived structures, full statement (proved).**  For every well-formed schema `ty`
(`Ty.wf`: in every structure at every nesting depth the context tags are pairwise different and
below 256) — fields of type `u8/u16/u32/u64` (also `NonZero`, unit enums, bit flags), **`i8/i16/i32/i64`**
(also `NonZeroI*`; written in the smallest signed element type, read back by the widening chains),
**`f32/f64`** (bit patterns: NaN payloads, signed zeros, subnormals), `bool`, octet
and UTF-8 strings (borrowed or with a capacity), **nested structures / lists**, **arrays of integers
or of structures** (with or without capacity), **`[T; N]`** (exactly `N` items), raw elements, enums with payload,
each optional and/or nullable — and every value `val`
the derived encoder accepts (`toValue ty val = some v`: the value inhabits the Rust type), the
derived decoder applied to the encoder's bytes, followed by arbitrary bytes, returns exactly `val`:
`Option::None` stays absent, `Nullable` null stays null, integers come back whatever width the
writer chose, nested structures and array items recursively.  By mutual structural induction over
`Ty` / `Fields` (`Lemmas/TlvSchema.lean`: `decodeVal_encode`, `decodeFields_encode`). -/
theorem struct_roundtrip_full (ty : Ty) (val : Val) (v : Value) (rest : Bytes) (hty : ty.wf)
    (hv : toValue ty val = some v) (hl : (encode v).length + 1 < I32LIM) :
    decodeStruct ty (encode v ++ rest) = .ok val :=
  struct_roundtrip ty val v rest hty hv hl

/-- … in particular for the exact output of the derived encoder -/
theorem struct_roundtrip_exact (ty : Ty) (val : Val) (b : Bytes) (hty : ty.wf)
    (hv : encodeStruct ty val = some b) (hl : b.length + 1 < I32LIM) :
    decodeStruct ty b = .ok val := by
  unfold encodeStruct at hv
  cases h : toValue ty val with
  | none => simp [h] at hv
  | some v =>
    simp only [h, Option.map_some, Option.some.injEq] at hv; subst hv
    have := struct_roundtrip_full ty val v [] hty h hl
    simpa using this

/-- what the derived encoder writes is a well-formed value tree under the requested tag, so that
`decode_encode` (section 5) applies to it as well -/
theorem struct_encodes_wf (ty : Ty) (val : Val) (v : Value) (hty : ty.wf) (hv : toValue ty val = some v) : v.wf :=
  (encodeVal_shape ty false .anon val v hty trivial hv).1

/-- the real wire structures of stream `s` (all of `TlvSchema.named`) are well-formed schemas, so the
theorem applies to the schemas the correspondence check ties to the Rust declarations -/
def realNames : List String :=
  ["AttrPath", "CmdPath", "EventPath", "ClusterPath", "EventFilter", "TimedReq", "Target", "DataVersionFilter",
   "Status", "StatusResp", "SessionParameters", "PBKDFParamReq", "PBKDFParamResp", "Pake1", "Pake2", "Pake3",
   "Sigma1Req", "Sigma2Resp", "TBEData2Decrypt", "Sigma3Decrypt", "Sigma2ResumeMsg", "AclEntry", "Fabric",
   "AttrStatus", "AttrData", "AttrResp", "CmdStatus", "CmdData", "CmdResp",
   "DSTOffsetEntry", "TimeZoneOwned", "NeighborTable"]

theorem real_schemas_wf : ∀ name ∈ realNames, ∃ ty, named name = some ty ∧ ty.wf := by
  intro name hn
  simp only [realNames, List.mem_cons, List.mem_nil_iff, or_false] at hn
  rcases hn with rfl | rfl | rfl | rfl | rfl | rfl | rfl | rfl | rfl | rfl | rfl | rfl | rfl | rfl | rfl | rfl |
    rfl | rfl | rfl | rfl | rfl | rfl | rfl | rfl | rfl | rfl | rfl | rfl | rfl | rfl | rfl | rfl <;>
  exact ⟨_, rfl, Ty.wf_of_wfb _ (by decide)⟩

-- the hypotheses are satisfiable: an `AclEntry` with a nullable array of integers, an array of
-- nested structures, an absent enum and the fabric index
example : (do
    let ty ← named "AclEntry"
    let v ← toValue ty (.obj (.cons (.val (.num 5)) (.cons (.val (.num 2))
      (.cons (.val (.arr (.cons (.num 1) (.cons (.num 300) .nil))))
      (.cons (.val (.arr (.cons (.obj (.cons .absent (.cons (.val (.num 1)) (.cons (.val (.num 2)) .nil)))) .nil)))
      (.cons .absent (.cons (.val (.num 1)) .nil)))))))
    pure (decide ((encode v).length + 1 < I32LIM) && decodeStruct ty (encode v) == .ok (.obj (.cons (.val (.num 5)) (.cons (.val (.num 2))
      (.cons (.val (.arr (.cons (.num 1) (.cons (.num 300) .nil))))
      (.cons (.val (.arr (.cons (.obj (.cons .absent (.cons (.val (.num 1)) (.cons (.val (.num 2)) .nil)))) .nil)))
      (.cons .absent (.cons (.val (.num 1)) .nil))))))))) = some true := by decide

-- a `PBKDFParamReq` with an octet string, a boolean and an optional nested `SessionParameters`
example : (do
    let ty ← named "PBKDFParamReq"
    let x := Val.obj (.cons (.val (.bytes [1, 2])) (.cons (.val (.num 1)) (.cons (.val (.num 0)) (.cons (.val (.bool false))
      (.cons (.val (.obj (.cons .absent (.cons (.val (.num 500)) (.cons .absent (.cons .absent (.cons .absent
        (.cons .absent (.cons .absent .nil))))))))) .nil)))))
    let v ← toValue ty x
    pure (decodeStruct ty (encode v) == .ok x)) = some true := by decide

/-! ### the constructs added in round 4: signed integers, floats, `[T; N]`, bit flags -/

/-- **signed fields**: what `tw.i8` / `tw.i16|i32|i64` (smallest signed element type) writes for a value of
an `iN` field is read back by `element.iN()` — `i8()` directly, the others through the widening chain — for
every value of the type, at every width -/
theorem signed_field_roundtrip (t : Tag) (w : Width) (i : Int) (rest : Bytes) (hlo : smin w ≤ i) (hhi : i ≤ smax w) :
    readSint w (encode (.leaf t (sintPrim w i)) ++ rest) = .ok i ∧ (sintPrim w i).wf :=
  ⟨readSint_written t w i rest hlo hhi, sintPrim_wf w i hlo hhi⟩

/-- the width the writer picks: `i8` always one byte; otherwise `S8` on `[-128, 127]`, `S16` on the rest of
`[-32768, 32767]`, `S32` on the rest of the 32-bit range, `S64` beyond (`Prim.mkSint`) -/
theorem signed_width_choice (i : Int) :
    sintPrim .w1 i = .sint .w1 i ∧
    (∀ w, w ≠ Width.w1 → -128 ≤ i → i ≤ 127 → sintPrim w i = .sint .w1 i) ∧
    (∀ w, w ≠ Width.w1 → (-32768 ≤ i ∧ i < -128 ∨ 127 < i ∧ i ≤ 32767) → sintPrim w i = .sint .w2 i) ∧
    (∀ w, w ≠ Width.w1 → (-2147483648 ≤ i ∧ i < -32768 ∨ 32767 < i ∧ i ≤ 2147483647) → sintPrim w i = .sint .w4 i) ∧
    (∀ w, w ≠ Width.w1 → (i < -2147483648 ∨ 2147483647 < i) → sintPrim w i = .sint .w8 i) := by
  refine ⟨by simp [sintPrim], fun w hw h1 h2 => ?_, fun w hw h => ?_, fun w hw h => ?_, fun w hw h => ?_⟩ <;>
    simp only [sintPrim, hw, if_false, Prim.mkSint]
  · simp [h1, h2]
  · have a : ¬ (-128 ≤ i ∧ i ≤ 127) := by omega
    have b : -32768 ≤ i ∧ i ≤ 32767 := by omega
    simp [a, b]
  · have a : ¬ (-128 ≤ i ∧ i ≤ 127) := by omega
    have b : ¬ (-32768 ≤ i ∧ i ≤ 32767) := by omega
    have c : -2147483648 ≤ i ∧ i ≤ 2147483647 := by omega
    simp [a, b, c]
  · have a : ¬ (-128 ≤ i ∧ i ≤ 127) := by omega
    have b : ¬ (-32768 ≤ i ∧ i ≤ 32767) := by omega
    have c : ¬ (-2147483648 ≤ i ∧ i ≤ 2147483647) := by omega
    simp [a, b, c]

/-- what the signed accessors refuse: every unsigned element, and a signed element wider than the field -/
theorem signed_reader_rejects (t : Tag) (rest : Bytes) :
    (∀ w w' n, readSint w (encode (.leaf t (.uint w' n)) ++ rest) = .err .mismatch) ∧
    (∀ w w' i, w.bytes < w'.bytes → readSint w (encode (.leaf t (.sint w' i)) ++ rest) = .err .mismatch) ∧
    (∀ w w' i, readUint w (encode (.leaf t (.sint w' i)) ++ rest) = .err .mismatch) := by
  refine ⟨fun w w' n => ?_, fun w w' i h => ?_, fun w w' i => ?_⟩
  · cases w <;> cases w' <;>
      simp only [readSint, i64, i32, i16, i8, control_leafE, Res.ok_bind, Prim.vt, reduceCtorEq, if_false]
  · cases w <;> cases w' <;> simp only [Width.bytes] at h <;> first | omega | skip
    all_goals
      simp only [readSint, i64, i32, i16, i8, control_leafE, Res.ok_bind, Prim.vt, reduceCtorEq,
        ValueType.sint.injEq, if_false]
  · cases w <;> cases w' <;>
      simp only [readUint, u64, u32, u16, u8, control_leafE, Res.ok_bind, Prim.vt, reduceCtorEq, if_false]

/-- **float fields** are carried bit for bit: every 32- / 64-bit pattern (NaN payloads, signed zeros, subnormals,
infinities) written by `tw.f32` / `tw.f64` is read back by `f32()` / `f64()`; each accessor accepts exactly its own
element type (not the other float type, no integer) -/
theorem float_field_roundtrip (t : Tag) (rest : Bytes) :
    (∀ b, b < 2 ^ 32 → Tlv.f32 (encode (.leaf t (.f32 b)) ++ rest) = .ok b) ∧
    (∀ b, b < 2 ^ 64 → Tlv.f64 (encode (.leaf t (.f64 b)) ++ rest) = .ok b) ∧
    (∀ b, Tlv.f32 (encode (.leaf t (.f64 b)) ++ rest) = .err .mismatch) ∧
    (∀ b, Tlv.f64 (encode (.leaf t (.f32 b)) ++ rest) = .err .mismatch) ∧
    (∀ w n, Tlv.f32 (encode (.leaf t (.uint w n)) ++ rest) = .err .mismatch) ∧
    (∀ w i, Tlv.f64 (encode (.leaf t (.sint w i)) ++ rest) = .err .mismatch) := by
  refine ⟨fun b h => f32_written t b rest h, fun b h => f64_written t b rest h, fun b => ?_, fun b => ?_,
    fun w n => ?_, fun w i => ?_⟩ <;>
  simp only [Tlv.f32, Tlv.f64, control_leafE, Res.ok_bind, Prim.vt, reduceCtorEq, if_false]

/-- **`[T; N]`, any number of items on the wire.**  A TLV array of `k` items — as the slice / `Vec` / `[T; k]`
encoder writes it — decodes as a `[T; N]` to those `k` items followed by `N - k` copies of `T::default()` when
`k ≤ N` ("the same value" for a shorter array means: the value padded with defaults, always exactly `N` items),
and is refused (`ConstraintError`) when `k > N`.  `k = N` is the round trip of `struct_roundtrip_full`. -/
theorem fixarr_padding (n : Nat) (el : Ty) (d : Val) (t : Tag) (vs : Vals) (v : Value) (rest : Bytes)
    (hty : el.wf) (hv : encodeVal false (.array none el) t (.arr vs) = some v)
    (hl : (encode v).length + 1 < I32LIM) :
    decodeVal false (.fixarr n el d) (encode v ++ rest) =
      (if vs.length ≤ n then .ok (.arr (padTo n d vs)) else .err .invalid) ∧
    (vs.length ≤ n → (padTo n d vs).length = n) ∧ (vs.length = n → padTo n d vs = vs) :=
  ⟨fixarr_decodes_array n el d t vs v rest hty hv hl, padTo_length n d vs, padTo_full n d vs⟩

/-- **bit flags.**  The real `to_tlv` of a `bitflags_tlv!` type writes `self.bits()` whatever the bits are:
(1) on every value the restricted encoder of the theorem accepts, the real encoder (`encodeReal` = the schema with
the masks erased) writes the same bytes — so `struct_roundtrip_full` speaks about the real encoder's output;
(2) a value holding a bit outside the declared flags (`from_bits_retain`) is written like any integer and the
decoder (`from_bits`) refuses those bytes: for such values there is **no** round trip, in the code as in the model. -/
theorem bitflags_real_encoder (ty : Ty) (val : Val) (v : Value) (hv : toValue ty val = some v) :
    encodeReal ty val = some (encode v) := by
  unfold encodeReal
  rw [encodeVal_eraseMask ty false .anon val v hv]; rfl

theorem bitflags_undefined_bits (w : Width) (m n : Nat) (nl : Bool) (t : Tag) (rest : Bytes)
    (h1 : n ≤ wmax w) (h2 : (n &&& m) ≠ n) (h3 : nl = true → n ≠ wmax w) :
    encodeVal nl (Ty.uint w (.mask m)).eraseMask t (.num n) = some (.leaf t (uintPrim w n)) ∧
    encodeVal nl (Ty.uint w (.mask m)) t (.num n) = none ∧
    decodeVal nl (.uint w (.mask m)) (encode (.leaf t (uintPrim w n)) ++ rest) = .err .invalid :=
  bitflags_undefined_rejected w m n nl t rest h1 h2 h3

-- hypotheses satisfiable: the bounds of every width, both sides of every switch of the element type
example : smin .w2 ≤ (-129 : Int) ∧ (-129 : Int) ≤ smax .w2 ∧ sintPrim .w2 (-129) = .sint .w2 (-129) ∧
    sintPrim .w8 (-128) = .sint .w1 (-128) ∧ sintPrim .w8 (-9223372036854775808) = .sint .w8 (-9223372036854775808) ∧
    smin .w8 ≤ (-9223372036854775808 : Int) ∧ sintPrim .w4 32768 = .sint .w4 32768 := by decide +kernel
example : Width.w1.bytes < Width.w2.bytes := by decide
-- a TLV array of 2 items read as `[u8; 4]` (padded with 0) and as `[u8; 1]` (refused); hypotheses of `fixarr_padding`
example : (do
    let v ← encodeVal false (.array none tU8) .anon (.arr (.cons (.num 7) (.cons (.num 9) .nil)))
    pure (decide ((encode v).length + 1 < I32LIM) &&
      decodeVal false (.fixarr 4 tU8 (.num 0)) (encode v) == .ok (.arr (.cons (.num 7) (.cons (.num 9) (.cons (.num 0) (.cons (.num 0) .nil))))) &&
      decodeVal false (.fixarr 1 tU8 (.num 0)) (encode v) == .err .invalid)) = some true := by decide +kernel
-- flags `{0x01, 0x04, 0x80}` in a `u8`: 0x85 round-trips, 0x02 is written and then refused, `Nullable` reserves 0xff
example : (5 : Nat) ≤ wmax .w1 ∧ ((2 : Nat) &&& 0x85) ≠ 2 ∧ ((0x85 : Nat) &&& 0x85) = 0x85 := by decide
example : decodeVal false (.uint .w1 (.mask 0x85)) (encode (.leaf .anon (uintPrim .w1 0x85))) = .ok (.num 0x85) ∧
    decodeVal false (.uint .w1 (.mask 0x85)) (encode (.leaf .anon (uintPrim .w1 2))) = .err .invalid ∧
    encodeVal true (.uint .w1 (.mask 0xff)) .anon (.num 0xff) = none := by decide +kernel
-- `struct_roundtrip_full` on a structure using all the new constructs: `i16` = −129, `Nullable<i64>` = `i64::MIN + 1`,
-- an `f32` signalling NaN with payload, `[i8; 2]`, `Option<[u16; 2]>` absent, flags
example : (do
    let ty ← structOfDecl .struct 0 [(none, .req, tI16), (none, .nul, tI64), (some 7, .req, .f32),
      (none, .req, .fixarr 2 tI8 (.int 0)), (none, .opt, .fixarr 2 tU16 (.num 0)), (none, .req, .uint .w1 (.mask 133))]
    let x := Val.obj (.cons (.val (.int (-129))) (.cons (.val (.int (-9223372036854775807))) (.cons (.val (.num 0x7fa00001))
      (.cons (.val (.arr (.cons (.int (-128)) (.cons (.int 127) .nil)))) (.cons .absent (.cons (.val (.num 0x84)) .nil))))))
    let v ← toValue ty x
    pure (ty.wfb && decide ((encode v).length + 1 < I32LIM) && decodeStruct ty (encode v ++ [0xaa]) == .ok x)) = some true := by
  decide +kernel
-- the real structures with signed fields
example : (do
    let ty ← named "NeighborTable"
    let x := Val.obj (.cons (.val (.num 1)) (.cons (.val (.num 2)) (.cons (.val (.num 3)) (.cons (.val (.num 4)) (.cons (.val (.num 5))
      (.cons (.val (.num 6)) (.cons (.val (.int (-128))) (.cons .absent (.cons (.val (.num 7)) (.cons (.val (.num 8))
      (.cons (.val (.bool true)) (.cons (.val (.bool false)) (.cons (.val (.bool true)) (.cons (.val (.bool false)) .nil))))))))))))))
    let v ← toValue ty x
    pure (decodeStruct ty (encode v) == .ok x)) = some true := by decide +kernel

/-! ### the tag numbering rule (`#[tlvargs(start)]`, `#[tagval]`, `#[enumval]`)

The schemas of the harness' derive-shape structures are not written down tag by tag: the harness sends
the *declaration* and `TlvSchema.structOfDecl` numbers the fields with `implicitTags`.  What that rule is: -/

/-- the field after the fields `pre` gets its `#[tagval]` if it has one, otherwise
`start + (number of implicitly numbered fields before it)`; an explicit tag does not advance the
counter (so encoder and decoder must agree on *this* numbering for every declaration shape) -/
theorem derive_tag_rule (pre : List (Option Nat)) (start : Nat) (tv : Option Nat) (post : List (Option Nat)) :
    implicitTags start (pre ++ tv :: post) =
      implicitTags start pre ++ tv.getD (start + countNone pre) ::
        implicitTags (start + countNone pre + (if tv.isNone then 1 else 0)) post :=
  implicitTags_split pre start tv post

/-- without `tagval`s the tags are `start, start+1, …` -/
theorem derive_tags_all_implicit (start n : Nat) :
    implicitTags start (List.replicate n none) = List.range' start n :=
  implicitTags_all_implicit start n

/-- the assigned tags are pairwise different (the `Nodup` half of `Ty.wf`) whenever the explicit
`tagval`s are pairwise different and none of them lies in the range the implicit counter runs through -/
theorem derive_tags_nodup (tvs : List (Option Nat)) (start : Nat) (h1 : (tvs.filterMap id).Nodup)
    (h2 : ∀ x, some x ∈ tvs → x < start ∨ start + countNone tvs ≤ x) : (implicitTags start tvs).Nodup :=
  implicitTags_nodup tvs start h1 h2

-- `struct { #[tagval(7)] a, b, #[tagval(9)] c, d }` with `start = 1`: b is field 1, d is field 2
example : implicitTags 1 [some 7, none, some 9, none] = [7, 1, 9, 2] := by decide
-- hypotheses of `derive_tags_nodup` satisfiable; a colliding tagval breaks them (and `Nodup`)
example : ([some 7, none, some 9, none].filterMap id).Nodup ∧
    (∀ x, some x ∈ [some 7, none, some 9, none] → x < 1 ∨ 1 + countNone [some 7, none, some 9, none] ≤ x) := by
  refine ⟨by decide, fun x hx => ?_⟩
  simp only [List.mem_cons, Option.some.injEq, reduceCtorEq, List.mem_nil_iff, or_false, false_or] at hx
  rcases hx with rfl | rfl <;> decide
example : ¬ (implicitTags 0 [none, some 0]).Nodup := by decide

end derived

end C16
