import RsMatterVerif.Lemmas.Chunk
import RsMatterVerif.Lemmas.ChunkAcc
import RsMatterVerif.Lemmas.ChunkEvents
import RsMatterVerif.Lemmas.ChunkLive
import RsMatterVerif.Lemmas.ChunkCursor
import RsMatterVerif.Lemmas.ChunkWf
/-!
# C14 — a chunked answer carries the complete result exactly once

Theorems over `Model/Chunk.lean` (`ReportDataResponder`: attribute section with data-version
filters, event section with the reader's cursor and event filters, subscription-id header as a
larger `hdr`, empty-report suppression; repaired code: the array ends / the event array start are
written from a structural reserve, and a report that fits no message is answered with an error
status instead of an endless sequence of empty chunks).

For every request, every sane configuration `Cfg.WF` (the buffer length is a parameter) and every
combination of sizes:
* `respond_good` — whenever the responder ends with an answer, the answer is `Good`: the attribute
  reports of all messages, concatenated, are the reports of the selected attributes (not filtered
  by the subscription, not held back by a data-version filter), each once, in request order, a list
  whole or as "empty list + one append per element", an error status standing for a report that
  fits no message — and only for such a report, per REPORT (`Justified`: a scalar / the start of a
  streamed list is failed iff its report fits no empty message; a streamed list is cut at index `k`
  iff the start and the elements before `k` fit and the read of index `k` — element `k`, or the
  end-of-list header — does not: `justified_unique`, `status_place_determined`); the event reports are the status
  reports of the invalid paths and then the events of the buffer in the cursor's range that pass
  the event filters, each once, in buffer order — for every event buffer that is a snapshot of the
  event queue of `im/events.rs` after any history of pushes / evictions / promotions / failed pushes
  (`FromQueue`; that such a buffer iterates its events in ascending order is the theorem
  `queue_ascending` over `Model/ChunkEvents.lean`, no longer a hypothesis); every message
  is at most `cap` long; no attribute report follows an event report (`attrs_before_events`);
  MoreChunkedMessages is set on all messages but the last; nothing at all is sent only when empty
  reports are suppressed and nothing was selected;
* `respond_never_loops`, `respond_total` — the responder always ends: with an answer when the error
  statuses and the event reports fit an empty message, otherwise with `NoSpace` / `ResourceExhausted`;
  never with the endless chunk sequence of the unrepaired code (`evLoop_eq_sweep`: the rescan of the
  event buffer after every sent chunk resumes exactly after the last event written);
* `complete_of_fits`, `reassembled_answer` — under `Fits` (every report that may have to go into an
  empty message fits one) no error status is used and the stream reassembles to the original items,
  lists complete and in order: `C14_partial`.
`C14_full` (every value delivered whatever its size) is refuted: `C14_full_fails`.
For reads of attributes only (`chunks`): `chunk_size_accounts`, `progress`, `chunk_count_bounded`;
for every answer, with or without events: `message_size_accounts` (length = header + arrays +
structural ends + trailer), `progress_with_events` (every message but the last carries a report when
the attribute array start is not longer than the event array start — the real encoding —, all but
at most one otherwise), `chunk_count_bounded_events`.
`messages_wellformed`: every message of every answer is one well-formed top-level struct (token view
`msgToks` of `Model/Chunk.lean`).
The model above identifies a report with (kind, id, list index, encoded size) and writes it atomically.
Cursor level (`Model/ChunkCursor.lean`: write-buffer bytes, partial writes, rewind positions, the list
index of `send_array_items`, loops with fuel — attribute section only): `cursor_attrs_refine`
(`cputAttrs_sim`: it refines the size-level model, whole run, every partial-write function),
`cursor_never_loops` (its fuel is never exhausted; `oversize_item_loops_before_fix`: the unrepaired loop
exhausts every fuel), `cursor_attr_section`, `cursor_messages`, `cursor_report_starts`,
`streamed_indices` (list indices `0, 1, …` each once, in order), and the model-level counterpart of the
seeded change C14-a: `stale_rewind_breaks_reassembly`.
The defects of the unrepaired code: `exact_fit_fails_before_fix`, `oversize_item_loops_before_fix`.
-/
namespace C14
open Chunk

/-- the event reports a correct answer to the request carries -/
def eventsOf (r : Req) : List EvPiece :=
  match r.events with
  | none => []
  | some e => e.reports

/-- the event numbers in the buffer ascend in iteration order — no longer a hypothesis: it follows
from `FromQueue` (`ascending_of_queue`) -/
def Ascending (r : Req) : Prop :=
  match r.events with
  | none => True
  | some e => (e.buf.map (·.num)).Pairwise (· < ·)

/-- **the event buffer of the request is what `Events::fetch` iterates**: a snapshot of the event
queue of `im/events.rs` (`Model/ChunkEvents.lean`) after ANY history of `push` (any priorities and
lengths, failing closures, events longer than a buffer), `reset` and `load` on buffers of ANY size
`n`, with report sizes and path / access verdicts that are arbitrary functions of the stored event.
`q.wrapped = false`: the 64-bit event number has not wrapped around since the last reset / load
(`Queue.run_not_wrapped`: without `load` that takes `2^64 − 1` operations). -/
def FromQueue (r : Req) : Prop :=
  match r.events with
  | none => True
  | some e => ∃ (n : Nat) (ops : List QOp) (q : Queue) (size : QEv → Nat) (sel : QEv → Bool),
      (Queue.new n).run ops = some q ∧ q.wrapped = false ∧
      e.buf = q.iter.map fun x => ({ num := x.num, size := size x, sel := sel x } : Ev)

/-- **the event queue never panics and iterates its events in ascending order** (`Lemmas/ChunkEvents.lean`):
every eviction / promotion leaves a sublist of the iteration order `critical ++ info ++ debug`
(`Queue.Evo`), every stored number is below the next one to be assigned -/
theorem queue_ascending (n : Nat) (ops : List QOp) :
    ∃ q, (Queue.new n).run ops = some q ∧ (q.wrapped = false → (q.iter.map (·.num)).Pairwise (· < ·)) ∧
      qLen q.debug ≤ n ∧ qLen q.info ≤ n ∧ qLen q.crit ≤ n := by
  obtain ⟨q, h1, h2⟩ := Queue.run_ok ops (Queue.new n) (Queue.qinv_new n)
  have hn : q.n = n := by
    have : ∀ (ops : List QOp) (q0 q1 : Queue), Queue.QInv q0 → q0.run ops = some q1 → q1.n = q0.n := by
      intro ops
      induction ops with
      | nil => intro q0 q1 _ h; simp only [Queue.run, Option.some.injEq] at h; rw [h]
      | cons op ops ih =>
        intro q0 q1 hq h
        cases op with
        | push prio len abort =>
          obtain ⟨q', res, g1, g2, g3, g4, _⟩ := Queue.push_ok q0 hq prio len abort
          have hrun : q'.run ops = some q1 := by
            simp only [Queue.run, g1] at h
            cases res with
            | ok v => exact h
            | error e =>
              cases e with
              | panic w => exact absurd rfl (g3 w)
              | resourceExhausted => exact h
              | closure => exact h
          rw [ih q' q1 g2 hrun, g4]
        | reset => simp only [Queue.run] at h; exact ih q0.reset q1 (Queue.qinv_reset q0) h
        | load v => simp only [Queue.run] at h; exact ih (q0.load v) q1 (Queue.qinv_load q0 v) h
    exact this ops _ q (Queue.qinv_new n) h1
  refine ⟨q, h1, h2.asc, ?_, ?_, ?_⟩
  · have := h2.caps.d; omega
  · have := h2.caps.i; omega
  · have := h2.caps.c; omega

theorem ascending_of_queue {r : Req} (h : FromQueue r) : Ascending r := by
  unfold FromQueue at h
  unfold Ascending
  cases he : r.events with
  | none => trivial
  | some e =>
    rw [he] at h
    obtain ⟨n, ops, q, size, sel, h1, h2, h3⟩ := h
    obtain ⟨q', g1, g2, _⟩ := queue_ascending n ops
    rw [h1] at g1
    injection g1 with g1
    subst g1
    simp only [h3, List.map_map]
    exact g2 h2

/-- what a well-behaved answer `cs` to `r` looks like -/
structure Good (c : Cfg) (r : Req) (cs : List ChunkOut) : Prop where
  /-- every selected attribute exactly once, in order; an error status exactly for the report that fits no message -/
  attrs : ∃ outs, AllJustified c (selOf r.attrs) outs ∧ cs.flatMap (·.pieces) = allPieces (selOf r.attrs) outs
  /-- every selected event exactly once, in order -/
  events : cs.flatMap (·.events) = eventsOf r
  /-- fits the transport's maximum size -/
  bounded : ∀ ch ∈ cs, ch.size ≤ c.cap
  /-- no attribute report follows an event report -/
  order : Ordered cs
  /-- only the last message ends the interaction (no message: an empty report that is not to be sent) -/
  lastEnds : (cs = [] ∧ r.sendIfEmpty = false) ∨
    ∃ front last, cs = front ++ [last] ∧ last.more = false ∧ ∀ ch ∈ front, ch.more = true

theorem evOut_eq_reports {r : Req} (ha : Ascending r) : evOut r.events = eventsOf r := by
  unfold Ascending at ha
  unfold eventsOf
  cases he : r.events with
  | none => rfl
  | some e =>
    rw [he] at ha
    simp only [evOut, EvReq.reports, EvReq.selected]
    rw [considered_eq_filter e e.buf e.maxSeen ha]

/-- an `ok` result: the final state of the sections and the messages sent -/
theorem respond_shape {c : Cfg} {r : Req} {cs : List ChunkOut} (hw : c.WF) (h : respond c r = .ok cs) :
    ∃ s1 s2, attrSection c r.attrs = .ok s1 ∧ eventSection c s1 r.events = .ok s2 ∧ FInv c s2 ∧
      (∃ outs, AllJustified c (selOf r.attrs) outs ∧ s2.flatAt = allPieces (selOf r.attrs) outs) ∧
      s2.flatEv = evOut r.events ∧
      ((cs = [] ∧ r.sendIfEmpty = false ∧ s2.flatAt = [] ∧ s2.flatEv = []) ∨
       cs = ({ pieces := s2.attrs.reverse, events := s2.evs.reverse, size := s2.used + c.trailerDone, more := false } :: s2.done).reverse) := by
  unfold respond at h
  cases h1 : attrSection c r.attrs with
  | error e => rw [h1] at h; cases h
  | ok s1 =>
    rw [h1] at h
    simp only at h
    cases h2 : eventSection c s1 r.events with
    | error e => rw [h2] at h; cases h
    | ok s2 =>
      rw [h2] at h
      simp only at h
      obtain ⟨a1, e1, f1, outs, hj, hfa⟩ := attrSection_ok hw h1
      obtain ⟨a2, e2, fa2, fe2⟩ := eventSection_ok hw a1 e1 h2
      refine ⟨s1, s2, rfl, h2, a2, ⟨outs, hj, by rw [fa2, hfa]⟩, by rw [fe2, f1, List.nil_append], ?_⟩
      split at h
      · rw [sendDone_ok hw a2] at h
        injection h with h
        exact .inr h.symm
      · rename_i hsup
        injection h with h
        simp only [Bool.or_eq_true, Bool.not_eq_eq_eq_not, Bool.not_true, not_or, Bool.not_eq_true,
          Bool.not_eq_false] at hsup
        obtain ⟨hd, ha, he⟩ := e2 hsup.2
        left
        refine ⟨by rw [← h, hd]; rfl, hsup.1, by simp [ESt.flatAt, hd, ha], by simp [ESt.flatEv, hd, he]⟩

/-- **attribute reports come first**: in the sequence of messages no attribute report follows an
event report -/
theorem attrs_before_events {c : Cfg} {r : Req} {cs : List ChunkOut} (hw : c.WF)
    (h : respond c r = .ok cs) : Ordered cs := by
  obtain ⟨s1, s2, h1, h2, _, _, _, hcs⟩ := respond_shape hw h
  have o2 : OInv s2 := eventSection_ordered (attrSection_ordered hw h1) h2
  rcases hcs with ⟨rfl, _⟩ | rfl
  · trivial
  · unfold OInv ESt.all at o2
    simp only [List.reverse_cons]
    exact ordered_last _ _ _ o2 rfl

/-- an answer of the responder is `Good` when the event numbers of the buffer ascend -/
theorem respond_good_of_ascending {c : Cfg} {r : Req} {cs : List ChunkOut} (hw : c.WF) (ha : Ascending r)
    (h : respond c r = .ok cs) : Good c r cs := by
  have hord := attrs_before_events hw h
  obtain ⟨s1, s2, _, _, hf, ⟨outs, hj, hfa⟩, hfe, hcs⟩ := respond_shape hw h
  rcases hcs with ⟨rfl, hsup, ha0, he0⟩ | rfl
  · refine ⟨⟨outs, hj, by rw [← hfa, ha0]; rfl⟩, by rw [← evOut_eq_reports ha, ← hfe, he0]; rfl, by simp, hord, .inl ⟨rfl, hsup⟩⟩
  · refine ⟨⟨outs, hj, ?_⟩, ?_, ?_, hord, ?_⟩
    · rw [← hfa]; simp [ESt.flatAt, List.flatMap_append]
    · rw [← evOut_eq_reports ha, ← hfe]; simp [ESt.flatEv, List.flatMap_append]
    · intro ch hch
      simp only [List.mem_reverse, List.mem_cons] at hch
      rcases hch with rfl | hch
      · have := hf.usedLe; have := hf.limLe; have := hw.trailerDone; simp only; omega
      · exact (hf.doneOk ch hch).2
    · refine .inr ⟨s2.done.reverse, { pieces := s2.attrs.reverse, events := s2.evs.reverse, size := s2.used + c.trailerDone, more := false }, by simp, rfl, ?_⟩
      intro ch hch
      exact (hf.doneOk ch (List.mem_reverse.mp hch)).1

/-- **C14 for every answer**: whatever the sizes, and whatever happened to the event queue before
(`FromQueue`: any history of pushes, evictions, promotions, failed pushes, resets), an answer of the
responder is `Good` -/
theorem respond_good {c : Cfg} {r : Req} {cs : List ChunkOut} (hw : c.WF) (hq : FromQueue r)
    (h : respond c r = .ok cs) : Good c r cs :=
  respond_good_of_ascending hw (ascending_of_queue hq) h

/-- the error statuses that may stand for the selected attributes fit an empty message -/
def StatusFits (c : Cfg) (r : Req) : Prop := ∀ it ∈ selOf r.attrs, c.hdr + c.arrOpen + it.st ≤ c.limit

/-- **the responder always ends with an answer** when the error statuses and the event reports fit
an empty message (no hypothesis on the sizes of the attribute values) -/
theorem respond_total {c : Cfg} {r : Req} (hw : c.WF) (hs : StatusFits c r) (he : EvFits c r.events) :
    ∃ cs, respond c r = .ok cs := by
  obtain ⟨s1, h1⟩ := attrSection_total hw r.attrs hs
  obtain ⟨a1, _⟩ := attrSection_ok hw h1
  obtain ⟨s2, h2⟩ := eventSection_total hw r.events a1 he
  unfold respond
  rw [h1]; simp only; rw [h2]; simp only
  split
  · obtain ⟨a2, _⟩ := eventSection_ok hw a1 (attrSection_ok hw h1).2.1 h2
    rw [sendDone_ok hw a2]
    exact ⟨_, rfl⟩
  · exact ⟨_, rfl⟩

/-- **the responder always ends**: if not with an answer then with `NoSpace` (a structural write
or an error status found no room) or `ResourceExhausted` (an event fits no message) — never with
an endless sequence of chunks -/
theorem respond_never_loops {c : Cfg} {r : Req} {e : Err} (hw : c.WF) (h : respond c r = .error e) :
    e = .noSpace ∨ e = .tooBig := by
  unfold respond at h
  cases h1 : attrSection c r.attrs with
  | error e' => rw [h1] at h; injection h with h; subst h; exact .inl (attrSection_err h1)
  | ok s1 =>
    rw [h1] at h
    simp only at h
    cases h2 : eventSection c s1 r.events with
    | error e' => rw [h2] at h; injection h with h; subst h; exact eventSection_err h2
    | ok s2 =>
      rw [h2] at h
      simp only at h
      obtain ⟨a1, e1, _⟩ := attrSection_ok hw h1
      obtain ⟨a2, _⟩ := eventSection_ok hw a1 e1 h2
      split at h
      · rw [sendDone_ok hw a2] at h; cases h
      · cases h

/-- under `Fits` no error status is used: every selected attribute is delivered completely -/
theorem complete_of_fits {c : Cfg} {its : List Item} {outs : List Out} (hj : AllJustified c its outs)
    (hf : Fits c its) : ∀ o ∈ outs, o.complete = true := by
  induction hj with
  | nil => intro o ho; cases ho
  | @cons it o its os j _ ih =>
    intro o' ho'
    simp only [List.mem_cons] at ho'
    rcases ho' with rfl | ho'
    · cases hc : o'.complete with
      | true => rfl
      | false =>
        have := j.weak hc
        rw [hf it (by simp)] at this
        cases this
    · exact ih (fun x hx => hf x (by simp [hx])) o' ho'

/-- the place of an error status is determined by the sizes: two justified outcomes of an item that
both use a status are equal (`justified_unique`); an item whose reports all fit is never failed / cut
(`Justified.complete_of_fits`); a list that can be streamed completely is never failed / cut
(`justified_split_excl`).  What stays open by design is only the whole / streamed choice, which
depends on the space left in the message the list starts in. -/
theorem status_place_determined {c : Cfg} {it : Item} {o o2 : Out} (h : Justified c it o) (h2 : Justified c it o2) :
    (o.complete = false → o2.complete = false → o = o2) ∧ (it.fits c = true → o.complete = true) ∧
    (o = .split → o2.complete = true) :=
  ⟨justified_unique h h2, h.complete_of_fits, fun e => justified_split_excl (e ▸ h) h2⟩

/-! ## reassembly: lists come back complete and in order -/

/-- the content of an item: its id and, for a list, its elements -/
def content : Item → Nat × Option (List Nat)
  | .scalar id _ _ => (id, none)
  | .list id _ _ elems _ _ _ => (id, some elems)

/-- the element reports at the head of a stream that append to list `id` -/
def takeElems (id : Nat) : List Piece → List Nat × List Piece
  | .listElem id' _ sz :: rest =>
    if id' = id then ((takeElems id rest).1 |> (sz :: ·), (takeElems id rest).2)
    else ([], .listElem id' 0 sz :: rest)
  | rest => ([], rest)

theorem takeElems_length (id : Nat) : ∀ ps : List Piece, (takeElems id ps).2.length ≤ ps.length := by
  intro ps
  induction ps with
  | nil => simp [takeElems]
  | cons p ps ih =>
    cases p with
    | listElem id' k sz =>
      simp only [takeElems]
      split
      · simp; omega
      · simp
    | scalar _ _ => simp [takeElems]
    | wholeList _ _ _ => simp [takeElems]
    | listStart _ _ => simp [takeElems]
    | status _ _ => simp [takeElems]

/-- what a client reconstructs from the stream of reports -/
def reassemble : List Piece → List (Nat × Option (List Nat))
  | [] => []
  | .scalar id _ :: rest => (id, none) :: reassemble rest
  | .wholeList id _ elems :: rest => (id, some elems) :: reassemble rest
  | .listStart id _ :: rest =>
    have := takeElems_length id rest
    (id, some (takeElems id rest).1) :: reassemble (takeElems id rest).2
  | .listElem _ _ _ :: rest => reassemble rest
  | .status _ _ :: rest => reassemble rest
termination_by ps => ps.length
decreasing_by all_goals simp_wf <;> omega

/-- a stream that does not begin with an element report -/
def NoElemHead : List Piece → Prop
  | .listElem _ _ _ :: _ => False
  | _ => True

theorem takeElems_elemPieces (id : Nat) : ∀ (es : List Nat) (k : Nat) (rest : List Piece),
    NoElemHead rest → takeElems id (elemPieces id k es ++ rest) = (es, rest) := by
  intro es
  induction es with
  | nil =>
    intro k rest hr
    simp only [elemPieces, List.zipIdx_nil, List.map_nil, List.nil_append]
    cases rest with
    | nil => simp [takeElems]
    | cons p ps =>
      cases p with
      | listElem _ _ _ => simp [NoElemHead] at hr
      | scalar _ _ => simp [takeElems]
      | wholeList _ _ _ => simp [takeElems]
      | listStart _ _ => simp [takeElems]
      | status _ _ => simp [takeElems]
  | cons e es ih =>
    intro k rest hr
    rw [elemPieces_cons]
    simp only [List.cons_append, takeElems, if_true]
    rw [ih (k + 1) rest hr]

theorem noElemHead_pieces (it : Item) (o : Out) (rest : List Piece) : NoElemHead (it.pieces o ++ rest) := by
  cases it <;> cases o <;> simp [Item.pieces, NoElemHead]

theorem noElemHead_allPieces : ∀ (its : List Item) (os : List Out), NoElemHead (allPieces its os) := by
  intro its
  cases its with
  | nil => intro os; simp [allPieces, NoElemHead]
  | cons it its =>
    intro os
    cases os with
    | nil => simp only [allPieces]; exact noElemHead_pieces it .whole _
    | cons o os => simp only [allPieces]; exact noElemHead_pieces it o _

theorem reassemble_pieces (it : Item) (o : Out) (ho : o.complete = true) (rest : List Piece)
    (hr : NoElemHead rest) : reassemble (it.pieces o ++ rest) = content it :: reassemble rest := by
  cases it with
  | scalar id sz st => cases o <;> simp_all [Item.pieces, reassemble, content, Out.complete]
  | list id whole empty elems probe st stE =>
    cases o with
    | whole => simp [Item.pieces, reassemble, content]
    | split =>
      simp only [Item.pieces, List.cons_append, reassemble, content]
      rw [takeElems_elemPieces id elems 0 rest hr]
    | failed => simp [Out.complete] at ho
    | cut k => simp [Out.complete] at ho

/-- **Reassembly**: whatever the whole/streamed choices, the stream of reports reassembles to the
selected items, each once, in order, lists with all their elements in order. -/
theorem reassemble_allPieces : ∀ (its : List Item) (os : List Out), (∀ o ∈ os, o.complete = true) →
    reassemble (allPieces its os) = its.map content := by
  intro its
  induction its with
  | nil => intro os _; simp [allPieces, reassemble]
  | cons it its ih =>
    intro os hos
    cases os with
    | nil =>
      simp only [allPieces, List.map_cons]
      rw [reassemble_pieces it .whole rfl _ (noElemHead_allPieces its []), ih [] (by simp)]
    | cons o os =>
      simp only [allPieces, List.map_cons]
      rw [reassemble_pieces it o (hos o (by simp)) _ (noElemHead_allPieces its os),
        ih os (fun x hx => hos x (by simp [hx]))]

/-- under `Fits` the client's view of a chunked answer is exactly the selected attributes -/
theorem reassembled_answer {c : Cfg} {r : Req} {cs : List ChunkOut} (hw : c.WF) (ha : FromQueue r)
    (hf : Fits c (selOf r.attrs)) (h : respond c r = .ok cs) :
    reassemble (cs.flatMap (·.pieces)) = (selOf r.attrs).map content := by
  obtain ⟨outs, hj, hfl⟩ := (respond_good hw ha h).attrs
  rw [hfl, reassemble_allPieces _ _ (complete_of_fits hj hf)]

/-- **C14 on the model**: when the error statuses and the event reports fit an empty message the
responder ends with a `Good` answer; under `Fits` every selected attribute is delivered completely
and the stream reassembles to the original values -/
theorem C14_partial {c : Cfg} {r : Req} (hw : c.WF) (ha : FromQueue r) (hs : StatusFits c r)
    (he : EvFits c r.events) :
    ∃ cs, respond c r = .ok cs ∧ Good c r cs ∧
      (Fits c (selOf r.attrs) → reassemble (cs.flatMap (·.pieces)) = (selOf r.attrs).map content) := by
  obtain ⟨cs, h⟩ := respond_total hw hs he
  exact ⟨cs, h, respond_good hw ha h, fun hf => reassembled_answer hw ha hf h⟩

/-- the configuration of a read over UDP -/
def readCfg : Cfg :=
  { cap := 1178, reserve := Consts.longReadsReserve, structReserve := Consts.longReadsStructReserve,
    hdr := 1, arrOpen := 2, close := 1, trailerMore := 7, trailerDone := 6 }

theorem readCfg_wf : readCfg.WF := by
  refine ⟨?_, ?_, ?_, ?_, ?_, ?_⟩ <;> decide

/-- a subscription report: the header carries the subscription id, the last message asks for a status -/
def subCfg : Cfg := { readCfg with hdr := 4, trailerDone := 4 }

theorem subCfg_wf : subCfg.WF := by
  refine ⟨?_, ?_, ?_, ?_, ?_, ?_⟩ <;> decide

/-- a request with a filtered attribute, a list longer than a message, and events with a filter -/
def sampleReq : Req :=
  { attrs := some [{ item := .scalar 0 1147 30 }, { item := .scalar 1 40 30, dataver := 7, filter := some 7 },
                   { item := .list 16 2000 26 [128, 128, 1147] 23 30 32 }],
    events := some { buf := [⟨1, 300, true⟩, ⟨2, 900, true⟩, ⟨3, 900, false⟩, ⟨5, 1100, true⟩], mins := [2],
                     nextMax := 100, statuses := [40] } }

/-- the event buffer of `sampleReq` is the queue after five pushes of critical events into buffers
of 100 bytes, the fourth of which failed in its closure (its number is used up) -/
theorem sampleReq_fromQueue : FromQueue sampleReq := by
  refine ⟨100, [.push 2 10 none, .push 2 10 none, .push 2 10 none, .push 2 10 (some 3), .push 2 10 none], _,
    (fun x => if x.num = 1 then 300 else if x.num = 5 then 1100 else 900), (fun x => x.num != 3), rfl, rfl, ?_⟩
  decide

/-- the hypotheses of `C14_partial` are satisfiable (with a data-version filter that holds an
attribute back, an event filter, an event that does not match, a list longer than a message, a queue
with a gap in its event numbers) -/
example : readCfg.WF ∧ FromQueue sampleReq ∧ StatusFits readCfg sampleReq ∧ EvFits readCfg sampleReq.events ∧
    Fits readCfg (selOf sampleReq.attrs) := by
  refine ⟨readCfg_wf, sampleReq_fromQueue, ?_, ⟨?_, ?_⟩, ?_⟩
  · intro it hit; simp [sampleReq, selOf, selected, yielded, AttrReq.unchanged] at hit
    rcases hit with rfl | rfl <;> decide
  · intro sz hsz; simp at hsz; subst hsz; decide
  · intro e he _; simp at he
    rcases he with rfl | rfl | rfl | rfl <;> decide
  · intro it hit; simp [sampleReq, selOf, selected, yielded, AttrReq.unchanged] at hit
    rcases hit with rfl | rfl <;> decide

set_option maxRecDepth 16000 in
/-- what the model answers to it: the attribute held back by its data-version filter, the event
below the filter's minimum and the event that does not match are left out; the list is streamed
(its last element fills a message, so the end-of-list probe sends it); the events follow, the
cursor resuming after the last event written -/
example : (respond readCfg sampleReq).toOption.map
      (·.map fun ch => (ch.pieces.length, ch.events, ch.size, ch.more)) =
    some [(1, [], 1157, true), (3, [], 292, true), (1, [], 1157, true),
          (0, [.status 0 40, .data 2 900], 953, true), (0, [.data 5 1100], 1110, false)] := by rfl

/-- an attribute read of `items` without filters -/
def plain (items : List Item) : List AttrReq := items.map fun it => { item := it }

theorem selected_plain (items : List Item) : selected (plain items) = items := by
  induction items with
  | nil => rfl
  | cons it its ih =>
    simp [plain, selected, yielded, AttrReq.unchanged] at ih ⊢
    exact ih

/-! ## reads of attributes only -/

/-- an `ok` result of an attribute read comes from a final attribute state satisfying the invariant -/
theorem chunks_ok_shape {c : Cfg} {items : List Item} {cs : List ChunkOut} (hw : c.WF)
    (h : chunks c items = .ok cs) :
    ∃ s, putItems c items (St.init c) = .ok s ∧ Inv c s ∧
      cs = ({ pieces := s.cur.reverse, size := s.used + c.close + c.trailerDone, more := false } :: s.done).reverse := by
  unfold chunks at h
  obtain ⟨s1, s2, h1, h2, _, _, _, hcs⟩ := respond_shape hw h
  simp only [eventSection] at h2
  injection h2 with h2; subst h2
  obtain ⟨s, hp, hinv, hd, ha, he, hu, _, _, _⟩ := attrSection_some hw h1
  have hsel : selected (items.map fun it => ({ item := it } : AttrReq)) = items := selected_plain items
  rw [hsel] at hp
  refine ⟨s, hp, hinv, ?_⟩
  rcases hcs with ⟨_, hsup, _, _⟩ | hcs
  · simp at hsup
  · rw [hcs, hd, ha, he, hu]; rfl

theorem chunks_good {c : Cfg} {items : List Item} {cs : List ChunkOut} (hw : c.WF)
    (h : chunks c items = .ok cs) :
    ∃ outs, AllJustified c items outs ∧ cs.flatMap (·.pieces) = allPieces items outs := by
  have := (respond_good (r := { attrs := some (plain items) }) hw trivial h).attrs
  simpa [selOf, selected_plain] using this

/-- the length of every message is header + array start + its reports + its trailer -/
theorem chunk_size_accounts {c : Cfg} {items : List Item} {cs : List ChunkOut} (hw : c.WF)
    (h : chunks c items = .ok cs) : ∀ ch ∈ cs,
    ch.size = c.hdr + c.arrOpen + sumSizes ch.pieces +
      (if ch.more then c.trailerMore else c.close + c.trailerDone) := by
  obtain ⟨s, hp, hinv, rfl⟩ := chunks_ok_shape hw h
  intro ch hch
  simp only [List.mem_reverse, List.mem_cons] at hch
  rcases hch with rfl | hch
  · simp only [sumSizes_reverse]
    have := hinv.usedEq
    simp; omega
  · obtain ⟨h1, _, h3, _⟩ := hinv.doneOk ch hch
    rw [h3, h1]; simp

/-- every message except possibly the last carries at least one report -/
theorem progress {c : Cfg} {items : List Item} {cs : List ChunkOut} (hw : c.WF)
    (h : chunks c items = .ok cs) : ∀ ch ∈ cs.dropLast, ch.pieces ≠ [] := by
  obtain ⟨s, hp, hinv, rfl⟩ := chunks_ok_shape hw h
  intro ch hch
  simp only [List.reverse_cons, List.dropLast_concat] at hch
  exact hinv.doneNonempty ch (List.mem_reverse.mp hch)

theorem length_le_flatMap_of_nonempty : ∀ (cs : List ChunkOut), (∀ ch ∈ cs, ch.pieces ≠ []) →
    cs.length ≤ (cs.flatMap (·.pieces)).length := by
  intro cs
  induction cs with
  | nil => intro _; simp
  | cons ch cs ih =>
    intro h
    have h1 : 0 < ch.pieces.length := List.length_pos_iff.mpr (h ch (by simp))
    have h2 := ih (fun x hx => h x (by simp [hx]))
    simp only [List.flatMap_cons, List.length_append, List.length_cons]
    omega

/-- the number of messages is at most the number of reports plus one -/
theorem chunk_count_bounded {c : Cfg} {items : List Item} {cs : List ChunkOut} (hw : c.WF)
    (h : chunks c items = .ok cs) : cs.length ≤ (cs.flatMap (·.pieces)).length + 1 := by
  have hp := progress hw h
  obtain ⟨s, _, _, rfl⟩ := chunks_ok_shape hw h
  simp only [List.reverse_cons, List.dropLast_concat] at hp
  have := length_le_flatMap_of_nonempty _ hp
  simp only [List.reverse_cons, List.length_append, List.length_singleton, List.flatMap_append,
    List.length_reverse] at this ⊢
  omega

/-! ## answers that carry events: size accounting and progress -/

theorem bareCount_reverse (l : List ChunkOut) : bareCount l.reverse = bareCount l := by
  simp [bareCount, List.filter_reverse]

theorem length_le_bare_reports : ∀ l : List ChunkOut,
    l.length ≤ bareCount l + (l.flatMap (·.pieces)).length + (l.flatMap (·.events)).length := by
  intro l
  induction l with
  | nil => simp [bareCount]
  | cons ch l ih =>
    rw [bareCount_cons]
    simp only [List.length_cons, List.flatMap_cons, List.length_append]
    cases hb : ch.bare with
    | true => simp only [if_true]; omega
    | false =>
      have : 0 < ch.pieces.length + ch.events.length := by
        simp only [ChunkOut.bare, Bool.and_eq_false_iff, List.isEmpty_eq_false_iff] at hb
        rcases hb with hb | hb
        · have := List.length_pos_iff.mpr hb; omega
        · have := List.length_pos_iff.mpr hb; omega
      simp only [Bool.false_eq_true, if_false]; omega

/-- the final state behind an answer, with the accounting invariant -/
theorem respond_acc {c : Cfg} {r : Req} {cs : List ChunkOut} (hw : c.WF) (h : respond c r = .ok cs) :
    ∃ s2, XFin c r.attrs.isSome r.events.isSome s2 ∧
      ((cs = [] ∧ s2.done = []) ∨
       cs = ({ pieces := s2.attrs.reverse, events := s2.evs.reverse, size := s2.used + c.trailerDone, more := false } :: s2.done).reverse) := by
  obtain ⟨s1, s2, h1, h2, _, _, _, hcs⟩ := respond_shape hw h
  obtain ⟨a1, _⟩ := attrSection_ok hw h1
  have x2 := eventSection_acc hw (attrSection_acc hw h1) a1 h2
  refine ⟨s2, x2, ?_⟩
  rcases hcs with ⟨h0, hsup, _, _⟩ | hcs
  · left
    refine ⟨h0, ?_⟩
    -- nothing was sent: the list of finished messages is empty
    unfold respond at h
    rw [h1] at h; simp only at h
    rw [h2] at h; simp only at h
    split at h
    · rw [sendDone_ok hw (eventSection_ok hw a1 (attrSection_ok hw h1).2.1 h2).1] at h
      injection h with h
      rw [h0] at h
      simp at h
    · injection h with h
      rw [h0] at h
      simpa using h
  · exact .inr hcs

/-- **size accounting for every message of every answer** (attributes, events, both, neither):
the length of a message is header + its attribute array (array start + reports) if it has one +
its event array (array start + reports) if it has one + one `end_container` for every array that a
structural write closes inside the message + the trailer (`Accounts`) -/
theorem message_size_accounts {c : Cfg} {r : Req} {cs : List ChunkOut} (hw : c.WF) (h : respond c r = .ok cs) :
    ∀ ch ∈ cs, ∃ a e, (a = true → r.attrs.isSome = true) ∧ (e = true → r.events.isSome = true) ∧ Accounts c a e ch := by
  obtain ⟨s2, x2, hcs⟩ := respond_acc hw h
  intro ch hch
  rcases hcs with ⟨rfl, _⟩ | rfl
  · cases hch
  · simp only [List.mem_reverse, List.mem_cons] at hch
    rcases hch with rfl | hch
    · refine ⟨!s2.fresh, r.events.isSome, ?_, (fun h0 => h0), x2.fin⟩
      intro hf
      exact x2.freshT (by simpa using hf)
    · obtain ⟨_, a, e, h1, h2, h3, _⟩ := x2.done ch hch
      exact ⟨a, e, h1, h2, h3⟩

/-- **per-message progress for answers that carry events**: when the start of the attribute array
is not longer than the start of the event array (the real encoding: 2 bytes each, `readCfg`,
`subCfg`) EVERY message but the last carries at least one report.  For other encodings: all but
at most one message, and only when both attributes and events are requested: the message in which
the attribute array ends and the event array starts (`Accounts c true true`), when all its
attribute reports were held back and the first event report did not fit behind the array start -/
theorem progress_with_events {c : Cfg} {r : Req} {cs : List ChunkOut} (hw : c.WF) (h : respond c r = .ok cs) :
    (c.arrOpen ≤ c.evOpen → ∀ ch ∈ cs.dropLast, ch.pieces ≠ [] ∨ ch.events ≠ []) ∧
    bareCount cs.dropLast ≤ (if r.attrs.isSome && r.events.isSome then 1 else 0) ∧
    (∀ ch ∈ cs.dropLast, ch.bare = true → Accounts c true true ch) ∧
    (∀ ch ∈ cs.dropLast, ch.more = true) := by
  obtain ⟨s2, x2, hcs⟩ := respond_acc hw h
  rcases hcs with ⟨rfl, _⟩ | rfl
  · exact ⟨(fun _ ch hch => by cases hch), Nat.zero_le _, (fun ch hch => by cases hch), (fun ch hch => by cases hch)⟩
  · simp only [List.reverse_cons, List.dropLast_concat]
    refine ⟨?_, by rw [bareCount_reverse]; exact x2.bare, ?_, ?_⟩
    · intro hle ch hch
      have h0 := x2.bare0 hle
      have hnb : ch.bare = false := by
        cases hb : ch.bare with
        | false => rfl
        | true =>
          exfalso
          have hmem : ch ∈ s2.done.filter ChunkOut.bare := List.mem_filter.mpr ⟨List.mem_reverse.mp hch, hb⟩
          unfold bareCount at h0
          rw [List.length_eq_zero_iff.mp h0] at hmem
          cases hmem
      simp only [ChunkOut.bare, Bool.and_eq_false_iff, List.isEmpty_eq_false_iff] at hnb
      exact hnb
    · intro ch hch hb
      obtain ⟨_, a, e, _, _, h3, h4⟩ := x2.done ch (List.mem_reverse.mp hch)
      obtain ⟨rfl, rfl⟩ := h4 hb
      exact h3
    · intro ch hch
      exact (x2.done ch (List.mem_reverse.mp hch)).1

/-- the number of messages is at most the number of reports plus two (plus one when only
attributes or only events are requested) -/
theorem chunk_count_bounded_events {c : Cfg} {r : Req} {cs : List ChunkOut} (hw : c.WF) (h : respond c r = .ok cs) :
    cs.length ≤ (cs.flatMap (·.pieces)).length + (cs.flatMap (·.events)).length + 1 +
      (if r.attrs.isSome && r.events.isSome then 1 else 0) := by
  obtain ⟨_, hb, _, _⟩ := progress_with_events hw h
  obtain ⟨s2, _, hcs⟩ := respond_acc hw h
  rcases hcs with ⟨rfl, _⟩ | rfl
  · simp
  · simp only [List.reverse_cons, List.dropLast_concat] at hb
    have := length_le_bare_reports s2.done.reverse
    simp only [List.reverse_cons, List.length_append, List.length_singleton, List.flatMap_append, List.length_reverse] at this ⊢
    omega

/-- both sections requested, every attribute held back by its data-version filter, the first event
nearly fills a message -/
def bareReq : Req :=
  { attrs := some [{ item := .scalar 1 40 30, dataver := 7, filter := some 7 }],
    events := some { buf := [⟨1, 1140, true⟩], nextMax := 100 } }

/-- an encoding whose attribute array start is one byte longer than its event array start -/
def oddCfg : Cfg := { readCfg with arrOpen := 3 }

theorem oddCfg_wf : oddCfg.WF := by
  refine ⟨?_, ?_, ?_, ?_, ?_, ?_⟩ <;> decide

set_option maxRecDepth 16000 in
/-- the exception is real for such an encoding (the first message carries the empty attribute
array, the start of the event array and no report), and does not occur with the real one -/
example : (respond oddCfg { bareReq with events := some { buf := [⟨1, 1147, true⟩], nextMax := 100 } }).toOption.map
      (·.map fun ch => (ch.pieces.length, ch.events.length, ch.size, ch.more, ch.bare)) =
    some [(0, 0, 14, true, true), (0, 1, 1157, false, false)] ∧
    (respond readCfg { bareReq with events := some { buf := [⟨1, 1147, true⟩], nextMax := 100 } }).toOption.map
      (·.map fun ch => (ch.pieces.length, ch.events.length, ch.size, ch.more, ch.bare)) =
    some [(0, 1, 1160, false, false)] := by
  constructor <;> rfl

set_option maxRecDepth 8000 in
/-- an item that fills the message exactly is chunked, not failed -/
example : chunks readCfg [.scalar 0 500 30, .scalar 1 647 30] =
    .ok [{ pieces := [.scalar 0 500, .scalar 1 647], size := 1157, more := false }] := by rfl

set_option maxRecDepth 8000 in
example : chunks readCfg [.scalar 0 500 30, .scalar 1 648 30] =
    .ok [{ pieces := [.scalar 0 500], size := 510, more := true },
         { pieces := [.scalar 1 648], size := 658, more := false }] := by rfl

/-! ## a value that fits no message -/

/-- the list of the audit (`docs/audit/C14.md`, concern 2): only element 2 is longer than a message -/
def auditList : Item := .list 7 5000 10 [10, 10, 5000, 10] 5 30 32

/-- **an error status stands exactly for the report that fits no message**: with the per-report
`Justified` the only justified outcome of `auditList` is "cut at index 2" (what the model answers);
replacing the whole list by a status, cutting it at index 0 or after its end, streaming it completely
or sending it whole — all of which the former per-item `Justified` accepted or could not tell
apart — are excluded -/
example : Justified readCfg auditList (.cut 2) ∧ ¬ Justified readCfg auditList .failed ∧
    ¬ Justified readCfg auditList (.cut 0) ∧ ¬ Justified readCfg auditList (.cut 4) ∧
    ¬ Justified readCfg auditList .split ∧ ¬ Justified readCfg auditList .whole := by decide

set_option maxRecDepth 32000 in
/-- what the model answers for it: the two elements before the oversize one, then the status -/
example : (chunks readCfg [auditList]).toOption.map (·.flatMap (·.pieces)) =
    some [.listStart 7 10, .listElem 7 0 10, .listElem 7 1 10, .status 7 32] := by rfl


set_option maxRecDepth 8000 in
/-- a value that fits no message: the repaired code answers the attribute with an error status (the
unrepaired code sent empty chunks forever) and goes on with the rest of the request -/
theorem oversize_item_gets_status :
    chunks readCfg [.scalar 0 1148 30, .scalar 1 10 30] =
      .ok [{ pieces := [.status 0 30, .scalar 1 10], size := 50, more := false }] := by rfl

/-- **Full statement** (every selected value is delivered, whatever its size): no responder can
meet it for a value longer than a message; refuted on the model by `oversize_item_gets_status` -/
def C14_full : Prop :=
  ∀ (c : Cfg) (r : Req), c.WF → FromQueue r →
    ∃ cs, respond c r = .ok cs ∧ Good c r cs ∧
      reassemble (cs.flatMap (·.pieces)) = (selOf r.attrs).map content

set_option maxRecDepth 8000 in
theorem C14_full_fails : ¬ C14_full := by
  intro h
  obtain ⟨cs, hc, _, hre⟩ := h readCfg { attrs := some (plain [.scalar 0 1148 30, .scalar 1 10 30]) } readCfg_wf trivial
  have h2 := oversize_item_gets_status
  unfold chunks at h2
  have : (fun it => ({ item := it } : AttrReq)) = fun it => { item := it } := rfl
  simp only [plain] at hc
  rw [h2] at hc
  injection hc with hc
  subst hc
  simp [selOf, selected, yielded, AttrReq.unchanged, reassemble, content, plain] at hre

/-! ## every message is well-formed on its own -/

/-- **every message of every answer is well-formed on its own** (audit concern 6): there are flags
`a` / `e` (the message contains the attribute / the event array) that account for its length
(`Accounts`, as in `message_size_accounts`) and for which the TLV containers the message opens and
closes (`msgToks`: ReportData struct, [subscription id], AttributeReports array with one struct per
report, EventReports array, structural array ends, trailer with the end of the array that is still
open + MoreChunkedMessages, or [SuppressResponse], revision, struct end) form ONE top-level struct in
which every container is closed by its own `end_container` and the struct by the last token — with or
without subscription id, with or without SuppressResponse.  This is container nesting DERIVED FROM THE
FLAGS: `msgToks` is balanced by construction, the only non-definitional content is that every non-final
(MoreChunks) message has an open array for its trailer to close (`more → a ∨ e`).  Byte-level
completeness of the reports of a message: `cursor_messages` (attributes only); event reports, the inner
encoding of a report and tag order: decoding oracle on the real chunks only. -/
theorem messages_wellformed {c : Cfg} {r : Req} {cs : List ChunkOut} (hw : c.WF) (h : respond c r = .ok cs) :
    ∀ ch ∈ cs, ∃ a e, (a = true → r.attrs.isSome = true) ∧ (e = true → r.events.isSome = true) ∧
      Accounts c a e ch ∧ ∀ subId suppress, wellFormed (msgToks subId suppress a e ch) = true := by
  obtain ⟨s2, x2, hcs⟩ := respond_acc hw h
  intro ch hch
  rcases hcs with ⟨rfl, _⟩ | rfl
  · cases hch
  · simp only [List.mem_reverse, List.mem_cons] at hch
    rcases hch with rfl | hch
    · refine ⟨!s2.fresh, r.events.isSome, ?_, (fun h0 => h0), x2.fin, ?_⟩
      · intro hf
        exact x2.freshT (by simpa using hf)
      · intro subId suppress
        exact msgToks_wellFormed _ _ _ _ _ (by simp)
    · obtain ⟨_, a, e, h1, h2, h3, h4⟩ := x2.done ch hch
      refine ⟨a, e, h1, h2, h3, fun subId suppress => msgToks_wellFormed _ _ _ _ _ ?_⟩
      intro _
      cases hb : ch.bare with
      | true => exact .inl (h4 hb).1
      | false =>
        simp only [ChunkOut.bare, Bool.and_eq_false_iff, List.isEmpty_eq_false_iff] at hb
        rcases hb with hb | hb
        · left
          cases ha : a with
          | true => rfl
          | false => exact absurd (h3.2.1 ha) hb
        · right
          cases he : e with
          | true => rfl
          | false => exact absurd (h3.2.2 he) hb

set_option maxRecDepth 16000 in
/-- the token view of the answer to `sampleReq` (a read: no subscription id; SuppressResponse on the
last message): messages 1–3 carry the attribute array, message 4 ends it and starts the event array,
message 5 continues the event array -/
example : (respond readCfg sampleReq).toOption.map (fun cs =>
      ((cs.zip [(true, false), (true, false), (true, false), (true, true), (false, true)]).map
        fun (ch, ae) => msgToks false true ae.1 ae.2 ch).map fun ts => (ts.length, wellFormed ts)) =
    some [(9, true), (15, true), (9, true), (14, true), (9, true)] := by rfl

/-- the check is not vacuous: a non-final message without any array (the trailer closes an array
that was never opened, so the struct end comes one token early) is not well-formed, nor is a message
with something behind the struct end -/
example : wellFormed (msgToks false false false false { pieces := [], size := 0, more := true }) = false ∧
    wellFormed [.op, .leaf, .cl, .leaf] = false ∧ wellFormed [.op, .op, .leaf, .cl] = false := by decide

/-! ## cursor level: list index, rewind position, partial writes (`Model/ChunkCursor.lean`)

The statements above are about a model in which a report is identified with its size and written
atomically.  `Model/ChunkCursor.lean` models the attribute section one level down — the bytes of the
`WriteBuf` (what `as_slice()` sends, and what stays in the array behind `end`), writes that fail half
way, the rewind positions of `process_read` and `send_array_items`, the list index that
`send_array_items` carries across chunks, the loops as loops with fuel — and
`Lemmas/ChunkCursor.lean` proves that it refines the size-level model. -/

/-- the messages of a cursor-level run, in the order sent, the last one being the buffer handed to the
rest of the responder (without trailers) -/
def msgsOf (x : CSt) : List (List Cell) := x.sent.reverse ++ [x.wb.live]

/-- **the cursor-level attribute section is the size-level one** (whole run, every partial-write
function `pw`, every garbage `g` in the buffer): both fail with the same error, or both end and
every message sent consists of header, array start and the bytes of the COMPLETE reports of the
corresponding size-level chunk — no byte of a report that did not fit, no byte of an earlier message.
`IdxOk`: every list has at most 65535 elements — the list index of `send_array_items` is a `u16` and
`list_index + 1` is a checked addition in the model (`nextIdx`; `arrStep_overflow`: the bound is needed) -/
theorem cursor_attrs_refine {c : Cfg} (hw : c.WF) (pw : PW) (g : List Cell) (as : List AttrReq) (hok : IdxOk as) :
    (∃ e, cattrs c pw false g as = .error e ∧ putAttrs c (yielded as) (St.init c) = .error e ∧ e = .noSpace) ∨
    (∃ x s, cattrs c pw false g as = .ok x ∧ putAttrs c (yielded as) (St.init c) = .ok s ∧
      x.sent = s.done.map (fun ch => body c ch.pieces) ∧ x.wb.live = body c s.cur.reverse) := by
  have h := cattrs_sim hw pw g as hok
  cases h1 : cattrs c pw false g as with
  | error e =>
    cases h2 : putAttrs c (yielded as) (St.init c) with
    | error e2 =>
      rw [h1, h2] at h
      have : e = e2 := h
      subst this
      rw [putAttrs_eq] at h2
      exact .inl ⟨e, rfl, rfl, putItems_err _ _ _ h2⟩
    | ok s => rw [h1, h2] at h; exact h.elim
  | ok x =>
    cases h2 : putAttrs c (yielded as) (St.init c) with
    | error e2 => rw [h1, h2] at h; exact h.elim
    | ok s =>
      rw [h1, h2] at h
      have hs : Sim c x s := h
      exact .inr ⟨x, s, rfl, rfl, hs.sent, hs.live⟩

/-- **the loops of the attribute section end** (audit concern 4: termination with content): the
`loop { process_read … }` of `report_attributes` (fuel 4) and the loop of `send_array_items` (fuel
`2·n + 6`) never exhaust their fuel, whatever the sizes — for lists of at most 65535 elements (`IdxOk`:
the `u16` list index; beyond that the model ends with `Err.overflow` like a build with overflow checks,
while a release build wraps the index to 0 and streams the list again and again) -/
theorem cursor_never_loops {c : Cfg} (hw : c.WF) (pw : PW) (g : List Cell) (as : List AttrReq) (hok : IdxOk as) :
    cattrs c pw false g as ≠ .error .loops ∧ cattrs c pw false g as ≠ .error .overflow := by
  have key : ∀ e, e ≠ Err.noSpace → cattrs c pw false g as ≠ .error e := by
    intro e0 hne h
    rcases cursor_attrs_refine hw pw g as hok with ⟨e, h1, _, h3⟩ | ⟨x, s, h1, _⟩
    · rw [h] at h1; injection h1 with h1; subst h1; exact hne h3
    · rw [h] at h1; cases h1
  exact ⟨key _ (by intro h; cases h), key _ (by intro h; cases h)⟩

/-- the loop that `cursor_never_loops` excludes existed: on the unrepaired loop (`itemLoopOld`: no test
for an empty message) the value of `oversize_item_gets_status` exhausts every fuel
(`oversize_item_loops_before_fix`), each round sending a message without a report -/
example (fuel : Nat) :
    itemLoopOld readCfg pwAll (.scalar 0 1148) fuel (CSt.init readCfg []) = .error .loops :=
  oversize_item_loops_before_fix readCfg pwAll _ (by decide) fuel _ (by simp [CSt.init, WB.push])

/-- **what the attribute section hands to the event section**, at cursor level: the messages sent so
far and the buffer are those of the size-level state `s1` of `respond` -/
theorem cursor_attr_section {c : Cfg} (hw : c.WF) (pw : PW) (g : List Cell) {as : List AttrReq} {s1 : ESt}
    (hok : IdxOk as) (h : attrSection c (some as) = .ok s1) :
    ∃ x, cattrs c pw false g as = .ok x ∧ x.sent = s1.done.map (fun ch => body c ch.pieces) ∧
      x.wb.live = body c s1.attrs.reverse := by
  obtain ⟨s, hp, _, hd, ha, _⟩ := attrSection_some hw h
  rcases cursor_attrs_refine hw pw g as hok with ⟨e, _, h2, _⟩ | ⟨x, s2, h1, h2, h3, h4⟩
  · rw [putAttrs_eq] at h2
    have : putItems c (selected as) (St.init c) = .error e := h2
    rw [hp] at this; cases this
  · rw [putAttrs_eq] at h2
    have : putItems c (selected as) (St.init c) = .ok s2 := h2
    rw [hp] at this
    injection this with this
    subst this
    exact ⟨x, h1, by rw [h3, hd], by rw [h4, ha]⟩

/-- **an attribute read, message by message**: the byte strings the cursor-level run sends are, one for
one, header + array start + the bytes of the reports of the messages of `chunks` -/
theorem cursor_messages {c : Cfg} (hw : c.WF) (pw : PW) (g : List Cell) {items : List Item} {cs : List ChunkOut}
    (hok : IdxOk (plain items)) (h : chunks c items = .ok cs) :
    ∃ x, cattrs c pw false g (plain items) = .ok x ∧ msgsOf x = cs.map fun ch => body c ch.pieces := by
  obtain ⟨s, hp, _, rfl⟩ := chunks_ok_shape hw h
  rcases cursor_attrs_refine hw pw g (plain items) hok with ⟨e, _, h2, _⟩ | ⟨x, s2, h1, h2, h3, h4⟩
  · rw [putAttrs_eq] at h2
    have h2b : putItems c (selected (plain items)) (St.init c) = .error e := h2
    rw [selected_plain, hp] at h2b; cases h2b
  · rw [putAttrs_eq] at h2
    have h2b : putItems c (selected (plain items)) (St.init c) = .ok s2 := h2
    rw [selected_plain, hp] at h2b
    injection h2b with h2b
    subst h2b
    refine ⟨x, h1, ?_⟩
    simp [msgsOf, h3, h4, List.map_reverse]

/-- a message is as long as its header and its complete reports (the rewinds left nothing behind) -/
theorem body_size (c : Cfg) (ps : List Piece) : (body c ps).length = c.hdr + c.arrOpen + sumSizes ps :=
  body_length c ps

theorem reportStarts_cellsOf_ne (src : Src) (hs : ∀ p, src ≠ .rep p) (n : Nat) (rest : List Cell) :
    reportStarts (cellsOf src n ++ rest) = reportStarts rest := by
  have : ∀ l : List Nat, reportStarts (l.map (fun i => (⟨src, i⟩ : Cell)) ++ rest) = reportStarts rest := by
    intro l
    induction l with
    | nil => rfl
    | cons i l ih =>
      cases src with
      | rep p => exact absurd rfl (hs p)
      | hdr => simpa [reportStarts] using ih
      | arrOpen => simpa [reportStarts] using ih
      | probe a b => simpa [reportStarts] using ih
  exact this _

theorem reportStarts_tail (p : Piece) : ∀ (l : List Nat), (∀ i ∈ l, 0 < i) → ∀ rest : List Cell,
    reportStarts (l.map (fun i => (⟨.rep p, i⟩ : Cell)) ++ rest) = reportStarts rest := by
  intro l
  induction l with
  | nil => intro _ rest; rfl
  | cons i l ih =>
    intro hl rest
    have hi : 0 < i := hl i (by simp)
    obtain ⟨j, rfl⟩ : ∃ j, i = j + 1 := ⟨i - 1, by omega⟩
    simp only [List.map_cons, List.cons_append, reportStarts]
    exact ih (fun k hk => hl k (by simp [hk])) rest

theorem reportStarts_cells (p : Piece) (hp : 0 < p.size) (rest : List Cell) :
    reportStarts (p.cells ++ rest) = p :: reportStarts rest := by
  obtain ⟨n, hn⟩ : ∃ n, p.size = n + 1 := ⟨p.size - 1, by omega⟩
  simp only [Piece.cells, cellsOf, hn, List.range_succ_eq_map, List.map_cons, List.cons_append, reportStarts,
    List.map_map]
  congr 1
  have := reportStarts_tail p ((List.range n).map Nat.succ) (by simp) rest
  simpa [List.map_map] using this

/-- **a client finds the report boundaries**: in the bytes of a message the reports that start are
exactly its reports, in order (reports are not empty) -/
theorem reportStarts_body (c : Cfg) : ∀ ps : List Piece, (∀ p ∈ ps, 0 < p.size) →
    reportStarts (body c ps) = ps := by
  intro ps hps
  have : ∀ ps : List Piece, (∀ p ∈ ps, 0 < p.size) → reportStarts (ps.flatMap Piece.cells) = ps := by
    intro ps
    induction ps with
    | nil => intro _; rfl
    | cons p ps ih =>
      intro h
      rw [List.flatMap_cons, reportStarts_cells p (h p (by simp)), ih (fun q hq => h q (by simp [hq]))]
  simp only [body, frame, List.append_assoc]
  rw [reportStarts_cellsOf_ne _ (by intro p; exact Src.noConfusion), reportStarts_cellsOf_ne _ (by intro p; exact Src.noConfusion)]
  exact this ps hps

/-- the list index a report appends at -/
def elemIdx : Piece → Option (Nat × Nat)
  | .listElem id i _ => some (id, i)
  | _ => none

theorem elemIdx_elemPieces (id : Nat) : ∀ (es : List Nat) (k : Nat),
    (elemPieces id k es).filterMap elemIdx = (List.range' k es.length).map fun i => (id, i) := by
  intro es
  induction es with
  | nil => intro k; simp [elemPieces_nil]
  | cons e es ih =>
    intro k
    rw [elemPieces_cons]
    simp [elemIdx, ih (k + 1), List.range'_succ]

/-- how many elements of a list an outcome delivers by streaming -/
def streamedCount (n : Nat) : Out → Nat
  | .split => n
  | .cut k => min k n
  | _ => 0

/-- **the list indices of the streamed elements are `0, 1, …, m − 1`, each once, in order** — all of
them (`m = n`) when the list is streamed completely, the `k` before the first element that fits no
message when it is cut -/
theorem streamed_indices (id whole empty : Nat) (elems : List Nat) (probe st stE : Nat) (o : Out) :
    ((Item.list id whole empty elems probe st stE).pieces o).filterMap elemIdx =
      (List.range (streamedCount elems.length o)).map fun i => (id, i) := by
  cases o with
  | whole => simp [Item.pieces, elemIdx, streamedCount]
  | failed => simp [Item.pieces, elemIdx, streamedCount]
  | split =>
    simp only [Item.pieces, List.filterMap_cons, elemIdx, elemIdx_elemPieces, streamedCount, List.range_eq_range']
  | cut k =>
    simp only [Item.pieces, List.filterMap_cons, List.filterMap_append, elemIdx, elemIdx_elemPieces,
      List.filterMap_nil, List.append_nil, streamedCount, List.range_eq_range', List.length_take]

/-- **exactly once, in order, at report boundaries — read off the bytes sent**: for an attribute read
whose reports are not empty, the reports that START in the messages of the cursor-level run are, message
by message, the reports of `chunks` (so, by `chunks_good`, each selected report once, in request order,
the list indices `0, 1, …` by `streamed_indices`), and every message is exactly as long as its header
and its complete reports -/
theorem cursor_report_starts {c : Cfg} (hw : c.WF) (pw : PW) (g : List Cell) {items : List Item}
    {cs : List ChunkOut} (hok : IdxOk (plain items)) (h : chunks c items = .ok cs)
    (hpos : ∀ ch ∈ cs, ∀ p ∈ ch.pieces, 0 < p.size) :
    ∃ x, cattrs c pw false g (plain items) = .ok x ∧
      (msgsOf x).map reportStarts = cs.map (·.pieces) ∧
      (msgsOf x).map List.length = cs.map fun ch => c.hdr + c.arrOpen + sumSizes ch.pieces := by
  obtain ⟨x, h1, h2⟩ := cursor_messages hw pw g hok h
  refine ⟨x, h1, ?_, ?_⟩
  · rw [h2, List.map_map]
    apply List.map_congr_left
    intro ch hch
    exact reportStarts_body c ch.pieces (hpos ch hch)
  · rw [h2, List.map_map]
    apply List.map_congr_left
    intro ch _
    exact body_length c ch.pieces

/-- a small configuration (messages of at most 41 bytes, 30 for reports) -/
def tinyCfg : Cfg :=
  { cap := 41, reserve := 7, structReserve := 4, hdr := 1, arrOpen := 2, close := 1, trailerMore := 7, trailerDone := 6 }

theorem tinyCfg_wf : tinyCfg.WF := by
  refine ⟨?_, ?_, ?_, ?_, ?_, ?_⟩ <;> decide

/-- a list of four elements that ends less than a report header before the end of its second message:
the end-of-list read finds no space, the chunk is sent, and the read is repeated as the first read of
the fresh message (the situation of the seeded change C14-a) -/
def tinyList : Item := .list 5 100 4 [10, 10, 10, 10] 8 6 7

/-- the hypotheses of `cursor_report_starts` are satisfiable, and this is what the faithful cursor-level
run sends: three messages, the elements `0, 1 | 2, 3 |` — the last message holds only the header -/
example : tinyCfg.WF ∧
    (chunks tinyCfg [tinyList]).toOption.map (·.map (·.pieces)) =
      some [[.listStart 5 4, .listElem 5 0 10, .listElem 5 1 10], [.listElem 5 2 10, .listElem 5 3 10], []] ∧
    (cattrs tinyCfg pwAll false [] (plain [tinyList])).toOption.map (fun x => (msgsOf x).map reportStarts) =
      some [[.listStart 5 4, .listElem 5 0 10, .listElem 5 1 10], [.listElem 5 2 10, .listElem 5 3 10], []] :=
  ⟨tinyCfg_wf, by decide, by decide⟩

/-- the hypothesis `IdxOk` of the cursor-level theorems is satisfiable … -/
example : IdxOk (plain [tinyList]) := by
  intro a ha
  simp only [plain, List.map_cons, List.map_nil, List.mem_singleton] at ha
  subst ha
  show 4 ≤ idxMax
  decide

/-- … and needed: in a list of 65536 elements the read of element 65535 = `u16::MAX` succeeds and the
following `list_index + 1` overflows (hypotheses of `arrStep_overflow` instantiated on the initial state) -/
example : arrStep readCfg pwAll (readCfg.hdr + readCfg.arrOpen) false
      { id := 1, empty := 4, elems := List.replicate 65536 1, probe := 8, st := 6, stE := 7 }
      (some idxMax) 0 (CSt.init readCfg []) = .inr (.error .overflow) :=
  arrStep_overflow pwAll _ 0 (e := 1)
    (by show (List.replicate 65536 1)[65535]? = some 1
        rw [List.getElem?_replicate, if_pos (by decide)])
    (sim_init readCfg []) (inv_init readCfg readCfg_wf)
    (by decide)

/-- **the seeded change C14-a at model level: with a stale rewind position the theorem fails.**
`arrStep … (stale := true)` keeps the rewind position across `send(ChunkingAttributes)`; when the first
read of the fresh message fails (here: the end-of-list read answers `ConstraintError`), the "rewind"
moves the tail FORWARD over the bytes of the previous message that are still in the buffer.  On
`tinyList` the third message then is not header + complete reports (`Sim` fails: 23 bytes instead of
3), element 3 is delivered twice, and the bytes between the repeated header and it are the torn end of
element 2 — while the size-level run, and the faithful cursor-level run, deliver each element once. -/
theorem stale_rewind_breaks_reassembly :
    ∃ x s, cattrs tinyCfg pwAll true [] (plain [tinyList]) = .ok x ∧
      putAttrs tinyCfg (yielded (plain [tinyList])) (St.init tinyCfg) = .ok s ∧
      ¬ Sim tinyCfg x s ∧
      (msgsOf x).map reportStarts =
        [[.listStart 5 4, .listElem 5 0 10, .listElem 5 1 10], [.listElem 5 2 10, .listElem 5 3 10],
         [.listElem 5 3 10]] ∧
      ((msgsOf x).flatMap reportStarts).filterMap elemIdx = [(5, 0), (5, 1), (5, 2), (5, 3), (5, 3)] ∧
      x.wb.live.length = 23 ∧ x.wb.live[11]? = some ⟨.rep (.listElem 5 2 10), 8⟩ := by
  refine ⟨_, _, rfl, rfl, ?_, by decide, by decide, by decide, by decide⟩
  intro h
  have := congrArg List.length h.live
  revert this
  decide

/-! ## the defect of the unrepaired code -/

/-- `report_attributes` + `send(Done)` before `fix: long reads: … structural reserve`: the array end
is written inside the shrunk buffer, without `expand` and without a retry -/
def chunksOld (c : Cfg) (items : List Item) : Except Err (List ChunkOut) :=
  match putItems c items (St.init c) with
  | .ok s =>
    if s.used + c.close ≤ c.limit then
      .ok (({ pieces := s.cur.reverse, size := s.used + c.close + c.trailerDone, more := false } :: s.done).reverse)
    else .error .noSpace
  | .error err => .error err

/-- the configuration before the fix: no structural reserve -/
def oldCfg : Cfg := { readCfg with structReserve := 0 }

set_option maxRecDepth 8000 in
/-- **Defect of the unrepaired code**: a value that fills the message exactly (it fits an empty
message: `Fits` holds) made the array end fail with `NoSpace` — the whole read failed instead of
being answered; the repaired code answers it. -/
theorem exact_fit_fails_before_fix :
    Fits oldCfg [.scalar 0 1151 30] ∧ chunksOld oldCfg [.scalar 0 1151 30] = .error .noSpace ∧
    chunks readCfg [.scalar 0 1147 30] = .ok [{ pieces := [.scalar 0 1147], size := 1157, more := false }] := by
  refine ⟨?_, ?_, ?_⟩
  · intro it hit; simp at hit; subst hit; decide
  · rfl
  · rfl

/-! ## the event queue changes between the chunks (audit concern 3)

Everything above reads ONE snapshot `r.buf` of the event queue at every fetch.  In the code every
`events.fetch` takes the lock anew and between two fetches lies `send(ChunkingEvents).await`, during
which other tasks push events (evicting / promoting old ones).  `Model/ChunkLive.lean` runs the same
per-fetch step on a buffer that is a different one at every fetch (`respondLive`, `respondQ` over the
queue model); `Lemmas/ChunkLive.lean` states what the property demands then, per fetch and relative to
the queue AT THAT FETCH (`FetchOk`, `LiveSpec`, `LiveEvents`, `GoodLive`), and proves it:
`respondLive_good` / `respondQ_good`, `live_no_duplicates`, `live_sound`, `live_complete_persistent`,
`LiveSpec.complete_from`, `LiveSpec.complete_new`, `FetchOk.dichotomy`, `respondLive_never_loops`.
Assumptions: only finitely many changes of the queue happen while one answer is sent (a Read has
`next_max_seen = u64::MAX`, so a producer that pushes a message-full of matching events during every
round trip keeps the answer alive: `read_kept_alive_sample`); the event number does not wrap; attribute
VALUES re-read after a chunk was sent are not modelled as changing (sizes are fixed per `Item`). -/

/-- **the frozen model is the special case of a live queue that does not change** -/
theorem respond_eq_respondLive_nil (c : Cfg) (r : Req) : respond c r = respondLive c r [] :=
  (respondLive_nil c r).symm

/-- … and the frozen specification (`Good.events`: exactly the selected events of the snapshot, each
once, in buffer order) is what the live specification says when the queue does not change -/
theorem goodLive_nil_events {c : Cfg} {r : Req} {cs : List ChunkOut} (h : GoodLive c r [] cs) :
    cs.flatMap (·.events) = eventsOf r := by
  have hev : LiveEvents [] r.events (cs.flatMap (·.events)) := by
    rw [List.flatMap_def]; exact h.events.flat
  unfold eventsOf
  cases he : r.events with
  | none => rw [he] at hev; exact hev
  | some e =>
    rw [he] at hev
    obtain ⟨tr, hs, hb, _, hevs⟩ := hev
    have hfro : emittedAll tr = pendingAt e e.maxSeen e.buf := by
      refine hs.frozen e.buf ?_
      intro f hf
      obtain ⟨i, hi, rfl⟩ := List.mem_iff_getElem.mp hf
      rw [hb i _ (List.getElem?_eq_getElem hi), envOf_nil]
    rw [hevs, hfro]
    rfl

/-- **the live specification is message-wise**: queue `[1, 2, 3]` at the first fetch, `[3]` at the second
(1 and 2 evicted meanwhile).  The messages `[1], [2, 3]` concatenate to what ONE fetch over the first
queue reports, but message 2 reports event 2, which was not in the queue when message 2 was filled:
rejected (`LiveMsgsFull.msg_sound`; the flat `LiveEvents` alone would accept it) -/
example : ¬ LiveMsgs [[⟨3, 10, true⟩]]
    (some { buf := [⟨1, 10, true⟩, ⟨2, 10, true⟩, ⟨3, 10, true⟩], nextMax := 100 })
    [[.data 1 10], [.data 2 10, .data 3 10]] := by
  intro h
  rcases h with h | ⟨_, h0⟩
  · obtain ⟨m0, hm⟩ := h.msg_sound
    have h1 := (hm 0 [.data 1 10] 1 10 rfl (by simp)).1
    obtain ⟨_, x, hx, hn, _⟩ := hm 1 [.data 2 10, .data 3 10] 2 10 rfl (by simp)
    have : m0 = 0 := by omega
    subst this
    have hb : envOf [⟨1, 10, true⟩, ⟨2, 10, true⟩, ⟨3, 10, true⟩] [[⟨3, 10, true⟩]] (1 - 0) = [⟨3, 10, true⟩] := rfl
    rw [hb] at hx
    simp only [List.mem_singleton] at hx
    subst hx
    cases hn
  · have := h0 [.data 1 10] (by simp)
    cases this

/-- a queue of three buffers of 30 bytes holding three debug events of 10 bytes -/
def liveQ : Queue := (Queue.new 30).after [.push 0 10 none, .push 0 10 none, .push 0 10 none]

/-- a Read of all events (`next_max_seen = u64::MAX`) -/
def liveReq : Req := { attrs := none, events := some { buf := [], nextMax := Queue.u64Max } }

/-- while the first chunk is sent two more events are pushed: the debug buffer is full, events 1 and 2
are evicted (debug priority: dropped) -/
def liveSched : List (List QOp) := [[.push 0 10 none, .push 0 10 none]]

/-- the hypotheses of `respondQ_good` are satisfiable -/
example : readCfg.WF ∧ Queue.QInv liveQ ∧ ∀ q2 ∈ liveQ.states liveSched, q2.wrapped = false :=
  ⟨readCfg_wf, Queue.after_qinv (Queue.qinv_new 30) _, by decide⟩

set_option maxRecDepth 16000 in
/-- **the live answer differs from the snapshot answer** (every report is 600 bytes: one per message):
event 1 is sent; while that chunk is under way events 4 and 5 are pushed and evict 1 and 2; the second
fetch (cursor 1) finds the queue `[3, 4, 5]`: event 2 was evicted before the reader reached it and is
legitimately absent, events 4 and 5 — pushed after the answer began — are included; the snapshot
model answers `[1], [2], [3]` -/
example :
    (liveQ.states liveSched).map (fun q => q.iter.map (·.num)) = [[1, 2, 3], [3, 4, 5]] ∧
    (respondQ readCfg liveReq (fun _ => 600) (fun _ => true) liveQ liveSched).toOption.map
        (·.map fun ch => (dataNums ch.events, ch.size, ch.more)) =
      some [([1], 610, true), ([3], 610, true), ([4], 610, true), ([5], 610, false)] ∧
    (respond readCfg (liveReq.onQueue (fun _ => 600) (fun _ => true) liveQ)).toOption.map
        (·.map fun ch => (dataNums ch.events, ch.size, ch.more)) =
      some [([1], 610, true), ([2], 610, true), ([3], 610, false)] := by
  refine ⟨by decide, by rfl, by rfl⟩

/-- … and it is `GoodLive` (instance of `respondQ_good`) -/
example : ∃ cs, respondQ readCfg liveReq (fun _ => 600) (fun _ => true) liveQ liveSched = .ok cs ∧
    GoodLive readCfg (liveReq.onQueue (fun _ => 600) (fun _ => true) liveQ)
      (liveBufs (fun _ => 600) (fun _ => true) liveQ liveSched) cs := by
  have hok : (respondQ readCfg liveReq (fun _ => 600) (fun _ => true) liveQ liveSched).toOption.isSome = true := by rfl
  cases h : respondQ readCfg liveReq (fun _ => 600) (fun _ => true) liveQ liveSched with
  | error e => rw [h] at hok; cases hok
  | ok cs =>
    exact ⟨cs, rfl, respondQ_good readCfg_wf (Queue.after_qinv (Queue.qinv_new 30) _) (by decide) h⟩

/-- the hypotheses of `after_evolves` are satisfiable; here the buffer `[1, 2, 3]` evolves into `[3, 4, 5]` -/
example : Evolves (liveQ.view (fun _ => 600) (fun _ => true))
    ((liveQ.after [.push 0 10 none, .push 0 10 none]).view (fun _ => 600) (fun _ => true)) :=
  after_evolves _ _ (Queue.after_qinv (Queue.qinv_new 30) _) _
    (by intro op hop; simp only [List.mem_cons, List.not_mem_nil, or_false, or_self] at hop; exact ⟨0, 10, none, hop⟩)
    (by decide)

set_option maxRecDepth 16000 in
/-- the hypotheses of `respondLive_lastEnds` are satisfiable (the live example above: real encoding, every
report 600 bytes) -/
example : readCfg.arrOpen ≤ readCfg.evOpen ∧
    ∀ e, (liveReq.onQueue (fun _ => 600) (fun _ => true) liveQ).events = some e →
      ∀ b ∈ e.buf :: liveBufs (fun _ => 600) (fun _ => true) liveQ liveSched, BufFits readCfg e b := by
  refine ⟨by decide, ?_⟩
  intro e he
  injection he with he
  subst he
  unfold BufFits
  decide

set_option maxRecDepth 16000 in
/-- **why termination needs the finite-schedule assumption**: a producer that pushes one more matching
event per round trip keeps a Read alive for as long as it goes on — here 6 scheduled changes, 8 messages
(the answer over the snapshot has 2) -/
theorem read_kept_alive_sample :
    ((respondLive readCfg { attrs := none, events := some { buf := [⟨1, 600, true⟩, ⟨2, 600, true⟩], nextMax := Queue.u64Max } }
        ((List.range 6).map fun i => [⟨i + 2, 600, true⟩, ⟨i + 3, 600, true⟩])).toOption.map (·.length)) = some 8 ∧
    ((respond readCfg { attrs := none, events := some { buf := [⟨1, 600, true⟩, ⟨2, 600, true⟩], nextMax := Queue.u64Max } }).toOption.map
        (·.length)) = some 2 := by
  constructor <;> rfl

/-- a subscription report: no attribute changed, one new event, longer than a message -/
def orphanReq : Req :=
  { attrs := some [{ item := .scalar 1 40 30, wanted := false }],
    events := some { buf := [⟨7, 1148, true⟩], maxSeen := 6, nextMax := 7 }, sendIfEmpty := false }

set_option maxRecDepth 16000 in
/-- **observation (live queue only)**: a subscription report without changed attributes
(`send_if_empty = false`) whose first event fits no message: the message holding the empty attribute
array is sent with MoreChunkedMessages (over a frozen queue the next fetch then fails the interaction
with `ResourceExhausted`); if the event is evicted meanwhile, the next fetch finds nothing, the report
counts as empty and NO final message follows the chunk — the left disjunct of `GoodLive.lastEnds`
with a non-empty answer.  Needs an event longer than a message, which already fails the interaction
otherwise. -/
theorem orphan_chunk :
    respondLive subCfg orphanReq [[]] = .ok [{ pieces := [], events := [], size := 16, more := true }] ∧
    respond subCfg orphanReq = .error .tooBig := by
  constructor <;> rfl

end C14
