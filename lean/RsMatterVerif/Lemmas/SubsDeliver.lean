import RsMatterVerif.Lemmas.SubsLive
/-!
# Delivery in a bounded window (C13): which report carries an owed change, and when it begins

The statements here need **no fairness**: they are about every schedule (history) of table
operations. `Lemmas/SubsLive.lean` has the older, weak eventuality (`eventually_not_owes`), which is
implied by expiry alone.
-/
namespace Subs

/-- no restart of the device at the steps `a ≤ t < b` -/
def NoRestart (sched : Nat → Op) (a b : Nat) : Prop :=
  ∀ t, a ≤ t → t < b → ∀ now ev, sched t ≠ .restart now ev

theorem NoRestart.mono {sched : Nat → Op} {a b a' b' : Nat} (h : NoRestart sched a b) (ha : a ≤ a')
    (hb : b' ≤ b) : NoRestart sched a' b' := fun t h1 h2 => h t (by omega) (by omega)

theorem epoch_const {hz n : Nat} {sched : Nat → Op} {a : Nat} : ∀ (d : Nat), NoRestart sched a (a + d) →
    (stateAt hz n sched (a + d)).epoch = (stateAt hz n sched a).epoch
  | 0, _ => rfl
  | d + 1, h => by
    have ih := epoch_const (hz := hz) (n := n) d (h.mono (Nat.le_refl _) (by omega))
    show ((stateAt hz n sched (a + d)).step (sched (a + d))).epoch = _
    rw [epoch_step _ _ (h (a + d) (by omega) (by omega)), ih]

theorem epoch_const_le {hz n : Nat} {sched : Nat → Op} {a b : Nat} (hab : a ≤ b) (h : NoRestart sched a b) :
    (stateAt hz n sched b).epoch = (stateAt hz n sched a).epoch := by
  have := epoch_const (hz := hz) (n := n) (a := a) (b - a) (by rwa [show a + (b - a) = b by omega])
  rwa [show a + (b - a) = b by omega] at this

/-- within one boot the ghost log only grows -/
theorem log_mono {hz n : Nat} {sched : Nat → Op} {a : Nat} {ip : Nat × Entry}
    (hl : ip ∈ (stateAt hz n sched a).log) : ∀ (d : Nat), NoRestart sched a (a + d) →
    ip ∈ (stateAt hz n sched (a + d)).log
  | 0, _ => hl
  | d + 1, h => by
    have ih := log_mono hl d (h.mono (Nat.le_refl _) (by omega))
    exact log_mono_step (sched (a + d)) (epoch_step _ _ (h (a + d) (by omega) (by omega))) ih

theorem log_mono_le {hz n : Nat} {sched : Nat → Op} {a b : Nat} {ip : Nat × Entry} (hab : a ≤ b)
    (h : NoRestart sched a b) (hl : ip ∈ (stateAt hz n sched a).log) : ip ∈ (stateAt hz n sched b).log := by
  have := log_mono hl (b - a) (by rwa [show a + (b - a) = b by omega])
  rwa [show a + (b - a) = b by omega] at this

/-- **a report begins at step `j`**: the reporter's `report` call of step `j` creates the context `c`
(it was not there before, it is there afterwards) -/
def BeginsAt (hz n : Nat) (sched : Nat → Op) (j : Nat) (c : Ctx) : Prop :=
  ∃ now ev, sched j = .report now ev ∧ c ∉ (stateAt hz n sched j).ctxs ∧ c ∈ (stateAt hz n sched (j + 1)).ctxs

/-- what the context of a report that begins at step `j` carries: a subscription of the table that is
reportable at the clock of the call, the current change-id watermark, the clock and the event
watermark of the call; it occupies the `reporting` slot -/
theorem begins_fields {hz n : Nat} {sched : Nat → Op} {j : Nat} {c : Ctx} (h : BeginsAt hz n sched j c) :
    ∃ now ev, sched j = .report now ev ∧ c.sub ∈ (stateAt hz n sched j).subs ∧
      c.nextAttr = (stateAt hz n sched j).changed.watermark ∧ c.nextReportedAt = now ∧ c.nextEv = ev ∧
      c.sub.isReportable hz now (stateAt hz n sched j).changed.entries ev = true ∧
      (stateAt hz n sched (j + 1)).reporting = some c.sub := by
  obtain ⟨now, ev, hs, hn, hm⟩ := h
  refine ⟨now, ev, hs, ?_⟩
  have hm' : c ∈ ((stateAt hz n sched j).step (sched j)).ctxs := hm
  have hst : stateAt hz n sched (j + 1) = ((stateAt hz n sched j).report now ev).1 := by
    show (stateAt hz n sched j).step (sched j) = _
    rw [hs]; rfl
  rw [hs] at hm'
  simp only [State.step] at hm'
  -- unfold `report` by hand to keep the position of the chosen subscription
  unfold State.report findReportable at hm' hst
  cases hf : (stateAt hz n sched j).subs.findIdx? (fun x => x.isReportable (stateAt hz n sched j).hz now
      (stateAt hz n sched j).changed.entries ev) with
  | none => rw [hf] at hm'; exact absurd hm' hn
  | some i =>
    rw [hf] at hm' hst
    simp only at hm' hst
    cases hsub : (stateAt hz n sched j).subs[i]? with
    | none => rw [hsub] at hm'; exact absurd hm' hn
    | some sub =>
      rw [hsub] at hm' hst
      simp only [List.mem_append, List.mem_singleton] at hm'
      rcases hm' with hm' | hm'
      · exact absurd hm' hn
      · subst hm'
        obtain ⟨hi, hp, _⟩ := List.findIdx?_eq_some_iff_getElem.mp hf
        have hsi : (stateAt hz n sched j).subs[i] = sub := by
          rw [List.getElem?_eq_getElem hi] at hsub; simpa using hsub
        refine ⟨List.mem_of_getElem? hsub, rfl, rfl, rfl, ?_, ?_⟩
        · simp only
          have hp' := hp
          rw [hsi, hz_stateAt hz n sched j] at hp'
          exact hp'
        · rw [hst]

/-- **(a1) the snapshot of a report that begins after a change was recorded covers the change** -/
theorem begin_snapshot_covers {hz n : Nat} {sched : Nat → Op}
    (hw : ∀ k, (stateAt hz n sched k).changed.nextId + 1 < U64) {k j : Nat} {c : Ctx} {i : Nat} {p : Entry}
    (hlog : (i, p) ∈ (stateAt hz n sched k).log) (hkj : k ≤ j) (hnr : NoRestart sched k j)
    (hb : BeginsAt hz n sched j c) : i ≤ c.nextAttr := by
  obtain ⟨now, ev, _, _, hna, _⟩ := begins_fields hb
  obtain ⟨hwf, _, _⟩ := inv_stateAt hz n sched hw j
  have h3 := watermark_eq hwf.nextPos hwf.nextLt
  have h4 := hwf.logBelow (i, p) (log_mono_le hkj hnr hlog)
  simp only at h4
  omega

/-- **(a2) while the context is alive the report's filter selects every attribute the change
touches** (`Cov` in the state at `t` + `owed_in_report`) -/
theorem owed_selected_while_alive {hz n : Nat} {sched : Nat → Op}
    (hw : ∀ k, (stateAt hz n sched k).changed.nextId + 1 < U64) {k t : Nat} {c : Ctx} {i : Nat} {p : Entry}
    (hlog : (i, p) ∈ (stateAt hz n sched k).log) (hkt : k ≤ t) (hnr : NoRestart sched k t)
    (hc : c ∈ (stateAt hz n sched t).ctxs) (hlt : c.sub.seenAttr < i) {ep cl attr : Nat}
    (hm : p.matchesPath ep cl attr = true) : (stateAt hz n sched t).shouldReportAttr c ep cl attr = true := by
  obtain ⟨_, hcov, _⟩ := inv_stateAt hz n sched hw t
  have hl := log_mono_le hkt hnr hlog
  unfold State.shouldReportAttr
  split
  · rfl
  · have hlive : c.sub ∈ (stateAt hz n sched t).live := mem_live.mpr (Or.inr ⟨c, hc, rfl⟩)
    obtain ⟨e, he, h1, h2⟩ := hcov c.sub hlive (i, p) hl hlt
    unfold containsSince
    rw [List.any_eq_true]
    refine ⟨e, he, ?_⟩
    simp only [Bool.and_eq_true, decide_eq_true_eq]
    exact ⟨by simp only at h2; omega, matchesPath_of_covers h1 hm⟩

/-- **(a3) an acknowledged report ends the debt**: if the context whose snapshot covers change `i` ends
with `keep`, the subscription does not owe `i` afterwards -/
theorem keep_ends_debt {hz n : Nat} {sched : Nat → Op}
    (hw : ∀ k, (stateAt hz n sched k).changed.nextId + 1 < U64) {m : Nat} {c : Ctx} {i ep : Nat}
    (hc : c ∈ (stateAt hz n sched m).ctxs) (hs : sched m = .fin c.sub.id .keep) (hge : i ≤ c.nextAttr) :
    ¬ Owes (stateAt hz n sched (m + 1)) ep c.sub.id i := by
  intro ho
  have ho' : Owes ((stateAt hz n sched m).fin c.sub.id .keep).1 ep c.sub.id i := by
    have : stateAt hz n sched (m + 1) = ((stateAt hz n sched m).fin c.sub.id .keep).1 := by
      show (stateAt hz n sched m).step (sched m) = _
      rw [hs]; rfl
    rwa [this] at ho
  obtain ⟨_, hlt⟩ := fin_own (inv_stateAt hz n sched hw m).2.2 hc rfl ho'
  simp only [finSub, Ctx.commit] at hlt
  omega

/-- **(c) a failed report keeps the debt**: if the context ends with `retry` and the subscription is
still alive afterwards, it is back in the table with the same watermark and the same last-success
instant (what it owed it still owes; the next report that begins is covered by (a) again) -/
theorem retry_returns_same {hz n : Nat} {sched : Nat → Op}
    (hw : ∀ k, (stateAt hz n sched k).changed.nextId + 1 < U64) {m : Nat} {c : Ctx} {i ep : Nat}
    (hc : c ∈ (stateAt hz n sched m).ctxs) (hs : sched m = .fin c.sub.id .retry)
    (ho : Owes (stateAt hz n sched (m + 1)) ep c.sub.id i) :
    ∃ x ∈ (stateAt hz n sched (m + 1)).subs, x.id = c.sub.id ∧ x.seenAttr = c.sub.seenAttr ∧
      x.seenEv = c.sub.seenEv ∧ x.reportedAt = c.sub.reportedAt ∧ x.maxInt = c.sub.maxInt ∧
      x.minInt = c.sub.minInt := by
  have hst : stateAt hz n sched (m + 1) = ((stateAt hz n sched m).fin c.sub.id .retry).1 := by
    show (stateAt hz n sched m).step (sched m) = _
    rw [hs]; rfl
  rw [hst] at ho ⊢
  obtain ⟨hm, _⟩ := fin_own (inv_stateAt hz n sched hw m).2.2 hc rfl ho
  exact ⟨_, hm, by simp [finSub, Ctx.commit, Ctx.setKeepRetry], by simp [finSub, Ctx.commit, Ctx.setKeepRetry],
    by simp [finSub, Ctx.commit, Ctx.setKeepRetry], by simp [finSub, Ctx.commit, Ctx.setKeepRetry],
    by simp [finSub, Ctx.commit, Ctx.setKeepRetry], by simp [finSub, Ctx.commit, Ctx.setKeepRetry]⟩

end Subs
