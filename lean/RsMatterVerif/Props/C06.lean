import RsMatterVerif.Lemmas.ExpandAcl
/-!
# C06 — every Interaction Model operation is mediated by the access check

`Expand.expand` is the transliterated `PathExpander` (`Model/Expand.lean`, first half) drained with
`fuel` calls of `next`; all statements hold for every `fuel`, i.e. for every prefix of the
expansion. `Expand.expected` is the specification written from the property text.
The access-control state (`ctx.fabrics`), the requester and the node are fixed during one
expansion, except in `node_swap_safe` (the node composition changes between calls) and in
`acl_rewrite_cache` (the ACL is rewritten between calls: what the last-authorised cache then does).
The effects of a request are the call log of the transliterated invoker loop (`Expand.processAll`),
`handler_calls_are_yielded_items`. Fabric-sensitive events: `event_other_fabric_never_disclosed`
(for every value of the requester-controlled `isFabricFiltered`).
-/
namespace C06
open Acl Expand


/-- the access declaration the check looks up for a leaf id -/
def attrPerms (c : Cluster) (id : Nat) : Nat := ((c.attrs.find? (fun a => a.id == id)).map (·.access)).getD 0
def cmdPerms (c : Cluster) (id : Nat) : Nat := ((c.cmds.find? (fun a => a.id == id)).map (·.access)).getD 0

/-- **Every expanded item is mediated.** Whatever the request (any list of concrete and wildcard
paths, repeats, any order), every item the expander hands to a handler exists on the node (an
enabled leaf of a cluster of an endpoint), matches one of the requested paths, is reachable by the
requester (group membership), passed the caller's filter and passed `check_*_access` under the
request's access-control state. -/
theorem expanded_items_authorised (ctx : Ctx) (op : Operation) (node : Node) (paths : List Path)
    (fuel : Nat) (ep cl lf : Nat) (w a : Bool)
    (h : Out.item ep cl lf w a ∈ expand ctx op node paths fuel) :
    Authorised ctx op node (ep, cl, lf) ∧ ∃ p ∈ paths, PathMatches p ep cl lf ∧ w = isWildcard p :=
  run_sound fuel _ (inv_init ctx op node paths) _ h

/-- **A wildcard silently omits.** No status is ever produced for a wildcard path the operation
supports (reads: any wildcard; writes / invokes: the endpoint wildcard). -/
theorem wildcard_never_errors (ctx : Ctx) (op : Operation) (node : Node) (paths : List Path)
    (fuel : Nat) (p : Path) (s : Status) (h : Out.status p s ∈ expand ctx op node paths fuel) :
    p ∈ paths ∧ ¬ SupportedWildcard op p :=
  run_sound fuel _ (inv_init ctx op node paths) _ h

/-- **Denied means no item.** If no element matching the (any) path is authorised, the expander yields
statuses only. That no handler is then called is `denied_request_calls_no_handler` (a theorem about the
transliterated invoker loop). -/
theorem denied_has_no_effect (ctx : Ctx) (op : Operation) (node : Node) (paths : List Path) (fuel : Nat)
    (hden : ∀ ep cl lf, (∃ p ∈ paths, PathMatches p ep cl lf) → ¬ Authorised ctx op node (ep, cl, lf)) :
    ∀ o ∈ expand ctx op node paths fuel, ∃ p s, o = .status p s := by
  intro o ho
  cases o with
  | status p s => exact ⟨p, s, rfl⟩
  | item ep cl lf w a =>
    obtain ⟨ha, p, hp, hm, _⟩ := expanded_items_authorised ctx op node paths fuel ep cl lf w a ho
    exact absurd ha (hden ep cl lf ⟨p, hp, hm⟩)

/-- a concrete path is answered at most once (one item or one status) -/
theorem concrete_at_most_one (ctx : Ctx) (op : Operation) (node : Node) (p : Path) (fuel : Nat)
    (hc : isWildcard p = false) : (expand ctx op node [p] fuel).length ≤ 1 := by
  unfold expand
  cases fuel with
  | zero => simp [run]
  | succ n =>
    unfold run
    simp only [next]
    unfold nextFrom
    cases hn : nextForPath ctx op node p {} none with
    | yield ep cl lf arr cur' =>
      simp only [hc, Bool.not_false, if_true, List.length_cons]
      cases n with
      | zero => simp [run]
      | succ m => simp [run, next]
    | done => simp
    | err s =>
      simp only [List.length_cons]
      cases n with
      | zero => simp [run]
      | succ m => simp [run, next]

/-! ## timed-only and fabric-scoped marks -/

theorem checkAttrAccess_write_timed {ctx : Ctx} {c : Cluster} {ep : Nat} {dts : List Nat} {id : Nat}
    (h : checkAttrAccess ctx c ep dts true id = .ok ())
    (ht : contains (attrPerms c id) Consts.accTimedOnly = true) : ctx.timed = true := by
  unfold checkAttrAccess at h
  simp only [Bool.true_and] at h
  by_cases hh : (!ctx.timed && contains (attrPerms c id) Consts.accTimedOnly) = true
  · unfold attrPerms at hh; rw [if_pos hh] at h; cases h
  · rw [ht] at hh; simpa using hh

theorem checkCmdAccess_marks {ctx : Ctx} {c : Cluster} {ep : Nat} {dts : List Nat} {id : Nat}
    (h : checkCmdAccess ctx c ep dts id = .ok ()) :
    (contains (cmdPerms c id) Consts.accTimedOnly = true → ctx.timed = true) ∧
    (contains (cmdPerms c id) Consts.accFabScoped = true → ctx.accessor.fabIdx ≠ 0) := by
  unfold checkCmdAccess at h
  by_cases h1 : (!ctx.timed && contains (cmdPerms c id) Consts.accTimedOnly) = true
  · unfold cmdPerms at h1; rw [if_pos h1] at h; cases h
  · unfold cmdPerms at h1; rw [if_neg h1] at h
    by_cases h2 : (contains (cmdPerms c id) Consts.accFabScoped && ctx.accessor.fabIdx == 0) = true
    · unfold cmdPerms at h2; rw [if_pos h2] at h; cases h
    · constructor
      · intro ht; unfold cmdPerms at ht; rw [ht] at h1; simpa using h1
      · intro hf; rw [hf] at h2; simpa using h2

/-- **Timed-only elements act only inside a timed interaction.** An item of a write / invoke
expansion whose declaration is marked timed-only implies the request carried the timed flag. -/
theorem timed_only_needs_timed (ctx : Ctx) (op : Operation) (node : Node) (paths : List Path)
    (fuel : Nat) (ep cl lf : Nat) (w a : Bool) (hop : op ≠ .read)
    (h : Out.item ep cl lf w a ∈ expand ctx op node paths fuel) :
    ∃ e ∈ node, e.id = ep ∧ ∃ c ∈ e.clusters, c.id = cl ∧
      (contains (if op = .invoke then cmdPerms c lf else attrPerms c lf) Consts.accTimedOnly = true →
        ctx.timed = true) := by
  obtain ⟨⟨e, he, hi, c, hc, hci, l, hl, hli, _, _, chk⟩, _⟩ :=
    expanded_items_authorised ctx op node paths fuel ep cl lf w a h
  refine ⟨e, he, hi, c, hc, hci, ?_⟩
  cases op with
  | read => exact absurd rfl hop
  | write => simp only [reduceCtorEq, if_false]; exact checkAttrAccess_write_timed chk
  | invoke => simp only [if_true]; exact (checkCmdAccess_marks chk).1

/-- **Fabric-scoped commands are refused to requesters without a fabric.** -/
theorem fabric_scoped_needs_fabric (ctx : Ctx) (node : Node) (paths : List Path)
    (fuel : Nat) (ep cl lf : Nat) (w a : Bool)
    (h : Out.item ep cl lf w a ∈ expand ctx .invoke node paths fuel) :
    ∃ e ∈ node, e.id = ep ∧ ∃ c ∈ e.clusters, c.id = cl ∧
      (contains (cmdPerms c lf) Consts.accFabScoped = true → ctx.accessor.fabIdx ≠ 0) := by
  obtain ⟨⟨e, he, hi, c, hc, hci, l, hl, hli, _, _, chk⟩, _⟩ :=
    expanded_items_authorised ctx .invoke node paths fuel ep cl lf w a h
  exact ⟨e, he, hi, c, hc, hci, (checkCmdAccess_marks chk).2⟩

/-- **The timed window must be live.** `timed_out` lets a request carrying the timed flag through
only if the exchange started with a `TimedRequest` whose window has not closed; without the flag
only if there was no `TimedRequest`. -/
theorem timed_gate_live (flag : Bool) (inst : Option Nat) (now : Nat)
    (h : timedGate flag inst now = .proceed) :
    (flag = true → ∃ t, inst = some t ∧ now ≤ t) ∧ (flag = false → inst = none) := by
  unfold timedGate at h
  cases inst with
  | none => cases flag <;> simp_all
  | some t =>
    cases flag with
    | false => simp at h
    | true =>
      simp only [Option.isSome_some, bne_self_eq_false, Bool.false_eq_true, if_false, Option.map_some,
        Option.getD_some, decide_eq_true_eq] at h
      refine ⟨fun _ => ⟨t, rfl, ?_⟩, fun hh => by cases hh⟩
      by_cases hgt : now > t
      · simp [hgt] at h
      · omega

/-- **Every expanded item is permitted by the specification.** On a well-formed node and ACL state,
each item of the expansion is an enabled leaf of the node that the requester can reach and for which
the specification's `permitted` (operation offered, timed / fabric-scoped marks honoured, access
granted by the *specification* of C05) holds. -/
theorem expanded_items_permitted (ctx : Ctx) (op : Operation) (node : Node) (paths : List Path)
    (fuel : Nat) (ep cl lf : Nat) (w a : Bool)
    (hn : nodeWF node = true) (hwf : WF ctx.fabrics) (hc : CanonicalPrivs ctx.fabrics)
    (h : Out.item ep cl lf w a ∈ expand ctx op node paths fuel) :
    ∃ e ∈ node, e.id = ep ∧ ∃ c ∈ e.clusters, c.id = cl ∧ ∃ l ∈ specLeaves c op, l.id = lf ∧
      reachable ctx e = true ∧ ctx.filter ep cl lf = true ∧ permitted ctx op e c l = none ∧
      ∃ p ∈ paths, PathMatches p ep cl lf := by
  obtain ⟨⟨e, he, hi, c, hcm, hci, l, hl, hli, acc, fil, chk⟩, p, hp, hm, _⟩ :=
    expanded_items_authorised ctx op node paths fuel ep cl lf w a h
  simp only at hi hci hli acc fil chk
  have hl' : l ∈ specLeaves c op := by
    unfold specLeaves; unfold Cluster.leaves at hl; exact hl
  refine ⟨e, he, hi, c, hcm, hci, l, hl', hli, ?_, fil, ?_, p, hp, hm⟩
  · unfold reachable
    rw [← hi] at acc
    have := (C05.group_reaches_only_member_endpoints ctx.fabrics ctx.accessor e.id hwf).mp acc
    exact (C05.reachesB_iff _ _ _).mpr this
  · obtain ⟨na, nc⟩ := nodeWF_tables hn he hcm
    have hmem : l ∈ (if op = .invoke then c.cmds else c.attrs) := by
      unfold Cluster.leaves at hl
      cases op <;> simp_all
    have hnd : ((if op = .invoke then c.cmds else c.attrs).map (·.id)).Nodup := by
      cases op <;> simp_all
    have := checkAccess_eq_permitted ctx op e c l hwf hc hmem hnd
    rw [hli] at this
    rw [this] at chk
    cases hpm : permitted ctx op e c l with
    | none => rfl
    | some s => rw [hpm] at chk; cases chk

/-! ## concrete paths: equality with the specification -/

theorem expand_single_concrete (ctx : Ctx) (op : Operation) (node : Node) (p : Path) (fuel : Nat)
    (hw : isWildcard p = false) :
    expand ctx op node [p] (fuel + 2) = outs p (nextForPath ctx op node p {} none).outcome := by
  unfold expand
  unfold run
  simp only [next]
  unfold nextFrom
  cases hn : nextForPath ctx op node p {} none with
  | yield ep cl lf arr cur' =>
    simp only [hw, Bool.not_false, if_true, PathRes.outcome, outs]
    unfold run
    simp [next]
  | done => simp [PathRes.outcome, outs]
  | err s =>
    simp only [PathRes.outcome, outs]
    unfold run
    simp [next]

/-- **A request consisting of one concrete path is answered exactly as the specification says**:
the element, nothing (rejected by the caller's filter), or the single status of the first failing
level — in particular a denied concrete path yields exactly its status and no item. -/
theorem concrete_path_expected (ctx : Ctx) (op : Operation) (node : Node) (p : Path) (fuel : Nat)
    {ep cl lf : Nat} (hep : p.endpoint = some ep) (hcl : p.cluster = some cl) (hl : p.leaf = some lf)
    (hn : nodeWF node = true) (hwf : WF ctx.fabrics) (hc : CanonicalPrivs ctx.fabrics) :
    expand ctx op node [p] (fuel + 2) = expectedItem ctx op node p := by
  have hw : isWildcard p = false := by simp [isWildcard, hep, hcl, hl]
  rw [expand_single_concrete ctx op node p fuel hw, nextForPath_concrete ctx op node p none hep hcl hl]
  unfold expectedItem
  simp only [hcl, hl, hep, Option.isNone_some, Bool.and_false, Bool.false_eq_true, if_false]
  unfold concreteOutcome expectedConcrete
  have hpred : (fun (e : Endpoint) => ep == e.id && isEndpointAccessible ctx.fabrics ctx.accessor e.id)
      = (fun e => e.id == ep && reachable ctx e) := by
    funext e
    unfold reachable
    rw [isEndpointAccessible_eq_reachesB _ _ _ hwf, Bool.beq_comm]
  rw [hpred]
  cases hfe : node.find? (fun e => e.id == ep && reachable ctx e) with
  | none => simp [outs]
  | some e =>
    have he : e ∈ node := List.mem_of_find?_eq_some hfe
    simp only
    cases hfc : e.clusters.find? (fun c => c.id == cl) with
    | none => simp [outs]
    | some c =>
      have hcm : c ∈ e.clusters := List.mem_of_find?_eq_some hfc
      obtain ⟨na, nc⟩ := nodeWF_tables hn he hcm
      simp only
      unfold leafOutcome
      have hsl : c.leaves (op == .invoke) = specLeaves c op := rfl
      rw [hsl]
      cases hfl : (specLeaves c op).find? (fun l => l.id == lf) with
      | none => cases op <;> simp [outs]
      | some l =>
        have hlm : l ∈ specLeaves c op := List.mem_of_find?_eq_some hfl
        have hlid : l.id = lf := by have := List.find?_some hfl; simpa using this
        have hmem : l ∈ (if op = .invoke then c.cmds else c.attrs) := by
          unfold specLeaves at hlm
          cases op <;> simp_all
        have hnd : ((if op = .invoke then c.cmds else c.attrs).map (·.id)).Nodup := by
          cases op <;> simp_all
        have hchk := checkAccess_eq_permitted ctx op e c l hwf hc hmem hnd
        simp only
        unfold leafCheck
        by_cases hfil : ctx.filter e.id c.id l.id = true
        · have harr : arrayFlag op c l = (op != .invoke && l.array) := by
            unfold arrayFlag
            cases op with
            | invoke => simp
            | read =>
              have : l ∈ c.attrs.filter (·.enabled) := by unfold specLeaves at hlm; simpa using hlm
              simp [Cluster.leaves, find_unique_filter this na]
              rfl
            | write =>
              have : l ∈ c.attrs.filter (·.enabled) := by unfold specLeaves at hlm; simpa using hlm
              simp [Cluster.leaves, find_unique_filter this na]
              rfl
          simp only [hfil, if_true, Bool.not_true, Bool.false_eq_true, if_false, reduceCtorEq, beq_iff_eq]
          rw [hchk]
          cases hp : permitted ctx op e c l with
          | none => simp [outs, harr, Except.map]
          | some s => simp [outs, Except.map]
        · simp [hfil, outs]

/-- The full statement of C06 for the expansion: the answers are exactly the specification's list
(once the run has ended; `fuel` only bounds the number of `next` calls). -/
def C06_full : Prop :=
  ∀ (ctx : Ctx) (op : Operation) (node : Node) (paths : List Path),
    nodeWF node = true → WF ctx.fabrics → CanonicalPrivs ctx.fabrics →
    ∃ fuel, ∀ fuel' ≥ fuel, expand ctx op node paths fuel' = expected ctx op node paths

/-- **The expansion equals the specification** — for every node with `Node`'s documented invariants,
every ACL state, requester and list of paths (any order, repeats, wildcards and concrete paths
mixed): every existing, matching, reachable, permitted leaf is yielded exactly once per requesting
path, in node order; every concrete path gets exactly its item / status / nothing (filtered);
nothing else comes out. The run ends after `|expected| + 1` calls of `next`. Uses the transparency
of the last-authorised cache under a fixed ACL state (`leafCheck_cache`). -/
theorem expansion_eq_expected (ctx : Ctx) (op : Operation) (node : Node) (paths : List Path)
    (hn : nodeWF node = true) (hwf : WF ctx.fabrics) (hc : CanonicalPrivs ctx.fabrics)
    (fuel : Nat) (hf : (expected ctx op node paths).length < fuel) :
    expand ctx op node paths fuel = expected ctx op node paths :=
  run_spec hn hwf hc fuel _ _ (pend_init ctx op node paths) hf

theorem C06_full_holds : C06_full := fun ctx op node paths hn hwf hc =>
  ⟨(expected ctx op node paths).length + 1, fun fuel' h =>
    expansion_eq_expected ctx op node paths hn hwf hc fuel' (by omega)⟩

/-- completeness, spelled out: an element the specification lists for some requested path is
yielded -/
theorem permitted_items_yielded (ctx : Ctx) (op : Operation) (node : Node) (paths : List Path)
    (hn : nodeWF node = true) (hwf : WF ctx.fabrics) (hc : CanonicalPrivs ctx.fabrics)
    (p : Path) (hp : p ∈ paths) (o : Out) (ho : o ∈ expectedItem ctx op node p)
    (fuel : Nat) (hf : (expected ctx op node paths).length < fuel) :
    o ∈ expand ctx op node paths fuel := by
  rw [expansion_eq_expected ctx op node paths hn hwf hc fuel hf]
  exact List.mem_flatMap.mpr ⟨p, hp, ho⟩

/-! ## termination: the driver's number of `next` calls is never reached -/

/-- **The expander terminates.** On every node whose endpoints are sorted by id (the invariant
`resume_endpoint_index` debug-asserts) — whatever the ACL state, the cache, duplicate cluster / leaf
ids, the request — the three cursors decrease lexicographically with every yield
(`endpointLoop_yield_measure`), so that after `fuelBound` calls of `next` the run has ended: more
fuel gives the same list. -/
theorem expand_terminates (ctx : Ctx) (op : Operation) (node : Node) (paths : List Path)
    (hs : (node.map (·.id)).Pairwise (· < ·)) (fuel : Nat) (hf : fuelBound op node paths ≤ fuel) :
    expand ctx op node paths fuel = expand ctx op node paths (fuelBound op node paths) :=
  run_stable hs _ _ (by simp [stMeasure, fuelBound]) _ hf

/-- … and the number of answers stays below that bound for every fuel -/
theorem expand_length_lt_bound (ctx : Ctx) (op : Operation) (node : Node) (paths : List Path)
    (hs : (node.map (·.id)).Pairwise (· < ·)) (fuel : Nat) :
    (expand ctx op node paths fuel).length < fuelBound op node paths := by
  have := run_length_le (ctx := ctx) (op := op) hs fuel { items := paths }
  simp only [stMeasure, fuelBound] at this ⊢
  unfold expand
  omega

/-- with the driver's fuel the expansion is the specification's list (in scope of `C06_full`) -/
theorem expand_at_bound_eq_expected (ctx : Ctx) (op : Operation) (node : Node) (paths : List Path)
    (hn : nodeWF node = true) (hwf : WF ctx.fabrics) (hc : CanonicalPrivs ctx.fabrics) :
    expand ctx op node paths (fuelBound op node paths) = expected ctx op node paths := by
  obtain ⟨f, hf⟩ := C06_full_holds ctx op node paths hn hwf hc
  rw [← expand_terminates ctx op node paths (nodeWF_sorted hn) (max f (fuelBound op node paths)) (by omega)]
  exact hf _ (by omega)

/-! ## the node composition is replaced between `next` calls -/

/-- **The cursor only moves forward** (the invariant documented at `resume_endpoint_index`): whatever
node each call of `next` sees — only: its endpoints are sorted by id — the cursor positions
`(endpoint id, cluster_index, leaf_index)` left behind by successive yields increase strictly, and
each yielded triple sits at its cursor position in the node of its call. -/
theorem swap_cursor_increases (ctx : Ctx) (op : Operation) (p : Path) (hsw : SupportedWildcard op p)
    (nodes : List Node) (hsorted : ∀ n ∈ nodes, (n.map (·.id)).Pairwise (· < ·)) :
    (runSwapC ctx op nodes { items := [], item := some p }).Pairwise (fun a b => curLt a.2 b.2) ∧
    ∀ x ∈ runSwapC ctx op nodes { items := [], item := some p }, PosOk op nodes x :=
  have h := runSwapC_increasing (ctx := ctx) hsw nodes hsorted nodes (fun _ h => h)
    { items := [], item := some p } ⟨rfl, rfl⟩
  ⟨h.2, fun x hx => (h.1 x hx).2⟩

/-- **`node_swap_safe`.** A request for one wildcard path whose answer is produced while the node
composition changes between calls (call `i` sees `nodes[i]`), under the invariants the code
documents — every composition well-formed (endpoints sorted by id, distinct ids) and an endpoint id
denoting the same endpoint throughout (`stableNodes`):
1. the `i`-th answer is an item that was authorised on `nodes[i]`, **the node its own call saw**, and
   matches the path;
2. no leaf is yielded twice;
3. once the expander is exhausted, every existing, matching, reachable, permitted leaf of an
   endpoint that is present in every composition has been yielded. -/
theorem node_swap_safe (ctx : Ctx) (op : Operation) (p : Path) (hsw : SupportedWildcard op p)
    (nodes : List Node) (hwfn : ∀ n ∈ nodes, nodeWF n = true) (hstab : stableNodes nodes = true)
    (hwf : WF ctx.fabrics) (hcan : CanonicalPrivs ctx.fabrics) :
    (∀ (i : Nat) (o : Out), (runSwap ctx op nodes { items := [p] })[i]? = some o → ∃ n, nodes[i]? = some n ∧ ∃ ep cl lf arr,
        o = Out.item ep cl lf true arr ∧ Authorised ctx op n (ep, cl, lf) ∧ PathMatches p ep cl lf) ∧
    (runSwap ctx op nodes { items := [p] }).Pairwise (fun a b => tripleOf a ≠ tripleOf b) ∧
    (swapEnded ctx op nodes { items := [p] } = true →
      ∀ E, (∀ n ∈ nodes, E ∈ n) → matchesOpt p.endpoint E.id = true → reachable ctx E = true →
      ∀ c ∈ E.clusters, matchesOpt p.cluster c.id = true →
      ∀ l ∈ specLeaves c op, matchesOpt p.leaf l.id = true → ctx.filter E.id c.id l.id = true →
        permitted ctx op E c l = none →
        Out.item E.id c.id l.id true (op != .invoke && l.array) ∈ runSwap ctx op nodes { items := [p] }) := by
  have hst := (stableNodes_iff nodes).mp hstab
  obtain ⟨hr, he⟩ := runSwap_init ctx op nodes p
  rw [hr, he]
  have hws : WildSt p { items := [], item := some p } := ⟨rfl, rfl⟩
  refine ⟨?_, ?_, ?_⟩
  · exact runSwap_sound_at hsw nodes hst nodes (fun _ h => h) _ hws (fun _ _ _ h => by cases h)
  · exact runSwap_no_repeat hsw nodes hwfn hst nodes (fun _ h => h) _ hws
  · intro hend E hE hme hre c hc hmc l hl hml hfil hperm
    have ho : Out.item E.id c.id l.id true (op != .invoke && l.array) ∈ wEndpoint ctx op p E := by
      unfold wEndpoint
      rw [hme, hre]
      simp only [Bool.and_self, if_true]
      refine List.mem_flatMap.mpr ⟨c, hc, ?_⟩
      unfold wCluster
      rw [hmc]
      simp only [if_true]
      refine List.mem_filterMap.mpr ⟨l, hl, ?_⟩
      unfold wItem
      simp [hml, hfil, hperm]
    apply runSwap_complete hsw nodes hwfn hst hwf hcan E hE _ ho nodes (fun _ h => h) _ hws
      (fun _ _ _ h => by cases h) (Or.inl rfl) ?_ hend
    intro n hn
    unfold pendW
    simp only [resumeEndpointIndex, List.drop_zero]
    rw [wEndpointsFrom_zero]
    exact List.mem_flatMap.mpr ⟨E, hE n hn, ho⟩

/-! ## the access-control state is rewritten inside the request (what the cache is for) -/

/-- **`acl_rewrite_cache`.** All other statements fix the ACL for the duration of a request. The
last-authorised cache exists for the one case where it is not fixed: a WriteRequest whose items rewrite
the ACL (`DeleteAll` + N×`Add` on the same attribute path; the handler of an item runs between two
calls of `next`). With call `i` seeing `ctxs[i]` (any ACL per call, same requester and filter), every
item answered is an enabled, reachable, filter-accepted leaf of the node, and its access was granted
by the check under **the ACL of its own call** — unless it names the same `(endpoint, cluster, leaf)`
as the item answered immediately before it, in which case the earlier decision is reused and the
rewritten ACL is not consulted (`mLastSuccessfullyWrittenPath` of the reference implementation). An
item on a *different* path is always checked against the ACL as the earlier items left it. -/
theorem acl_rewrite_cache (op : Operation) (node : Node) (ctxs : List Ctx) (paths : List Path)
    (i ep cl lf : Nat) (w a : Bool)
    (h : (runCtx op node ctxs { items := paths })[i]? = some (Out.item ep cl lf w a)) :
    ∃ ctx, ctxs[i]? = some ctx ∧ ExistsFor ctx op node (ep, cl, lf) ∧
      (Authorised ctx op node (ep, cl, lf) ∨
        lastItemOf none ((runCtx op node ctxs { items := paths }).take i) = some (ep, cl, lf)) :=
  runCtx_cache op node ctxs { items := paths } i ep cl lf w a h

/-! ## the whole request as the controller and the handlers see it (`imRequest`) -/

/-! ### the handlers are called exactly for the items the expander yields

`Outcome.effects` is the call log `Dev.calls` filled by the transliterated invoker loop
(`Expand.processAll`), a component of its own — the statements below are theorems about that loop
(by induction), not definitional unfoldings, and they fail for a loop that hands a refused element to
a handler (`calling_handler_for_denied_item_breaks_effects`). -/

theorem itemsOf_append (a b : List Out) : itemsOf (a ++ b) = itemsOf a ++ itemsOf b := by
  unfold itemsOf; rw [List.filterMap_append]

theorem processItem_item (hnd : Handler) (d : Dev) (ep cl lf : Nat) (w a : Bool) :
    ∃ o, processItem hnd d (.item ep cl lf w a) = { resp := d.resp ++ [o], calls := d.calls ++ [(ep, cl, lf)] } := by
  cases hh : hnd ep cl lf with
  | none => exact ⟨Out.item ep cl lf w a, by simp only [processItem, hh]⟩
  | some s =>
    exact ⟨Out.status { endpoint := some ep, cluster := some cl, leaf := some lf } s, by simp only [processItem, hh]⟩

theorem foldl_processItem (hnd : Handler) : ∀ (outs : List Out) (d : Dev),
    (outs.foldl (processItem hnd) d).calls = d.calls ++ itemsOf outs ∧
    (outs.foldl (processItem hnd) d).resp.length = d.resp.length + outs.length
  | [], d => by simp [itemsOf]
  | o :: rest, d => by
    simp only [List.foldl_cons]
    obtain ⟨h1, h2⟩ := foldl_processItem hnd rest (processItem hnd d o)
    rw [h1, h2]
    cases o with
    | item ep cl lf w a =>
      obtain ⟨o, ho⟩ := processItem_item hnd d ep cl lf w a
      rw [ho]
      simp [itemsOf]; omega
    | status p st => simp [processItem, itemsOf]; omega

/-- **The handler is invoked exactly for the items the expander yields with `Ok`, in order** — whatever
the handlers answer; an element yielded as a status (absent, not permitted, unsupported wildcard)
never reaches a handler. -/
theorem handler_calls_are_yielded_items (hnd : Handler) (outs : List Out) :
    (processAll hnd outs).calls = itemsOf outs := by
  have := (foldl_processItem hnd outs {}).1
  simpa [processAll] using this

/-- one answer per yielded element -/
theorem one_answer_per_element (hnd : Handler) (outs : List Out) :
    (processAll hnd outs).resp.length = outs.length := by
  have := (foldl_processItem hnd outs {}).2
  simpa [processAll] using this

theorem foldl_processItem_ok : ∀ (outs : List Out) (d : Dev),
    (outs.foldl (processItem okHandler) d).resp = d.resp ++ outs
  | [], d => by simp
  | o :: rest, d => by
    simp only [List.foldl_cons]
    rw [foldl_processItem_ok rest]
    cases o <;> simp [processItem, okHandler]

/-- with handlers that succeed the answers are what the expander yielded -/
theorem answers_are_yielded (outs : List Out) : (processAll okHandler outs).resp = outs := by
  have := foldl_processItem_ok outs {}
  simpa [processAll] using this

theorem foldl_processItem_status (hnd : Handler) {p : Path} {st : Status} : ∀ (outs : List Out) (d : Dev),
    (Out.status p st ∈ d.resp ∨ Out.status p st ∈ outs) → Out.status p st ∈ (outs.foldl (processItem hnd) d).resp
  | [], d, h => by rcases h with h | h; exact h; cases h
  | o :: rest, d, h => by
    simp only [List.foldl_cons]
    apply foldl_processItem_status hnd rest
    rcases h with h | h
    · left
      cases o with
      | item ep cl lf w a =>
        obtain ⟨o, ho⟩ := processItem_item hnd d ep cl lf w a
        rw [ho]; simp [h]
      | status p2 s2 => simp [processItem, h]
    · rcases List.mem_cons.mp h with h | h
      · left; subst h; simp [processItem]
      · right; exact h

/-- a status the expander yields is answered as that status, whatever the handlers do -/
theorem yielded_status_is_answered (hnd : Handler) (outs : List Out) (p : Path) (st : Status)
    (h : Out.status p st ∈ outs) : Out.status p st ∈ (processAll hnd outs).resp :=
  foldl_processItem_status hnd outs {} (Or.inr h)

/-- **a loop that hands a refused element to a handler is caught**: for the denied concrete write of
the demo below the expander yields one status; the faithful loop calls no handler, the mutated one
does — `handler_calls_are_yielded_items` is false for it -/
theorem calling_handler_for_denied_item_breaks_effects :
    let outs := [Out.status { endpoint := some 0, cluster := some 31, leaf := some 0 } Status.unsupportedAccess]
    (processAll okHandler outs).calls = [] ∧
    (outs.foldl (processItemBad okHandler) {}).calls = [(0, 31, 0)] ∧
    (outs.foldl (processItemBad okHandler) {}).calls ≠ itemsOf outs := by decide

/-- handlers are called for the items the expander yielded — when the request got past the timed
gate and the request validation — and not at all otherwise -/
theorem e2e_effects_are_items (op : Operation) (flag : Bool) (tr : Option (Nat × Nat)) (paths : List Path)
    (answers : List Out) (hnd : Handler) :
    (imRequest op flag tr paths answers hnd).effects =
      if (imRequest op flag tr paths answers hnd).top.isSome then [] else itemsOf answers := by
  unfold imRequest
  simp only
  generalize (if (op == Operation.read) = true then TimedGate.proceed
    else timedGate flag (tr.map (·.1)) ((tr.map (·.2)).getD 0)) = g
  cases g with
  | proceed =>
    simp only
    split
    · rfl
    · simp [handler_calls_are_yielded_items]
  | timedRequestMismatch => rfl
  | timeout => rfl

/-- a write / invoke whose timed gate is not open (flag without a live TimedRequest window, or a
TimedRequest without the flag) has no effect and no per-path answer -/
theorem e2e_gate_closed_no_effect (op : Operation) (flag : Bool) (tr : Option (Nat × Nat)) (paths : List Path)
    (answers : List Out) (hnd : Handler) (hop : op ≠ .read)
    (hg : timedGate flag (tr.map (·.1)) ((tr.map (·.2)).getD 0) ≠ .proceed) :
    (imRequest op flag tr paths answers hnd).effects = [] ∧ (imRequest op flag tr paths answers hnd).resp = [] ∧
      (imRequest op flag tr paths answers hnd).top.isSome = true := by
  unfold imRequest
  have : (op == Operation.read) = false := by cases op <;> simp_all
  simp only [this, Bool.false_eq_true, if_false]
  cases hgt : timedGate flag (tr.map (·.1)) ((tr.map (·.2)).getD 0) with
  | proceed => exact absurd hgt hg
  | timedRequestMismatch => exact ⟨rfl, rfl, rfl⟩
  | timeout => exact ⟨rfl, rfl, rfl⟩

theorem mem_itemsOf {outs : List Out} {t : Nat × Nat × Nat} (h : t ∈ itemsOf outs) :
    ∃ w a, Out.item t.1 t.2.1 t.2.2 w a ∈ outs := by
  unfold itemsOf at h
  obtain ⟨o, ho, hs⟩ := List.mem_filterMap.mp h
  cases o with
  | item ep cl lf w a =>
    simp only [Option.some.injEq] at hs
    subst hs
    exact ⟨w, a, ho⟩
  | status p s => simp at hs

theorem effects_subset_items (op : Operation) (flag : Bool) (tr : Option (Nat × Nat)) (paths : List Path)
    (answers : List Out) (hnd : Handler) (t : Nat × Nat × Nat)
    (h : t ∈ (imRequest op flag tr paths answers hnd).effects) :
    t ∈ itemsOf answers ∧
      (op ≠ .read → timedGate flag (tr.map (·.1)) ((tr.map (·.2)).getD 0) = .proceed) := by
  unfold imRequest at h
  cases hop : (op == Operation.read) with
  | true =>
    have : op = .read := by simpa using hop
    simp only [hop, if_true] at h
    split at h
    · cases h
    · rw [handler_calls_are_yielded_items] at h
      exact ⟨h, fun hh => absurd this hh⟩
  | false =>
    simp only [hop, Bool.false_eq_true, if_false] at h
    cases hgt : timedGate flag (tr.map (·.1)) ((tr.map (·.2)).getD 0) with
    | proceed =>
      simp only [hgt] at h
      split at h
      · cases h
      · rw [handler_calls_are_yielded_items] at h
        exact ⟨h, fun _ => rfl⟩
    | timedRequestMismatch => simp only [hgt] at h; cases h
    | timeout => simp only [hgt] at h; cases h

/-- **Denied means no effect on the device**: if no element matching any requested path is authorised,
then — whatever the handlers would answer — no handler is called, and every answer is a status. -/
theorem denied_request_calls_no_handler (ctx : Ctx) (op : Operation) (node : Node) (paths : List Path)
    (fuel : Nat) (flag : Bool) (tr : Option (Nat × Nat)) (hnd : Handler)
    (hden : ∀ ep cl lf, (∃ p ∈ paths, PathMatches p ep cl lf) → ¬ Authorised ctx op node (ep, cl, lf)) :
    (imRequest op flag tr paths (expand ctx op node paths fuel) hnd).effects = [] := by
  apply List.eq_nil_iff_forall_not_mem.mpr
  intro t ht
  obtain ⟨hi, _⟩ := effects_subset_items op flag tr paths _ hnd t ht
  obtain ⟨w, a, hm⟩ := mem_itemsOf hi
  obtain ⟨p, s, hps⟩ := denied_has_no_effect ctx op node paths fuel hden _ hm
  cases hps

/-- **Every effect on the device is a permitted existing item**: whatever the request, a handler
call happens only for an enabled leaf of the node that matches a requested path, is reachable, and
is `permitted` by the specification (through `expanded_items_permitted`). -/
theorem e2e_effect_permitted (ctx : Ctx) (op : Operation) (node : Node) (paths : List Path) (fuel : Nat)
    (tr : Option (Nat × Nat)) (hn : nodeWF node = true) (hwf : WF ctx.fabrics) (hc : CanonicalPrivs ctx.fabrics)
    (hnd : Handler) (t : Nat × Nat × Nat)
    (h : t ∈ (imRequest op ctx.timed tr paths (expand ctx op node paths fuel) hnd).effects) :
    ∃ e ∈ node, e.id = t.1 ∧ ∃ c ∈ e.clusters, c.id = t.2.1 ∧ ∃ l ∈ specLeaves c op, l.id = t.2.2 ∧
      reachable ctx e = true ∧ permitted ctx op e c l = none ∧ ∃ p ∈ paths, PathMatches p t.1 t.2.1 t.2.2 := by
  obtain ⟨hi, _⟩ := effects_subset_items op ctx.timed tr paths _ hnd t h
  obtain ⟨w, a, hm⟩ := mem_itemsOf hi
  obtain ⟨e, he, hid, c, hcm, hci, l, hl, hli, hr, _, hp, hpm⟩ :=
    expanded_items_permitted ctx op node paths fuel t.1 t.2.1 t.2.2 w a hn hwf hc hm
  exact ⟨e, he, hid, c, hcm, hci, l, hl, hli, hr, hp, hpm⟩

/-- **Timed-only elements act only inside a timed interaction that has not expired**: an effect of
a write / invoke on an element whose declaration is timed-only implies that the action carried the
timed flag, was preceded by a TimedRequest, and arrived before the window closed. -/
theorem e2e_timed_only_live (ctx : Ctx) (op : Operation) (node : Node) (paths : List Path) (fuel : Nat)
    (tr : Option (Nat × Nat)) (hop : op ≠ .read) (hnd : Handler) (t : Nat × Nat × Nat)
    (h : t ∈ (imRequest op ctx.timed tr paths (expand ctx op node paths fuel) hnd).effects) :
    ∃ e ∈ node, e.id = t.1 ∧ ∃ c ∈ e.clusters, c.id = t.2.1 ∧
      (contains (if op = .invoke then cmdPerms c t.2.2 else attrPerms c t.2.2) Consts.accTimedOnly = true →
        ctx.timed = true ∧ ∃ timeout elapsed, tr = some (timeout, elapsed) ∧ elapsed ≤ timeout) := by
  obtain ⟨hi, hg⟩ := effects_subset_items op ctx.timed tr paths _ hnd t h
  obtain ⟨w, a, hm⟩ := mem_itemsOf hi
  obtain ⟨e, he, hid, c, hc, hci, himp⟩ := timed_only_needs_timed ctx op node paths fuel t.1 t.2.1 t.2.2 w a hop hm
  refine ⟨e, he, hid, c, hc, hci, fun ht => ?_⟩
  have hflag := himp ht
  refine ⟨hflag, ?_⟩
  obtain ⟨h1, _⟩ := timed_gate_live _ _ _ (hg hop)
  obtain ⟨tt, htt, hle⟩ := h1 hflag
  cases tr with
  | none => simp at htt
  | some pr =>
    obtain ⟨a1, a2⟩ := pr
    simp only [Option.map_some, Option.some.injEq, Option.getD_some] at htt hle
    subst htt
    exact ⟨a1, a2, rfl, hle⟩

/-- in scope of `C06_full` the whole outcome (request-level status, per-path answers, handler calls)
is the specification's -/
theorem e2e_outcome_eq_spec (ctx : Ctx) (op : Operation) (node : Node) (paths : List Path)
    (flag : Bool) (tr : Option (Nat × Nat))
    (hn : nodeWF node = true) (hwf : WF ctx.fabrics) (hc : CanonicalPrivs ctx.fabrics) :
    imRequest op flag tr paths (expand ctx op node paths (fuelBound op node paths)) =
      imRequest op flag tr paths (expected ctx op node paths) := by
  rw [expand_at_bound_eq_expected ctx op node paths hn hwf hc]

/-! ## chunked Write actions: the timed gate and the timed-only mark hold per chunk -/

/-- every outcome of a chunked Write is the outcome of one chunk, judged with that chunk's own flag
at that chunk's own arrival time -/
theorem imWriteChunks_mem {answers : Bool → List Path → List Out} {timeout : Option Nat} :
    ∀ (chunks : List Chunk) (el : Nat) (o : Outcome), o ∈ imWriteChunks answers timeout el chunks →
    ∃ pre c post now, chunks = pre ++ c :: post ∧ now = el + (pre.map (·.delay)).sum + c.delay ∧
      o = imRequest .write c.flag (timeout.map (fun t => (t, now))) c.paths (answers c.flag c.paths)
  | [], _, _, h => by simp [imWriteChunks] at h
  | c :: rest, el, o, h => by
    unfold imWriteChunks at h
    simp only at h
    have here : o = imRequest .write c.flag (timeout.map (fun t => (t, el + c.delay))) c.paths (answers c.flag c.paths) →
        ∃ pre c' post now, c :: rest = pre ++ c' :: post ∧ now = el + (pre.map (·.delay)).sum + c'.delay ∧
          o = imRequest .write c'.flag (timeout.map (fun t => (t, now))) c'.paths (answers c'.flag c'.paths) :=
      fun ho => ⟨[], c, rest, el + c.delay, rfl, by simp, ho⟩
    split at h
    · exact here (by simpa using h)
    · rcases List.mem_cons.mp h with h | h
      · exact here h
      · obtain ⟨pre, c', post, now, h1, h2, h3⟩ := imWriteChunks_mem rest (el + c.delay) o h
        refine ⟨c :: pre, c', post, now, by rw [h1]; rfl, ?_, h3⟩
        simp only [List.map_cons, List.sum_cons]
        omega

/-- **Timed-only elements act only inside a timed interaction that has not expired — per chunk.**
In a chunked Write action (any number of `WriteRequest` messages, each with its own requester-chosen
`TimedRequest` flag, the clock moving between them), an effect on an element whose declaration is
timed-only implies that *the chunk that carried it* had the flag set, that a TimedRequest preceded
the action, and that the time elapsed *when that chunk arrived* was within the timeout. -/
theorem chunked_write_timed_only_live (ctx : Ctx) (node : Node) (timeout : Option Nat)
    (chunks : List Chunk) (fuel : Nat) (o : Outcome)
    (ho : o ∈ imWriteChunks (fun flag ps => expand { ctx with timed := flag } .write node ps fuel) timeout 0 chunks)
    (t : Nat × Nat × Nat) (ht : t ∈ o.effects) :
    ∃ pre c post, chunks = pre ++ c :: post ∧ ∃ e ∈ node, e.id = t.1 ∧ ∃ cl ∈ e.clusters, cl.id = t.2.1 ∧
      (contains (attrPerms cl t.2.2) Consts.accTimedOnly = true →
        c.flag = true ∧ ∃ T, timeout = some T ∧ (pre.map (·.delay)).sum + c.delay ≤ T) := by
  obtain ⟨pre, c, post, now, h1, h2, h3⟩ := imWriteChunks_mem chunks 0 o ho
  subst h3
  obtain ⟨e, he, hid, cl, hcl, hci, himp⟩ :=
    e2e_timed_only_live { ctx with timed := c.flag } .write node c.paths fuel
      (timeout.map (fun t => (t, now))) (by simp) okHandler t ht
  refine ⟨pre, c, post, h1, e, he, hid, cl, hcl, hci, fun hto => ?_⟩
  simp only [reduceCtorEq, if_false] at himp
  obtain ⟨hf, T, el, htr, hle⟩ := himp hto
  refine ⟨hf, ?_⟩
  cases timeout with
  | none => simp at htr
  | some T' =>
    simp only [Option.map_some, Option.some.injEq, Prod.mk.injEq] at htr
    obtain ⟨rfl, rfl⟩ := htr
    exact ⟨T', rfl, by omega⟩

/-- a chunk whose gate is closed has no effect, and no later chunk is processed -/
theorem chunked_write_stops_at_closed_gate (answers : Bool → List Path → List Out) (timeout : Option Nat)
    (el : Nat) (c : Chunk) (rest : List Chunk)
    (hg : timedGate c.flag timeout (el + c.delay) ≠ .proceed) :
    ∃ o, imWriteChunks answers timeout el (c :: rest) = [o] ∧ o.effects = [] ∧ o.top.isSome = true := by
  have h := e2e_gate_closed_no_effect .write c.flag (timeout.map (fun t => (t, el + c.delay))) c.paths
    (answers c.flag c.paths) okHandler (by simp) (by
      cases timeout with
      | none => simpa [timedGate] using hg
      | some T => simpa using hg)
  refine ⟨_, ?_, h.1, h.2.2⟩
  unfold imWriteChunks
  simp only [h.2.2, if_true]

/-- in scope of `C06_full` the outcome of every chunk is the specification's -/
theorem chunked_write_eq_spec (ctx : Ctx) (node : Node) (timeout : Option Nat) (chunks : List Chunk)
    (hn : nodeWF node = true) (hwf : WF ctx.fabrics) (hc : CanonicalPrivs ctx.fabrics) :
    imWriteChunks (fun flag ps => expand { ctx with timed := flag } .write node ps (fuelBound .write node ps)) timeout 0 chunks =
      imWriteChunks (fun flag ps => expected { ctx with timed := flag } .write node ps) timeout 0 chunks := by
  have : (fun (flag : Bool) (ps : List Path) => expand { ctx with timed := flag } .write node ps (fuelBound .write node ps)) =
      (fun flag ps => expected { ctx with timed := flag } .write node ps) := by
    funext flag ps
    exact expand_at_bound_eq_expected { ctx with timed := flag } .write node ps hn hwf hc
  rw [this]

/-! ## events -/

/-- the full statement for event paths: the answer is the specification's list -/
def Events_full : Prop :=
  ∀ (ctx : Ctx) (node : Node) (ff : Bool) (paths : List Path) (queue : List EventOcc),
    eventsWF node = true → WF ctx.fabrics → CanonicalPrivs ctx.fabrics →
    ctx.accessor.authMode ≠ some AuthMode.group →
    reportEvents ctx node ff paths queue = expectedEvents ctx node ff paths queue

/-- **Event paths**: `report_events` equals the specification — every concrete path that is absent
(endpoint / cluster / event) or not permitted gets exactly its status, every visible occurrence is
reported once in queue order, nothing else (since the repair of `C06-absent-event-silent` this
includes the `UnsupportedEvent` status of a concrete path naming an absent event). -/
theorem events_eq_spec (ctx : Ctx) (node : Node) (ff : Bool) (paths : List Path)
    (queue : List EventOcc)
    (hev : eventsWF node = true) (hwf : WF ctx.fabrics) (hcan : CanonicalPrivs ctx.fabrics)
    (hg : ctx.accessor.authMode ≠ some AuthMode.group) :
    reportEvents ctx node ff paths queue = expectedEvents ctx node ff paths queue :=
  reportEvents_eq_expected ctx node ff paths queue hev hwf hcan hg

theorem Events_full_holds : Events_full := events_eq_spec

/-- every disclosed occurrence exists on the node, is permitted, matches a requested path and passes
the fabric filter -/
theorem event_disclosed_visible (ctx : Ctx) (node : Node) (ff : Bool) (paths : List Path)
    (queue : List EventOcc)
    (hev : eventsWF node = true) (hwf : WF ctx.fabrics) (hcan : CanonicalPrivs ctx.fabrics)
    (hg : ctx.accessor.authMode ≠ some AuthMode.group) (o : EventOcc)
    (h : EvOut.data o ∈ reportEvents ctx node ff paths queue) :
    o ∈ queue ∧ eventVisible ctx node ff paths o = true := by
  rw [events_eq_spec ctx node ff paths queue hev hwf hcan hg] at h
  unfold expectedEvents at h
  rcases List.mem_append.mp h with h | h
  · obtain ⟨p, _, hp⟩ := List.mem_filterMap.mp h
    split at hp
    · obtain ⟨s, _, hs⟩ := Option.map_eq_some_iff.mp hp
      cases hs
    · cases hp
  · obtain ⟨o', ho', heq⟩ := List.mem_map.mp h
    injection heq with heq
    subst heq
    exact ⟨(List.mem_filter.mp ho').1, (List.mem_filter.mp ho').2⟩

/-- **Fabric-sensitive events of other fabrics are never disclosed** — no hypotheses, and for
**every** value of the requester-controlled `isFabricFiltered` flag `ff`: a reported occurrence that
is associated with a fabric is associated with the requester's fabric. (Before the repair this held
for `ff = true` only: `unfiltered_read_disclosed_before_fix`.) -/
theorem event_other_fabric_never_disclosed (ctx : Ctx) (node : Node) (ff : Bool) (paths : List Path)
    (queue : List EventOcc) (o : EventOcc)
    (h : EvOut.data o ∈ reportEvents ctx node ff paths queue) :
    ∀ f, o.fabricOf = some f → f = ctx.accessor.fabIdx := by
  unfold reportEvents eventStatuses at h
  rcases List.mem_append.mp h with h | h
  · obtain ⟨p, _, hp⟩ := List.mem_filterMap.mp h
    split at hp
    · split at hp <;> simp at hp
    · cases hp
  · obtain ⟨o', ho', heq⟩ := List.mem_map.mp h
    injection heq with heq
    subst heq
    have := (List.mem_filter.mp ho').2
    simp only [Bool.and_eq_true] at this
    have hf := this.1.1
    intro f hof
    unfold EventOcc.fabricOf at hof
    unfold matchesFabric at hf
    cases hfab : o'.fab with
    | absent => rw [hfab] at hof; cases hof
    | unreadable => rw [hfab] at hof; cases hof
    | idx n =>
      rw [hfab] at hof hf
      simp only [Option.some.injEq] at hof
      subst hof
      simpa using hf

/-- the answer to an event read does not depend on the requester-controlled `isFabricFiltered` flag -/
theorem events_flag_independent (ctx : Ctx) (node : Node) (ff ff2 : Bool) (paths : List Path)
    (queue : List EventOcc) :
    reportEvents ctx node ff paths queue = reportEvents ctx node ff2 paths queue := rfl

/-! ## non-vacuity -/

/-- endpoint 0: cluster 31 with attribute 0 (`RWVA`) and command 0 (`WA`, fabric-scoped);
endpoint 1: cluster 6 with attributes 0 (`RV`), 1 (`RWVM`, timed-only) and command 0 (`WO`, timed-only) -/
def demoNode : Node :=
  [ { id := 0, deviceTypes := [22], clusters :=
      [ { id := 31, attrs := [ { id := 0, access := 57, array := true, enabled := true } ],
          cmds := [ { id := 0, access := 104, array := false, enabled := true } ] } ] },
    { id := 1, deviceTypes := [256], clusters :=
      [ { id := 6, attrs := [ { id := 0, access := 17, array := false, enabled := true },
                              { id := 1, access := 309, array := false, enabled := true } ],
          cmds := [ { id := 0, access := 302, array := false, enabled := true } ] } ] } ]

/-- fabric 1: node 5 may operate endpoint 1 -/
def demoAcl : List Fabric :=
  [ { fabIdx := 1,
      acl := [ { privilege := PRIV_MANAGE, authMode := .case, subjects := some [5],
                 targets := some [ { endpoint := some 1, cluster := none, deviceType := none } ],
                 fabIdx := some 1 } ],
      groups := [] } ]

def demoCtx (timed : Bool) : Ctx :=
  { fabrics := demoAcl, accessor := { fabIdx := 1, auxAclEnabled := false, subjects := [5, 0, 0, 0], authMode := some .case },
    timed := timed, filter := fun _ _ _ => true }

def wild : Path := { endpoint := none, cluster := none, leaf := none }
def conc (e c l : Nat) : Path := { endpoint := some e, cluster := some c, leaf := some l }

/-- wildcard read: exactly the two permitted attributes of endpoint 1, nothing about endpoint 0 -/
example : expand (demoCtx false) .read demoNode [wild] 10 =
    [.item 1 6 0 true false, .item 1 6 1 true false] := by decide
/-- concrete read of the Access Control attribute: one status, no item -/
example : expand (demoCtx false) .read demoNode [conc 0 31 0] 10 =
    [.status (conc 0 31 0) .unsupportedAccess] := by decide
/-- timed-only attribute: refused without the timed flag, written with it -/
example : expand (demoCtx false) .write demoNode [conc 1 6 1] 10 =
    [.status (conc 1 6 1) .needsTimedInteraction] := by decide
example : expand (demoCtx true) .write demoNode [conc 1 6 1] 10 = [.item 1 6 1 false false] := by decide
/-- absent cluster / attribute / endpoint -/
example : expand (demoCtx false) .read demoNode [conc 1 8 0, conc 1 6 9, conc 5 6 0] 10 =
    [.status (conc 1 8 0) .unsupportedCluster, .status (conc 1 6 9) .unsupportedAttribute,
     .status (conc 5 6 0) .unsupportedEndpoint] := by decide
/-- the specification gives the same lists -/
example : expected (demoCtx false) .read demoNode [wild, conc 0 31 0] =
    expand (demoCtx false) .read demoNode [wild, conc 0 31 0] 10 := by decide
/-- hypotheses of `expanded_items_permitted` are satisfiable -/
example : nodeWF demoNode = true ∧ WF demoAcl := ⟨by decide, ⟨by decide, by decide, by decide⟩⟩
/-- fabric-scoped command over PASE without a fabric: refused -/
def paseCtx : Ctx :=
  { fabrics := demoAcl, accessor := { fabIdx := 0, auxAclEnabled := false, subjects := [1, 0, 0, 0], authMode := some .pase },
    timed := true, filter := fun _ _ _ => true }
example : expand paseCtx .invoke demoNode [conc 0 31 0] 10 = [.status (conc 0 31 0) .unsupportedAccess] := by decide
/-- the timed gate: live window passes, closed window and mismatches do not -/
example : timedGate true (some 100) 100 = .proceed ∧ timedGate true (some 100) 101 = .timeout ∧
    timedGate true none 5 = .timedRequestMismatch ∧ timedGate false (some 100) 5 = .timedRequestMismatch ∧
    timedGate false none 5 = .proceed := by decide

/-- `concrete_path_expected` instantiated: a denied concrete path yields exactly its status -/
example : expand (demoCtx false) .read demoNode [conc 0 31 0] 2 = expectedItem (demoCtx false) .read demoNode (conc 0 31 0) :=
  concrete_path_expected (demoCtx false) .read demoNode (conc 0 31 0) 0 rfl rfl rfl (by decide)
    ⟨by decide, by decide, by decide⟩
    (by intro f hf e he
        simp only [demoCtx, demoAcl, List.mem_cons, List.not_mem_nil, or_false] at hf
        subst hf
        simp only [List.mem_cons, List.not_mem_nil, or_false] at he
        subst he; exact ⟨.manage, rfl⟩)

/-- the hypotheses of `expansion_eq_expected` / `expand_terminates` hold for the demo request, and
the bound is a concrete number -/
example : fuelBound .read demoNode [wild, conc 0 31 0] = 19 := by decide
example : (demoNode.map (·.id)).Pairwise (· < ·) := by decide
example : expand (demoCtx false) .read demoNode [wild, conc 0 31 0, wild] (fuelBound .read demoNode [wild, conc 0 31 0, wild]) =
    [.item 1 6 0 true false, .item 1 6 1 true false, .status (conc 0 31 0) .unsupportedAccess,
     .item 1 6 0 true false, .item 1 6 1 true false] := by decide

/-- node swap: endpoint 0 disappears after the first call and endpoint 2 (a copy of endpoint 1's
shape under another id) appears; nothing is repeated, endpoint 1 (present throughout) is complete -/
def demoNode2 : Node :=
  [ demoNode[1]!, { id := 2, deviceTypes := [256], clusters := demoNode[1]!.clusters } ]
def demoAclAll : List Fabric :=
  [ { fabIdx := 1,
      acl := [ { privilege := PRIV_ADMIN, authMode := .case, subjects := some [5], targets := none, fabIdx := some 1 } ],
      groups := [] } ]
def demoCtxAll : Ctx := { demoCtx false with fabrics := demoAclAll }
example : stableNodes [demoNode, demoNode2, demoNode2, demoNode, demoNode] = true ∧
    nodeWF demoNode2 = true := by decide
example : runSwap demoCtxAll .read [demoNode, demoNode2, demoNode2, demoNode, demoNode, demoNode] { items := [wild] } =
    [.item 0 31 0 true true, .item 1 6 0 true false, .item 1 6 1 true false] ∧
    swapEnded demoCtxAll .read [demoNode, demoNode2, demoNode2, demoNode, demoNode, demoNode] { items := [wild] } = true := by
  decide
example : SupportedWildcard .read wild := ⟨rfl, Or.inl rfl⟩

/-- an ACL rewrite inside one WriteRequest: the requester is Administrator when the first item is
checked; the handler of that item empties the ACL (calls 2 and 3 see `demoCtxNone`). The second item —
same path — is let through by the cache; the third — another path — is checked against the emptied
ACL and refused. Under the emptied ACL alone nothing would be written. -/
def demoCtxAdminT : Ctx := { demoCtx true with fabrics := demoAclAll }
def demoCtxNone : Ctx := { demoCtx true with fabrics := [ { fabIdx := 1, acl := [], groups := [] } ] }
example : runCtx .write demoNode [demoCtxAdminT, demoCtxNone, demoCtxNone, demoCtxNone]
      { items := [conc 0 31 0, conc 0 31 0, conc 1 6 1] } =
    [.item 0 31 0 false true, .item 0 31 0 false true, .status (conc 1 6 1) .unsupportedAccess] ∧
    expand demoCtxNone .write demoNode [conc 0 31 0, conc 0 31 0, conc 1 6 1] 10 =
    [.status (conc 0 31 0) .unsupportedAccess, .status (conc 0 31 0) .unsupportedAccess,
     .status (conc 1 6 1) .unsupportedAccess] := by decide

/-- the hypothesis of `denied_request_calls_no_handler` is satisfiable: node 5 may not touch endpoint 0,
a write to `0/31/0` (and a read of it) yields its status and no handler call -/
example : (imRequest .write false none [conc 0 31 0]
      (expand (demoCtx false) .write demoNode [conc 0 31 0] 10)).effects = [] ∧
    (imRequest .write false none [conc 0 31 0]
      (expand (demoCtx false) .write demoNode [conc 0 31 0] 10)).resp = [.status (conc 0 31 0) .unsupportedAccess] ∧
    (imRequest .write true (some (100, 5)) [conc 1 6 1]
      (expand (demoCtx true) .write demoNode [conc 1 6 1] 10)).effects = [(1, 6, 1)] := by decide

/-- events: endpoint 1 / cluster 6 with events 0 (`RV`) and 1 (`R` + Manage) -/
def demoNodeEv : Node :=
  [ { id := 1, deviceTypes := [256], clusters :=
      [ { id := 6, attrs := [], cmds := [],
          events := [ { id := 0, access := 17, array := false, enabled := true },
                      { id := 1, access := 20, array := false, enabled := true } ] } ] } ]
def evq : List EventOcc :=
  [ { ep := 1, cl := 6, ev := 0, fab := .absent, num := 1 }, { ep := 1, cl := 6, ev := 1, fab := .absent, num := 2 },
    { ep := 1, cl := 6, ev := 0, fab := .idx 2, num := 3 }, { ep := 1, cl := 6, ev := 7, fab := .absent, num := 4 } ]
/-- an Operate requester: event 0 disclosed (not the occurrence of fabric 2, not the absent event 7),
event 1 (needs Manage) omitted by the wildcard and refused with a status when named -/
def demoAclOp : List Fabric :=
  [ { fabIdx := 1,
      acl := [ { privilege := PRIV_OPERATE, authMode := .case, subjects := some [5], targets := none, fabIdx := some 1 } ],
      groups := [] } ]
def demoCtxOp : Ctx := { demoCtx false with fabrics := demoAclOp }
example : reportEvents demoCtxOp demoNodeEv true [wild, conc 1 6 1, conc 1 9 0] evq =
    [.status (conc 1 6 1) .unsupportedAccess, .status (conc 1 9 0) .unsupportedCluster, .data evq[0]!] := by decide
/-- a concrete path naming an absent event gets `UnsupportedEvent` (was silent before the repair of
`C06-absent-event-silent`) -/
example : reportEvents demoCtxOp demoNodeEv true [conc 1 6 7] evq = [.status (conc 1 6 7) .unsupportedEvent] ∧
    expectedEvents demoCtxOp demoNodeEv true [conc 1 6 7] evq = [.status (conc 1 6 7) .unsupportedEvent] := by decide
/-- **The defect `C06-fabric-sensitive-event-unfiltered`, on the model of the code before the repair**:
a requester of fabric 1 that clears `isFabricFiltered` in its read request is shown occurrence 3, a
fabric-sensitive event of fabric 2; the specification (and the repaired code) withhold it for both
values of the flag. -/
theorem unfiltered_read_disclosed_before_fix :
    EvOut.data evq[2]! ∈ reportEventsOld demoCtxOp demoNodeEv false [wild] evq ∧
    evq[2]!.fabricOf = some 2 ∧ demoCtxOp.accessor.fabIdx = 1 ∧
    EvOut.data evq[2]! ∉ expectedEvents demoCtxOp demoNodeEv false [wild] evq ∧
    EvOut.data evq[2]! ∉ reportEvents demoCtxOp demoNodeEv false [wild] evq ∧
    reportEvents demoCtxOp demoNodeEv false [wild] evq = [.data evq[0]!] := by decide
/-- the hypothesis of `event_other_fabric_never_disclosed` is satisfiable with the flag cleared, also by
an occurrence associated with the requester's own fabric -/
example : EvOut.data { ep := 1, cl := 6, ev := 0, fab := .idx 1, num := 9 } ∈
    reportEvents demoCtxOp demoNodeEv false [wild] [{ ep := 1, cl := 6, ev := 0, fab := .idx 1, num := 9 }] := by
  decide
/-- the request-level gates -/
example : (imRequest .write true (some (100, 101)) [conc 1 6 1] []).top = some "Timeout" ∧
    (imRequest .write true (some (100, 100)) [conc 1 6 1] [.item 1 6 1 false false]).effects = [(1, 6, 1)] ∧
    (imRequest .write true none [conc 1 6 1] []).top = some "TimedRequestMisMatch" ∧
    (imRequest .read false none [{ endpoint := none, cluster := none, leaf := some 0 }] []).top = some "InvalidAction" := by
  decide

/-- chunked write on the demo node (attribute 1/6/1 is timed-only): an honest in-time chunk 2 acts;
a chunk 2 that claims the flag without a TimedRequest, or that arrives after the window closed, is
refused with the request-level status and has no effect -/
def demoCtxM (timed : Bool) : Ctx := { demoCtx timed with fabrics := demoAcl }
example :
    (imWriteChunks (fun flag ps => expand (demoCtxM flag) .write demoNode ps 10) (some 100) 0
      [{ flag := true, delay := 10, paths := [conc 1 6 0] }, { flag := true, delay := 20, paths := [conc 1 6 1] }]).map (·.effects)
      = [[], [(1, 6, 1)]] ∧
    (imWriteChunks (fun flag ps => expand (demoCtxM flag) .write demoNode ps 10) none 0
      [{ flag := false, delay := 0, paths := [conc 1 6 0] }, { flag := true, delay := 0, paths := [conc 1 6 1] }]).map (·.top)
      = [none, some "TimedRequestMisMatch"] ∧
    (imWriteChunks (fun flag ps => expand (demoCtxM flag) .write demoNode ps 10) (some 100) 0
      [{ flag := true, delay := 10, paths := [conc 1 6 0] }, { flag := true, delay := 91, paths := [conc 1 6 1] }]).map (·.top)
      = [none, some "Timeout"] := by decide

end C06
