import RsMatterVerif.Lemmas.Transport
/-!
# The id allocators: termination made explicit, capacities, lazy seeding (C15)

`Transport.allocLoop` is total: when its fuel runs out it answers the current candidate without
having tested it, where the Rust `loop { … }` of `get_next_sess_id` / `get_next_exch_id` would
still be running. `allocLoopD` makes that outcome explicit (`none` = the Rust loop has not
terminated within 65536 candidates = it never terminates, the candidates being periodic with
period 65535); under the capacities of the session table (`Consts.maxSessions`,
`Consts.maxExchanges`) it is unreachable and `allocLoopD = some allocLoop`.
-/
namespace Transport

/-- the allocator loop with the exhaustion of the fuel as an explicit outcome -/
def allocLoopD (live : List Nat) : Nat → Nat → Option (Nat × Nat)
  | 0, _ => none
  | fuel + 1, cur =>
    if live.all (· != cur) then some (cur, bump cur) else allocLoopD live fuel (bump cur)

theorem bumpIter_succ (i c : Nat) : bumpIter (i + 1) c = bump (bumpIter i c) := by
  induction i generalizing c with
  | zero => rfl
  | succ i ih => simp only [bumpIter] at ih ⊢; rw [ih]

theorem bumpIter_add (a b c : Nat) : bumpIter (a + b) c = bumpIter b (bumpIter a c) := by
  induction a generalizing c with
  | zero => simp [bumpIter]
  | succ a ih =>
    have : a + 1 + b = (a + b) + 1 := by omega
    rw [this]
    simp only [bumpIter]
    exact ih (bump c)

theorem bumpIter_range (i c : Nat) (h1 : 1 ≤ c) (h2 : c ≤ 65535) : 1 ≤ bumpIter i c ∧ bumpIter i c ≤ 65535 := by
  rw [bumpIter_closed i c h1 h2]
  omega

/-- what a terminating run of the loop answers: the first candidate that is not live, and the position after it -/
theorem allocLoopD_spec (live : List Nat) : ∀ (fuel cur x nx : Nat), allocLoopD live fuel cur = some (x, nx) →
    ∃ k, k < fuel ∧ x = bumpIter k cur ∧ nx = bumpIter (k + 1) cur ∧ x ∉ live ∧ ∀ i, i < k → bumpIter i cur ∈ live := by
  intro fuel
  induction fuel with
  | zero => intro cur x nx h; simp [allocLoopD] at h
  | succ fuel ih =>
    intro cur x nx h
    unfold allocLoopD at h
    split at h
    · rename_i hall
      simp only [Option.some.injEq, Prod.mk.injEq] at h
      obtain ⟨rfl, rfl⟩ := h
      refine ⟨0, by omega, rfl, rfl, ?_, fun i hi => by omega⟩
      intro hin
      have := (List.all_eq_true.1 hall) cur hin
      simp at this
    · rename_i hall
      obtain ⟨k, hk, hx, hnx, hfresh, hbefore⟩ := ih (bump cur) x nx h
      refine ⟨k + 1, by omega, hx, hnx, hfresh, ?_⟩
      intro i hi
      cases i with
      | zero =>
        simp only [bumpIter]
        apply Classical.byContradiction
        intro hn
        apply hall
        rw [List.all_eq_true]
        intro y hy
        simp only [bne_iff_ne, ne_eq]
        intro hyc
        exact hn (hyc ▸ hy)
      | succ i => exact hbefore i (by omega)

/-- the loop runs out of fuel only if every candidate it looked at is live -/
theorem allocLoopD_none (live : List Nat) : ∀ (fuel cur : Nat), allocLoopD live fuel cur = none →
    ∀ i, i < fuel → bumpIter i cur ∈ live := by
  intro fuel
  induction fuel with
  | zero => intro cur _ i hi; omega
  | succ fuel ih =>
    intro cur h i hi
    unfold allocLoopD at h
    split at h
    · cases h
    · rename_i hall
      cases i with
      | zero =>
        simp only [bumpIter]
        apply Classical.byContradiction
        intro hn
        apply hall
        rw [List.all_eq_true]
        intro y hy
        simp only [bne_iff_ne, ne_eq]
        intro hyc
        exact hn (hyc ▸ hy)
      | succ i => exact ih (bump cur) h i (by omega)

/-- **The Rust loop terminates**: with fewer than 65535 live ids the fuel never runs out … -/
theorem allocLoopD_terminates (live : List Nat) (cur : Nat) (h1 : 1 ≤ cur) (h2 : cur ≤ 65535)
    (hlen : live.length < 65535) : (allocLoopD live 65536 cur).isSome = true := by
  cases h : allocLoopD live 65536 cur with
  | some r => rfl
  | none =>
    exfalso
    have hall := allocLoopD_none live 65536 cur h
    have := pigeon (fun i => bumpIter i cur) 65535 live
      (fun i j hi hj h => bumpIter_inj cur h1 h2 i j hi hj h)
      (fun i hi => hall i (by omega))
    omega

/-- … and then the total `allocLoop` of the executable model computes exactly its answer -/
theorem allocLoopD_eq (live : List Nat) : ∀ (fuel cur : Nat) (r : Nat × Nat),
    allocLoopD live fuel cur = some r → allocLoop live fuel cur = r := by
  intro fuel
  induction fuel with
  | zero => intro cur r h; simp [allocLoopD] at h
  | succ fuel ih =>
    intro cur r h
    unfold allocLoopD at h
    unfold allocLoop
    split at h
    · rename_i hall
      simp only [hall, ↓reduceIte]
      exact Option.some.inj h
    · rename_i hall
      simp only [hall, Bool.false_eq_true, ↓reduceIte]
      exact ih (bump cur) r h

/-- the model's allocator in one statement: it answers the first non-live candidate `k` steps ahead -/
theorem allocLoop_spec (live : List Nat) (cur : Nat) (h1 : 1 ≤ cur) (h2 : cur ≤ 65535) (hlen : live.length < 65535) :
    ∃ k, k < 65536 ∧ (allocLoop live 65536 cur).1 = bumpIter k cur ∧ (allocLoop live 65536 cur).2 = bumpIter (k + 1) cur ∧
      (allocLoop live 65536 cur).1 ∉ live := by
  have ht := allocLoopD_terminates live cur h1 h2 hlen
  cases h : allocLoopD live 65536 cur with
  | none => rw [h] at ht; cases ht
  | some r =>
    obtain ⟨x, nx⟩ := r
    obtain ⟨k, hk, hx, hnx, hfresh, _⟩ := allocLoopD_spec live 65536 cur x nx h
    rw [allocLoopD_eq live 65536 cur (x, nx) h]
    exact ⟨k, hk, hx, hnx, hfresh⟩

/-! ## Capacities -/

/-- the session table never holds more than `MAX_SESSIONS` sessions with `MAX_EXCHANGES` slots each -/
def Cap (t : Table) : Prop :=
  t.sessions.length ≤ Consts.maxSessions ∧ ∀ s ∈ t.sessions, s.exchs.length ≤ Consts.maxExchanges

theorem capacity_below_id_space : Consts.maxSessions * Consts.maxExchanges < 65535 := by decide

theorem liveInitIds_length (s : Sess) : (liveInitIds s).length ≤ s.exchs.length := by
  unfold liveInitIds
  exact List.length_filterMap_le _ _

theorem length_flatMap_le {α β : Type} (f : α → List β) (b : Nat) : ∀ (l : List α),
    (∀ x ∈ l, (f x).length ≤ b) → (l.flatMap f).length ≤ l.length * b := by
  intro l
  induction l with
  | nil => intro _; simp
  | cons x xs ih =>
    intro h
    have h1 := h x (List.mem_cons_self ..)
    have h2 := ih (fun y hy => h y (List.mem_cons_of_mem _ hy))
    simp only [List.flatMap_cons, List.length_append, List.length_cons]
    rw [Nat.add_mul]
    omega

/-- the `length < 65535` hypotheses of the freshness theorems follow from the capacities -/
theorem cap_lengths (t : Table) (h : Cap t) :
    t.liveSessIds.length < 65535 ∧ t.liveInitExchIds.length < 65535 := by
  have hc := capacity_below_id_space
  constructor
  · unfold Table.liveSessIds
    rw [List.length_map]
    have : Consts.maxSessions ≤ Consts.maxSessions * Consts.maxExchanges := by decide
    have := h.1
    omega
  · unfold Table.liveInitExchIds
    have := length_flatMap_le liveInitIds Consts.maxExchanges t.sessions
      (fun s hs => Nat.le_trans (liveInitIds_length s) (h.2 s hs))
    have h2 : t.sessions.length * Consts.maxExchanges ≤ Consts.maxSessions * Consts.maxExchanges :=
      Nat.mul_le_mul_right _ h.1
    omega

/-! ## The allocators with divergence explicit, and the lazy seeding of the exchange-id allocator -/

/-- `Sessions::get_next_sess_id`; `none` = the Rust loop does not terminate -/
def Table.nextSessIdD (t : Table) : Option (Table × Nat) :=
  (allocLoopD t.liveSessIds 65536 t.nextSid).map (fun r => ({ t with nextSid := r.2 }, r.1))

/-- the lazy seeding branch of `Sessions::get_next_exch_id`: `next_exch_id == 0` ⇒ a random `u16`
(`cand`, the low 16 bits of `rand.next_u32()`), 0 replaced by 1 -/
def Table.seedExch (t : Table) (cand : Nat) : Table :=
  if t.nextExch = 0 then { t with nextExch := if cand % 65536 = 0 then 1 else cand % 65536 } else t

/-- `Sessions::get_next_exch_id` including the seeding branch; `none` = the Rust loop does not terminate -/
def Table.nextExchIdD (t : Table) (cand : Nat) : Option (Table × Nat) :=
  let t := t.seedExch cand
  (allocLoopD t.liveInitExchIds 65536 t.nextExch).map (fun r => ({ t with nextExch := r.2 }, r.1))

theorem seedExch_range (t : Table) (cand : Nat) (h : t.nextExch ≤ 65535) :
    1 ≤ (t.seedExch cand).nextExch ∧ (t.seedExch cand).nextExch ≤ 65535 := by
  unfold Table.seedExch
  split
  · simp only
    split <;> omega
  · omega

theorem seedExch_sessions (t : Table) (cand : Nat) : (t.seedExch cand).sessions = t.sessions := by
  unfold Table.seedExch
  split <;> rfl

theorem seedExch_of_seeded (t : Table) (cand : Nat) (h : 1 ≤ t.nextExch) : t.seedExch cand = t := by
  unfold Table.seedExch
  have : t.nextExch ≠ 0 := by omega
  simp [this]

/-- `Transport::initiate_for_session` with the seeding branch of `get_next_exch_id` where the code has it
(after the session was found alive); `cand` = the random `u16` drawn if the allocator was never used -/
def Table.initiateS (t : Table) (uid now cand : Nat) : Table × Except Err (Nat × Nat) :=
  let (t, so) := t.get uid now
  match so with
  | none => (t, .error .noSession)
  | some s =>
    if s.expired then (t, .error .noSession) else
    let (t, xid) := (t.seedExch cand).nextExchId
    match s.addExch xid .io with
    | some (s', i) => (t.setSess s', .ok (xid, i))
    | none => (t, .error .noSpaceExchanges)

theorem get_nextExch (t : Table) (uid now : Nat) : (t.get uid now).1.nextExch = t.nextExch := by
  unfold Table.get
  split
  · simp only [Table.setSess]
    split <;> rfl
  · rfl

/-- once the allocator is seeded this is the `Table.initiate` the driver replays against the code -/
theorem initiateS_eq (t : Table) (uid now cand : Nat) (h : 1 ≤ t.nextExch) :
    t.initiateS uid now cand = t.initiate uid now := by
  unfold Table.initiateS Table.initiate
  have h1 : 1 ≤ (t.get uid now).1.nextExch := by rw [get_nextExch]; exact h
  generalize t.get uid now = r at h1
  obtain ⟨t1, so⟩ := r
  simp only at h1 ⊢
  rw [seedExch_of_seeded t1 cand h1]
  cases so with
  | none => rfl
  | some s0 => rfl

end Transport
