/-! # C03 — property theorems (not built yet) -/
