import RsMatterVerif.Lemmas.AdminCommit
/-!
# C11 — persisted state survives a crash and reloads to what was committed

Model: `Model/Admin.lean`.  The store is a record of decoded blobs; every `store` / `remove` call is
atomic; `hist` keeps the store after each mutation, so that "stop at any instant" is "restart from
an element of `hist`" (`Op.crash k`).  All history theorems are about histories WITHOUT the factory
reset of the running node (`Op.freset ∉ ops`; the reset has its own theorems below) - the
reset-before-start-up (`coldreset`) and the recovery reset (`fabrecover`) are inside.

## the property-level statements (about `committedView`)
`committedView : List Op → View` (`Lemmas/AdminCommit.lean`) is the abstract state made of exactly the
changes that were ACKNOWLEDGED with success: a fabric-scoped write (ACL, group table, label, group
key map) answered with success outside a fail-safe for its fabric commits the record of that fabric,
an acknowledged CommissioningComplete commits the record of its fabric and the networks, an
acknowledged RemoveFabric removes the record; nothing else changes it.
* `boundary_store_is_committed`: after EVERY history the store holds exactly the committed view of
  that history - any commands, any sessions, store faults at any write, restarts, earlier crashes.
* `restart_comes_up_committed`: hence a restart after any history comes up with exactly the committed
  view (every acknowledged change, nothing of an unacknowledged one).
* `crash_comes_up_committed`: **every crash point, in order**: the node restarted from the store after
  the `k`-th mutation comes up with the committed view of the LONGEST prefix of the history all of
  whose store mutations are among the first `k` - for every `k` that does not lie strictly between
  the two store mutations of a CommissioningComplete.  (For histories that only grow the store
  history; with earlier crashes / resets inside: `crash_prefix_or_mid_commit`, set-level.)
* the exclusions, each with its witness: (1) `noPartialCommit`: no CommissioningComplete whose SECOND
  write fails for a fabric that has a stored record (what is left of the open finding
  `C11-complete-store-failure`; witness `partial_commit_witness`) - the case of a fabric ADDED under
  the fail-safe is repaired and INSIDE the theorems; (2) the crash points strictly inside a
  CommissioningComplete (open finding `C11-complete-crash-between-writes`; witness
  `C11_full_crash_committed_false`) - every history with successful commissionings is inside.
* what `committedView` takes for the committed record: the record the node HOLDS when it
  acknowledges (the implementation stores whole fabric records).  A change of an earlier write that
  was answered with a store error stays in that record (`C08_full_coherent_always_false`) and is
  committed by the next acknowledged write of the fabric - `dirty_write_is_flushed` shows it.

## one step: write before acknowledge
* `acked_write_is_stored` (ACL, group table, label, group key map; `acked_write_content` for what the
  stored record contains), `failed_write_leaves_store`, `acked_removal_is_stored`,
  `acked_complete_is_stored`: when the
  command is answered with success the store already holds the change; when it is answered with an
  error (or deferred under the fail-safe) the store is untouched - store faults included.

## refinement facts (they restate what the model's `restartFrom` / `crash` / `corrupt` do; their
value is the differential harness that compares the model with the real `Matter::startup`)
* `restart_reads_store`, `crash_reads_snapshot`, `corrupt_resumption_blob_tolerated`.

## factory reset
* `factory_reset_empties` (one step, no store fault, stored indices in the key range `1..255`),
  `faulty_factory_reset`.
-/
namespace C11
open Admin

/-! ## restart (refinement facts) -/

/-- the resumption records a restart keeps: the stored ones whose fabric still exists -/
def storedResum (kv : KV) : List Resum :=
  match kv.resum with
  | .recs l => l.filter (fun r => kv.fabs.any (fun f => f.idx = r.fab))
  | _ => []

theorem restart_reads_store (n : Node) (kv : KV) (hist : List KV) :
    Agree (restartFrom n kv hist) ∧
    (restartFrom n kv hist).fabrics = kv.fabs ∧
    (restartFrom n kv hist).resum = storedResum kv ∧
    (restartFrom n kv hist).fs = none ∧ (restartFrom n kv hist).sessions = [] ∧
    (restartFrom n kv hist).kv.fabs = kv.fabs ∧ (restartFrom n kv hist).kv.nets = kv.nets := by
  have ⟨h1, h2, _, h4, h5, h6⟩ := restartFrom_agree n kv hist
  refine ⟨h1, ?_, ?_, h2, h6, h4, h5⟩
  · unfold restartFrom
    cases kv.resum <;> simp only [] <;> split <;> rfl
  · unfold restartFrom storedResum
    cases kv.resum <;> simp only [] <;> (try split) <;> simp

/-- `crash k` is a restart from the store as it was after the k-th mutation -/
theorem crash_reads_snapshot (cfg : Cfg) (n : Node) (k : Nat) :
    ∃ kv hist, (step cfg n (.crash k)).1 = restartFrom n kv hist ∧
      (kv ∈ n.hist ∨ (kv = {} ∧ hist = [])) ∧ (step cfg n (.crash k)).2 = .ok := by
  simp only [step, isSessOp]
  cases hd : List.drop (n.hist.length - min k n.hist.length) n.hist with
  | nil => exact ⟨{}, [], by simp [ok], Or.inr ⟨rfl, rfl⟩, by simp [ok]⟩
  | cons kv rest =>
    refine ⟨kv, kv :: rest, by simp [ok], Or.inl ?_, by simp [ok]⟩
    have : kv ∈ List.drop (n.hist.length - min k n.hist.length) n.hist := by rw [hd]; exact List.mem_cons_self
    exact List.mem_of_mem_drop this

/-- **A damaged resumption blob never prevents start-up.** -/
theorem corrupt_resumption_blob_tolerated (cfg : Cfg) (n : Node) :
    (step cfg n .corrupt).2 = .ok ∧ (step cfg n .corrupt).1.resum = [] ∧
    (step cfg n .corrupt).1.kv.resum ≠ .garbage ∧ Agree (step cfg n .corrupt).1 ∧
    (step cfg n .corrupt).1.fabrics = n.kv.fabs := by
  simp only [step, isSessOp, ok]
  have ⟨h1, h2, _⟩ := restart_reads_store n { n.kv with resum := .garbage } ({ n.kv with resum := .garbage } :: n.hist)
  refine ⟨?_, ?_, ?_, h1, h2⟩
  all_goals simp [restartFrom]

/-! ## write before acknowledge (one step) -/

/-- **Write-before-acknowledge for every fabric-scoped write** (ACL, group table, fabric label, group
key map), store faults included: when the write over a session of fabric `mode.fab` is answered with
success while no fail-safe is armed for that fabric, the store holds exactly the record the node
holds for the fabric, and nothing else in the store changed. -/
theorem acked_write_is_stored (cfg : Cfg) (n : Node) (sid : Nat) (mode : Mode) (op : Op)
    (hw : isWriteOp op = true) (hna : armedFor n mode.fab = false)
    (hok : (sessOp cfg n sid mode op).2 = .ok) :
    ∃ f', kvF (sessOp cfg n sid mode op).1.kv mode.fab = some f' ∧
          getFabric (sessOp cfg n sid mode op).1 mode.fab = some f' ∧
          (sessOp cfg n sid mode op).1.kv = n.kv.putFabric f' := by
  obtain ⟨f', hidx, hkv, hg⟩ := (sessOp_write_kv cfg n sid mode op hw).1 ⟨hok, hna⟩
  refine ⟨f', ?_, hg, hkv⟩
  rw [hkv, kvF_putFabric, hidx]; simp

/-- ... and a write that is answered with an error - or deferred under the fail-safe of its fabric -
leaves the store exactly as it was -/
theorem failed_write_leaves_store (cfg : Cfg) (n : Node) (sid : Nat) (mode : Mode) (op : Op)
    (hw : isWriteOp op = true)
    (h : (sessOp cfg n sid mode op).2 ≠ .ok ∨ armedFor n mode.fab = true) :
    (sessOp cfg n sid mode op).1.kv = n.kv := by
  apply (sessOp_write_kv cfg n sid mode op hw).2
  rintro ⟨h1, h2⟩
  rcases h with h | h
  · exact h h1
  · rw [h2] at h; cases h

/-- **What the acknowledged record contains**: the record the node held before with exactly the
written change applied - the new ACL entry appended, the group added, the label set -/
theorem acked_write_content (cfg : Cfg) (n : Node) (sid : Nat) (mode : Mode) (op : Op)
    (hw : isWriteOp op = true) (hna : armedFor n mode.fab = false)
    (hok : (sessOp cfg n sid mode op).2 = .ok) :
    ∃ f, getFabric n mode.fab = some f ∧ kvF (sessOp cfg n sid mode op).1.kv mode.fab = some (applyWrite op f) := by
  obtain ⟨f, hg, hg'⟩ := sessOp_write_mem cfg n sid mode op hw hok
  obtain ⟨f', hk, hgf, _⟩ := acked_write_is_stored cfg n sid mode op hw hna hok
  refine ⟨f, hg, ?_⟩
  rw [hk, ← hgf, hg']

example (f : Fabric) (s v : Nat) : (applyWrite (.acl s v) f).acl = f.acl ++ [v] ∧ (applyWrite (.label s v) f).label = v := ⟨rfl, rfl⟩

/-- **An acknowledged RemoveFabric has removed the key** (and the fabric from the table); one that is
answered with an error left the fabric records and the networks of the store as they were -/
theorem acked_removal_is_stored (cfg : Cfg) (n : Node) (sid s idx : Nat) (mode : Mode) :
    ((sessOp cfg n sid mode (.rmfab s idx)).2 = .ok →
      kvF (sessOp cfg n sid mode (.rmfab s idx)).1.kv idx = none ∧
      (∀ i, i ≠ idx → kvF (sessOp cfg n sid mode (.rmfab s idx)).1.kv i = kvF n.kv i) ∧
      (sessOp cfg n sid mode (.rmfab s idx)).1.kv.nets = n.kv.nets) ∧
    ((sessOp cfg n sid mode (.rmfab s idx)).2 ≠ .ok → KV.Same (sessOp cfg n sid mode (.rmfab s idx)).1.kv n.kv) := by
  have ⟨h1, h2⟩ := sessOp_rmfab_kv cfg n sid s idx mode
  refine ⟨fun hok => ?_, h2⟩
  have hs := h1 hok
  refine ⟨by rw [hs.1 idx, kvF_delFabric]; simp, fun i hi => by rw [hs.1 i, kvF_delFabric]; simp [hi], hs.2⟩

/-- **An acknowledged CommissioningComplete has stored the fabric record and the networks**: the store
is the store before with the record the node holds for the fabric put into it and the networks of the
node stored; one that is answered with an error - partial commit excluded - left the fabric records
and the networks of the store as they were -/
theorem acked_complete_is_stored (cfg : Cfg) (n : Node) (sid s : Nat) (mode : Mode) :
    ((sessOp cfg n sid mode (.complete s)).2 = .ok →
      ∃ f', getFabric (sessOp cfg n sid mode (.complete s)).1 mode.fab = some f' ∧
        kvF (sessOp cfg n sid mode (.complete s)).1.kv mode.fab = some f' ∧
        (sessOp cfg n sid mode (.complete s)).1.kv.nets =
          some ((sessOp cfg n sid mode (.complete s)).1.nets, (sessOp cfg n sid mode (.complete s)).1.managed) ∧
        (∀ i, i ≠ mode.fab → kvF (sessOp cfg n sid mode (.complete s)).1.kv i = kvF n.kv i)) ∧
    ((sessOp cfg n sid mode (.complete s)).2 ≠ .ok → partialCommit cfg n sid mode s = false →
      KV.Same (sessOp cfg n sid mode (.complete s)).1.kv n.kv) := by
  have ⟨h1, h2⟩ := sessOp_complete_kv cfg n sid s mode
  refine ⟨fun hok => ?_, h2⟩
  obtain ⟨f', hidx, hg, hkv⟩ := h1 hok
  refine ⟨f', hg, ?_, by rw [hkv], fun i hi => ?_⟩
  · rw [hkv]
    show kvF (n.kv.putFabric f') mode.fab = some f'
    rw [kvF_putFabric, hidx]; simp
  · rw [hkv]
    show kvF (n.kv.putFabric f') i = kvF n.kv i
    rw [kvF_putFabric, hidx]; simp [hi]

/-- the hypotheses are satisfiable: an acknowledged label write, an acknowledged group write -/
example : ∃ (n : Node) (mode : Mode), armedFor n mode.fab = false ∧
    (sessOp {} n 0 mode (.label 0 7)).2 = .ok ∧ (sessOp {} n 0 mode (.grp 0 3)).2 = .ok :=
  ⟨{ fabrics := [{ idx := 1, gen := 1, ca := 1, fid := 1, node := 1, ser := 1, acl := [], grp := [], label := 0 }] },
   .case 1, by decide, by decide, by decide⟩

/-! ## factory reset -/

/-- **Factory reset leaves nothing behind**: without a store fault, and with every stored fabric
index in `1..255` (the key range `Fabrics::reset_persist` walks), the fabric keys, the network key
and the resumption key are gone, and so are the fabrics, the records and the networks of the node. -/
theorem factory_reset_empties (cfg : Cfg) (n : Node) (hf : n.failIn = 0)
    (hrange : ∀ f ∈ n.kv.fabs, 1 ≤ f.idx ∧ f.idx ≤ 255) :
    (step cfg n .freset).2 = .ok ∧
    (step cfg n .freset).1.kv.fabs = [] ∧ (step cfg n .freset).1.kv.nets = none ∧
    (step cfg n .freset).1.kv.resum = .absent ∧
    (step cfg n .freset).1.fabrics = [] ∧ (step cfg n .freset).1.resum = [] ∧ (step cfg n .freset).1.nets = [] := by
  have ⟨h1, _, h3, _, h5, h6, h7, _⟩ := factoryReset_mem n
  have ⟨hk, hst⟩ := factoryReset_store n hf hrange
  exact ⟨hst, hk, h6, h5, h1, h3, h7⟩

/-- a factory reset that IS hit by a store fault answers the error and still leaves nothing in
memory (no fabric, no resumption record, no network) and neither the resumption nor the network key
in the store - fabric keys may stay (from the one whose removal failed on) -/
theorem faulty_factory_reset (cfg : Cfg) (n : Node) :
    (step cfg n .freset).1.fabrics = [] ∧ (step cfg n .freset).1.resum = [] ∧ (step cfg n .freset).1.nets = [] ∧
    (step cfg n .freset).1.kv.resum = .absent ∧ (step cfg n .freset).1.kv.nets = none := by
  have ⟨h1, _, h3, _, h5, h6, h7, _⟩ := factoryReset_mem n
  exact ⟨h1, h3, h7, h5, h6⟩

example : ∃ n : Node, n.failIn = 0 ∧ (∀ f ∈ n.kv.fabs, 1 ≤ f.idx ∧ f.idx ≤ 255) ∧ n.kv.fabs ≠ [] :=
  ⟨{ kv := { fabs := [{ idx := 1, gen := 1, ca := 1, fid := 1, node := 1, ser := 1, acl := [], grp := [], label := 0 }] } },
   rfl, by decide, by decide⟩

/-! ## the committed view -/

/-- **At every operation boundary the store holds exactly the committed view**: after EVERY history
without factory reset and without partial commit - any commands, any sessions, store faults at any
write, restarts, earlier crashes - the fabric record of every index and the network list in the
store are those of `committedView`: every change that was acknowledged is there, nothing else is. -/
theorem boundary_store_is_committed (cfg : Cfg) (ops : List Op) (hno : Op.freset ∉ ops)
    (hpc : noPartialCommit cfg {} ops = true) :
    View.Same (viewOf (run cfg {} ops).kv) (committedView cfg ops) :=
  store_is_committed cfg ops hno hpc

/-- a restart from a store comes up with the view of that store -/
theorem restart_shows_view (m : Node) (kv : KV) (hist : List KV) (C : View) (h : View.Same (viewOf kv) C) :
    (∀ i, getFabric (restartFrom m kv hist) i = C.get i) ∧
    ((restartFrom m kv hist).nets, (restartFrom m kv hist).managed) = C.netsD ∧
    (restartFrom m kv hist).kv.nets = C.nets ∧
    (restartFrom m kv hist).fs = none ∧ (restartFrom m kv hist).sessions = [] := by
  have ⟨hag, h2, _, h4, h5, h6, h7⟩ := restart_reads_store m kv hist
  refine ⟨fun i => ?_, ?_, by rw [h7]; exact h.2, h4, h5⟩
  · rw [← h.1 i]
    simp only [getFabric, h2, viewOf_get, kvF]
  · rw [hag.2]
    unfold kvNets View.netsD
    rw [h7, ← h.2]
    rfl

/-- **A restart comes up with every acknowledged change and with nothing else**: after any history
(without factory reset / partial commit) the restarted node has, for every fabric index, exactly the
record of the committed view, exactly its networks, no fail-safe and no session. -/
theorem restart_comes_up_committed (cfg : Cfg) (ops : List Op) (hno : Op.freset ∉ ops)
    (hpc : noPartialCommit cfg {} ops = true) :
    (∀ i, getFabric (step cfg (run cfg {} ops) .restart).1 i = (committedView cfg ops).get i) ∧
    ((step cfg (run cfg {} ops) .restart).1.nets, (step cfg (run cfg {} ops) .restart).1.managed) =
      (committedView cfg ops).netsD ∧
    (step cfg (run cfg {} ops) .restart).1.fs = none ∧ (step cfg (run cfg {} ops) .restart).1.sessions = [] := by
  have h := boundary_store_is_committed cfg ops hno hpc
  have ⟨r1, r2, _, r4, r5⟩ := restart_shows_view (run cfg {} ops) (run cfg {} ops).kv (run cfg {} ops).hist _ h
  exact ⟨r1, r2, r4, r5⟩

/-- (decidable form of `twoWriteComplete`) the CommissioningComplete `op` issued in state `n` performs
two store mutations -/
def isTwoWriteComplete (cfg : Cfg) (n : Node) (op : Op) : Bool :=
  match op with
  | .complete s => decide ((checkTimeouts cfg n (some s)).1.hist.length + 2 ≤ (step cfg n op).1.hist.length)
  | _ => false

theorem isTwoWriteComplete_of (cfg : Cfg) (n : Node) (op : Op) (h : twoWriteComplete cfg n op) :
    isTwoWriteComplete cfg n op = true := by
  obtain ⟨s, rfl, hlen⟩ := h
  simp only [isTwoWriteComplete, decide_eq_true_eq]; exact hlen

/-- **Every crash point, in order.**  Take a history that only grows the store history (no factory
reset; no earlier crash / reset-before-start-up, which rewind it) and has no partial commit.  The
node that stops after the `k`-th store mutation and restarts comes up with the committed view of
`ops.take m`, where `m` is the LONGEST prefix all of whose store mutations are among the first `k`
(`muts m ≤ k < muts (m+1)`): every change acknowledged before that point is there, nothing of a
change that was not.  Excluded are only the crash points strictly inside a CommissioningComplete that
performs two store mutations (`k ≠ muts m` and operation `m` is such a one). -/
theorem crash_comes_up_committed (cfg : Cfg) (ops : List Op) (hg : growOnly ops)
    (hpc : noPartialCommit cfg {} ops = true) (m k : Nat) (hm : m ≤ ops.length)
    (hlo : muts cfg ops m ≤ k) (hhi : m < ops.length → k < muts cfg ops (m + 1))
    (hmid : k = muts cfg ops m ∨ ∀ op, ops[m]? = some op → isTwoWriteComplete cfg (run cfg {} (ops.take m)) op = false) :
    (∀ i, getFabric (step cfg (run cfg {} ops) (.crash k)).1 i = (committedView cfg (ops.take m)).get i) ∧
    ((step cfg (run cfg {} ops) (.crash k)).1.nets, (step cfg (run cfg {} ops) (.crash k)).1.managed) =
      (committedView cfg (ops.take m)).netsD ∧
    (step cfg (run cfg {} ops) (.crash k)).1.fs = none ∧ (step cfg (run cfg {} ops) (.crash k)).1.sessions = [] := by
  have hpos := positional cfg ops hg m k hm hlo hhi (by
    rcases hmid with h | h
    · exact Or.inl h
    · exact Or.inr (fun op hop htw => by
        have := h op hop
        rw [isTwoWriteComplete_of cfg _ op htw] at this
        exact absurd this (by simp)))
  -- the boundary after `m` operations holds the committed view of that prefix
  have hsplit : ops = ops.take m ++ ops.drop m := (List.take_append_drop m ops).symm
  have hno : Op.freset ∉ ops.take m := fun hmem => (hg _ (List.mem_of_mem_take hmem)).2 rfl
  have hpc' : noPartialCommit cfg {} (ops.take m) = true := by
    rw [hsplit, noPartialCommit_append, Bool.and_eq_true] at hpc
    exact hpc.1
  have hC := boundary_store_is_committed cfg (ops.take m) hno hpc'
  have hview : View.Same (viewOf (histAt (run cfg {} ops).hist k)) (committedView cfg (ops.take m)) :=
    (viewOf_same.mp hpos).trans hC
  have hstep : (step cfg (run cfg {} ops) (.crash k)).1 =
      restartFrom (run cfg {} ops) (histAt (run cfg {} ops).hist k)
        ((run cfg {} ops).hist.drop ((run cfg {} ops).hist.length - min k (run cfg {} ops).hist.length)) := rfl
  rw [hstep]
  have ⟨r1, r2, _, r4, r5⟩ := restart_shows_view (run cfg {} ops) (histAt (run cfg {} ops).hist k)
    ((run cfg {} ops).hist.drop ((run cfg {} ops).hist.length - min k (run cfg {} ops).hist.length)) _ hview
  exact ⟨r1, r2, r4, r5⟩

/-! ### the theorems at work, and what they exclude -/

/-- a history with two successful commissionings: commissioning of fabric 1 (networks `[3]`), an
acknowledged ACL write, a label write that hits a store fault (answered with an error), an
acknowledged group write, a second commissioning (fabric 2), RemoveFabric of fabric 1 -/
def demoOps : List Op :=
  [.boot, .pase, .arm 0 60, .net 0 3, .csr 0 false, .root 0 2, .addnoc 0 2 2 10 100 1, .caseEst 1 100 1,
   .complete 1, .acl 1 200, .kvfail 1, .label 1 7, .grp 1 5,
   .openW 1, .pase, .arm 2 60, .csr 2 false, .root 2 1, .addnoc 2 1 6 11 101 2, .caseEst 2 101 2, .complete 3,
   .rmfab 3 1]

/-- the hypotheses hold for it, it contains acknowledged CommissioningCompletes, and its committed
view is: fabric 1 removed, fabric 2 committed, the networks of the first commissioning -/
example :
    growOnly demoOps ∧ noPartialCommit {} {} demoOps = true ∧
    ((committedView {} demoOps).fabs.map (fun f => (f.idx, f.node, f.acl, f.grp, f.label))) = [(2, 11, [101], [], 0)] ∧
    (committedView {} demoOps).nets = some ([3], true) ∧
    -- after 12 operations: the ACL write is committed, the label write that was answered with an error is not
    ((committedView {} (demoOps.take 12)).fabs.map (fun f => (f.idx, f.acl, f.grp, f.label))) = [(1, [100, 200], [], 0)] ∧
    -- after 13: the acknowledged group write commits the record the node holds (see `dirty_write_is_flushed`)
    ((committedView {} (demoOps.take 13)).fabs.map (fun f => (f.idx, f.acl, f.grp, f.label))) = [(1, [100, 200], [5], 7)] := by
  refine ⟨by decide, by decide, by decide, by decide, by decide, by decide⟩

/-- crash points of `demoOps`: the store mutations are counted per prefix (`muts`); the ACL write of
operation 10 is the third mutation, operations 11 (`kvfail`) and 12 (the label write that fails) make
none: stopping after mutation 3 the node comes up with the committed view of the first 12 operations
(= that of the first 10), whatever was acknowledged later is not there -/
example :
    muts {} demoOps 9 = 2 ∧ muts {} demoOps 10 = 3 ∧ muts {} demoOps 11 = 3 ∧ muts {} demoOps 12 = 3 ∧
    muts {} demoOps 13 = 4 ∧
    (∀ i, getFabric (step {} (run {} {} demoOps) (.crash 3)).1 i = (committedView {} (demoOps.take 12)).get i) := by
  refine ⟨by decide, by decide, by decide, by decide, by decide, ?_⟩
  exact (crash_comes_up_committed {} demoOps (by decide) (by decide) 12 3 (by decide) (by decide)
    (fun _ => by decide) (Or.inl (by decide))).1

/-- **Excluded, 1: the partial commit** (what is left of the open finding `C11-complete-store-failure`):
fabric 1 is committed with node id 10; under a new fail-safe UpdateNOC stages node id 11; the SECOND
write of CommissioningComplete fails, the command is answered with an error - the committed view
still says 10 - but the store holds the record with 11 and a restart comes up with it -/
def partialOps : List Op :=
  [.boot, .pase, .arm 0 60, .csr 0 false, .root 0 2, .addnoc 0 2 2 10 100 1,
   .caseEst 1 101 1, .complete 1, .arm 1 60, .net 1 3, .csr 1 true, .updnoc 1 11 2, .kvfail 2, .complete 1]

theorem partial_commit_witness :
    noPartialCommit {} {} partialOps = false ∧
    (step {} (run {} {} partialOps.dropLast) (.complete 1)).2 = .err "NoSpace" ∧
    ((committedView {} partialOps).fabs.map (·.node)) = [10] ∧
    ((step {} (run {} {} partialOps) .restart).1.fabrics.map (·.node)) = [11] := by
  refine ⟨by decide, by decide, by decide, by decide⟩

/-- **Inside, since the repair 2021931**: the same failure for a fabric ADDED under the fail-safe (the
example of the audit: `… kvfail 2, complete 1 ⇒ NoSpace, restart`): no partial commit, the committed
view has no fabric, and the restarted node has none -/
example :
    let ops : List Op := [.boot, .pase, .arm 0 60, .net 0 3, .csr 0 false, .root 0 2, .addnoc 0 2 2 10 100 1,
      .caseEst 1 101 1, .kvfail 2, .complete 1]
    growOnly ops ∧ noPartialCommit {} {} ops = true ∧ (committedView {} ops).fabs = [] ∧
    (step {} (run {} {} ops) .restart).1.fabrics = [] ∧ (run {} {} ops).hist.length = 2 := by
  refine ⟨by decide, by decide, by decide, by decide, by decide⟩

/-- **What the committed record is**: the record the node holds when it acknowledges.  An ACL write
that hits a store fault is answered with an error and is not committed (a restart right then does
not show 201) - but it stays in the node's record, and the next acknowledged write of the fabric
stores and commits the record with it. -/
theorem dirty_write_is_flushed :
    let ops : List Op := [.boot, .pase, .arm 0 60, .csr 0 false, .root 0 2, .addnoc 0 2 2 10 100 1,
      .caseEst 1 100 1, .complete 1, .kvfail 1, .acl 1 201]
    (step {} (run {} {} ops.dropLast) (.acl 1 201)).2 = .err "NoSpace" ∧
    ((committedView {} ops).fabs.map (·.acl)) = [[100]] ∧
    ((committedView {} (ops ++ [.acl 1 202])).fabs.map (·.acl)) = [[100, 201, 202]] := by
  refine ⟨by decide, by decide, by decide⟩

/-! ## every crash point of ANY history (set-level: earlier crashes / resets inside) -/

/-- the store at an operation boundary of the history -/
def Boundary (cfg : Cfg) (all : List Op) (kv : KV) : Prop :=
  ∃ pre, pre <+: all ∧ KV.Same kv (run cfg {} pre).kv

/-- the `complete s` issued in state `n` performs two store mutations: the fabric record and the
networks, or - when the networks cannot be stored - the record of a fabric added under the fail-safe
and its removal -/
def twoWrites (cfg : Cfg) (n : Node) (s : Nat) : Bool :=
  decide ((checkTimeouts cfg n (some s)).1.hist.length + 2 ≤ (step cfg n (.complete s)).1.hist.length)

/-- the store between the two writes of a CommissioningComplete of the history: the store at the
boundary before it with the record written that the node holds for the fabric of the completing session -/
def MidCommit (cfg : Cfg) (all : List Op) (kv : KV) : Prop :=
  ∃ pre s f, (pre ++ [.complete s]) <+: all ∧ KV.Same kv ((run cfg {} pre).kv.putFabric f) ∧
    (∃ mode, cmdMode cfg (run cfg {} pre) s = some mode ∧ getFabric (proOf cfg (run cfg {} pre) s) mode.fab = some f) ∧
    twoWrites cfg (run cfg {} pre) s = true

theorem crash_aux (cfg : Cfg) (all : List Op) (hno : Op.freset ∉ all) :
    ∀ (rest pre : List Op), pre ++ rest = all →
      (∀ kv ∈ (run cfg {} pre).hist, Boundary cfg all kv ∨ MidCommit cfg all kv) →
      ∀ kv ∈ (run cfg {} all).hist, Boundary cfg all kv ∨ MidCommit cfg all kv := by
  intro rest
  induction rest with
  | nil => intro pre hp h; rw [List.append_nil] at hp; subst hp; exact h
  | cons op r ih =>
    intro pre hp h
    have hp' : (pre ++ [op]) ++ r = all := by rw [← hp]; simp
    have hop : op ≠ .freset := by
      intro he
      apply hno
      rw [← hp, he]
      simp
    refine ih (pre ++ [op]) hp' ?_
    intro kv hk
    have hrun : run cfg {} (pre ++ [op]) = (step cfg (run cfg {} pre) op).1 := by
      rw [run_append]; rfl
    rw [hrun] at hk
    have hpre : pre <+: all := ⟨op :: r, hp⟩
    have hpre' : (pre ++ [op]) <+: all := ⟨r, hp'⟩
    rcases step_snaps cfg (run cfg {} pre) op hop kv hk with h1 | h1 | h1 | ⟨s, hs, ⟨f, s1, hg1, hgf, h1⟩, hlen⟩
    · exact h kv h1
    · exact Or.inl ⟨pre, hpre, h1⟩
    · exact Or.inl ⟨pre ++ [op], hpre', by rw [hrun]; exact h1⟩
    · subst hs
      exact Or.inr ⟨pre, s, f, hpre', h1, ⟨s1.mode, by unfold cmdMode proOf; rw [hg1]; rfl, hgf⟩, by simp [twoWrites, hlen]⟩

/-- **Every crash point.**  For every history without factory reset - any commands, any sessions,
store faults at any write, restarts and earlier crashes included - every element of the store
history (= every state of the store a crash can leave behind) equals, on the fabric records and the
networks, the store at an operation boundary of the history, or is the state between the two writes
of a CommissioningComplete. -/
theorem crash_prefix_or_mid_commit (cfg : Cfg) (ops : List Op) (hno : Op.freset ∉ ops) :
    ∀ kv ∈ (run cfg {} ops).hist, Boundary cfg ops kv ∨ MidCommit cfg ops kv :=
  crash_aux cfg ops hno ops [] rfl (fun kv hk => by cases hk)

/-- a restart from a boundary store comes up with exactly the fabrics and networks the node had
stored at that boundary -/
theorem restart_from_boundary (cfg : Cfg) (ops : List Op) (n : Node) (kv : KV) (hist : List KV)
    (hb : Boundary cfg ops kv) :
    ∃ pre, pre <+: ops ∧ (∀ i, getFabric (restartFrom n kv hist) i = kvF (run cfg {} pre).kv i) ∧
      (restartFrom n kv hist).kv.nets = (run cfg {} pre).kv.nets := by
  obtain ⟨pre, hp, hs⟩ := hb
  have ⟨_, h2, _, _, _, _, h7⟩ := restart_reads_store n kv hist
  refine ⟨pre, hp, fun i => ?_, by rw [h7]; exact hs.2⟩
  rw [← hs.1 i]
  simp only [getFabric, h2, kvF]

/-- ... so every crash point of ANY history without factory reset / partial commit - also one with
earlier crashes, reset-before-start-up, recovery resets inside - holds the committed view of SOME
prefix of the history, or is the state between the two store mutations of a CommissioningComplete -/
theorem crash_store_is_some_committed_view (cfg : Cfg) (ops : List Op) (hno : Op.freset ∉ ops)
    (hpc : noPartialCommit cfg {} ops = true) :
    ∀ kv ∈ (run cfg {} ops).hist,
      (∃ pre, pre <+: ops ∧ View.Same (viewOf kv) (committedView cfg pre)) ∨ MidCommit cfg ops kv := by
  intro kv hk
  rcases crash_prefix_or_mid_commit cfg ops hno kv hk with ⟨pre, hp, hs⟩ | h
  · left
    refine ⟨pre, hp, (viewOf_same.mp hs).trans ?_⟩
    obtain ⟨rest, hr⟩ := hp
    have hno' : Op.freset ∉ pre := fun hm => hno (by rw [← hr]; exact List.mem_append_left _ hm)
    have hpc' : noPartialCommit cfg {} pre = true := by
      rw [← hr, noPartialCommit_append, Bool.and_eq_true] at hpc
      exact hpc.1
    exact boundary_store_is_committed cfg pre hno' hpc'
  · exact Or.inr h

/-- all prefixes of a list -/
def prefixes : List Op → List (List Op)
  | [] => [[]]
  | x :: xs => [] :: (prefixes xs).map (x :: ·)

theorem mem_prefixes : ∀ (l p : List Op), p <+: l → p ∈ prefixes l := by
  intro l
  induction l with
  | nil =>
    intro p hp
    have : p = [] := List.prefix_nil.mp hp
    subst this; simp [prefixes]
  | cons x xs ih =>
    intro p hp
    cases p with
    | nil => simp [prefixes]
    | cons y ys =>
      have ⟨hxy, hys⟩ := List.cons_prefix_cons.mp hp
      subst hxy
      simp only [prefixes, List.mem_cons, List.mem_map]
      exact Or.inr ⟨ys, ih ys hys, rfl⟩

/-- the full statement: EVERY crash point comes up with the committed view of the longest prefix
whose store mutations precede it - without the exclusion of the points inside a
CommissioningComplete.  FALSE of the code: CommissioningComplete performs two store mutations (open
finding `C11-complete-crash-between-writes`). -/
def C11_full_crash_committed : Prop :=
  ∀ (cfg : Cfg) (ops : List Op), growOnly ops → noPartialCommit cfg {} ops = true →
    ∀ m k, m ≤ ops.length → muts cfg ops m ≤ k → (m < ops.length → k < muts cfg ops (m + 1)) →
      View.Same (viewOf (histAt (run cfg {} ops).hist k)) (committedView cfg (ops.take m))

/-- the replay of the finding: `… net 0 3 … complete 1` and the store after its first write -/
def witnessOps : List Op :=
  [.boot, .pase, .arm 0 60, .net 0 3, .csr 0 false, .root 0 2, .addnoc 0 2 2 10 100 1, .caseEst 1 101 1, .complete 1]

theorem C11_full_crash_committed_false : ¬ C11_full_crash_committed := by
  intro h
  -- 8 operations without a store mutation, then CommissioningComplete with two: the crash point 1
  have := h {} witnessOps (by decide) (by decide) 8 1 (by decide) (by decide) (fun _ => by decide)
  have h1 := this.1 1
  revert h1
  decide

/-- the weaker, older form of the full statement ("every crash store is SOME boundary store") is
refuted by the same witness -/
def C11_full_crash_prefix : Prop :=
  ∀ (cfg : Cfg) (ops : List Op), Op.freset ∉ ops → ∀ kv ∈ (run cfg {} ops).hist, Boundary cfg ops kv

def witnessKv : KV :=
  match (run {} {} witnessOps).hist with
  | _ :: kv :: _ => kv
  | _ => {}

theorem C11_full_crash_prefix_false : ¬ C11_full_crash_prefix := by
  intro h
  have hmem : witnessKv ∈ (run {} {} witnessOps).hist := by decide
  obtain ⟨pre, hp, hs⟩ := h {} witnessOps (by decide) witnessKv hmem
  have hin : pre ∈ prefixes witnessOps := mem_prefixes witnessOps pre hp
  have key : ∀ p ∈ prefixes witnessOps,
      ¬ ((kvF witnessKv 1).isSome = (kvF (run {} {} p).kv 1).isSome ∧ witnessKv.nets = (run {} {} p).kv.nets) := by
    decide
  exact key pre hin ⟨by rw [hs.1 1], hs.2⟩

/-- the crash points of the witness that are NOT inside the CommissioningComplete are covered: it is
a history with an acknowledged commissioning that satisfies the hypotheses of `crash_comes_up_committed` -/
example : growOnly witnessOps ∧ noPartialCommit {} {} witnessOps = true ∧
    (step {} (run {} {} witnessOps.dropLast) (.complete 1)).2 = .ok ∧
    muts {} witnessOps 8 = 0 ∧ muts {} witnessOps 9 = 2 ∧
    isTwoWriteComplete {} (run {} {} (witnessOps.take 8)) (.complete 1) = true := by
  refine ⟨by decide, by decide, by decide, by decide, by decide, by decide⟩

/-! ## a CommissioningComplete that is answered with an error -/

/-- **Nothing of an unacknowledged commissioning of a NEW fabric** (the repaired half of
`C11-complete-store-failure`): when a CommissioningComplete for a fabric added under the fail-safe is
answered with an error - whichever of its two writes failed - a restart from the store it leaves
behind comes up with exactly the fabrics and networks that were stored before the command. (When
the networks cannot be stored, the fabric record just written is removed again; the store between
these two mutations is a `MidCommit` crash point as before.) -/
theorem failed_complete_added_fabric_restart (cfg : Cfg) (n m : Node) (sid s : Nat) (mode : Mode) (a : Armed)
    (hfs : n.fs = some a) (hadd : a.flags.addNoc = true) (hnone : kvF n.kv mode.fab = none)
    (hfail : (sessOp cfg n sid mode (.complete s)).2 ≠ .ok) (hist : List KV) :
    (∀ i, getFabric (restartFrom m (sessOp cfg n sid mode (.complete s)).1.kv hist) i = kvF n.kv i) ∧
    (restartFrom m (sessOp cfg n sid mode (.complete s)).1.kv hist).kv.nets = n.kv.nets := by
  have hs := failed_complete_of_added_fabric_undone cfg n sid s mode a hfs hadd hnone hfail
  have ⟨_, h2, _, _, _, _, h7⟩ := restart_reads_store m (sessOp cfg n sid mode (.complete s)).1.kv hist
  refine ⟨fun i => ?_, by rw [h7]; exact hs.2⟩
  rw [← hs.1 i]
  simp only [getFabric, h2, kvF]

/-- the replay of the repaired finding: `… net 0 3 … kvfail 2, complete 1 ⇒ NoSpace` (two store
mutations: the fabric record and its removal), `restart` ⇒ no fabric, no networks -/
example :
    let ops : List Op := [.boot, .pase, .arm 0 60, .net 0 3, .csr 0 false, .root 0 2, .addnoc 0 2 2 10 100 1,
      .caseEst 1 101 1, .kvfail 2, .complete 1, .restart]
    Op.freset ∉ ops ∧ (run {} {} ops).hist.length = 2 ∧ (run {} {} ops).fabrics = [] ∧ (run {} {} ops).nets = [] := by
  refine ⟨by decide, by decide, by decide, by decide⟩

/-- what is left of `C11-complete-store-failure` (open): the fabric EXISTED before (UpdateNOC under
the fail-safe): the second write fails, the command answers an error, but the store holds the new
record - the old one is overwritten and cannot be put back - and a restart comes up with the
identity of the unacknowledged update -/
example :
    let ops : List Op := [.boot, .pase, .arm 0 60, .csr 0 false, .root 0 2, .addnoc 0 2 2 10 100 1,
      .caseEst 1 101 1, .complete 1, .arm 1 60, .net 1 3, .csr 1 true, .updnoc 1 11 2, .kvfail 2, .complete 1]
    (step {} (run {} {} ops.dropLast) (.complete 1)).2 = .err "NoSpace" ∧
    ((run {} {} (ops ++ [.restart])).fabrics.map (·.node)) = [11] ∧
    ((run {} {} ops.dropLast).kv.fabs.map (·.node)) = [10] := by
  refine ⟨by decide, by decide, by decide⟩

end C11
