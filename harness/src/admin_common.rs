//! Shared state-level harness for C07 / C08 / C11 (one administrative state machine).
//!
//! The REAL `FailSafe`, `Fabrics`, `Sessions`, `ResumableSessions`, `Pase`, `WifiNetworks`,
//! `FabricPersist`, `Matter::startup`, `Matter::factory_reset` are driven directly (through the
//! `verif` hook `MatterState::verif_parts`), with real certificates made by `cert::gen` and a
//! recording / fault-injecting in-memory `KvBlobStore`.  What the cluster handlers do *around* these
//! calls (the glue: which session context, which order of state change / store / reply) is mirrored
//! here op by op, with the source location next to each mirror.  After every op the complete
//! canonical administrative state is dumped; the Lean model (`Model/Admin.lean`) must print the same.
//!
//! Line protocol of one case (`case <id> adm mf=.. ms=.. mr=.. ma=..`):
//!   boot                         open the initial (device-opened) basic commissioning window
//!   pase                         a PASE session gets established (needs an open window)
//!   cest <fab> <node> <rid>      a CASE session of peer <node> on fabric index <fab>; resumption id <rid>
//!   resume <rid> <newrid>        CASE resumption with the record <rid>
//!   open <s>                     OpenBasicCommissioningWindow over session <s>
//!   arm <s> <secs>               ArmFailSafe
//!   csr <s> <0|1>                CSRRequest (isForUpdateNOC)
//!   root <s> <ca>                AddTrustedRootCertificate with the root of CA <ca>
//!   addnoc <s> <ca> <fid> <node> <subj> <serial>
//!   updnoc <s> <node> <serial>
//!   acl <s> <subj> | grp <s> <gid> | label <s> <n>      fabric-scoped writes over session <s>
//!   net <s> <n> | rmnet <s> <n>  AddOrUpdateWiFiNetwork / RemoveNetwork
//!   complete <s>                 CommissioningComplete
//!   rmfab <s> <idx>              RemoveFabric
//!   revoke <s>                   RevokeCommissioning
//!   bcw <s> <n>                  write of the Breadcrumb attribute
//!   gkm <s> <gid>                write of the GroupKeyMap attribute (fabric-scoped, content not modelled)
//!   tick <secs>                  virtual time passes
//!   poll                         the 1-second timeout poll of the interaction model runs once
//!   flush                        the background task persists the resumption cache
//!   restart                      the node restarts from its key-value store
//!   crash <n>                    the node restarts from the store as it was after the n-th mutation
//!   kvfail <n>                   the n-th next store/remove call fails
//!   freset                       factory reset
//!   fresetk <k>                  factory reset during which the k-th store call OF THE RESET fails (k = 1..255 the fabric
//!                                keys, 256 basic info, 257 / 258 the two RTC keys, 259 the CASE resumption cache, 260 the
//!                                group data counter, 261 the networks; 0 or more: no fault). A pending `kvfail` is dropped
//!   corrupt <hexbyte>            the persisted resumption blob is overwritten with garbage, then restart
//!   hs <fab> <node> <rid>        CASE handshake up to Sigma3: a RESERVED session with the CASE mode (real `ReservedSession`)
//!   hsdone <s>                   its last message is acknowledged: the guard is dropped
//!   rt <kind> <seed>             TLV round trip (store, load, store) of a persisted structure: fab | nets | res | binfo
//!   coldreset                    restart, `factory_reset` BEFORE `startup`, start-up
//!   fabrecover <i>               fabric blob <i> damaged, restart (start-up fails), factory reset, restart
use std::cell::RefCell;
use std::collections::{BTreeMap, HashMap};
use std::num::NonZeroU8;
use std::rc::Rc;

use embassy_time::{Duration, MockDriver};

use rs_matter::acl::{AclEntry, AuthMode};
use rs_matter::cert::gen::{CertGenerator, CertType, IssuerDN, SubjectDN, Validity};
use rs_matter::cert::MAX_CERT_TLV_AND_ASN1_LEN;
use rs_matter::crypto::{
    test_only_crypto, CanonPkcPublicKey, CanonPkcSecretKey, Crypto, PublicKey, SecretKey,
    SigningSecretKey,
};
use rs_matter::dm::clusters::net_comm::{Networks, NetworksAccess, SharedNetworks, WirelessCreds};
use rs_matter::dm::devices::test::{TEST_DEV_ATT, TEST_DEV_COMM, TEST_DEV_DET};
use rs_matter::dm::networks::wireless::WifiNetworks;
use rs_matter::dm::Privilege;
use rs_matter::error::{Error, ErrorCode};
use rs_matter::fabric::{FabricPersist, Fabrics, MAX_FABRICS};
use rs_matter::persist::{
    KvBlobStore, KvBlobStoreAccess, CASE_RESUMPTION_KEY, FABRIC_KEYS_START, NETWORKS_KEY,
};
use rs_matter::sc::case::{ResumableSession, ResumableSessions, MAX_RESUMPTION_RECORDS};
use rs_matter::transport::network::Address;
use rs_matter::transport::session::{NocCatIds, ReservedSession, SessionMode, MAX_SESSIONS};
use rs_matter::Matter;

use crate::proto::{Case, Out};

// ------------------------------------------------------------------------------------------------
// recording / fault-injecting store

#[derive(Default)]
pub struct KvInner {
    pub map: BTreeMap<u16, Vec<u8>>,
    /// 0 = no fault armed; n = the n-th next store/remove call fails
    pub fail_in: u32,
    /// every effective mutation of the case, in order (crash points)
    pub log: Vec<(u16, Option<Vec<u8>>)>,
    pub failed_calls: u64,
    /// the key the last injected fault hit (statistics of `fresetk`)
    pub last_fault_key: Option<u16>,
    /// handler-level path: keys other than the fabric / networks / resumption keys (event epoch,
    /// basic info, ...) are stored but neither logged nor hit by injected faults
    pub h_mode: bool,
}

pub fn tracked_key(key: u16) -> bool {
    (key >= FABRIC_KEYS_START + 1 && key <= FABRIC_KEYS_START + 255) || key == NETWORKS_KEY || key == CASE_RESUMPTION_KEY
}

impl KvInner {
    /// the error an injected fault answers with. Handler-level path: NOT `NoSpace` - the Interaction Model
    /// takes a `NoSpace` that comes out of a cluster handler for "the response does not fit the TX buffer" and
    /// ends the interaction without any answer (the op then runs into the controller's receive time-out and the
    /// case is truncated); a file-backed store fails with `StdIoError`, which is answered with a status.
    fn fault_code(&self) -> ErrorCode {
        if self.h_mode {
            ErrorCode::StdIoError
        } else {
            ErrorCode::NoSpace
        }
    }

    fn fault(&mut self) -> bool {
        if self.fail_in > 0 {
            self.fail_in -= 1;
            if self.fail_in == 0 {
                self.failed_calls += 1;
                return true;
            }
        }
        false
    }
}

#[derive(Clone, Default)]
pub struct Kv(pub Rc<RefCell<KvInner>>);

impl KvBlobStore for Kv {
    fn load<'a>(&mut self, key: u16, buf: &'a mut [u8]) -> Result<Option<&'a [u8]>, Error> {
        let i = self.0.borrow();
        match i.map.get(&key) {
            None => Ok(None),
            Some(v) => {
                if v.len() > buf.len() {
                    return Err(ErrorCode::NoSpace.into());
                }
                buf[..v.len()].copy_from_slice(v);
                Ok(Some(&buf[..v.len()]))
            }
        }
    }

    fn store(&mut self, key: u16, data: &[u8], _buf: &mut [u8]) -> Result<(), Error> {
        let mut i = self.0.borrow_mut();
        if i.h_mode && !tracked_key(key) {
            i.map.insert(key, data.to_vec());
            return Ok(());
        }
        if i.fault() {
            i.last_fault_key = Some(key);
            return Err(i.fault_code().into());
        }
        i.map.insert(key, data.to_vec());
        i.log.push((key, Some(data.to_vec())));
        Ok(())
    }

    fn remove(&mut self, key: u16, _buf: &mut [u8]) -> Result<(), Error> {
        let mut i = self.0.borrow_mut();
        if i.h_mode && !tracked_key(key) {
            i.map.remove(&key);
            return Ok(());
        }
        if i.fault() {
            i.last_fault_key = Some(key);
            return Err(i.fault_code().into());
        }
        if i.map.remove(&key).is_some() {
            i.log.push((key, None));
        }
        Ok(())
    }
}

// ------------------------------------------------------------------------------------------------
// certificate authorities (three roots, made once per process)

pub struct Ca {
    key: CanonPkcSecretKey,
    pubkey: CanonPkcPublicKey,
    rcac: Vec<u8>,
}

impl Ca {
    pub fn rcac(&self) -> &[u8] {
        &self.rcac
    }
}

const VALIDITY: Validity = Validity { not_before: 1, not_after: 0 };

fn make_ca<C: Crypto>(crypto: &C, id: u64) -> Ca {
    let sk = crypto.generate_secret_key().unwrap();
    let mut pubkey = CanonPkcPublicKey::new();
    sk.pub_key().unwrap().write_canon(&mut pubkey).unwrap();
    let mut key = CanonPkcSecretKey::new();
    sk.write_canon(&mut key).unwrap();
    let mut buf = [0u8; MAX_CERT_TLV_AND_ASN1_LEN];
    let len = CertGenerator::new(&mut buf)
        .generate(
            crypto,
            CertType::Rcac,
            &[id as u8],
            VALIDITY,
            SubjectDN::verif_new(None, None, &[], Some(id)),
            IssuerDN::verif_new(None, None, false),
            pubkey.reference(),
            None,
            &sk,
        )
        .unwrap();
    Ca { key, pubkey, rcac: buf[..len].to_vec() }
}

pub fn make_noc_for<C: Crypto>(crypto: &C, ca: &Ca, ca_id: u64, fid: u64, node: u64, serial: u64, subject: &CanonPkcPublicKey) -> Vec<u8> {
    let sk = crypto.secret_key(ca.key.reference()).unwrap();
    let mut buf = [0u8; MAX_CERT_TLV_AND_ASN1_LEN];
    let ser = [0x40 | ((serial >> 8) as u8 & 0x3f), serial as u8];
    let len = CertGenerator::new(&mut buf)
        .generate(
            crypto,
            CertType::Noc,
            &ser,
            VALIDITY,
            SubjectDN::verif_new(Some(node), Some(fid), &[], None),
            IssuerDN::verif_new(Some(ca_id), None, true),
            subject.reference(),
            Some(ca.pubkey.reference()),
            &sk,
        )
        .unwrap();
    buf[..len].to_vec()
}

// ------------------------------------------------------------------------------------------------
// the node under test

type Nets = SharedNetworks<WifiNetworks<4>>;

pub struct World {
    /// live `ReservedSession` guards (CASE handshakes in their last leg), by session id. They borrow
    /// `matter` (lifetime extended, see `matter_ref`): declared first so that they are dropped first.
    pending: Vec<(u32, ReservedSession<'static>)>,
    matter: Box<Matter<'static>>,
    nets: Box<Nets>,
    kv: Kv,
    cas: Rc<Vec<Ca>>,
    /// ghost: certificate bytes -> the id it was issued under (so that dumps are canonical)
    noc_serial: HashMap<Vec<u8>, u64>,
}

fn new_matter() -> Box<Matter<'static>> {
    Box::new(Matter::new(&TEST_DEV_DET, TEST_DEV_COMM, &TEST_DEV_ATT, 5540))
}

fn code(e: &Error) -> String {
    format!("{:?}", e.code())
}

fn st<T>(r: Result<T, Error>) -> String {
    match r {
        Ok(_) => "ok".into(),
        Err(e) => code(&e),
    }
}

fn nz(x: u8) -> Option<NonZeroU8> {
    NonZeroU8::new(x)
}

pub fn rid16(rid: u64) -> [u8; 16] {
    let mut b = [0u8; 16];
    b[..8].copy_from_slice(&rid.to_le_bytes());
    b[15] = 0xa5;
    b
}

fn rid_of(b: &[u8; 16]) -> u64 {
    let mut x = [0u8; 8];
    x.copy_from_slice(&b[..8]);
    u64::from_le_bytes(x)
}

fn ssid(n: u64) -> Vec<u8> {
    format!("net{}", n).into_bytes()
}

// ------------------------------------------------------------------------------------------------
// canonical state

fn canon_fabrics(cas: &[Ca], noc_serial: &HashMap<Vec<u8>, u64>, fabrics: &Fabrics) -> String {
        let mut v: Vec<(u8, String)> = Vec::new();
        for f in fabrics.iter() {
            let ca = cas.iter().position(|c| c.rcac == f.root_ca()).map(|i| i as i64 + 1).unwrap_or(-1);
            let ser = noc_serial.get(f.noc()).copied().map(|x| x as i64).unwrap_or(-1);
            let acl: Vec<String> = f
                .acl_iter()
                .map(|e| {
                    let subs: Vec<String> = match e.subjects().into_option() {
                        Some(s) => s.iter().map(|x| x.to_string()).collect(),
                        None => vec![],
                    };
                    subs.join("+")
                })
                .collect();
            let mut grp: Vec<u16> = f.groups().iter().map(|g| g.group_id).collect();
            grp.sort();
            let grp: Vec<String> = grp.iter().map(|g| g.to_string()).collect();
            v.push((
                f.fab_idx().get(),
                format!(
                    "{}:{}.{}.{}.{}.a={}.g={}.l={}",
                    f.fab_idx().get(),
                    ca,
                    f.fabric_id(),
                    f.node_id(),
                    ser,
                    if acl.is_empty() { "-".to_string() } else { acl.join(",") },
                    if grp.is_empty() { "-".to_string() } else { grp.join(",") },
                    if f.label().is_empty() { "-" } else { f.label() }
                ),
            ));
        }
        v.sort();
        let s: Vec<String> = v.into_iter().map(|x| x.1).collect();
        s.join(";")
    }

fn canon_resum(r: &ResumableSessions) -> String {
        let v: Vec<String> = r.iter().map(|x| format!("{}.{}.{}", x.fab_idx.get(), x.peer_nodeid, rid_of(&x.verif_rid()))).collect();
        v.join(";")
    }

pub fn canon_nets(n: &mut dyn Networks) -> String {
        let mut v: Vec<String> = Vec::new();
        let _ = n.networks(&mut |id| {
            v.push(String::from_utf8_lossy(id).trim_start_matches("net").to_string());
            Ok(())
        });
        format!("{}:{}", if v.is_empty() { "-".to_string() } else { v.join(",") }, if n.managed().unwrap_or(false) { 1 } else { 0 })
    }

/// what a restart would load: fabrics, networks, resumption records decoded from the store
fn canon_kv(kvh: &Kv, cas: &[Ca], noc_serial: &HashMap<Vec<u8>, u64>) -> String {
        let mut store = kvh.clone();
        let mut buf = vec![0u8; 8192];
        let mut fabrics = Fabrics::new();
        let fs = match fabrics.load_persist(&mut store, &mut buf) {
            Ok(()) => canon_fabrics(cas, noc_serial, &fabrics),
            Err(e) => format!("ERR{}", code(&e)),
        };
        let mut nets: WifiNetworks<4> = WifiNetworks::new();
        let ns = match store.load(NETWORKS_KEY, &mut buf) {
            Ok(Some(data)) => {
                let data = data.to_vec();
                match Networks::load(&mut nets, &data) {
                    Ok(()) => canon_nets(&mut nets),
                    Err(e) => format!("ERR{}", code(&e)),
                }
            }
            Ok(None) => "none".into(),
            Err(e) => format!("ERR{}", code(&e)),
        };
        let rs = if kvh.0.borrow().map.contains_key(&CASE_RESUMPTION_KEY) {
            // decode on a copy so that the soft-fail path (which removes the blob) does not touch the real store
            let mut copy = Kv::default();
            copy.0.borrow_mut().map = kvh.0.borrow().map.clone();
            let mut r = ResumableSessions::new();
            match r.load_persist(&mut copy, &mut buf) {
                Ok(()) => {
                    if copy.0.borrow().map.contains_key(&CASE_RESUMPTION_KEY) {
                        format!("[{}]", canon_resum(&r))
                    } else {
                        "bad".into()
                    }
                }
                Err(e) => format!("ERR{}", code(&e)),
            }
        } else {
            "none".into()
        };
        let other: Vec<String> = kvh
            .0
            .borrow()
            .map
            .keys()
            .filter(|k| !tracked_key(**k) && !kvh.0.borrow().h_mode)
            .map(|k| k.to_string())
            .collect();
        format!("F[{}] N[{}] R{} O[{}]", fs, ns, rs, other.join(","))
    }

/// the complete canonical administrative state of a node (shared by both paths)
pub fn canon_state(matter: &Matter<'_>, nets: &str, kvh: &Kv, cas: &[Ca], noc_serial: &HashMap<Vec<u8>, u64>) -> String {
        let mem = matter.with_state(|state| {
            let p = state.verif_parts();
            let fs = canon_fabrics(cas, noc_serial, p.fabrics);
            let mut ss: Vec<(u32, String)> = p
                .sessions
                .iter()
                .map(|s| {
                    let m = match s.get_session_mode() {
                        SessionMode::Case { fab_idx, .. } => format!("c{}", fab_idx.get()),
                        SessionMode::Pase { fab_idx } => format!("p{}", fab_idx),
                        SessionMode::Group { fab_idx, .. } => format!("g{}", fab_idx.get()),
                        SessionMode::PlainText => "t0".into(),
                    };
                    (s.id(), format!("{}:{}:{}{}{}", s.id(), m, s.get_peer_node_id().unwrap_or(0), if s.verif_is_expired() { ":x" } else { "" }, if s.verif_flags().1 { ":r" } else { "" }))
                })
                .collect();
            ss.sort();
            let ss: Vec<String> = ss.into_iter().map(|x| x.1).collect();
            let rs = canon_resum(p.resumption);
            let fsafe = match p.failsafe.verif_armed() {
                None => "idle".to_string(),
                Some((fab, flags, to, _)) => format!("{}.{}.{}{}", fab, flags, to, if p.failsafe.verif_deferred() { ".d" } else { "" }),
            };
            let w = match p.pase.comm_window() {
                None => "-".to_string(),
                Some(w) => match w.opener() {
                    None => "0".to_string(),
                    Some(o) => o.fab_idx.get().to_string(),
                },
            };
            format!("F[{}] S[{}] R[{}] FS[{}] BC={} W[{}]", fs, ss.join(";"), rs, fsafe, p.failsafe.breadcrumb(), w)
        });
        format!("{} N[{}] KV{{{}}} k={}", mem, nets, canon_kv(kvh, cas, noc_serial), kvh.0.borrow().log.len())
}


impl World {
    pub fn new(cas: Rc<Vec<Ca>>) -> Self {
        World {
            pending: Vec::new(),
            matter: new_matter(),
            nets: Box::new(SharedNetworks::new(WifiNetworks::new())),
            kv: Kv::default(),
            cas,
            noc_serial: HashMap::new(),
        }
    }

    pub fn dump(&self) -> String {
        let nets = self.nets.access(|n| canon_nets(n));
        canon_state(&self.matter, &nets, &self.kv, &self.cas, &self.noc_serial)
    }

    /// a light view of the real state for the online generator
    /// the key the last injected store fault hit (statistics of the `fresetk` profile)
    pub fn last_fault_key(&self) -> Option<u16> {
        self.kv.0.borrow().last_fault_key
    }

    pub fn view(&self) -> View {
        self.matter.with_state(|state| {
            let p = state.verif_parts();
            let mut sessions: Vec<(u32, char, u8, bool, u64)> = p
                .sessions
                .iter()
                .map(|s| {
                    let (c, f) = match s.get_session_mode() {
                        SessionMode::Case { fab_idx, .. } => ('c', fab_idx.get()),
                        SessionMode::Pase { fab_idx } => ('p', *fab_idx),
                        _ => ('t', 0),
                    };
                    (s.id(), c, f, s.verif_is_expired() || s.verif_flags().1, s.get_peer_node_id().unwrap_or(0))
                })
                .collect();
            sessions.sort();
            let mut fabrics: Vec<u8> = p.fabrics.iter().map(|f| f.fab_idx().get()).collect();
            fabrics.sort();
            let rids: Vec<u64> = p.resumption.iter().map(|r| rid_of(&r.verif_rid())).collect();
            View {
                sessions,
                fabrics,
                armed: p.failsafe.verif_armed().map(|(f, fl, _, _)| (f, fl)),
                window: p.pase.comm_window().is_some(),
                rids,
                kvlen: self.kv.0.borrow().log.len(),
                fault_pending: self.kv.0.borrow().fail_in > 0,
                fault_in: self.kv.0.borrow().fail_in,
            }
        })
    }

    // ---------------------------------------------------------------- helpers mirroring the handlers' glue
    fn sess_mode(&self, sid: u32) -> Option<SessionMode> {
        self.matter.with_state(|state| {
            let p = state.verif_parts();
            let x = p.sessions.iter().find(|s| s.id() == sid).map(|s| s.get_session_mode().clone());
            x
        })
    }

    /// `InteractionModel::check_timeouts` (im.rs:687): fail-safe timer, then the commissioning window timer
    fn check_timeouts(&self, sid: Option<u32>) -> Result<(), Error> {
        let kv = self.matter.kv(self.kv.clone());
        self.matter.with_state(|state| {
            let removed = {
                let p = state.verif_parts();
                let expire_sess_id = sid.and_then(|s| p.sessions.get(s).map(|x| x.id()));
                p.failsafe.check_failsafe_timeout(p.fabrics, p.sessions, &*self.nets, &kv, expire_sess_id, || {}, |_, _| {})?
            };
            if let Some(f) = removed {
                // im.rs: a failing store of the purged cache is logged, not returned
                let _ = state.verif_purge_resumption_for_fabric(f, &kv);
            }
            let p = state.verif_parts();
            p.pase.check_comm_window_timeout(|| {}, |_, _| {})?;
            Ok::<_, Error>(())
        })
    }

    /// `GenCommHandler::with_armed_failsafe_ex` (gen_comm.rs:186)
    fn check_armed(&self, mode: &SessionMode) -> Result<(), Error> {
        self.matter.with_state(|state| {
            let p = state.verif_parts();
            p.failsafe.check_armed(mode).map_err(|err| match err.code() {
                ErrorCode::NocInvalidFabricIndex => Error::new(ErrorCode::GennCommInvalidAuthentication),
                _ => err,
            })
        })
    }

    fn csr_pubkey(&self) -> CanonPkcPublicKey {
        let crypto = test_only_crypto();
        let mut pk = CanonPkcPublicKey::new();
        self.matter.with_state(|state| {
            let p = state.verif_parts();
            if let Ok(sk) = crypto.secret_key(p.failsafe.verif_secret_key()) {
                if let Ok(pubk) = sk.pub_key() {
                    let _ = pubk.write_canon(&mut pk);
                }
            }
        });
        pk
    }

    /// the node with the lifetime the `ReservedSession` guards need. SAFETY: the guards live in
    /// `self.pending`, which is emptied before `self.matter` is replaced (`restart_from`) and is
    /// dropped before `self.matter` (field order); the `Matter` sits in a `Box` and does not move.
    fn matter_ref(&self) -> &'static Matter<'static> {
        unsafe { &*(self.matter.as_ref() as *const Matter<'static>) }
    }

    /// a new `Matter` instance with nothing loaded (the process restarted)
    fn power_cycle(&mut self, map: BTreeMap<u16, Vec<u8>>) {
        self.pending.clear();
        {
            let mut i = self.kv.0.borrow_mut();
            i.map = map;
            i.fail_in = 0;
        }
        self.matter = new_matter();
        self.nets = Box::new(SharedNetworks::new(WifiNetworks::new()));
    }

    /// `Matter::startup` (lib.rs:653) + `InteractionModelState::load_persist` (im.rs:208)
    fn startup(&mut self) -> String {
        let r = {
            let kv = self.matter.kv(self.kv.clone());
            self.matter.startup(&kv)
        };
        let r2: Result<(), Error> = {
            let mut store = self.kv.clone();
            let mut buf = vec![0u8; 4096];
            self.nets.access(|n| {
                n.reset()?;
                if let Some(data) = store.load(NETWORKS_KEY, &mut buf)? {
                    let data = data.to_vec();
                    n.load(&data)?;
                }
                Ok(())
            })
        };
        match (r, r2) {
            (Ok(()), Ok(())) => "ok".into(),
            (Err(e), _) => code(&e),
            (_, Err(e)) => code(&e),
        }
    }

    /// lib.rs:621 `Matter::factory_reset` + `InteractionModelState::reset_persist` (im.rs:181)
    fn factory_reset(&mut self) -> String {
        let r = {
            let kv = self.matter.kv(self.kv.clone());
            self.matter.factory_reset(&kv)
        };
        let r2: Result<(), Error> = {
            let mut store = self.kv.clone();
            let mut buf = vec![0u8; 1024];
            self.nets.access(|n| n.reset()).and_then(|_| store.remove(NETWORKS_KEY, &mut buf))
        };
        match (r, r2) {
            (Ok(()), Ok(())) => "ok".into(),
            (Err(e), _) => code(&e),
            (_, Err(e)) => code(&e),
        }
    }

    fn restart_from(&mut self, map: BTreeMap<u16, Vec<u8>>) -> String {
        self.pending.clear();
        {
            let mut i = self.kv.0.borrow_mut();
            i.map = map;
            i.fail_in = 0;
        }
        self.matter = new_matter();
        self.nets = Box::new(SharedNetworks::new(WifiNetworks::new()));
        // `Matter::startup` (lib.rs:653)
        let r = {
            let kv = self.matter.kv(self.kv.clone());
            self.matter.startup(&kv)
        };
        // `InteractionModelState::load_persist` (im.rs:208): the network store
        let r2: Result<(), Error> = {
            let mut store = self.kv.clone();
            let mut buf = vec![0u8; 4096];
            self.nets.access(|n| {
                n.reset()?;
                if let Some(data) = store.load(NETWORKS_KEY, &mut buf)? {
                    let data = data.to_vec();
                    n.load(&data)?;
                }
                Ok(())
            })
        };
        match (r, r2) {
            (Ok(()), Ok(())) => "ok".into(),
            (Err(e), _) => code(&e),
            (_, Err(e)) => code(&e),
        }
    }

    // ---------------------------------------------------------------- one operation
    pub fn exec(&mut self, op: &str) -> String {
        let w: Vec<&str> = op.split_whitespace().collect();
        let num = |i: usize| -> u64 { w.get(i).and_then(|x| x.parse().ok()).unwrap_or(0) };
        if w.is_empty() {
            return "bad".into();
        }
        let crypto = test_only_crypto();
        // ops that arrive over a session: the IM runs `check_timeouts(Some(exchange))` first (im.rs:758)
        let sess_ops = ["open", "arm", "csr", "root", "addnoc", "updnoc", "acl", "grp", "label", "net", "rmnet", "complete", "rmfab", "revoke", "bcw", "gkm", "vvs"];
        let mut mode: Option<SessionMode> = None;
        let sid = num(1) as u32;
        if sess_ops.contains(&w[0]) {
            if self.sess_mode(sid).is_none() {
                return "nosess".into();
            }
            // a reserved session takes no incoming message (`Session::is_for_rx`)
            let reserved = self.matter.with_state(|state| {
                let p = state.verif_parts();
                let x = p.sessions.iter().find(|s| s.id() == sid).map(|s| s.verif_flags().1).unwrap_or(false);
                x
            });
            if reserved {
                return "reserved".into();
            }
            if let Err(e) = self.check_timeouts(Some(sid)) {
                return format!("pre:{}", code(&e));
            }
            match self.sess_mode(sid) {
                None => return "nosess".into(),
                Some(m) => mode = Some(m),
            }
            // an expired session accepts no new exchange (session.rs:540)
            let expired = self.matter.with_state(|state| {
                let p = state.verif_parts();
                let x = p.sessions.iter().find(|s| s.id() == sid).map(|s| s.verif_is_expired()).unwrap_or(true);
                x
            });
            if expired {
                return "expired".into();
            }
        }
        let mode = mode.unwrap_or(SessionMode::PlainText);
        let sfab = mode.fab_idx();
        match w[0] {
            "boot" => {
                // `Matter::open_basic_comm_window`-like: the device opens its own window (no opener)
                let salt = [7u8; 32];
                self.matter.with_state(|state| {
                    let p = state.verif_parts();
                    st(p.pase.open_basic_comm_window(1, &salt, TEST_DEV_COMM.password.reference(), 250, 900, None, || {}, |_, _| {}))
                })
            }
            "pase" => self.matter.with_state(|state| {
                let p = state.verif_parts();
                if p.pase.comm_window().is_none() {
                    return "nowin".to_string();
                }
                match p.sessions.add(1, false, Address::new(), None, &TEST_DEV_DET) {
                    Ok(s) => {
                        s.verif_set_session_mode(SessionMode::Pase { fab_idx: 0 });
                        format!("s{}", s.id())
                    }
                    Err(e) => code(&e),
                }
            }),
            "cest" => {
                // responder.rs:440-460: Sigma3 accepted => session in CASE mode + a resumption record
                let fab = num(1) as u8;
                let node = num(2);
                let rid = num(3);
                self.matter.with_state(|state| {
                    let p = state.verif_parts();
                    let Some(fi) = nz(fab) else { return "nofab".to_string() };
                    if p.fabrics.get(fi).is_none() {
                        return "nofab".to_string();
                    }
                    match p.sessions.add(1, false, Address::new(), Some(node), &TEST_DEV_DET) {
                        Ok(s) => {
                            s.verif_set_session_mode(SessionMode::Case { fab_idx: fi, cat_ids: NocCatIds::default() });
                            let id = s.id();
                            p.resumption.insert_or_update(ResumableSession::verif_new(fi, node, rid16(rid)));
                            format!("s{}", id)
                        }
                        Err(e) => code(&e),
                    }
                })
            }
            "resume" => {
                // responder.rs:570-790
                let rid = num(1);
                let newrid = num(2);
                self.matter.with_state(|state| {
                    let p = state.verif_parts();
                    let Some(rec) = p.resumption.find_by_resumption_id(&rid16(rid)).cloned() else { return "norec".to_string() };
                    if p.fabrics.get(rec.fab_idx).is_none() {
                        return "Invalid".to_string();
                    }
                    match p.sessions.add(1, false, Address::new(), Some(rec.peer_nodeid), &TEST_DEV_DET) {
                        Ok(s) => {
                            s.verif_set_session_mode(SessionMode::Case { fab_idx: rec.fab_idx, cat_ids: rec.peer_cat_ids });
                            let id = s.id();
                            p.resumption.insert_or_update(ResumableSession::verif_new(rec.fab_idx, rec.peer_nodeid, rid16(newrid)));
                            format!("s{}", id)
                        }
                        Err(e) => code(&e),
                    }
                })
            }
            "open" => {
                // adm_comm.rs:215 (+ `current_window_opener`: the fabric of a CASE session)
                let salt = [9u8; 32];
                self.matter.with_state(|state| {
                    let p = state.verif_parts();
                    if let Err(e) = p.pase.check_comm_window_timeout(|| {}, |_, _| {}) {
                        return code(&e);
                    }
                    // `current_window_opener` (adm_comm.rs:76): only a CASE session names an opener
                    let opener = match &mode {
                        // (the handler unwraps the fabric; the access check in front of it guarantees
                        // that it exists - here a session that survived a factory reset may lack it)
                        SessionMode::Case { fab_idx, .. } => Some(rs_matter::sc::pase::CommWindowOpener { fab_idx: *fab_idx, vendor_id: p.fabrics.get(*fab_idx).map(|f| f.vendor_id()).unwrap_or(0) }),
                        _ => None,
                    };
                    st(p.pase.open_basic_comm_window(2, &salt, TEST_DEV_COMM.password.reference(), 250, 300, opener, || {}, |_, _| {}))
                })
            }
            "arm" => {
                // gen_comm.rs:351
                let secs = num(2) as u16;
                let kv = self.matter.kv(self.kv.clone());
                self.matter.with_state(|state| {
                    if secs == 0 {
                        let own_sess_id = Some(sid);
                        let r = {
                            let p = state.verif_parts();
                            p.failsafe.expire(p.fabrics, p.sessions, own_sess_id, &*self.nets, &kv, || {}, |_, _| {})
                        };
                        match r {
                            Ok(Some(f)) => st(state.verif_purge_resumption_for_fabric(f, &kv)),
                            Ok(None) => "ok".to_string(),
                            Err(e) => code(&e),
                        }
                    } else {
                        let p = state.verif_parts();
                        st(p.failsafe.arm(secs, secs as u64, &mode, p.pase))
                    }
                })
            }
            "csr" => {
                // noc.rs:392
                let upd = num(2) == 1;
                if let Err(e) = self.check_armed(&mode) {
                    return code(&e);
                }
                self.matter.with_state(|state| {
                    let p = state.verif_parts();
                    if upd && !matches!(mode, SessionMode::Case { .. }) {
                        return "InvalidCommand".to_string();
                    }
                    if upd {
                        st(p.failsafe.update_csr_req(&crypto, &mode))
                    } else {
                        st(p.failsafe.add_csr_req(&crypto, &mode))
                    }
                })
            }
            "root" => {
                // noc.rs:814
                let ca = (num(2) as usize).clamp(1, self.cas.len()) - 1;
                if let Err(e) = self.check_armed(&mode) {
                    return code(&e);
                }
                let time = self.matter.with_rtc(|r| r.utc_time());
                let mut buf = vec![0u8; 2048];
                let rcac = self.cas[ca].rcac.clone();
                self.matter.with_state(|state| {
                    let p = state.verif_parts();
                    st(p.failsafe.add_trusted_root_cert(&crypto, time, &mode, &rcac, &mut buf))
                })
            }
            "addnoc" => {
                // noc.rs:479
                let ca = (num(2) as usize).clamp(1, self.cas.len()) - 1;
                let (fid, node, subj, serial) = (num(3), num(4), num(5), num(6));
                // noc.rs `handle_add_noc`: a failed store of the resumption cache is retried first
                let kv = self.matter.kv(self.kv.clone());
                if let Err(e) = self.matter.with_state(|state| state.verif_retry_resumption_store(&kv)) {
                    return code(&e);
                }
                if let Err(e) = self.check_armed(&mode) {
                    return code(&e);
                }
                let pk = self.csr_pubkey();
                let noc = make_noc_for(&crypto, &self.cas[ca], ca as u64 + 1, fid, node, serial, &pk);
                self.noc_serial.insert(noc.clone(), serial);
                let time = self.matter.with_rtc(|r| r.utc_time());
                let mut buf = vec![0u8; 2048];
                let ipk = [0x5au8; 16];
                self.matter.with_state(|state| {
                    let p = state.verif_parts();
                    let fab_idx = match p.failsafe.add_noc(&crypto, time, p.fabrics, &mode, 0xfff1, None, &noc, &ipk, subj, &mut buf, || {}) {
                        Ok(f) => f.fab_idx(),
                        Err(e) => return code(&e),
                    };
                    if matches!(mode, SessionMode::Pase { .. }) {
                        let r = p.sessions.get(sid).map(|s| s.upgrade_fabric_idx(fab_idx));
                        if let Some(Err(e)) = r {
                            // scopeguard of noc.rs:530: the fabric is removed again
                            let _ = p.fabrics.remove(fab_idx);
                            return code(&e);
                        }
                    }
                    format!("ok{}", fab_idx.get())
                })
            }
            "updnoc" => {
                // noc.rs:590
                let (node, serial) = (num(2), num(3));
                if let Err(e) = self.check_armed(&mode) {
                    return code(&e);
                }
                let pk = self.csr_pubkey();
                // the certificate is issued by the CA of the calling fabric, for its fabric id
                let info = self.matter.with_state(|state| {
                    let p = state.verif_parts();
                    let x = nz(sfab).and_then(|f| p.fabrics.get(f)).map(|f| (f.root_ca().to_vec(), f.fabric_id()));
                    x
                });
                let (ca, fid) = match info {
                    Some((root, fid)) => (self.cas.iter().position(|c| c.rcac == root).unwrap_or(0), fid),
                    None => (0, 1),
                };
                let noc = make_noc_for(&crypto, &self.cas[ca], ca as u64 + 1, fid, node, serial, &pk);
                self.noc_serial.insert(noc.clone(), serial);
                let time = self.matter.with_rtc(|r| r.utc_time());
                let mut buf = vec![0u8; 2048];
                self.matter.with_state(|state| {
                    let p = state.verif_parts();
                    st(p.failsafe.update_noc(&crypto, time, p.fabrics, &mode, None, &noc, &mut buf, || {}))
                })
            }
            "acl" | "grp" | "label" => {
                // acl.rs:306-440, groups.rs:178, noc.rs:636: fabric-scoped write over the accessing fabric
                let val = num(2);
                let kv = self.matter.kv(self.kv.clone());
                let mut persist = FabricPersist::new(&kv);
                self.matter.with_state(|state| {
                    let p = state.verif_parts();
                    let Some(fi) = nz(sfab) else { return "UnsupportedAccess".to_string() };
                    let r: Result<(), Error> = (|| {
                        match w[0] {
                            "acl" => {
                                let fabric = p.fabrics.fabric_mut(fi)?;
                                let mut e = AclEntry::new(None, Privilege::ADMIN, AuthMode::Case);
                                e.add_subject(val)?;
                                fabric.acl_add(e)?;
                                if !p.failsafe.defers_store_for(fi.get()) {
                                    persist.store(fabric)?;
                                }
                            }
                            "grp" => {
                                let fabric = p.fabrics.fabric_mut(fi)?;
                                fabric.groups_mut().add(1, val as u16, "")?;
                                if !p.failsafe.defers_store_for(fi.get()) {
                                    persist.store(fabric)?;
                                }
                            }
                            _ => {
                                let label = format!("L{}", val);
                                let fabric = p.fabrics.update_label(fi, &label)?;
                                if !p.failsafe.defers_store_for(fi.get()) {
                                    persist.store(fabric)?;
                                }
                            }
                        }
                        Ok(())
                    })();
                    st(r)
                })
            }
            "gkm" => {
                // grp_key_mgmt.rs:193 `set_group_key_map` (list replace with one entry): a fabric-scoped write
                // whose content the model does not track
                let gid = num(2) as u16;
                let kv = self.matter.kv(self.kv.clone());
                let mut persist = FabricPersist::new(&kv);
                self.matter.with_state(|state| {
                    let p = state.verif_parts();
                    let Some(fi) = nz(sfab) else { return "UnsupportedAccess".to_string() };
                    let r: Result<(), Error> = (|| {
                        let fabric = p.fabrics.fabric_mut(fi)?;
                        fabric.groups_mut().key_map_replace([rs_matter::fabric::GroupKeyMapping { group_id: gid, group_key_set_id: 1 }].into_iter())?;
                        if !p.failsafe.defers_store_for(fi.get()) {
                            persist.store(fabric)?;
                        }
                        Ok(())
                    })();
                    st(r)
                })
            }
            "vvs" => {
                // noc.rs `handle_set_vid_verification_statement` (vendor id field alone): the record is stored
                // at once unless it rides along with the changes staged under this fail-safe for the fabric
                // (a pending AddNOC / UpdateNOC, a deferred fabric-scoped write)
                let vid = 1 + (num(2) as u16 % 0xfff0);
                let kv = self.matter.kv(self.kv.clone());
                let mut persist = FabricPersist::new(&kv);
                self.matter.with_state(|state| {
                    let p = state.verif_parts();
                    let Some(fi) = nz(sfab) else { return "UnsupportedAccess".to_string() };
                    let r: Result<(), Error> = (|| {
                        let fabric = p.fabrics.fabric_mut(fi)?;
                        fabric.set_vid_verification(Some(vid), None, None)?;
                        let part_of_pending_fabric = p.failsafe.has_pending_changes_for(fi);
                        if !part_of_pending_fabric {
                            persist.store(fabric)?;
                        }
                        Ok(())
                    })();
                    st(r)
                })
            }
            "net" | "rmnet" => {
                // net_comm.rs:1463 / 1516: only under the armed fail-safe, never persisted here
                let id = ssid(num(2));
                if let Err(e) = self.check_armed(&mode) {
                    return code(&e);
                }
                self.nets.access(|n| {
                    let r = if w[0] == "net" { n.add_or_update(&WirelessCreds::Wifi { ssid: &id, pass: b"pw" }) } else { n.remove(&id) };
                    match r {
                        Ok(_) => "ok".to_string(),
                        Err(_) => "neterr".to_string(),
                    }
                })
            }
            "complete" => {
                // gen_comm.rs:482
                if let Err(e) = self.check_armed(&mode) {
                    return code(&e);
                }
                let kv = self.matter.kv(self.kv.clone());
                let mut persist = FabricPersist::new(&kv);
                self.matter.with_state(|state| {
                    let p = state.verif_parts();
                    let pase_sess_id = matches!(mode, SessionMode::Pase { .. }).then_some(sid);
                    let r: Result<(), Error> = (|| {
                        // the store first, then disarm / close the window / drop PASE
                        let fab_idx = p.failsafe.check_disarm(&mode, p.fabrics)?;
                        persist.store(p.fabrics.fabric(fab_idx)?)?;
                        let result = self.nets.access(|networks| {
                            let was_managed = networks.managed()?;
                            networks.set_managed(true)?;
                            let result = persist.persist_mut().store(NETWORKS_KEY, |buf| networks.save(buf));
                            if result.is_err() {
                                networks.set_managed(was_managed)?;
                            }
                            result
                        });
                        if let Err(e) = result {
                            // the record of a fabric added under this fail-safe is taken out of the store again
                            if p.failsafe.is_adding_fabric(fab_idx) {
                                let _ = persist.remove(fab_idx);
                            }
                            return Err(e);
                        }
                        p.failsafe.disarm(&mode, p.fabrics)?;
                        p.pase.close_comm_window(|| {}, |_, _| {})?;
                        p.sessions.remove_pase(pase_sess_id);
                        Ok(())
                    })();
                    st(r)
                })
            }
            "rmfab" => {
                // noc.rs:687
                let idx = num(2) as u8;
                let Some(fi) = nz(idx) else { return "ConstraintError".into() };
                let kv = self.matter.kv(self.kv.clone());
                let mut persist = FabricPersist::new(&kv);
                self.matter.with_state(|state| {
                    let present = {
                        let p = state.verif_parts();
                        p.fabrics.get(fi).is_some()
                    };
                    if present {
                        // the store first (purged resumption cache, then the fabric key) ...
                        if let Err(e) = state.verif_purge_resumption_for_fabric(fi, &kv) {
                            return code(&e);
                        }
                        if let Err(e) = persist.remove(fi) {
                            return code(&e);
                        }
                        // ... then the fabric table and the sessions
                        let p = state.verif_parts();
                        let _ = p.fabrics.remove(fi);
                        let expire_sess_id = (sfab == fi.get()).then_some(sid);
                        p.sessions.remove_for_fabric(fi, expire_sess_id);
                        "ok".to_string()
                    } else {
                        "InvalidFabricIndex".to_string()
                    }
                })
            }
            "revoke" => {
                // adm_comm.rs:255
                let kv = self.matter.kv(self.kv.clone());
                self.matter.with_state(|state| {
                    let expire_sess_id = Some(sid);
                    let r = {
                        let p = state.verif_parts();
                        p.failsafe.expire(p.fabrics, p.sessions, expire_sess_id, &*self.nets, &kv, || {}, |_, _| {})
                    };
                    match r {
                        Ok(Some(f)) => {
                            if let Err(e) = state.verif_purge_resumption_for_fabric(f, &kv) {
                                return code(&e);
                            }
                        }
                        Ok(None) => {}
                        Err(e) => return code(&e),
                    }
                    let p = state.verif_parts();
                    st(p.pase.close_comm_window(|| {}, |_, _| {}))
                })
            }
            "hs" => {
                // responder.rs:430-482 with the REAL `ReservedSession` guard: reserve, `update` (CASE mode
                // of the fabric + peer), the resumption record. `complete()` is the other half (`hsdone`):
                // since repo fix 287abf0 it makes the session live at once, so the only state in which a
                // RESERVED session carries a fabric is the one between `update` and `complete()` - two
                // separate calls of the public guard API (the responder makes them back to back)
                let fab = num(1) as u8;
                let node = num(2);
                let rid = num(3);
                let Some(fi) = nz(fab) else { return "nofab".to_string() };
                let present = self.matter.with_state(|state| {
                    let p = state.verif_parts();
                    p.fabrics.get(fi).is_some()
                });
                if !present {
                    return "nofab".to_string();
                }
                let m = self.matter_ref();
                match ReservedSession::reserve_now(m, &crypto) {
                    Ok(mut guard) => {
                        let id = m.with_state(|state| {
                            let p = state.verif_parts();
                            let x = p.sessions.iter().map(|s| s.id()).max().unwrap_or(0);
                            x
                        });
                        // (the unique id of the newest session is the largest one until the counter wraps,
                        // which no case reaches)
                        let r = guard.update(1, node, 1, 1, Address::new(), SessionMode::Case { fab_idx: fi, cat_ids: NocCatIds::default() }, None, None, None, None);
                        if let Err(e) = r {
                            return code(&e);
                        }
                        m.with_state(|state| {
                            let p = state.verif_parts();
                            p.resumption.insert_or_update(ResumableSession::verif_new(fi, node, rid16(rid)));
                        });
                        self.pending.push((id, guard));
                        format!("s{}", id)
                    }
                    Err(e) => code(&e),
                }
            }
            "hsdone" => {
                let id = num(1) as u32;
                match self.pending.iter().position(|(k, _)| *k == id) {
                    None => "nohs".into(),
                    Some(i) => {
                        // `complete()`: the session, if it is still there, is live from here on; the drop of
                        // a completed guard leaves it alone (and removes nothing when it is gone)
                        let (_, mut guard) = self.pending.remove(i);
                        guard.complete();
                        drop(guard);
                        "ok".into()
                    }
                }
            }
            "coldreset" => {
                // the node restarts and the application calls `factory_reset` BEFORE `startup`
                // (reset button held at power-up); then the start-up
                let map = self.kv.0.borrow().map.clone();
                self.power_cycle(map);
                let r1 = self.factory_reset();
                let r2 = self.startup();
                self.kv.0.borrow_mut().log.clear();
                if r1 == "ok" && r2 == "ok" { "ok".into() } else { format!("reset:{},startup:{}", r1, r2) }
            }
            "fabrecover" => {
                // a damaged fabric blob makes the start-up fail; the factory reset must recover the node
                let key = FABRIC_KEYS_START + (num(1) as u16).clamp(1, 255);
                let mut map = self.kv.0.borrow().map.clone();
                map.insert(key, vec![0xff; 9]);
                self.power_cycle(map);
                let r0 = self.startup();
                let r1 = self.factory_reset();
                let map = self.kv.0.borrow().map.clone();
                self.power_cycle(map);
                let r2 = self.startup();
                self.kv.0.borrow_mut().log.clear();
                if r0 != "ok" && r1 == "ok" && r2 == "ok" { "ok".into() } else { format!("startup:{},reset:{},startup:{}", r0, r1, r2) }
            }
            "rt" => {
                // TLV round trip of one persisted structure on objects of its own: store -> load into a
                // fresh instance -> store again; the two blobs and the two canonical views must be equal
                match roundtrip(&self.cas, w.get(1).copied().unwrap_or(""), num(2)) {
                    Ok(()) => "ok".into(),
                    Err(e) => e,
                }
            }
            "bcw" => {
                // gen_comm.rs:282 `set_breadcrumb`
                let v = num(2);
                self.matter.with_state(|state| {
                    let p = state.verif_parts();
                    p.failsafe.set_breadcrumb(v);
                    "ok".to_string()
                })
            }
            "tick" => {
                MockDriver::get().advance(Duration::from_secs(num(1)));
                "ok".into()
            }
            "poll" => st(self.check_timeouts(None)),
            "flush" => {
                // lib.rs:712 `run_persist_resumption`
                let kv = self.matter.kv(self.kv.clone());
                self.matter.with_state(|state| st(state.verif_store_resumption(&kv)))
            }
            "restart" => {
                let map = self.kv.0.borrow().map.clone();
                self.restart_from(map)
            }
            "crash" => {
                let n = (num(1) as usize).min(self.kv.0.borrow().log.len());
                let mut map: BTreeMap<u16, Vec<u8>> = BTreeMap::new();
                for (k, v) in self.kv.0.borrow().log.iter().take(n) {
                    match v {
                        Some(d) => {
                            map.insert(*k, d.clone());
                        }
                        None => {
                            map.remove(k);
                        }
                    }
                }
                // the store keeps running from that point: later crash points refer to the new history
                self.kv.0.borrow_mut().log.truncate(n);
                self.restart_from(map)
            }
            "kvfail" => {
                // at most the third next call (keeps the fault inside the first phase of multi-call ops)
                self.kv.0.borrow_mut().fail_in = num(1).min(3) as u32;
                "ok".into()
            }
            "corrupt" => {
                let b = u8::from_str_radix(w.get(1).copied().unwrap_or("ff"), 16).unwrap_or(0xff);
                // a (truncated) array / list start decodes as an EMPTY cache, i.e. is not damage the
                // loader can see; the model covers blobs that fail to parse
                let b = if b & 0x1f == 0x16 || b & 0x1f == 0x17 { 0xff } else { b };
                let n = (num(2) as usize).clamp(1, 64);
                {
                    let mut i = self.kv.0.borrow_mut();
                    let blob = vec![b; n];
                    i.map.insert(CASE_RESUMPTION_KEY, blob.clone());
                    i.log.push((CASE_RESUMPTION_KEY, Some(blob)));
                }
                let map = self.kv.0.borrow().map.clone();
                self.restart_from(map)
            }
            "freset" => {
                // lib.rs:621 `Matter::factory_reset` + `InteractionModelState::reset_persist` (im.rs:181)
                let r = {
                    let kv = self.matter.kv(self.kv.clone());
                    self.matter.factory_reset(&kv)
                };
                let r2: Result<(), Error> = {
                    let mut store = self.kv.clone();
                    let mut buf = vec![0u8; 1024];
                    self.nets.access(|n| n.reset()).and_then(|_| store.remove(NETWORKS_KEY, &mut buf))
                };
                match (r, r2) {
                    (Ok(()), Ok(())) => "ok".into(),
                    (Err(e), _) => code(&e),
                    (_, Err(e)) => code(&e),
                }
            }
            "fresetk" => {
                // the factory reset of the RUNNING node with the fault on its k-th store call (lib.rs:621: the fabric
                // keys 1..255, basic info, the two RTC keys, the resumption cache, the group data counter; then the
                // networks as in `freset`); whatever the store answers, the node carries on
                let k = num(1);
                {
                    let mut i = self.kv.0.borrow_mut();
                    i.fail_in = if k <= 261 { k as u32 } else { 0 };
                    i.last_fault_key = None;
                }
                let r = self.exec("freset");
                self.kv.0.borrow_mut().fail_in = 0;
                r
            }
            _ => "bad".into(),
        }
    }
}

/// `rt <kind> <seed>`: values within the capacity limits (boundary sizes included) from the seed
fn roundtrip(cas: &Rc<Vec<Ca>>, kind: &str, seed: u64) -> Result<(), String> {
    let mut r = crate::rng::Rng::new(seed ^ 0x5eed_7137);
    let mut buf = vec![0u8; 8192];
    let hexs = |b: &[u8]| crate::proto::hex(b);
    match kind {
        "fab" => {
            // a fabric made by the real commissioning path, then filled up to its capacities
            let mut w = World::new(cas.clone());
            let ca = r.range(1, 3);
            let steps = vec![
                "boot".to_string(),
                "pase".to_string(),
                "arm 0 60".to_string(),
                "csr 0 0".to_string(),
                format!("root 0 {}", ca),
                format!("addnoc 0 {} {} {} {} {}", ca, r.range(1, 0xffff_ffff), r.range(1, 0xffff_ffff_ffff), r.range(1, 0xffff_fffe_ffff_ffff), r.range(1, 60000)),
            ];
            for st in &steps {
                let out = w.exec(st);
                if !(out.starts_with("ok") || out.starts_with('s')) {
                    return Err(format!("rt-setup:{}:{}", st.split(' ').next().unwrap_or(""), out));
                }
            }
            let n_acl = *r.pick(&[0u64, 1, 2, 3, 3]);
            for i in 0..n_acl {
                let _ = w.exec(&format!("acl 0 {}", if r.chance(1, 3) { 0xffff_fffd_0000_0001u64 + i } else { r.range(1, 0xffff_ffef_ffff_ffff) }));
            }
            let n_grp = *r.pick(&[0u64, 1, 4, 4]);
            for i in 0..n_grp {
                let _ = w.exec(&format!("grp 0 {}", if i == 0 { 65527 } else { r.range(1, 65000) }));
            }
            let label_len = *r.pick(&[0usize, 1, 31, 32]);
            let label: String = (0..label_len).map(|i| (b'a' + (i % 26) as u8) as char).collect();
            let fi = NonZeroU8::new(1).unwrap();
            let kv = w.matter.kv(w.kv.clone());
            let mut persist = FabricPersist::new(&kv);
            let stored: Result<(), Error> = w.matter.with_state(|state| {
                let p = state.verif_parts();
                let fabric = p.fabrics.update_label(fi, &label)?;
                persist.store(fabric)
            });
            stored.map_err(|e| format!("rt-store:{}", code(&e)))?;
            let key = FABRIC_KEYS_START + 1;
            let w1 = w.kv.0.borrow().map.get(&key).cloned().ok_or("rt-nokey")?;
            let c1 = w.matter.with_state(|state| canon_fabrics(&w.cas, &w.noc_serial, state.verif_parts().fabrics));
            // load into a fresh table, store again
            let mut fresh = Fabrics::new();
            let mut store = w.kv.clone();
            fresh.load_persist(&mut store, &mut buf).map_err(|e| format!("rt-load:{}", code(&e)))?;
            let c2 = canon_fabrics(&w.cas, &w.noc_serial, &fresh);
            let kv2 = Kv::default();
            let m2 = new_matter();
            let kvacc = m2.kv(kv2.clone());
            let mut persist2 = FabricPersist::new(&kvacc);
            persist2.store(fresh.get(fi).ok_or("rt-lost")?).map_err(|e| format!("rt-store2:{}", code(&e)))?;
            let w2 = kv2.0.borrow().map.get(&key).cloned().ok_or("rt-nokey2")?;
            if c1 != c2 {
                return Err(format!("fab-view:[{}]!=[{}]", c1, c2));
            }
            if w1 != w2 {
                return Err(format!("fab-bytes:{}!={}", hexs(&w1), hexs(&w2)));
            }
            Ok(())
        }
        "nets" => {
            let mut n: WifiNetworks<4> = WifiNetworks::new();
            let count = *r.pick(&[0u64, 1, 2, 4, 4]);
            for i in 0..count {
                let sl = *r.pick(&[1usize, 2, 31, 32]);
                let pl = *r.pick(&[0usize, 1, 8, 63, 64]);
                let mut ssid: Vec<u8> = (0..sl).map(|_| r.range(0, 255) as u8).collect();
                ssid[0] = i as u8; // distinct networks
                let pass: Vec<u8> = (0..pl).map(|_| r.range(0, 255) as u8).collect();
                Networks::add_or_update(&mut n, &WirelessCreds::Wifi { ssid: &ssid, pass: &pass }).map_err(|_| "rt-nets-add".to_string())?;
            }
            let _ = Networks::set_managed(&mut n, r.chance(1, 2));
            let l1 = Networks::save(&n, &mut buf).map_err(|e| format!("rt-save:{}", code(&e)))?.ok_or("rt-nosave")?;
            let w1 = buf[..l1].to_vec();
            let mut fresh: WifiNetworks<4> = WifiNetworks::new();
            Networks::load(&mut fresh, &w1).map_err(|e| format!("rt-load:{}", code(&e)))?;
            let l2 = Networks::save(&fresh, &mut buf).map_err(|e| format!("rt-save2:{}", code(&e)))?.ok_or("rt-nosave2")?;
            let w2 = buf[..l2].to_vec();
            let (c1, c2) = (canon_nets(&mut n), canon_nets(&mut fresh));
            if c1 != c2 {
                return Err(format!("nets-view:[{}]!=[{}]", c1, c2));
            }
            if w1 != w2 {
                return Err(format!("nets-bytes:{}!={}", hexs(&w1), hexs(&w2)));
            }
            Ok(())
        }
        "res" => {
            let mut c = ResumableSessions::new();
            let count = *r.pick(&[0u64, 1, 7, 15, 15, 16]);
            for i in 0..count {
                let fab = NonZeroU8::new(r.range(1, 254) as u8).unwrap();
                c.insert_or_update(ResumableSession::verif_new(fab, if r.chance(1, 4) { u64::MAX - 0x1000_0000_0000 } else { r.range(1, u64::MAX / 2) } + i, rid16(r.range(0, u64::MAX / 2))));
            }
            let kv1 = Kv::default();
            let mut s1 = kv1.clone();
            c.store_persist(&mut s1, &mut buf).map_err(|e| format!("rt-store:{}", code(&e)))?;
            let w1 = kv1.0.borrow().map.get(&CASE_RESUMPTION_KEY).cloned().ok_or("rt-nokey")?;
            let mut fresh = ResumableSessions::new();
            fresh.load_persist(&mut s1, &mut buf).map_err(|e| format!("rt-load:{}", code(&e)))?;
            let kv2 = Kv::default();
            let mut s2 = kv2.clone();
            fresh.store_persist(&mut s2, &mut buf).map_err(|e| format!("rt-store2:{}", code(&e)))?;
            let w2 = kv2.0.borrow().map.get(&CASE_RESUMPTION_KEY).cloned().ok_or("rt-nokey2")?;
            let (c1, c2) = (canon_resum(&c), canon_resum(&fresh));
            if c1 != c2 {
                return Err(format!("res-view:[{}]!=[{}]", c1, c2));
            }
            if w1 != w2 {
                return Err(format!("res-bytes:{}!={}", hexs(&w1), hexs(&w2)));
            }
            Ok(())
        }
        "binfo" => {
            use rs_matter::dm::clusters::basic_info::BasicInfoSettings;
            use rs_matter::persist::Persist;
            let mut b = BasicInfoSettings::new();
            let ll = *r.pick(&[0usize, 1, 31, 32]);
            let label: String = (0..ll).map(|i| (b'A' + (i % 26) as u8) as char).collect();
            let _ = b.node_label.push_str(&label);
            if r.chance(1, 2) {
                b.set_location(*r.pick(&["XX", "DE", "us"]));
            }
            b.local_config_disabled = r.chance(1, 2);
            b.configuration_version = *r.pick(&[1u32, 2, u32::MAX]);
            let m = new_matter();
            let kv1 = Kv::default();
            {
                let acc = m.kv(kv1.clone());
                let mut p = Persist::new(&acc);
                b.store_persist(&mut p).map_err(|e| format!("rt-store:{}", code(&e)))?;
            }
            let key = rs_matter::persist::BASIC_INFO_KEY;
            let w1 = kv1.0.borrow().map.get(&key).cloned().ok_or("rt-nokey")?;
            let mut fresh = BasicInfoSettings::new();
            let mut s1 = kv1.clone();
            fresh.load_persist(&mut s1, &mut buf).map_err(|e| format!("rt-load:{}", code(&e)))?;
            let kv2 = Kv::default();
            {
                let acc = m.kv(kv2.clone());
                let mut p = Persist::new(&acc);
                fresh.store_persist(&mut p).map_err(|e| format!("rt-store2:{}", code(&e)))?;
            }
            let w2 = kv2.0.borrow().map.get(&key).cloned().ok_or("rt-nokey2")?;
            if b != fresh {
                return Err(format!("binfo-view:{:?}!={:?}", b, fresh).replace(' ', ""));
            }
            if w1 != w2 {
                return Err(format!("binfo-bytes:{}!={}", hexs(&w1), hexs(&w2)));
            }
            Ok(())
        }
        _ => Err("rt-kind".into()),
    }
}

pub struct View {
    /// (id, 'c'|'p', fabric index, expired, peer node)
    pub sessions: Vec<(u32, char, u8, bool, u64)>,
    pub fabrics: Vec<u8>,
    pub armed: Option<(u8, u8)>,
    pub window: bool,
    pub rids: Vec<u64>,
    pub kvlen: usize,
    pub fault_pending: bool,
    /// the n-th next store call fails (0 = none)
    pub fault_in: u32,
}

pub fn make_cas() -> Rc<Vec<Ca>> {
    let crypto = test_only_crypto();
    Rc::new((1..=3).map(|i| make_ca(&crypto, i)).collect())
}

pub fn header() -> String {
    format!("adm mf={} ms={} mr={} ma={}", MAX_FABRICS, MAX_SESSIONS, MAX_RESUMPTION_RECORDS, rs_matter::acl::MAX_ACL_ENTRIES_PER_FABRIC)
}

/// run one op on the real code and emit its protocol line; returns the output
pub fn step(out: &mut Out, cas: &Rc<Vec<Ca>>, w: &mut World, op: &str) -> String {
    let r = std::panic::catch_unwind(std::panic::AssertUnwindSafe(|| {
        let s = w.exec(op);
        format!("{} | {}", s, w.dump())
    }));
    match r {
        Ok(s) => {
            let head = s.split(' ').next().unwrap_or("").to_string();
            let good = head.starts_with("ok") || (head.starts_with('s') && head[1..].chars().all(|c| c.is_ascii_digit()));
            out.stat(&format!("st_{}_{}", op.split(' ').next().unwrap_or(""), if good { "ok" } else { "rej" }), 1);
            out.op(op, &s);
            s
        }
        Err(e) => {
            if std::env::var("VH_DEBUG").is_ok() {
                let msg = e.downcast_ref::<String>().cloned().or_else(|| e.downcast_ref::<&str>().map(|x| x.to_string())).unwrap_or_default();
                eprintln!("panic in op `{}`: {}", op, msg);
            }
            out.op(op, "panic");
            // the world may be inconsistent after a panic: start over
            *w = World::new(cas.clone());
            "panic".into()
        }
    }
}

pub fn run_case(out: &mut Out, cas: &Rc<Vec<Ca>>, case: &Case) {
    out.case(case.id, &header());
    let mut w = World::new(cas.clone());
    for op in &case.ops {
        step(out, cas, &mut w, op);
    }
}

