import RsMatterVerif.Model.Codec.Buf
/-!
# Model of the BLE advertisement payload of a commissionable device: `transport/network/btp/gatt.rs`
`AdvData::iter` / `service_payload_iter` and `AdvData::parse_adv` / `parse_service_data`
(with `matter_service_data` and the `AdStructures` iterator). `RecoveryAdvData` is modelled in `Model/Codec/BleRecovery.lean`
(it reuses `matterServiceData` of this file).
-/
namespace Codec.BleAdv
open Codec

def AD_TYPE_SERVICE_DATA_UUID16 : Nat := 0x16
def MATTER_UUID16_LO : Nat := 0xF6
def MATTER_UUID16_HI : Nat := 0xFF

structure Adv where
  vid : Nat
  pid : Nat
  disc : Nat
  additional : Bool
deriving DecidableEq, Repr

/-- `service_payload_iter` -/
def servicePayload (a : Adv) : List Nat :=
  [0, a.disc % 256, a.disc / 256 % 256, a.vid % 256, a.vid / 256 % 256, a.pid % 256, a.pid / 256 % 256,
   if a.additional then 1 else 0]

/-- `iter` = flags structure (`02 01 06`) followed by the service-data structure -/
def encode (a : Adv) : List Nat :=
  [2, 0x01, 0x06] ++ [(servicePayload a).length + 3, AD_TYPE_SERVICE_DATA_UUID16, MATTER_UUID16_LO, MATTER_UUID16_HI]
  ++ servicePayload a

/-- `parse_service_data`: `payload[i]` are checked indexes (guarded by the length test) -/
def parseServiceData (p : List Nat) : Except Err (Option Adv) :=
  if p.length < 8 then .ok none
  else match p with
    | op :: d0 :: d1 :: v0 :: v1 :: p0 :: p1 :: ad :: _ =>
      if op ≠ 0 then .ok none
      else .ok (some { disc := (d0 + 256 * d1) % 4096, vid := v0 + 256 * v1, pid := p0 + 256 * p1, additional := ad % 2 = 1 })
    | _ => .error .panic

/-- what can go wrong in the model of the `AdStructures` walk besides "no Matter record" (which is the
good value `none`): a checked operation fails, or the model's fuel runs out (= the Rust loop would not have
terminated within the bound). `Lemmas/CodecBleAdv.lean` proves that neither happens. -/
inductive WalkErr
  | panic   -- `rest.split_at(len)` out of range
  | fuel    -- more than `fuel` structures: not a result of the Rust code
deriving DecidableEq, Repr

/-- checked `rest.split_at(len)` (panics when `len > rest.len()`) -/
def splitAt (rest : List Nat) (len : Nat) : Except WalkErr (List Nat × List Nat) :=
  if len ≤ rest.length then .ok (rest.take len, rest.drop len) else .error .panic

/-- `matter_service_data` over the `AdStructures` iterator. `fuel` bounds the walk; running out of it is the
distinct error `WalkErr.fuel`, never the good value `none`. Returns the service data of the first Matter
UUID16 service-data structure, `none` if the walk ends (end of data, zero length, length beyond the data)
without finding one. -/
def matterServiceData : Nat → List Nat → Except WalkErr (Option (List Nat))
  | 0, _ => .error .fuel
  | fuel + 1, adv =>
    match adv with
    | [] => .ok none
    | len :: rest =>
      if len = 0 ∨ len > rest.length then .ok none
      else
        match splitAt rest len with
        | .error e => .error e
        | .ok (strct, rest') =>
          match strct with
          | [] => .ok none          -- `structure.split_first()?` (cannot happen: len ≥ 1)
          | ty :: payload =>
            if ty ≠ AD_TYPE_SERVICE_DATA_UUID16 then matterServiceData fuel rest'
            else match payload with
              | lo :: hi :: data =>
                if lo = MATTER_UUID16_LO ∧ hi = MATTER_UUID16_HI then .ok (some data) else matterServiceData fuel rest'
              | _ => matterServiceData fuel rest'

/-- `parse_adv`. An error of the walk (failed checked split, fuel exhausted) is not an answer of the Rust
code; it is reported as `Err.panic` so that `NoPanic (parseAdv adv)` covers "the walk terminates within
`len + 1` steps and its `split_at` is in range" (`matterServiceData_ok`). -/
def parseAdv (adv : List Nat) : Except Err (Option Adv) :=
  match matterServiceData (adv.length + 1) adv with
  | .error _ => .error .panic
  | .ok none => .ok none
  | .ok (some d) => parseServiceData d

def WF (a : Adv) : Prop := a.vid < 65536 ∧ a.pid < 65536 ∧ a.disc < 4096

end Codec.BleAdv
