import RsMatterVerif.Model.Codec.QrPayload
import RsMatterVerif.Model.Codec.BtpHdr
import RsMatterVerif.Model.Codec.Bdx
import RsMatterVerif.Model.Codec.CheckIn
import RsMatterVerif.Model.Codec.BleAdv
import Driver.C17U
/-! C17 driver, second batch of codecs (QR payload, BTP, BDX, check-in) and the unproved formats. -/
namespace Driver.C17More
open Codec Driver.C17U

/-! ### QR payload -/

def qrShow (r : Except Err QrPayload.Qr) (serial : String) : String :=
  match r with
  | .ok q => s!"ok {q.version} {q.vid} {q.pid} {q.flow} {q.rendezvous} {q.disc} {q.pass} {hex q.tlv} {serial}"
  | .error e => exErr e

/-- specification: which QR texts must be refused (written from the property text: missing prefix,
invalid base-38 character, impossible length class, too short for the fixed fields; the field-level rules —
version 0 only, undefined commissioning flow — are checked on the accepted payload in `stepQr`) -/
def qrSpecMustReject (s : List Nat) : Bool :=
  match QrPayload.stripPrefix s with
  | none => true
  | some body =>
    body.any (fun c => !(Base38.alphabet.contains c)) || body.length % 5 == 1 || body.length % 5 == 3 ||
    body.length < 18

def stepQr (op : List String) (out : String) : String :=
  match op with
  | ["rt", vid, pid, flow, rdv, disc, pass, serialH, extraH] =>
    match nats [vid, pid, flow, rdv, disc, pass], unhex serialH, unhex extraH with
    | some [vid, pid, flow, rdv, disc, pass], some serial, some extra =>
      let q : QrPayload.Qr := { version := 0, vid := vid, pid := pid, flow := flow, rendezvous := rdv,
                                disc := disc, pass := pass, tlv := QrPayload.tlvTail serial extra }
      -- the serial number is extracted by the TLV reader (property C16's model); the driver takes the
      -- implementation's word for it in the model line and checks it in the oracle
      let implSerial := match (words out).getLast? with | some w => w | none => ""
      let model := match QrPayload.encode q with
        | .ok cs => s!"{hex cs} {qrShow (QrPayload.parse cs 1024) implSerial}"
        | .error e => exErr e
      let ora : Option String :=
        if isPanic out then some "panic"
        else if disc < 4096 ∧ pass < 134217728 then
          let want := s!"ok 0 {vid} {pid} {flow} {rdv} {disc} {pass} {hex (QrPayload.tlvTail serial extra)} {serialH}"
          let got := (splitFirst out).2
          if got = want then none else some s!"round trip: want [{want}] got [{got}]"
        else none
      verdict model out ora
    | _, _, _ => "BAD args"
  | "dec" :: h :: capw =>
    match unhex h with
    | none => "BAD hex"
    | some s =>
      let cap := match capw with | [c] => c.toNat?.getD 1024 | _ => 1024
      let implSerial := match (words out).getLast? with | some w => w | none => ""
      let model := qrShow (QrPayload.parse s cap) implSerial
      let ora : Option String :=
        if isPanic out then some "decoder panicked"
        else if qrSpecMustReject s && !(out.startsWith "err ") then some "invalid QR text accepted"
        else match words out with
          | ["ok", v, _, _, f, _, _, _, _, _] =>
            if v ≠ "0" then some "QR payload with a version other than 0 (a future format) accepted"
            else if f = "0" ∨ f = "1" ∨ f = "2" then none else some "undefined commissioning flow accepted"
          | _ => none
      verdict model out ora
  | _ => "BAD op"

/-! ### BTP -/

def btpShow (r : Except Err (BtpHdr.Hdr × List Nat)) : String :=
  match r with
  | .ok (h, rest) =>
    let v := BtpHdr.view h
    s!"ok {v.flags} {optS v.opcode} {optS v.ack} {optS v.seq} {optS v.msgLen} {hex rest}"
  | .error e => exErr e

def optN (s : String) : Option Nat := if s = "-" then none else s.toNat?

def stepBtp (op : List String) (out : String) : String :=
  match op with
  | ["rt", seq, hs, opc, ack, len, cont, fin, ex] =>
    match unhex ex with
    | none => "BAD hex"
    | some extra =>
      let h : BtpHdr.Hdr := {}
      let h := match optN seq with | some s => BtpHdr.setSeq h (some (s % 256)) | none => h
      let h := if hs = "1" then BtpHdr.setHandshake h else h
      let h := match optN opc with | some o => BtpHdr.setOpcode h (some (o % 256)) | none => h
      let h := match optN ack with | some a => BtpHdr.setAck h (some (a % 256)) | none => h
      let h := match optN len with | some n => BtpHdr.setMsgLen h (some (n % 65536)) | none => h
      let h := if cont = "1" then BtpHdr.setContinue h else h
      let h := if fin = "1" then BtpHdr.setFinal h else h
      let bytes := BtpHdr.encodeBytes h
      let model := s!"{hex bytes} {btpShow (BtpHdr.decode {} (bytes ++ extra))}"
      -- oracle (from the setters' contract): what was set is what is decoded
      let isHs := hs = "1" || (optN seq).isNone && false
      let wantSeq := if isHs then "-" else match optN seq with | some s => toString (s % 256) | none => "0"
      let wantOp := match optN opc with | some o => toString (o % 256) | none => "-"
      let wantAck := match optN ack with | some a => toString (a % 256) | none => "-"
      let wantLen := if isHs then "-" else match optN len with | some n => toString (n % 65536) | none => "-"
      let ora : Option String :=
        if isPanic out then some "panic" else
        match words out with
        | [_, "ok", _, o, a, s, l, rest] =>
          if o = wantOp ∧ a = wantAck ∧ s = wantSeq ∧ l = wantLen ∧ rest = ex then none
          else some s!"round trip: op={o} ack={a} seq={s} len={l} rest={rest}"
        | _ => some s!"round trip failed: {out}"
      verdict model out ora
  | ["dec", h] =>
    match unhex h with
    | none => "BAD hex"
    | some bs => verdict (btpShow (BtpHdr.decode {} bs)) out (if isPanic out then some "decoder panicked" else none)
  | ["req", v, m, w] =>
    match nats [v, m, w] with
    | some [v, m, w] =>
      let bytes := BtpHdr.Req.encodeBytes { versions := v, mtu := m, window := w }
      let model := match BtpHdr.Req.decode bytes with
        | .ok (r, _) => s!"{hex bytes} ok {r.versions} {r.mtu} {r.window}"
        | .error e => s!"{hex bytes} {exErr e}"
      let want := s!"ok {v} {m} {w}"
      verdict model out (if (splitFirst out).2 = want then none else some s!"round trip: want [{want}]")
    | _ => "BAD args"
  | ["decreq", h] =>
    match unhex h with
    | none => "BAD hex"
    | some bs =>
      let model := match BtpHdr.Req.decode bs with
        | .ok (r, _) => s!"ok {r.versions} {r.mtu} {r.window}"
        | .error e => exErr e
      verdict model out (if isPanic out then some "decoder panicked" else none)
  | ["resp", v, m, w] =>
    match nats [v, m, w] with
    | some [v, m, w] =>
      let bytes := BtpHdr.Resp.encodeBytes { version := v, mtu := m, window := w }
      let model := match BtpHdr.Resp.decode bytes with
        | .ok (r, _) => s!"{hex bytes} ok {r.version} {r.mtu} {r.window}"
        | .error e => s!"{hex bytes} {exErr e}"
      let want := s!"ok {v} {m} {w}"
      verdict model out (if (splitFirst out).2 = want then none else some s!"round trip: want [{want}]")
    | _ => "BAD args"
  | ["decresp", h] =>
    match unhex h with
    | none => "BAD hex"
    | some bs =>
      let model := match BtpHdr.Resp.decode bs with
        | .ok (r, _) => s!"ok {r.version} {r.mtu} {r.window}"
        | .error e => exErr e
      verdict model out (if isPanic out then some "decoder panicked" else none)
  | _ => "BAD op"

/-! ### BDX -/

def tcOf (b : Nat) : Bdx.TransferControl := Bdx.TransferControl.fromByte b
def rcOf (b : Nat) : Bdx.RangeControl := Bdx.RangeControl.fromByte b

def initShow (r : Except Err Bdx.TransferInit) : String :=
  match r with
  | .ok t => s!"ok {t.tc.toByte} {t.rc.toByte} {t.maxBlockSize} {t.startOffset} {t.length} {hex t.fileDesignator} {hex t.metadata}"
  | .error e => exErr e

def acceptShow (r : Except Err Bdx.TransferAccept) : String :=
  match r with
  | .ok t => s!"ok {t.tc.toByte} {t.rc.toByte} {t.maxBlockSize} {t.length} {hex t.metadata}"
  | .error e => exErr e

def np (out : String) : Option String := if isPanic out then some "decoder panicked" else none

def stepBdx (op : List String) (out : String) : String :=
  match op with
  | ["init", tc, rc, mbs, so, len, fd, md] =>
    match nats [tc, rc, mbs, so, len], unhex fd, unhex md with
    | some [tc, rc, mbs, so, len], some fdb, some mdb =>
      let t : Bdx.TransferInit := { tc := tcOf tc, rc := rcOf rc, maxBlockSize := mbs, startOffset := so, length := len,
                                    fileDesignator := fdb, metadata := mdb }
      let bytes := t.writeBytes
      let model := s!"{hex bytes} {initShow (Bdx.TransferInit.parse bytes)}"
      -- legal = the fields the flags announce fit their width and absent fields are 0
      let wide := rc / 16 % 2 = 1
      let fits := fun (present : Bool) (x : Nat) => if present then (wide || x < 4294967296) else x = 0
      let legal := fits (rc / 2 % 2 = 1) so && fits (rc % 2 = 1) len
      let ora : Option String :=
        if isPanic out then some "panic"
        else if legal then
          let want := s!"ok {tc} {rc} {mbs} {so} {len} {fd} {md}"
          if (splitFirst out).2 = want then none else some s!"round trip: want [{want}]"
        else none
      verdict model out ora
    | _, _, _ => "BAD args"
  | ["decinit", h] =>
    match unhex h with
    | none => "BAD hex"
    | some bs => verdict (initShow (Bdx.TransferInit.parse bs)) out (np out)
  | ["accept", recv, tc, rc, mbs, len, md] =>
    match nats [recv, tc, rc, mbs, len], unhex md with
    | some [recv, tc, rc, mbs, len], some mdb =>
      let t : Bdx.TransferAccept := { receive := recv = 1, tc := tcOf tc, rc := rcOf rc, maxBlockSize := mbs, length := len, metadata := mdb }
      let bytes := t.writeBytes
      let model := s!"{hex bytes} {acceptShow (Bdx.TransferAccept.parse (recv = 1) bytes)}"
      let want := s!"ok {tc} {rc} {mbs} {len} {md}"
      let ora : Option String :=
        if isPanic out then some "panic"
        else if (splitFirst out).2 = want then none else some s!"round trip: want [{want}]"
      verdict model out ora
    | _, _ => "BAD args"
  | ["decaccept", recv, h] =>
    match unhex h with
    | none => "BAD hex"
    | some bs => verdict (acceptShow (Bdx.TransferAccept.parse (recv = "1") bs)) out (np out)
  | ["block", c, d] =>
    match c.toNat?, unhex d with
    | some c, some db =>
      let bytes := (Bdx.Block.mk c db).writeBytes
      let model := match Bdx.Block.parse bytes with
        | .ok b => s!"{hex bytes} ok {b.counter} {hex b.data}"
        | .error e => s!"{hex bytes} {exErr e}"
      let want := s!"ok {c} {d}"
      verdict model out (if (splitFirst out).2 = want then none else some s!"round trip: want [{want}]")
    | _, _ => "BAD args"
  | ["decblock", h] =>
    match unhex h with
    | none => "BAD hex"
    | some bs =>
      let model := match Bdx.Block.parse bs with
        | .ok b => s!"ok {b.counter} {hex b.data}"
        | .error e => exErr e
      verdict model out (np out)
  | ["query", c] =>
    match c.toNat? with
    | some c =>
      let bytes := le32 c
      let model := match Bdx.blockQueryParse bytes with
        | .ok x => s!"{hex bytes} ok {x}"
        | .error e => s!"{hex bytes} {exErr e}"
      verdict model out (if (splitFirst out).2 = s!"ok {c}" then none else some "round trip")
    | none => "BAD args"
  | ["decquery", h] =>
    match unhex h with
    | none => "BAD hex"
    | some bs =>
      let model := match Bdx.blockQueryParse bs with
        | .ok x => s!"ok {x}"
        | .error e => exErr e
      verdict model out (np out)
  | ["skip", c, s] =>
    match c.toNat?, s.toNat? with
    | some c, some s =>
      let bytes := le32 c ++ le64 s
      let model := match Bdx.blockQuerySkipParse bytes with
        | .ok (x, y) => s!"{hex bytes} ok {x} {y}"
        | .error e => s!"{hex bytes} {exErr e}"
      verdict model out (if (splitFirst out).2 = s!"ok {c} {s}" then none else some "round trip")
    | _, _ => "BAD args"
  | ["decskip", h] =>
    match unhex h with
    | none => "BAD hex"
    | some bs =>
      let model := match Bdx.blockQuerySkipParse bs with
        | .ok (x, y) => s!"ok {x} {y}"
        | .error e => exErr e
      verdict model out (np out)
  | _ => "BAD op"

/-! ### check-in (the cryptography is not executable in the driver: framing and oracle only) -/

def stepCheckIn (op : List String) (out : String) : String :=
  match op with
  | "rt" :: _key :: ctr :: app :: capw =>
    match ctr.toNat?, unhex app with
    | some c, some appb =>
      let need := CheckIn.MIN_PAYLOAD_LEN + appb.length
      let cap := match capw with | [x] => x.toNat?.getD (appb.length + 64) | _ => appb.length + 64
      if cap < need then verdict "err BufferTooSmall" out (if isPanic out then some "panic" else none)
      else
        match words out with
        | [p, "ok", c', a'] =>
          if c' ≠ toString c ∨ a' ≠ app then s!"ORA round trip returned counter={c'} app={a'}"
          else if p.length ≠ 2 * need then s!"DIS payload of {need} bytes"
          else "ok"
        | _ => s!"ORA round trip of a check-in message failed: {out}"
    | _, _ => "BAD args"
  | ["dec", _key, p] =>
    match unhex p with
    | none => "BAD hex"
    | some pb =>
      if isPanic out then "ORA decoder panicked"
      else if pb.length < CheckIn.MIN_PAYLOAD_LEN then verdict "err Invalid" out none
      else if out.startsWith "ok " ∨ out = "err Invalid" ∨ out = "err InvalidData" then "ok"
      else s!"DIS ok/err Invalid/err InvalidData"
  | _ => "BAD op"

/-! ### formats without a Lean model: implementation-side oracle only -/

def strHex (s : String) : String := hex (s.toUTF8.toList.map (·.toNat))

def ipv4Str (ip : Nat) : String :=
  s!"{ip / 16777216 % 256}.{ip / 65536 % 256}.{ip / 256 % 256}.{ip % 256}"

def advShow (r : Except Err (Option BleAdv.Adv)) : String :=
  match r with
  | .ok (some a) => s!"ok {a.vid} {a.pid} {a.disc} {if a.additional then 1 else 0}"
  | .ok none => "none"
  | .error e => exErr e

/-- commissionable advertisement: modelled (`Model/Codec/BleAdv.lean`). The recovery advertisement (`rrt` and its half of
`dec`) is modelled too (`Model/Codec/BleRecovery.lean`) and answered by `Driver.C17Discovery.stepAdv`, which calls this
function for `rt` and for the `AdvData` half of `dec`; the `rrt` branch below (oracle only) predates it and is no longer
reached from `Driver.C17` -/
def stepAdv (op : List String) (out : String) : String :=
  if isPanic out then "ORA decoder panicked" else
  match op with
  | ["rt", vid, pid, disc] =>
    match nats [vid, pid, disc] with
    | some [v, p, d] =>
      let a : BleAdv.Adv := { vid := v, pid := p, disc := d, additional := false }
      let full := BleAdv.encode a
      let svc := BleAdv.servicePayload a
      let model := s!"{hex full} {advShow (BleAdv.parseAdv full)} | {hex svc} {advShow (BleAdv.parseServiceData svc)}"
      let ora : Option String :=
        if d < 4096 then
          let want := s!"ok {v} {p} {d} 0"
          match out.splitOn " | " with
          | [x, y] =>
            if (splitFirst x).2 = want ∧ (splitFirst y).2 = want then none
            else some s!"advertisement round trip: want [{want}] got [{out}]"
          | _ => some s!"advertisement round trip failed: {out}"
        else none
      verdict model out ora
    | _ => "BAD args"
  | ["rrt", id] =>
    let want := s!"ok {id} 0"
    match out.splitOn " | " with
    | [a, b] =>
      if (splitFirst a).2 = want ∧ (splitFirst b).2 = want then "ok"
      else s!"ORA recovery advertisement round trip: want [{want}] got [{out}]"
    | _ => s!"ORA recovery advertisement round trip failed: {out}"
  | ["dec", h] =>
    match unhex h, out.splitOn " | " with
    | some bs, [a, b, _, _] =>
      let model := s!"{advShow (BleAdv.parseAdv bs)} | {advShow (BleAdv.parseServiceData bs)}"
      verdict model s!"{a} | {b}" none
    | _, _ => "BAD dec"
  | _ => "BAD op"

def stepMdns (op : List String) (out : String) : String :=
  if isPanic out then "ORA decoder panicked or did not terminate" else
  match op with
  | ["rt", name, port, _host, ip, _ip6, txt, _subs] =>
    match unhex name, port.toNat?, ip.toNat? with
    | some nb, some p, some ipn =>
      let txtLen := txt.length / 2
      if out.startsWith "err " then
        if txtLen > 900 then "ok" else s!"ORA legal service record could not be encoded: {out}"
      else
        let wantName := hex (nb ++ "._matterc._udp.local".toUTF8.toList.map (·.toNat))
        let wantTxt := if txt = "-" then "[]" else s!"[{txt}]"
        match words out with
        | [_, "ok", n, pt, t, addrs, scope] =>
          if n ≠ wantName then s!"ORA instance name: want {wantName} got {n}"
          else if pt ≠ toString p then s!"ORA port: want {p} got {pt}"
          else if t ≠ wantTxt then s!"ORA TXT records: want {wantTxt} got {t}"
          else if scope ≠ "3" then s!"ORA scope id {scope}"
          else if ipn ≠ 0 ∧ !((addrs.splitOn (ipv4Str ipn)).length > 1) then s!"ORA IPv4 address {ipv4Str ipn} missing in {addrs}"
          else "ok"
        | _ => s!"ORA service record round trip failed: {out}"
    | _, _, _ => "BAD args"
  | ["dec", _] => "ok"
  | _ => "BAD op"

def stepCert (op : List String) (out : String) : String :=
  if isPanic out then "ORA converter panicked or did not terminate" else
  match op with
  | ["vec", _] =>
    match words out with
    | ["ok", _, k1, "der-ok", k2] =>
      if (k1.splitOn "=").getLast? = (k2.splitOn "=").getLast? then "ok"
      else s!"ORA public key of the DER differs from the TLV one: {k1} {k2}"
    | _ => s!"ORA certificate vector not converted as expected: {out.take 80}"
  | ["dec", _] => "ok"
  | ["small", _, _] => "ok"
  | _ => "BAD op"

def step (kind : String) (op : List String) (out : String) : Option String :=
  match kind with
  | "qr" => some (stepQr op out)
  | "btp" => some (stepBtp op out)
  | "bdx" => some (stepBdx op out)
  | "checkin" => some (stepCheckIn op out)
  | "adv" => some (stepAdv op out)
  | "mdns" => some (stepMdns op out)
  | "cert" => some (stepCert op out)
  | _ => none

end Driver.C17More
