import RsMatterVerif.Model.Codec.BleAdv
import RsMatterVerif.Lemmas.CodecBuf
/-! # Lemmas about the BLE advertisement payload (`Model/Codec/BleAdv.lean`) -/
namespace Codec.BleAdv
open Codec

/-- **BLE advertisement: `parse_service_data (service_payload a) = a` and `parse_adv (iter a) = a`** -/
theorem parse_encode (a : Adv) (hwf : WF a) :
    parseServiceData (servicePayload a) = .ok (some a) ∧ parseAdv (encode a) = .ok (some a) := by
  obtain ⟨vid, pid, disc, ad⟩ := a
  obtain ⟨hv, hp, hd⟩ := hwf
  simp only at hv hp hd
  have e1 : (disc % 256 + 256 * (disc / 256 % 256)) % 4096 = disc := by omega
  have e2 : vid % 256 + 256 * (vid / 256 % 256) = vid := by omega
  have e3 : pid % 256 + 256 * (pid / 256 % 256) = pid := by omega
  have hs : parseServiceData (servicePayload ⟨vid, pid, disc, ad⟩) = .ok (some ⟨vid, pid, disc, ad⟩) := by
    cases ad <;> simp [parseServiceData, servicePayload, e1, e2, e3]
  refine ⟨hs, ?_⟩
  have hm : matterServiceData ((encode ⟨vid, pid, disc, ad⟩).length + 1) (encode ⟨vid, pid, disc, ad⟩)
      = .ok (some (servicePayload ⟨vid, pid, disc, ad⟩)) := by
    simp [encode, servicePayload, matterServiceData, splitAt, AD_TYPE_SERVICE_DATA_UUID16, MATTER_UUID16_LO, MATTER_UUID16_HI]
  simp only [parseAdv, hm, hs]

/-- **BLE advertisement: the parsers are total and never panic** -/
theorem parseServiceData_np (p : List Nat) : NoPanic (parseServiceData p) := by
  unfold parseServiceData
  split
  · exact NoPanic.ok _
  · rename_i hl
    split
    · split <;> exact NoPanic.ok _
    · rename_i hne
      exfalso
      match p, hl, hne with
      | [], hl, _ | [_], hl, _ | [_, _], hl, _ | [_, _, _], hl, _ | [_, _, _, _], hl, _ | [_, _, _, _, _], hl, _
      | [_, _, _, _, _, _], hl, _ | [_, _, _, _, _, _, _], hl, _ => simp at hl
      | a :: b :: c :: d :: e :: f :: g :: h :: r, _, hne => exact hne a b c d e f g h r rfl

/-- **the `AdStructures` walk terminates and its `split_at` is in range**: with more fuel than bytes the
model never answers `WalkErr.fuel` (each step consumes the length octet and at least one more byte) nor
`WalkErr.panic` (the split is guarded by `len > rest.len()`) -/
theorem matterServiceData_ok_aux : ∀ (fuel : Nat) (adv : List Nat), adv.length < fuel →
    ∃ r, matterServiceData fuel adv = .ok r := by
  intro fuel
  induction fuel with
  | zero => intro adv h; omega
  | succ fuel ih =>
    intro adv h
    unfold matterServiceData
    match adv, h with
    | [], _ => exact ⟨_, rfl⟩
    | len :: rest, h =>
      simp only
      by_cases hc : len = 0 ∨ len > rest.length
      · rw [if_pos hc]; exact ⟨_, rfl⟩
      · rw [if_neg hc]
        have hle : len ≤ rest.length := by omega
        have hrec : (rest.drop len).length < fuel := by
          simp only [List.length_drop, List.length_cons] at h ⊢; omega
        simp only [splitAt, if_pos hle]
        split
        · exact ⟨_, rfl⟩
        · split
          · exact ih _ hrec
          · split
            · split
              · exact ⟨_, rfl⟩
              · exact ih _ hrec
            · exact ih _ hrec

theorem matterServiceData_ok (adv : List Nat) : ∃ r, matterServiceData (adv.length + 1) adv = .ok r :=
  matterServiceData_ok_aux _ adv (Nat.lt_succ_self _)

theorem matterServiceData_no_fuel (adv : List Nat) :
    matterServiceData (adv.length + 1) adv ≠ .error .fuel ∧ matterServiceData (adv.length + 1) adv ≠ .error .panic := by
  obtain ⟨r, h⟩ := matterServiceData_ok adv
  rw [h]; exact ⟨by simp, by simp⟩

/-- the fuel error is a real answer of the model when the fuel is too small (so the theorem above is not
vacuous): two structures need two steps -/
example : matterServiceData 1 [2, 1, 6, 2, 1, 6] = .error .fuel := rfl

theorem parseAdv_np (adv : List Nat) : NoPanic (parseAdv adv) := by
  unfold parseAdv
  obtain ⟨r, h⟩ := matterServiceData_ok adv
  rw [h]
  cases r with
  | none => exact NoPanic.ok _
  | some d => exact parseServiceData_np _

example : WF { vid := 0xFFF1, pid := 0x8000, disc := 0xF00, additional := false } := by
  refine ⟨by decide, by decide, by decide⟩

end Codec.BleAdv
