import RsMatterVerif.Lemmas.CodecX509Round
namespace Codec.DerRd

/-!
# Soundness of acceptance and refusals of `X509Cert::new` (`Model/Codec/X509.lean`)

`x509New_ok` + `extCheck_sound` + `validateIssuerSubject_sound`: whatever the parser accepts satisfies the profile of
its certificate type, i.e. everything else is refused; `x509New_trailing`: trailing bytes are refused.
-/

theorem Dec.bind_ok {α β : Type} {p : Dec α} {f : α → Dec β} {r r' : Rdr} {b : β} (h : (p >>= f) r = .ok (b, r')) :
    ∃ a r1, p r = .ok (a, r1) ∧ f a r1 = .ok (b, r') := by
  rw [Dec.bind_run] at h
  cases hp : p r with
  | error e => simp [hp] at h
  | ok x => obtain ⟨a, r1⟩ := x; simp only [hp] at h; exact ⟨a, r1, rfl, h⟩

theorem dNested_ok {α : Type} {len : Nat} {p : Dec α} {r r' : Rdr} {a : α} (h : dNested len p r = .ok (a, r')) :
    ∃ n n', p n = .ok (a, n') := by
  unfold dNested readNested at h
  cases hn : nestedNew r len with
  | error e => simp [hn, Bind.bind, Except.bind] at h
  | ok n =>
    simp only [hn, Bind.bind, Except.bind] at h
    cases hp : p n with
    | error e => simp [hp] at h
    | ok x =>
      obtain ⟨a', n'⟩ := x
      simp only [hp] at h
      cases hf : n'.finish with
      | error e => simp [hf] at h
      | ok u =>
        simp only [hf] at h
        cases n' with
        | slice _ _ => simp at h
        | nested i l q =>
          simp only [Pure.pure, Except.pure, Except.ok.injEq, Prod.mk.injEq] at h
          exact ⟨n, _, by rw [hp, h.1]⟩

theorem Dec.lift_ok {α : Type} {x : Except E α} {r r' : Rdr} {a : α} (h : Dec.lift x r = .ok (a, r')) : x = .ok a := by
  unfold Dec.lift at h
  cases x with
  | error e => simp at h
  | ok y => simp only [Except.ok.injEq, Prod.mk.injEq] at h; rw [h.1]

theorem Dec.fail_ok {α : Type} {e : E} {r r' : Rdr} {a : α} (h : (Dec.fail e : Dec α) r = .ok (a, r')) : False := by
  simp [Dec.fail] at h

theorem Dec.pure_ok {α : Type} {a b : α} {r r' : Rdr} (h : (pure a : Dec α) r = .ok (b, r')) : b = a := by
  rw [Dec.pure_run] at h
  simp only [Except.ok.injEq, Prod.mk.injEq] at h
  exact h.1.symm

theorem ctxWith_ok {α : Type} {n : Nat} {f : Dec α} : ∀ (fuel : Nat) {r r' : Rdr} {a : α},
    ctxWith n f fuel r = .ok (some a, r') → ∃ r1 r2, f r1 = .ok (a, r2)
  | 0, r, r', a, h => by simp [ctxWith, Dec.fail] at h
  | fuel + 1, r, r', a, h => by
    unfold ctxWith at h
    obtain ⟨o, r1, _, h⟩ := Dec.bind_ok h
    cases o with
    | none => simp only at h; have := Dec.pure_ok h; simp at this
    | some b =>
      simp only at h
      obtain ⟨t, r2, _, h⟩ := Dec.bind_ok h
      split at h
      · have := Dec.pure_ok h; simp at this
      · split at h
        · obtain ⟨a', r3, hf, h⟩ := Dec.bind_ok h
          have := Dec.pure_ok h
          simp only [Option.some.injEq] at this
          subst this
          exact ⟨_, _, hf⟩
        · obtain ⟨_, r3, _, h⟩ := Dec.bind_ok h
          exact ctxWith_ok fuel h

theorem ctxExplicit_ok {α : Type} {inner : Dec α} {r r' : Rdr} {a : α} (h : ctxExplicit inner r = .ok (a, r')) :
    ∃ r1 r2, inner r1 = .ok (a, r2) := by
  unfold ctxExplicit at h
  obtain ⟨x, r1, _, h⟩ := Dec.bind_ok h
  obtain ⟨t, len⟩ := x
  simp only at h
  split at h
  · exact dNested_ok h
  · exact absurd h (fun h => Dec.fail_ok h)

theorem dExtensions_ok {k : CertKind} {fuel : Nat} {r r' : Rdr} {e : Exts} (h : dExtensions k fuel r = .ok (e, r')) :
    ∃ f, extCheck k f = .ok e := by
  unfold dExtensions at h
  obtain ⟨len, r1, _, h⟩ := Dec.bind_ok h
  obtain ⟨n, n', h⟩ := dNested_ok h
  obtain ⟨f, r2, _, h⟩ := Dec.bind_ok h
  exact ⟨f, Dec.lift_ok h⟩

/-- the checks behind an accepted `TbsCertificate` -/
theorem dTbs_ok {k : CertKind} {fuel : Nat} {r r' : Rdr} {c : Cert} (h : dTbs k fuel r = .ok (c, r')) :
    ∃ (f : ExtFields) (e : Exts) (issuer subject : DnAttrs) (ir sr : List Nat),
      extCheck k f = .ok e ∧ validateIssuerSubject k issuer subject ir sr = .ok () ∧
      c.skid = e.skid ∧ c.akid = e.akid ∧ c.vid = subject.vid ∧ c.pid = subject.pid := by
  unfold dTbs at h
  obtain ⟨len, r1, _, h⟩ := Dec.bind_ok h
  obtain ⟨n, n', h⟩ := dNested_ok h
  obtain ⟨o, r2, _, h⟩ := Dec.bind_ok h
  cases o with
  | none => exact absurd h (fun h => Dec.fail_ok h)
  | some version =>
    simp only at h
    split at h
    · exact absurd h (fun h => Dec.fail_ok h)
    · obtain ⟨serial, r3, _, h⟩ := Dec.bind_ok h
      obtain ⟨x, r4, _, h⟩ := Dec.bind_ok h
      obtain ⟨sigAlg, sp⟩ := x
      simp only at h
      split at h
      · exact absurd h (fun h => Dec.fail_ok h)
      · obtain ⟨x, r5, _, h⟩ := Dec.bind_ok h
        obtain ⟨issuerRaw, issuer⟩ := x
        simp only at h
        obtain ⟨x, r6, _, h⟩ := Dec.bind_ok h
        obtain ⟨nb, na⟩ := x
        simp only at h
        obtain ⟨x, r7, _, h⟩ := Dec.bind_ok h
        obtain ⟨subjectRaw, subject⟩ := x
        simp only at h
        obtain ⟨x, r8, _, h⟩ := Dec.bind_ok h
        obtain ⟨params, key⟩ := x
        simp only at h
        split at h
        · exact absurd h (fun h => Dec.fail_ok h)
        · cases params with
          | none => exact absurd h (fun h => Dec.fail_ok h)
          | some p =>
            simp only at h
            cases ho : oidOfAny p with
            | error e => simp only [ho] at h; exact absurd h (fun h => Dec.fail_ok h)
            | ok curve =>
              simp only [ho] at h
              split at h
              · exact absurd h (fun h => Dec.fail_ok h)
              · obtain ⟨o, r9, hext, h⟩ := Dec.bind_ok h
                cases o with
                | none => exact absurd h (fun h => Dec.fail_ok h)
                | some exts =>
                  simp only at h
                  obtain ⟨u, r10, hval, h⟩ := Dec.bind_ok h
                  have hc := Dec.pure_ok h
                  obtain ⟨ra, rb, hce⟩ := ctxWith_ok _ hext
                  obtain ⟨rc, rd, hde⟩ := ctxExplicit_ok hce
                  obtain ⟨f, hf⟩ := dExtensions_ok hde
                  have hv := Dec.lift_ok hval
                  refine ⟨f, exts, issuer, subject, issuerRaw, subjectRaw, hf, ?_, ?_, ?_, ?_, ?_⟩
                  · cases u; exact hv
                  all_goals (subst hc; rfl)

theorem mapInvalidData_ok {α : Type} {x : Except E α} {y : α} (h : mapInvalidData x = .ok y) : x = .ok y := by
  cases x with
  | ok z => simpa [mapInvalidData] using h
  | error e =>
    unfold mapInvalidData at h
    simp only at h
    split at h
    · simp at h
    · split at h <;> simp at h

theorem fromDer_ok {α : Type} {bytes : List Nat} {p : Dec α} {a : α} (h : fromDer bytes p = .ok a) :
    ∃ r r', p r = .ok (a, r') := by
  unfold fromDer at h
  split at h
  · simp at h
  · rename_i r _
    split at h
    · simp at h
    · rename_i a' r' hp
      split at h
      · simp only [Except.ok.injEq] at h; subst h; exact ⟨r, r', hp⟩
      · simp at h

/-- **whatever `X509Cert::new` accepts passed the extension requirements of its certificate type and the issuer /
subject rules** -/
theorem x509New_ok {k : CertKind} {data : List Nat} {c : Cert} (h : x509New k data = .ok c) :
    ∃ (f : ExtFields) (e : Exts) (issuer subject : DnAttrs) (ir sr : List Nat),
      extCheck k f = .ok e ∧ validateIssuerSubject k issuer subject ir sr = .ok () ∧
      c.skid = e.skid ∧ c.akid = e.akid ∧ c.vid = subject.vid ∧ c.pid = subject.pid := by
  unfold x509New at h
  obtain ⟨r, r', h⟩ := fromDer_ok (mapInvalidData_ok h)
  unfold dCertificate at h
  obtain ⟨len, r1, _, h⟩ := Dec.bind_ok h
  obtain ⟨n, n', h⟩ := dNested_ok h
  obtain ⟨tbs, r2, htbs, h⟩ := Dec.bind_ok h
  obtain ⟨_, r3, _, h⟩ := Dec.bind_ok h
  obtain ⟨_, r4, _, h⟩ := Dec.bind_ok h
  have := Dec.pure_ok h
  subst this
  exact dTbs_ok htbs

/-- what the extension checks demand, per certificate type (Matter 6.2.2.3 - 6.2.2.5) -/
def extProfile (k : CertKind) (ca : Bool) (pl : Option Nat) (bits : Nat) (hasAkid : Bool) : Prop :=
  match k with
  | .dac => ca = false ∧ bits = KU_DIGITAL_SIGNATURE ∧ hasAkid = true
  | .pai => ca = true ∧ pl = some 0 ∧ Nat.land bits KU_KEY_CERT_SIGN ≠ 0 ∧ Nat.land bits KU_CRL_SIGN ≠ 0 ∧
      Nat.land bits (65535 - (KU_KEY_CERT_SIGN + KU_CRL_SIGN + KU_DIGITAL_SIGNATURE)) = 0 ∧ hasAkid = true
  | .paa => ca = true ∧ (pl = none ∨ pl = some 1) ∧ Nat.land bits KU_KEY_CERT_SIGN ≠ 0 ∧ Nat.land bits KU_CRL_SIGN ≠ 0 ∧
      Nat.land bits (65535 - (KU_KEY_CERT_SIGN + KU_CRL_SIGN + KU_DIGITAL_SIGNATURE)) = 0

/-- **accepted extensions satisfy the profile**: BasicConstraints and KeyUsage present and critical, the subject key
identifier present, and the type-specific requirements -/
theorem extCheck_sound {k : CertKind} {f : ExtFields} {e : Exts} (h : extCheck k f = .ok e) :
    ∃ ca pl bits sc, f.bc = some (true, (ca, pl)) ∧ f.ku = some (true, bits) ∧ f.skid = some (sc, e.skid) ∧
      e.akid = f.akid.map (·.2) ∧ extProfile k ca pl bits f.akid.isSome := by
  unfold extCheck at h
  split at h
  · rename_i bcCrit ca pl kuCrit bits sc skid hbc hku hsk
    split at h
    · rename_i hc
      simp only [Except.ok.injEq] at h
      subst h
      simp only [Bool.and_eq_true, Bool.or_eq_true, beq_iff_eq] at hc
      obtain ⟨hak, hreq⟩ := hc
      cases k with
      | dac =>
        simp only [extReqOk, Bool.and_eq_true, Bool.not_eq_true', bne_iff_ne, ne_eq, beq_iff_eq] at hreq
        obtain ⟨⟨⟨⟨h1, h2⟩, h3⟩, _⟩, h5⟩ := hreq
        subst h1 h3
        refine ⟨ca, pl, bits, sc, hbc, hku, hsk, rfl, h2, h5, ?_⟩
        rcases hak with hak | hak
        · cases hak
        · exact hak
      | pai =>
        simp only [extReqOk, Bool.and_eq_true, bne_iff_ne, ne_eq, beq_iff_eq] at hreq
        obtain ⟨⟨⟨⟨⟨h1, h2⟩, h3⟩, h4⟩, h5, h6⟩, h7⟩ := hreq
        subst h1 h4
        refine ⟨ca, pl, bits, sc, hbc, hku, hsk, rfl, h2, h3, h5, h6, h7, ?_⟩
        rcases hak with hak | hak
        · cases hak
        · exact hak
      | paa =>
        simp only [extReqOk, Bool.and_eq_true, Bool.not_eq_true', bne_iff_ne, ne_eq, beq_iff_eq] at hreq
        obtain ⟨⟨⟨⟨⟨h1, h2⟩, h3⟩, h4⟩, h5, h6⟩, h7⟩ := hreq
        subst h1 h4
        refine ⟨ca, pl, bits, sc, hbc, hku, hsk, rfl, h2, ?_, h5, h6, h7⟩
        cases pl with
        | none => exact Or.inl rfl
        | some p =>
          simp only [paaPathLenBad, bne_eq_false_iff_eq] at h3
          exact Or.inr (by rw [h3])
    · simp at h
  · simp at h

/-- the issuer / subject rules per certificate type (Matter 6.2.2.3 - 6.2.2.5) -/
def dnProfile (k : CertKind) (issuer subject : DnAttrs) (ir sr : List Nat) : Prop :=
  match k with
  | .dac => (∃ v, issuer.vid = some v ∧ subject.vid = some v) ∧ subject.pid.isSome ∧
      (∀ p, issuer.pid = some p → subject.pid = some p)
  | .pai => subject.vid.isSome ∧ (∀ v, issuer.vid = some v → subject.vid = some v)
  | .paa => issuer.pid = none ∧ subject.pid = none ∧ ir = sr

/-- **accepted names satisfy the issuer / subject rules** of the certificate type -/
theorem validateIssuerSubject_sound {k : CertKind} {issuer subject : DnAttrs} {ir sr : List Nat}
    (h : validateIssuerSubject k issuer subject ir sr = .ok ()) : dnProfile k issuer subject ir sr := by
  unfold dnProfile
  unfold validateIssuerSubject at h
  cases k with
  | dac =>
    simp only at h ⊢
    split at h
    · rename_i ivid svid spid h1 h2 h3
      split at h
      · simp at h
      · rename_i hne
        have hv : ivid = svid := by simpa using hne
        subst hv
        refine ⟨⟨ivid, h1, h2⟩, by simp [h3], fun p hp => ?_⟩
        rw [hp] at h
        simp only at h
        split at h
        · simp at h
        · rename_i hne2
          rw [h3]; simp only [Option.some.injEq]; exact (by simpa using hne2 : p = spid).symm
    · simp at h
  | pai =>
    simp only at h ⊢
    split at h
    · simp at h
    · rename_i svid hs
      refine ⟨by simp [hs], fun v hv => ?_⟩
      rw [hv] at h
      simp only at h
      split at h
      · simp at h
      · rename_i hne
        rw [hs]; simp only [Option.some.injEq]; exact (by simpa using hne : v = svid).symm
  | paa =>
    simp only at h ⊢
    split at h
    · simp at h
    · rename_i hp
      split at h
      · simp at h
      · rename_i hraw
        simp only [Bool.or_eq_true, Option.isSome_iff_ne_none, ne_eq, not_or] at hp
        exact ⟨Classical.not_not.mp hp.1, Classical.not_not.mp hp.2, by simpa using hraw⟩

/-! ## refusals -/

theorem fromDer_trailing {α : Type} {p : Dec α} {bytes rest : List Nat} {Q : α → Prop}
    (hp : Run p (bytes ++ rest) Q rest) (hr : rest ≠ []) (hlen : (bytes ++ rest).length ≤ MAX_LEN) :
    fromDer (bytes ++ rest) p = .error .trailingData := by
  have hx := NextX.ofSlice hlen
  obtain ⟨a, pre, _, hl, hpr⟩ := hp _ hx
  have hpre : pre = bytes := (List.append_cancel_right hl).symm
  subst hpre
  unfold fromDer Rdr.new
  rw [lenNew_of_le hlen]
  simp only [Bind.bind, Except.bind, Pure.pure, Except.pure, hpr]
  have hwf := (hx.adv (x := pre) (rest := rest)).next.wf
  unfold Rdr.finish
  rw [isFinished_ok hwf]
  have hne : rest.length ≠ 0 := fun h => hr (List.length_eq_zero_iff.mp h)
  simp [Rdr.adv, Rdr.inputLen, Rdr.position, Bind.bind, Except.bind, hne]

theorem run_certificate_rest {k : CertKind} {fuel : Nat} {c : CertSpec} {rest : List Nat} {idn sdn : DnAttrs} {s : List Nat}
    {a : Option (List Nat)} (hwf : c.WF)
    (hi : dnFold c.issuer { vid := none, pid := none } = some idn)
    (hs : dnFold c.subject { vid := none, pid := none } = some sdn)
    (hext : extCheckV k c.extView = some (s, a))
    (hval : validateIssuerSubject k idn sdn (encRdns c.issuer) (encRdns c.subject) = .ok ())
    (hfi : c.issuer.length < fuel + 2) (hfs : c.subject.length < fuel + 2) (hfe : c.exts.length < fuel + 2) :
    Run (dCertificate k (fuel + 2)) (encCert c ++ rest) (fun _ => True) rest := by
  unfold dCertificate encCert
  refine Run.bind (run_headerOf tagOfByte_seq) (fun n hn => ?_)
  subst hn
  refine run_nested rfl ?_
  simp only [List.append_assoc]
  refine Run.bind (run_tbs hwf hi hs hext hval hfi hfs hfe) (fun tbs _ => ?_)
  refine Run.bind (run_algId oidValid_consts.2.2.1) (fun _ _ => ?_)
  have hsig := run_bitString (unused := 0) (bytes := c.signature) (rest := []) (by omega) (fun h => absurd rfl h)
  simp only [List.append_nil] at hsig
  refine Run.bind hsig (fun _ _ => ?_)
  exact Run.pure trivial

/-- **bytes after the certificate are refused**: a well-formed, profile-conforming certificate followed by anything
is `InvalidData` (`from_der` demands that the input is consumed) -/
theorem x509New_trailing (k : CertKind) (c : CertSpec) (rest : List Nat) (idn sdn : DnAttrs) (s : List Nat)
    (a : Option (List Nat)) (hwf : c.WF)
    (hi : dnFold c.issuer { vid := none, pid := none } = some idn)
    (hs : dnFold c.subject { vid := none, pid := none } = some sdn)
    (hext : extCheckV k c.extView = some (s, a))
    (hval : validateIssuerSubject k idn sdn (encRdns c.issuer) (encRdns c.subject) = .ok ())
    (hr : rest ≠ []) (hlen : (encCert c ++ rest).length ≤ MAX_LEN) :
    x509New k (encCert c ++ rest) = .error .invalidData := by
  obtain ⟨z1, z2, z3⟩ := encCert_sizes c
  have hfuel : (encCert c ++ rest).length + 1 = ((encCert c ++ rest).length - 1) + 2 := by
    simp only [List.length_append]; omega
  have hl2 : (encCert c).length ≤ (encCert c ++ rest).length := by simp
  have hrun := run_certificate_rest (k := k) (fuel := (encCert c ++ rest).length - 1) (rest := rest) hwf hi hs hext hval
    (by omega) (by omega) (by omega)
  unfold x509New
  rw [hfuel, fromDer_trailing hrun hr hlen]
  rfl

/-- `parse_hex_u16` accepts exactly four hexadecimal digits -/
theorem parseHexU16_sound {s : List Nat} {v : Nat} (h : parseHexU16 s = some v) :
    s.length = 4 ∧ (∀ b ∈ s, (hexDigit b).isSome) := by
  unfold parseHexU16 at h
  split at h
  · simp at h
  · rename_i hl
    refine ⟨by simpa using hl, ?_⟩
    have key : ∀ (l : List Nat) (acc w : Nat), hexFold l acc = some w → ∀ b ∈ l, (hexDigit b).isSome := by
      intro l
      induction l with
      | nil => intro _ _ _ b hb; simp at hb
      | cons x t ih =>
        intro acc w hf b hb
        unfold hexFold at hf
        cases hx : hexDigit x with
        | none => simp [hx] at hf
        | some d =>
          simp only [hx] at hf
          rcases List.mem_cons.mp hb with rfl | hb
          · simp [hx]
          · exact ih _ _ hf b hb
    exact key s 0 v h

/-- a Matter vendor-id attribute whose value is not four hexadecimal digits makes the name (and the certificate)
unreadable -/
theorem dnApply_vid_rejected (acc : DnAttrs) (tag : Nat) (value : List Nat) (h : parseHexU16 value = none) :
    dnApply acc (OID_MATTER_VENDOR_ID, (tag, value)) = .error .value := by
  unfold dnApply
  simp [h]

theorem parseHexU16_length (s : List Nat) (h : s.length ≠ 4) : parseHexU16 s = none := by
  unfold parseHexU16; rw [if_pos h]

end Codec.DerRd
