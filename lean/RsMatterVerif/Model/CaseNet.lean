import RsMatterVerif.Model.Case
/-!
# One CASE handshake between two nodes over an adversarial network

`Model/Case.lean` gives the decision sequence of each handshake step.  Here the steps are put
together the way `CaseResponder::handle` and `CaseInitiator::perform` sequence them — one exchange
at each end, each end reacting to the next message it is handed — and the network is a list of
delivery operations chosen by the adversary (`NetOp`): it may deliver any message to either end in
any order, any number of times, or never (loss / duplication / reordering), and hand over
messages of its own making.

* `stepResp`: `handle` = `try_handle_sigma1_resume` (`respResumeStep`: sent / fall through / aborted
  after `Sigma2_Resume` went out) → else `handle_casesigma1` → `recv` → `handle_casesigma3`; every
  failure ends the exchange (reserved session dropped) with an error status report.  The fabric
  table is constant during the exchange (`cfg.fabricsR`): the code re-reads the fabric by index at
  Sigma2 / Sigma3, which then yields the fabric found at Sigma1 (`respSigma3At`).
* `stepInit`: `perform` after Sigma1 was sent: `Sigma2_Resume` → `finalize_sigma2_resume`,
  `Sigma2` → validation + Sigma3, anything else ends the attempt; then the final status report.
* a datagram identical to one already delivered to that end is dropped by the transport (message
  counter de-duplication, property C04) and never reaches the exchange: `seenI` / `seenR`.
-/
namespace Case
open Cert

/-- everything that determines one handshake: the two nodes' tables and the fresh values they draw -/
structure HsCfg where
  t : Time
  /-- responder: fabric table and resumption cache -/
  fabricsR : List Fabric
  cacheR : List ResRec
  /-- initiator: the fabric it uses, its resumption cache, the node id it addresses -/
  fI : Fabric
  cacheI : List ResRec
  peer : Nat
  /-- ephemeral secrets -/
  ephI : Nat
  ephR : Nat
  /-- initiator random / session id -/
  rndI : Term
  sidI : Term
  /-- responder random, fresh resumption id, session id -/
  rndR : Term
  ridR : Term
  sidR : Term
deriving Repr, Inhabited

abbrev Result := Option (Session × ResRec)

inductive IState where
  /-- Sigma1 sent -/
  | sent1 (c : InitCtx)
  /-- Sigma3 sent -/
  | sent3 (c3 : InitCtx3)
  /-- exchange over: the session completed (with the cache record written), or none -/
  | done (res : Result)
deriving Repr, Inhabited

inductive RState where
  | idle
  /-- Sigma2 sent -/
  | sent2 (ctx : RespCtx)
  /-- Sigma2_Resume sent -/
  | sent2r (ctx : RespResumeCtx)
  | done (res : Result)
deriving Repr, Inhabited

/-- the responder is handed `m`: new state and the messages it sends -/
def stepResp (cfg : HsCfg) (r : RState) (m : Msg) : RState × List Msg :=
  match r with
  | .idle =>
    match respResumeStep cfg.fabricsR cfg.cacheR m cfg.ridR cfg.sidR with
    | .sent cx => (.sent2r cx, [cx.s2r])
    -- `Sigma2_Resume` is out, then the handler fails: exchange dropped, nothing more is sent
    | .aborted s2r => (.done none, [s2r])
    | .fallThrough =>
      match respSigma1 cfg.fabricsR m cfg.ephR cfg.rndR cfg.ridR cfg.sidR with
      | .sent ctx => (.sent2 ctx, [ctx.s2])
      | .refused => (.done none, [.status false])
  | .sent2 ctx =>
    match respSigma3 cfg.t ctx m with
    | some p => (.done (some p), [.status true])
    | none => (.done none, [.status false])
  | .sent2r cx => (.done (respResumeFinish cx m), [])
  | .done res => (.done res, [])

/-- the initiator is handed `m` -/
def stepInit (cfg : HsCfg) (i : IState) (m : Msg) : IState × List Msg :=
  match i with
  | .sent1 c =>
    match initSigma2Resume c m with
    | some p => (.done (some p), [.status true])
    | none =>
      match initSigma2 cfg.t c m with
      | some c3 => (.sent3 c3, [c3.s3])
      | none => (.done none, [.status false])
  | .sent3 c3 => (.done (initFinish c3 m), [])
  | .done res => (.done res, [])

structure Net where
  i : IState
  r : RState
  /-- every message an honest end has sent so far -/
  wire : List Msg
  seenI : List Msg
  seenR : List Msg
deriving Repr, Inhabited

/-- a delivery chosen by the adversary -/
inductive NetOp where
  | toResp (m : Msg)
  | toInit (m : Msg)
deriving Repr, Inhabited

def NetOp.msg : NetOp → Msg
  | .toResp m => m
  | .toInit m => m

def HsCfg.init0 (cfg : HsCfg) : InitCtx :=
  initSigma1 cfg.fI cfg.cacheI cfg.peer cfg.ephI cfg.rndI cfg.sidI

/-- the initiator has sent Sigma1, the responder listens -/
def Net.start (cfg : HsCfg) : Net :=
  { i := .sent1 cfg.init0, r := .idle, wire := [cfg.init0.s1], seenI := [], seenR := [] }

def Net.step (cfg : HsCfg) (n : Net) : NetOp → Net
  | .toResp m =>
    if m ∈ n.seenR then n
    else
      let (r', out) := stepResp cfg n.r m
      { n with r := r', wire := n.wire ++ out, seenR := m :: n.seenR }
  | .toInit m =>
    if m ∈ n.seenI then n
    else
      let (i', out) := stepInit cfg n.i m
      { n with i := i', wire := n.wire ++ out, seenI := m :: n.seenI }

def Net.run (cfg : HsCfg) (n : Net) (ops : List NetOp) : Net := ops.foldl (Net.step cfg) n

def IState.result : IState → Result
  | .done res => res
  | _ => none

def RState.result : RState → Result
  | .done res => res
  | _ => none

/-- the untouched run: every message delivered once, in order -/
def honestOps (cfg : HsCfg) : List NetOp :=
  let n0 := Net.start cfg
  let n1 := n0.step cfg (.toResp cfg.init0.s1)
  let m2 := n1.wire.getLast?.getD (.junk 0)
  let n2 := n1.step cfg (.toInit m2)
  let m3 := n2.wire.getLast?.getD (.junk 0)
  let n3 := n2.step cfg (.toResp m3)
  let m4 := n3.wire.getLast?.getD (.junk 0)
  [.toResp cfg.init0.s1, .toInit m2, .toResp m3, .toInit m4]

end Case
