import RsMatterVerif.Props.C01
import RsMatterVerif.Model.CaseCache
/-!
# C01 — the resumption cache (`Model/CaseCache.lean`) and the responder's resume path

Per-step facts (one call of `respResume` / one cache operation, arbitrary state).  Several are
definitional and are meant as such: `removed_fabric_not_resumed` is membership in a `List.filter`;
`load_store` is about the record LIST (`Cache.store` is the identity — the byte encoding round trip is
C16's subject); `insert_ridUnique` / `rotate_ridUnique` ASSUME the new id is fresh (`hfresh`).
`no_fabric_resume_aborts` and the `respSigma3At_*` lemmas describe what the code does when the
fabric table changes inside a handshake (which `Model/CaseNet` keeps constant).
-/
namespace C01
open Cert Case

theorem mem_removeByPeer {c : Cache} {fab peer : Nat} {x : ResRec} :
    x ∈ c.removeByPeer fab peer ↔ x ∈ c ∧ ¬ (x.fabIdx = fab ∧ x.peerNode = peer) := by
  unfold Cache.removeByPeer
  rw [List.mem_filter]
  simp only [Bool.not_eq_true', Bool.and_eq_false_iff, beq_eq_false_iff_ne, ne_eq, not_and]
  constructor
  · rintro ⟨h1, h2⟩
    refine ⟨h1, fun ha hb => ?_⟩
    rcases h2 with h | h
    · exact h ha
    · exact h hb
  · rintro ⟨h1, h2⟩
    refine ⟨h1, ?_⟩
    by_cases ha : x.fabIdx = fab
    · exact Or.inr (h2 ha)
    · exact Or.inl ha

theorem makeRoom_sublist (cap : Nat) (c : Cache) : (c.makeRoom cap).Sublist c := by
  unfold Cache.makeRoom
  split
  · exact List.drop_sublist _ _
  · exact List.Sublist.refl _

theorem removeByPeer_sublist (c : Cache) (fab peer : Nat) : (c.removeByPeer fab peer).Sublist c :=
  List.filter_sublist

/-- right after `insert_or_update` the peer's record is the one just written -/
theorem insert_findByPeer (cap : Nat) (c : Cache) (r : ResRec) (hc : cap ≠ 0) :
    (c.insertOrUpdate cap r).findByPeer r.fabIdx r.peerNode = some r := by
  unfold Cache.insertOrUpdate Cache.findByPeer
  simp only [hc, ↓reduceIte]
  rw [List.find?_append]
  have hnone : ((c.removeByPeer r.fabIdx r.peerNode).makeRoom cap).find?
      (fun x => x.fabIdx == r.fabIdx && x.peerNode == r.peerNode) = none := by
    rw [List.find?_eq_none]
    intro x hx
    have := (mem_removeByPeer.1 ((makeRoom_sublist cap _).subset hx)).2
    simpa using this
  rw [hnone]
  simp

/-- `respResume` looks the record up with `find_by_resumption_id` -/
theorem respResume_uses_findByRid (fabrics : List Fabric) (cache : Cache) (m : Msg) (nr sid : Term)
    (cx : RespResumeCtx) (h : respResume fabrics cache m nr sid = some cx) :
    ∃ iRnd iSid dest iEph rid mic1, m = .sigma1 iRnd iSid dest iEph (some (rid, mic1)) ∧
      cache.findByRid rid = some cx.record ∧
      -- the MIC was validated under THIS record's secret
      mic1 = Term.mic (resumeKey cx.record.secret iRnd cx.record.rid infoS1RK) nonceR1 ∧
      -- and the (reserved) session takes exactly this record's identity
      cx.session.fabIdx = cx.record.fabIdx ∧ cx.session.peerNode = cx.record.peerNode ∧
      cx.session.cats = cx.record.cats ∧ cx.session.sharedSecret = cx.record.secret ∧
      -- on a fabric that exists under that index
      ∃ f ∈ fabrics, f.idx = cx.record.fabIdx ∧ cx.session.localNode = f.nodeId := by
  rw [respResume_eq] at h
  unfold respResumeSucc at h
  split at h
  · rename_i iRnd iSid dest iEph rid mic1
    split at h
    · cases h
    · rename_i rec hrec
      split at h
      · cases h
      · rename_i hmic
        simp only [ne_eq, Decidable.not_not] at hmic
        split at h
        · cases h
        · rename_i f hf
          simp only [Option.some.injEq] at h
          subst h
          refine ⟨iRnd, iSid, dest, iEph, rid, mic1, rfl, hrec, hmic, rfl, rfl, rfl, rfl, f,
            List.mem_of_find?_eq_some hf, ?_, rfl⟩
          have := List.find?_some hf
          simpa using this
  · cases h

/-- **a resumed session takes exactly the identity of the record whose shared secret validated the
MIC**: (fabric, node id, CATs) of the completed responder session are those of the record
`find_by_resumption_id` returned for the resumption id of Sigma1, the `Resume1MIC` of that Sigma1
is the MIC under that record's secret, and the cache afterwards holds the same record with only
the resumption id rotated. -/
theorem resumed_session_identity (cap : Nat) (fabrics : List Fabric) (cache : Cache) (m1 m2 : Msg)
    (nr sid : Term) (cx : RespResumeCtx) (s : Session) (r' : ResRec)
    (h1 : respResume fabrics cache m1 nr sid = some cx)
    (h2 : respResumeFinish cx m2 = some (s, r')) :
    ∃ iRnd iSid dest iEph rid, ∃ rec,
      cache.findByRid rid = some rec ∧
      m1 = .sigma1 iRnd iSid dest iEph
        (some (rid, Term.mic (resumeKey rec.secret iRnd rec.rid infoS1RK) nonceR1)) ∧
      s.fabIdx = rec.fabIdx ∧ s.peerNode = rec.peerNode ∧ s.cats = rec.cats ∧
      s.sharedSecret = rec.secret ∧
      r' = { rec with rid := nr } ∧
      (0 < cap → (cache.insertOrUpdate cap r').findByPeer rec.fabIdx rec.peerNode = some r') := by
  obtain ⟨iRnd, iSid, dest, iEph, rid, mic1, hm, hf, hmic, e1, e2, e3, e4, _⟩ :=
    respResume_uses_findByRid fabrics cache m1 nr sid cx h1
  obtain ⟨_, _, _, _, _, _, _, _, hnr, _⟩ := respResume_some fabrics cache m1 nr sid cx h1
  unfold respResumeFinish at h2
  split at h2
  · simp only [Option.some.injEq, Prod.mk.injEq] at h2
    obtain ⟨hs, hr⟩ := h2
    refine ⟨iRnd, iSid, dest, iEph, rid, cx.record, hf, ?_, ?_, ?_, ?_, ?_, ?_, ?_⟩
    · rw [hm, hmic]
    · rw [← hs]; exact e1
    · rw [← hs]; exact e2
    · rw [← hs]; exact e3
    · rw [← hs]; exact e4
    · rw [← hr, hnr]
    · intro hcap
      rw [← hr]
      exact insert_findByPeer cap cache _ (by omega)
  · cases h2

/-- **which fabric a resumed session is bound to**: the LOCAL fabric (index and own node id) of a resumed
responder session is the fabric with the index stored in the record whose secret validated the MIC — the
fabric the record was made on — and the peer node id / CATs are that record's.  The destination id of the
Sigma1 plays no part in it: whatever (valid or not) destination id, initiator session id or ephemeral key the
Sigma1 carries next to the record's resumption id and MIC, the resumed session is the same.  (So a record made
on fabric A can never yield a session on fabric B, in particular not by presenting B's destination id.) -/
theorem resumed_session_bound_to_record_fabric (fabrics : List Fabric) (cache : Cache) (m1 m2 : Msg)
    (nr sid : Term) (cx : RespResumeCtx) (s : Session) (r' : ResRec)
    (h1 : respResume fabrics cache m1 nr sid = some cx)
    (h2 : respResumeFinish cx m2 = some (s, r')) :
    ∃ iRnd iSid dest iEph rid mic1 rec f,
      m1 = .sigma1 iRnd iSid dest iEph (some (rid, mic1)) ∧
      cache.findByRid rid = some rec ∧
      mic1 = Term.mic (resumeKey rec.secret iRnd rec.rid infoS1RK) nonceR1 ∧
      -- local side: the fabric with the record's index
      fabrics.find? (fun g => g.idx == rec.fabIdx) = some f ∧
      s.fabIdx = rec.fabIdx ∧ s.fabIdx = f.idx ∧ s.localNode = f.nodeId ∧
      -- peer side: the record's identity
      s.peerNode = rec.peerNode ∧ s.cats = rec.cats ∧ r'.fabIdx = rec.fabIdx ∧
      -- independent of the destination id (and of the other unauthenticated fields)
      ∀ dest' iEph', ∃ cx', respResume fabrics cache (.sigma1 iRnd iSid dest' iEph' (some (rid, mic1))) nr sid = some cx' ∧
        cx'.session = cx.session ∧ cx'.record = cx.record := by
  rw [respResume_eq] at h1
  unfold respResumeSucc at h1
  split at h1
  · rename_i iRnd iSid dest iEph rid mic1
    split at h1
    · cases h1
    · rename_i rec hrec
      split at h1
      · cases h1
      · rename_i hmic
        have hmic' := hmic
        simp only [ne_eq, Decidable.not_not] at hmic'
        split at h1
        · cases h1
        · rename_i f hf
          simp only [Option.some.injEq] at h1
          subst h1
          unfold respResumeFinish at h2
          split at h2
          · simp only [Option.some.injEq, Prod.mk.injEq] at h2
            obtain ⟨hs, hr⟩ := h2
            subst hs; subst hr
            have hidx : f.idx = rec.fabIdx := by
              have := List.find?_some hf; simpa using this
            refine ⟨iRnd, iSid, dest, iEph, rid, mic1, rec, f, rfl, hrec, hmic', hf, rfl, hidx.symm, rfl, rfl, rfl,
              rfl, ?_⟩
            intro dest' iEph'
            refine ⟨_, ?_, rfl, rfl⟩
            rw [respResume_eq]
            unfold respResumeSucc
            simp only [hrec, hf]
            simp [hmic']
          · cases h2
  · cases h1

/-- the two-fabric attack in the model: the responder is on fabrics 1 and 2, holds a record made on fabric 1
(peer node 5, CAT 65537); a Sigma1 with fabric 2's destination id and that record's id and MIC resumes a
session on fabric 1 — never on fabric 2 -/
example :
    let fA : Fabric := devFabric
    let fB : Fabric := { devFabric with idx := 3, fabricId := 9, nodeId := 777, ipk := .atom 78 }
    let recA : ResRec := { fabIdx := 2, peerNode := 5, cats := [65537], rid := .atom 700, secret := .shared 3 4 }
    let s1 : Msg := .sigma1 (.atom 501) (.atom 601) (destId fB.ipk (.atom 501) fB.root.pubKey fB.fabricId fB.nodeId)
      (.epk 11) (some (.atom 700, Term.mic (resumeKey (.shared 3 4) (.atom 501) (.atom 700) infoS1RK) nonceR1))
    ((respResume [fA, fB] [recA] s1 (.atom 702) (.atom 602)).map
        fun cx => (cx.session.fabIdx, cx.session.localNode, cx.session.peerNode, cx.session.cats)) =
      some (2, 200, 5, [65537]) := by
  decide

/-! ### purging on fabric removal -/

/-- **a record of a removed fabric cannot be resumed**: after `remove_for_fabric fab` (what the
RemoveFabric handler calls, next to `Fabrics::remove` and `Sessions::remove_for_fabric`), no
Sigma1 whatsoever makes the responder resume a session of fabric index `fab` — even if a new
fabric has meanwhile been installed under the same index. -/
theorem removed_fabric_not_resumed (fabrics : List Fabric) (cache : Cache) (fab : Nat) (m : Msg)
    (nr sid : Term) (cx : RespResumeCtx)
    (h : respResume fabrics (cache.removeForFabric fab) m nr sid = some cx) :
    cx.session.fabIdx ≠ fab ∧ cx.record.fabIdx ≠ fab := by
  obtain ⟨_, _, _, _, rid, _, _, hf, _, e1, _⟩ := respResume_uses_findByRid fabrics _ m nr sid cx h
  have hmem := List.mem_of_find?_eq_some hf
  have := (List.mem_filter.1 hmem).2
  have hne : cx.record.fabIdx ≠ fab := by simpa using this
  exact ⟨by rw [e1]; exact hne, hne⟩

/-- while no fabric carries the index, its records give the RESPONDER no session even unpurged (the
index lookup of `try_handle_sigma1_resume` fails) — but see `no_fabric_resume_aborts`: the look-up
comes after `Sigma2_Resume` has been sent … -/
theorem no_fabric_not_resumed (fabrics : List Fabric) (cache : Cache) (fab : Nat) (m : Msg)
    (nr sid : Term) (cx : RespResumeCtx) (hnf : ∀ f ∈ fabrics, f.idx ≠ fab)
    (h : respResume fabrics cache m nr sid = some cx) : cx.session.fabIdx ≠ fab := by
  obtain ⟨_, _, _, _, _, _, _, _, _, e1, _, _, _, f, hfm, hidx, _⟩ :=
    respResume_uses_findByRid fabrics cache m nr sid cx h
  rw [e1, ← hidx]; exact hnf f hfm

/-- **what the code does with an unpurged record of a missing fabric** (`try_handle_sigma1_resume`
sends before it looks the fabric up): a Sigma1 with that record's id and a `Resume1MIC` under its
secret is answered with a `Sigma2_Resume` carrying a VALID `Resume2MIC`, and only then the handler
fails — no responder session, nothing more sent, no fall-through to the full handshake. -/
theorem no_fabric_resume_aborts (fabrics : List Fabric) (cache : Cache) (rec : ResRec)
    (iRnd iSid dest iEph nr sid : Term) (hrec : cache.findByRid rec.rid = some rec)
    (hnf : ∀ f ∈ fabrics, f.idx ≠ rec.fabIdx) :
    respResumeStep fabrics cache
      (.sigma1 iRnd iSid dest iEph (some (rec.rid, Term.mic (resumeKey rec.secret iRnd rec.rid infoS1RK) nonceR1)))
      nr sid =
    .aborted (.sigma2Resume nr (Term.mic (resumeKey rec.secret iRnd nr infoS2RK) nonceR2) sid) := by
  have hf : fabrics.find? (fun f => f.idx == rec.fabIdx) = none := by
    rw [List.find?_eq_none]; intro f hfm; simpa using hnf f hfm
  unfold Cache.findByRid at hrec
  unfold respResumeStep
  simp only [hrec, hf, ne_eq, not_true_eq_false, ↓reduceIte]

/-- … which an initiator holding the same record accepts at once: it ends with a session, the
responder with none (a half-open session under the record's keys; harmless, but not what the
Matter flow intends — reachable only if the fabric goes away between the MIC check and the look-up,
since every removal path purges the records) -/
example :
    let recR : ResRec := { fabIdx := 9, peerNode := 5, cats := [65537], rid := .atom 700, secret := .shared 3 4 }
    let recI : ResRec := { fabIdx := 1, peerNode := 200, cats := [], rid := .atom 700, secret := .shared 3 4 }
    let c0 := initSigma1 ctlFabric [recI] 200 11 (.atom 501) (.atom 601)
    (match respResumeStep [devFabric] [recR] c0.s1 (.atom 702) (.atom 602) with
      | .aborted s2r => (initSigma2Resume c0 s2r).isSome
      | _ => false) = true := by decide

/-! ### the fabric is re-read by index when Sigma3 arrives -/

/-- as long as the table still holds the fabric found at Sigma1 under its index, re-reading it
changes nothing (this is the assumption under which the network theorems, which carry the fabric
in the responder's context, speak about the code) -/
theorem respSigma3At_eq (t : Time) (fabrics : List Fabric) (ctx : RespCtx) (m : Msg)
    (h : fabrics.find? (fun f => f.idx == ctx.fabric.idx) = some ctx.fabric) :
    respSigma3At t fabrics ctx m = respSigma3 t ctx m := by
  unfold respSigma3At; rw [h]

/-- the fabric found at Sigma1 is still the one under its index if the table is unchanged and its
indices are pairwise distinct (`Fabrics` allocates an unused index) -/
theorem find_idx_of_mem (fabrics : List Fabric) (f : Fabric) (hf : f ∈ fabrics)
    (hu : fabrics.Pairwise (fun a b => a.idx ≠ b.idx)) :
    fabrics.find? (fun g => g.idx == f.idx) = some f := by
  induction fabrics with
  | nil => cases hf
  | cons a rest ih =>
    rw [List.pairwise_cons] at hu
    rcases List.mem_cons.1 hf with h | h
    · subst h; simp
    · have hne : a.idx ≠ f.idx := hu.1 f h
      have : (a.idx == f.idx) = false := by simpa using hne
      rw [List.find?_cons, this]
      exact ih h hu.2

/-- the fabric removed between Sigma2 and Sigma3 ⇒ no session (status `NoSharedTrustRoots`) -/
theorem respSigma3At_removed (t : Time) (fabrics : List Fabric) (ctx : RespCtx) (m : Msg)
    (h : ∀ f ∈ fabrics, f.idx ≠ ctx.fabric.idx) : respSigma3At t fabrics ctx m = none := by
  have hf : fabrics.find? (fun f => f.idx == ctx.fabric.idx) = none := by
    rw [List.find?_eq_none]; intro f hfm; simpa using h f hfm
  unfold respSigma3At; rw [hf]

/-- whatever the table holds under the index when Sigma3 arrives — also another fabric installed
there in the meantime —, a session is bound to THAT fabric and the peer's chain is valid for THAT
fabric (so "the fabric selected by the destination id" of `responder_session_implies_auth` is, in
the code, "the fabric under the index the destination id selected, as it is at Sigma3") -/
theorem respSigma3At_session (t : Time) (fabrics : List Fabric) (ctx : RespCtx) (m : Msg) (s : Session)
    (r : ResRec) (h : respSigma3At t fabrics ctx m = some (s, r)) :
    ∃ f ∈ fabrics, f.idx = ctx.fabric.idx ∧ s.fabIdx = f.idx ∧ s.localNode = f.nodeId ∧
      ∃ noc icac, CaseValid t f.view noc icac ∧ nodeIdOf noc.subject = some s.peerNode ∧
        s.cats = catsOf noc.subject := by
  unfold respSigma3At at h
  split at h
  · cases h
  · rename_i f hf
    have hidx : f.idx = ctx.fabric.idx := by have := List.find?_some hf; simpa using this
    obtain ⟨noc, icac, _, _, hv, _, hfab, hn, hc, hl, _⟩ :=
      responder_session_implies_auth t { ctx with fabric := f } m s r h
    exact ⟨f, List.mem_of_find?_eq_some hf, hidx, hfab, hl, noc, icac, hv, hn, hc⟩

/-- the purge commutes with everything else the cache does: no operation brings a purged record back -/
theorem insert_subset (cap : Nat) (c : Cache) (r x : ResRec) (h : x ∈ c.insertOrUpdate cap r) :
    x = r ∨ x ∈ c := by
  unfold Cache.insertOrUpdate at h
  split at h
  · exact Or.inr h
  · rcases List.mem_append.1 h with h1 | h1
    · exact Or.inr (((makeRoom_sublist cap _).trans (removeByPeer_sublist _ _ _)).subset h1)
    · left; simpa using h1

/-! ### capacity, eviction, uniqueness, freshness -/

theorem insert_length_le (cap : Nat) (c : Cache) (r : ResRec) (h : c.length ≤ cap) :
    (c.insertOrUpdate cap r).length ≤ cap := by
  unfold Cache.insertOrUpdate
  split
  · exact h
  · have hf : (c.removeByPeer r.fabIdx r.peerNode).length ≤ c.length := List.length_filter_le _ _
    unfold Cache.makeRoom
    split
    · simp only [List.length_append, List.length_drop, List.length_cons, List.length_nil]; omega
    · simp only [List.length_append, List.length_cons, List.length_nil]; omega

/-- at most one record per `(fabric, peer)` -/
def PeerUnique (c : Cache) : Prop := (c.map fun r => (r.fabIdx, r.peerNode)).Nodup

/-- no two records share a resumption id -/
def RidUnique (c : Cache) : Prop := (c.map fun r => r.rid).Nodup

theorem nodup_map_inj {α β} {f : α → β} : ∀ {l : List α}, (l.map f).Nodup → ∀ {x y}, x ∈ l → y ∈ l →
    f x = f y → x = y := by
  intro l
  induction l with
  | nil => intro _ x y hx; cases hx
  | cons a t ih =>
    intro h x y hx hy hf
    simp only [List.map_cons, List.nodup_cons, List.mem_map, not_exists, not_and] at h
    rcases List.mem_cons.1 hx with rfl | hx' <;> rcases List.mem_cons.1 hy with rfl | hy'
    · rfl
    · exact absurd hf.symm (h.1 y hy')
    · exact absurd hf (h.1 x hx')
    · exact ih h.2 hx' hy' hf

theorem nodup_map_sublist {α β} (f : α → β) {l l' : List α} (hs : l'.Sublist l)
    (h : (l.map f).Nodup) : (l'.map f).Nodup := (hs.map f).nodup h

theorem insert_sublist (c : Cache) (r : ResRec) (cap : Nat) :
    ∃ c2 : Cache, c2.Sublist c ∧ (cap ≠ 0 → c.insertOrUpdate cap r = c2 ++ [r]) ∧
      ∀ x ∈ c2, ¬ (x.fabIdx = r.fabIdx ∧ x.peerNode = r.peerNode) := by
  refine ⟨(c.removeByPeer r.fabIdx r.peerNode).makeRoom cap,
    (makeRoom_sublist cap _).trans (removeByPeer_sublist _ _ _), ?_, ?_⟩
  · intro hc; unfold Cache.insertOrUpdate; simp [hc]
  · intro x hx
    exact (mem_removeByPeer.1 ((makeRoom_sublist cap _).subset hx)).2

theorem insert_peerUnique (cap : Nat) (c : Cache) (r : ResRec) (h : PeerUnique c) :
    PeerUnique (c.insertOrUpdate cap r) := by
  by_cases hc : cap = 0
  · unfold Cache.insertOrUpdate; simp [hc]; exact h
  · obtain ⟨c2, hsub, heq, hne⟩ := insert_sublist c r cap
    rw [heq hc]
    unfold PeerUnique at h ⊢
    rw [List.map_append, List.nodup_append]
    refine ⟨nodup_map_sublist _ hsub h, by simp, ?_⟩
    intro a ha b hb
    simp only [List.map_cons, List.map_nil, List.mem_cons, List.not_mem_nil, or_false] at hb
    obtain ⟨x, hx, rfl⟩ := List.mem_map.1 ha
    rw [hb]
    intro heq'
    simp only [Prod.mk.injEq] at heq'
    exact hne x hx heq'

/-- **new resumption ids are fresh ⇒ ids stay unique**: inserting a record whose id is not in the
cache keeps the ids pairwise distinct, so the record a Sigma1 addresses is unique -/
theorem insert_ridUnique (cap : Nat) (c : Cache) (r : ResRec) (h : RidUnique c)
    (hfresh : ∀ x ∈ c, x.rid ≠ r.rid) : RidUnique (c.insertOrUpdate cap r) := by
  by_cases hc : cap = 0
  · unfold Cache.insertOrUpdate; simp [hc]; exact h
  · obtain ⟨c2, hsub, heq, _⟩ := insert_sublist c r cap
    rw [heq hc]
    unfold RidUnique at h ⊢
    rw [List.map_append, List.nodup_append]
    refine ⟨nodup_map_sublist _ hsub h, by simp, ?_⟩
    intro a ha b hb
    simp only [List.map_cons, List.map_nil, List.mem_cons, List.not_mem_nil, or_false] at hb
    obtain ⟨x, hx, rfl⟩ := List.mem_map.1 ha
    rw [hb]
    exact hfresh x (hsub.subset hx)

/-- with unique ids the record a resumption request addresses is THE record with that id -/
theorem resumed_record_unique (fabrics : List Fabric) (cache : Cache) (m : Msg) (nr sid : Term)
    (cx : RespResumeCtx) (hu : RidUnique cache) (h : respResume fabrics cache m nr sid = some cx) :
    ∀ x ∈ cache, x.rid = cx.record.rid → x = cx.record := by
  obtain ⟨_, _, _, _, rid, _, _, hf, _⟩ := respResume_uses_findByRid fabrics cache m nr sid cx h
  have hmem := List.mem_of_find?_eq_some hf
  intro x hx hrid
  exact nodup_map_inj hu hx hmem hrid

/-- the rotated record a completed resumption (either end) or a completed full handshake writes
keeps the ids unique, provided the id the responder drew is fresh -/
theorem rotate_ridUnique (cap : Nat) (c : Cache) (rec : ResRec) (newRid : Term) (h : RidUnique c)
    (hfresh : ∀ x ∈ c, x.rid ≠ newRid) : RidUnique (c.insertOrUpdate cap { rec with rid := newRid }) :=
  insert_ridUnique cap c _ h hfresh

theorem remove_ridUnique (c : Cache) (fab : Nat) (h : RidUnique c) : RidUnique (c.removeForFabric fab) :=
  nodup_map_sublist _ List.filter_sublist h

theorem remove_peerUnique (c : Cache) (fab : Nat) (h : PeerUnique c) : PeerUnique (c.removeForFabric fab) :=
  nodup_map_sublist _ List.filter_sublist h

/-- eviction only ever drops the OLDEST record, and only when the cache is full -/
theorem insert_evicts_oldest (cap : Nat) (c : Cache) (r x : ResRec) (hc : cap ≠ 0) (hx : x ∈ c)
    (hnp : ¬ (x.fabIdx = r.fabIdx ∧ x.peerNode = r.peerNode))
    (hgone : x ∉ c.insertOrUpdate cap r) :
    cap ≤ (c.removeByPeer r.fabIdx r.peerNode).length ∧
    (c.removeByPeer r.fabIdx r.peerNode).head? = some x := by
  have hxf : x ∈ c.removeByPeer r.fabIdx r.peerNode := mem_removeByPeer.2 ⟨hx, hnp⟩
  unfold Cache.insertOrUpdate Cache.makeRoom at hgone
  simp only [hc, ↓reduceIte, List.mem_append, List.mem_cons, List.not_mem_nil, or_false, not_or] at hgone
  split at hgone
  · rename_i hfull
    refine ⟨hfull, ?_⟩
    cases hl : c.removeByPeer r.fabIdx r.peerNode with
    | nil => rw [hl] at hxf; cases hxf
    | cons a t =>
      rw [hl] at hxf hgone
      simp only [List.drop_one, List.tail_cons] at hgone
      rcases List.mem_cons.1 hxf with h | h
      · rw [h]; rfl
      · exact absurd h hgone.1
  · exact absurd hxf hgone.1

/-! ### persistence -/

/-- what was stored is what is loaded, AS A LIST OF RECORDS (a cache never exceeds its capacity,
`insert_length_le`; `Cache.store` is the identity: nothing is said about the TLV encoding, which is
C16's subject — the only content here is the capacity check of `load`) -/
theorem load_store (cap : Nat) (c : Cache) (h : c.length ≤ cap) : Cache.load cap (some c.store) = c := by
  simp [Cache.load, Cache.store, h]

/-- a reloaded cache resumes exactly what the stored one did -/
theorem resume_after_reload (cap : Nat) (fabrics : List Fabric) (c : Cache) (m : Msg) (nr sid : Term)
    (h : c.length ≤ cap) :
    respResume fabrics (Cache.load cap (some c.store)) m nr sid = respResume fabrics c m nr sid := by
  rw [load_store cap c h]

/-- an unparsable / absent blob gives an empty cache: nothing can be resumed -/
theorem resume_empty (fabrics : List Fabric) (m : Msg) (nr sid : Term) :
    respResume fabrics (Cache.load 0 none) m nr sid = none := by
  rw [respResume_eq]
  unfold respResumeSucc Cache.load
  split <;> simp

/-- the purge must reach the store before a fabric re-uses the index: a stored record of a removed
fabric that is loaded again next to a NEW fabric with the same index is resumed onto it — shown on
the concrete run (this is why `remove_for_fabric` exists; a removal path that does not call it, as
the fail-safe rollback of a half-commissioned fabric on the baseline tree, leaves this open). -/
example :
    let oldRec : ResRec := { fabIdx := 2, peerNode := 666, cats := [1], rid := .atom 700, secret := .shared 3 4 }
    let s1 : Msg := .sigma1 (.atom 501) (.atom 601) (.atom 0) (.epk 11)
      (some (.atom 700, Term.mic (resumeKey (.shared 3 4) (.atom 501) (.atom 700) infoS1RK) nonceR1))
    -- fabric index 2 was removed and `devFabric` (another fabric) installed under the same index
    ((respResume [devFabric] [oldRec] s1 (.atom 702) (.atom 602)).map
        fun cx => (cx.session.fabIdx, cx.session.peerNode, cx.session.cats)) = some (2, 666, [1]) ∧
    -- with the purge: nothing
    (respResume [devFabric] (Cache.removeForFabric [oldRec] 2) s1 (.atom 702) (.atom 602)).isNone = true := by
  decide

example : PeerUnique [] ∧ RidUnique [] := by simp [PeerUnique, RidUnique]

end C01
