import Driver.Util
/-! Driver for C13: not built yet. -/
namespace Driver.C13

def run : IO UInt32 := do
  IO.eprintln "C13: driver not built yet"
  return 2

end Driver.C13
