//! C20: session / exchange slots are not leaked and live sessions are not evicted — unit level on
//! the real session table with real `ReservedSession` and `Exchange` handles (their `Drop`s),
//! `Sessions::{add, get_session_for_eviction, remove}`, and the transport's sweep steps.
use crate::proto::{parse_cases, Out};
use crate::rng::Rng;
use crate::Args;

#[path = "transport_common.rs"]
mod tc;
use tc::{parse_snap, result_of, run_tab_with, GSnap};

#[path = "c20_sys.rs"]
pub mod sys;
#[path = "c20_rdv.rs"]
mod rdv;

const RULE: &str = "a case is one op history on a fresh real session table (capacity 16 sessions x 5 exchanges): handshake attempts that reserve a slot (ReservedSession::reserve_now) and are abandoned before / after update, completed, or refused because the table is full; unsecured sessions added as for a first handshake message; exchanges initiated, opened by received messages, accepted or never accepted, dropped with pending ack / retransmission; sessions expired; eviction queries and evictions after virtual time steps (and at the same instant); then a quiescence phase - every handle dropped, accept deadline passed and accept sweep run for accept-pending exchanges, closer run until it finds nothing - and a final leak check op. Every op line carries the implementation's result and the table snapshot. Non-trivial = at least two distinct output lines; #stat lines give table-full refusals, evictions, closer actions; distinct = by op list";

fn gen_case(r: &mut Rng, out: &mut Out, len: usize) {
    run_tab_with(out, &mut |exec| {
        let mut g: GSnap = parse_snap(&exec(&format!("setxid {}", r.range(1, 65535))));
        let mut next_h = 0u32;
        let mut xh: Vec<u32> = Vec::new();
        let mut rh: Vec<(u32, bool)> = Vec::new(); // handle, updated
        let mut peer_ctr: u64 = r.range(100, 1 << 30);
        let mut port = 5000u64;
        // how hard this case pushes the table
        let fill = *r.pick(&[2u64, 6, 15, 16, 17, 20]);
        let mut step = |exec: &mut dyn FnMut(&str) -> String, g: &mut GSnap, op: String, xh: &mut Vec<u32>, rh: &mut Vec<(u32, bool)>, next_h: u32| -> String {
            let full = exec(&op);
            let res = result_of(&full).to_string();
            *g = parse_snap(&full);
            let w: Vec<&str> = op.split_whitespace().collect();
            match w[0] {
                "init" if res.starts_with("x ") => xh.push(next_h),
                "acc" if res == "ok" => xh.push(next_h),
                "xdrop" => {
                    let h: u32 = w[1][1..].parse().unwrap_or(0);
                    xh.retain(|x| *x != h);
                }
                "rsv" if res.starts_with("id ") => rh.push((next_h, false)),
                "upd" if res == "ok" => {
                    let h: u32 = w[1][1..].parse().unwrap_or(0);
                    for x in rh.iter_mut() {
                        if x.0 == h {
                            x.1 = true;
                        }
                    }
                }
                "cmp" | "drp" => {
                    let h: u32 = w[1][1..].parse().unwrap_or(0);
                    rh.retain(|x| x.0 != h);
                }
                _ => {}
            }
            res
        };
        for _ in 0..len {
            let sess: Vec<u32> = g.sessions.iter().map(|s| s.uid).collect();
            let pick_sess = |r: &mut Rng| -> u32 { if sess.is_empty() { 0 } else { *r.pick(&sess) } };
            let live: Vec<(u32, usize, u32, String)> = g.sessions.iter()
                .flat_map(|s| s.slots.iter().enumerate().filter_map(move |(i, sl)| sl.as_ref().map(|sl| (s.uid, i, sl.id, sl.role.clone())))).collect();
            let want_more = (g.sessions.len() as u64) < fill;
            let op: String = match r.below(100) {
                0..=13 => {
                    next_h += 1;
                    "rsv r".to_string() + &next_h.to_string()
                }
                // cases that push the table: keep filling
                14..=59 if want_more && fill >= 15 => {
                    if r.chance(1, 2) {
                        port += 1;
                        format!("add {} 0 {}", r.below(1 << 32), port)
                    } else {
                        next_h += 1;
                        format!("rsv r{}", next_h)
                    }
                }
                14..=19 if want_more => {
                    port += 1;
                    format!("add {} 0 {}", r.below(1 << 32), port)
                }
                14..=19 => format!("t {}", r.range(1, 50)),
                20..=27 => {
                    // the handshake proceeds: update (with an id from the allocator), then complete
                    match rh.iter().find(|x| !x.1).copied() {
                        Some((h, _)) => {
                            let sid = step(exec, &mut g, "sid".into(), &mut xh, &mut rh, next_h);
                            format!("upd r{} {} {} {}", h, sid, r.range(1, 65535), if r.chance(1, 2) { "c" } else { "p" })
                        }
                        None => match rh.first().copied() {
                            Some((h, _)) => format!("cmp r{}", h),
                            None => { next_h += 1; format!("rsv r{}", next_h) }
                        },
                    }
                }
                28..=32 => match rh.iter().find(|x| x.1).copied() {
                    // completed and dropped at once, or completed while the handshake keeps waiting
                    Some((h, _)) => if r.chance(1, 2) { format!("cmp r{}", h) } else { format!("cpl r{}", h) },
                    None => "t 3".into(),
                },
                33..=40 => {
                    // the handshake is abandoned at this point
                    if rh.is_empty() { "t 7".into() } else { format!("drp r{}", r.pick(&rh).0) }
                }
                41..=47 => {
                    next_h += 1;
                    format!("init {} h{}", pick_sess(r), next_h)
                }
                48..=55 => {
                    peer_ctr += 1;
                    format!("rx {} {} {} I - {} n", pick_sess(r), peer_ctr, r.range(1, 65535), if r.chance(3, 4) { "r" } else { "u" })
                }
                56..=59 => {
                    let pend: Vec<_> = live.iter().filter(|l| l.3 == "RP").collect();
                    if pend.is_empty() { "t 11".into() } else {
                        let l = *r.pick(&pend);
                        next_h += 1;
                        format!("acc {} {} h{}", l.0, l.1, next_h)
                    }
                }
                60..=62 => {
                    let owned: Vec<_> = live.iter().filter(|l| l.3 == "RO" || l.3 == "IO").collect();
                    if owned.is_empty() { "t 13".into() } else {
                        let l = *r.pick(&owned);
                        format!("tx {} {} r - n", l.0, l.1)
                    }
                }
                63..=69 => if xh.is_empty() { "t 17".into() } else { format!("xdrop h{}", *r.pick(&xh)) },
                70..=76 => {
                    // mostly after a time step, sometimes at the very instant of the last use
                    if r.chance(3, 4) {
                        step(exec, &mut g, format!("t {}", r.range(1, 2000)), &mut xh, &mut rh, next_h);
                    }
                    "evict".into()
                }
                77..=84 => {
                    if r.chance(3, 4) {
                        step(exec, &mut g, format!("t {}", r.range(1, 2000)), &mut xh, &mut rh, next_h);
                    }
                    "evictrm".into()
                }
                85..=87 => format!("exp {}", pick_sess(r)),
                88..=91 => "swd".into(),
                92..=93 => format!("rm {}", pick_sess(r)),
                _ => format!("t {}", *r.pick(&[1u64, 100, 1000, 5000])),
            };
            step(exec, &mut g, op, &mut xh, &mut rh, next_h);
        }
        // quiescence: traffic stops, every task ends
        for h in xh.clone() {
            step(exec, &mut g, format!("xdrop h{}", h), &mut xh, &mut rh, next_h);
        }
        for (h, upd) in rh.clone() {
            let op = if upd && r.chance(1, 2) { format!("cmp r{}", h) } else { format!("drp r{}", h) };
            step(exec, &mut g, op, &mut xh, &mut rh, next_h);
        }
        step(exec, &mut g, "t 1000".into(), &mut xh, &mut rh, next_h);
        let pend: Vec<(u64, u32, u32)> = g.sessions.iter()
            .flat_map(|s| s.slots.iter().flatten().filter(|sl| sl.role == "RP").map(move |sl| (s.port as u64, s.lsid, sl.id))).collect();
        for (p, ls, x) in pend {
            step(exec, &mut g, format!("swa {} {} {} I", p, ls, x), &mut xh, &mut rh, next_h);
        }
        for _ in 0..100 {
            if step(exec, &mut g, "swd".into(), &mut xh, &mut rh, next_h) == "none" {
                break;
            }
        }
        step(exec, &mut g, "qchk".into(), &mut xh, &mut rh, next_h);
    });
}


const SYS_RULE: &str = "sys cases (system level): a REAL device Matter (transport, 1-4 SecureChannel handlers that the executor drops at scripted instants after they accepted, the busy responder) and real controller nodes on the simulated network under virtual time with 0-20 ms latency; the device's 16-slot table is pre-filled with 0..16 established sessions in use (each carries a live exchange) and idle ones, so that 16..0 slots remain (from below the smallest configuration, 3, upwards); 1-10 initiators run the real PaseInitiator / CaseInitiator concurrently or staggered: complete, wrong passcode, stop after message k (every later datagram lost), k-th message damaged in flight (bit flip / truncation / random payload), initiator task cancelled after n ms, follow-up secure traffic nobody claims, raw junk datagrams, waits on the device's own mDNS resolve / browse rendezvous that time out or are cancelled; 'race' ops hold the initiator's acknowledgement of the final status report and its first secure message and release both in the same instant; then 130-160 s of virtual time until every time-out has fired, the REAL tables are read, and fresh legitimate PASE and CASE handshakes are attempted (up to 3 tries 1 s apart, Busy = retry); non-trivial = the case contains at least one faulty initiator, pre-filled session or race";

fn gen_junk(r: &mut Rng) -> String {
    let mut b: Vec<u8> = Vec::new();
    match r.below(4) {
        0 => {
            let n = r.range(1, 40) as usize;
            b = r.bytes(n);
        }
        1 => {
            // unsecured, source node id, an opcode that may open an exchange, garbage payload
            b.push(0x04);
            b.extend_from_slice(&[0, 0, 0]);
            b.extend_from_slice(&(r.below(1 << 32) as u32).to_le_bytes());
            b.extend_from_slice(&r.next().to_le_bytes());
            b.push(*r.pick(&[0x05u8, 0x01, 0x04]));
            b.push(*r.pick(&[0x20u8, 0x30, 0x22, 0x32, 0x40, 0x10, 0x99]));
            b.extend_from_slice(&(r.below(65536) as u16).to_le_bytes());
            b.extend_from_slice(&[0, 0]);
            let n = r.below(30) as usize;
            b.extend_from_slice(&r.bytes(n));
        }
        2 => {
            // claims a secure session the device does not have
            b.push(0x00);
            b.extend_from_slice(&(r.range(1, 65535) as u16).to_le_bytes());
            b.push(0);
            b.extend_from_slice(&(r.below(1 << 32) as u32).to_le_bytes());
            let n = r.range(16, 40) as usize;
            b.extend_from_slice(&r.bytes(n));
        }
        _ => {
            b.push(0x04);
            b.extend_from_slice(&[0, 0, 0]);
            b.extend_from_slice(&(r.below(1 << 32) as u32).to_le_bytes());
            let n = r.below(9) as usize;
            b.extend_from_slice(&r.bytes(n));
        }
    }
    crate::proto::hex(&b)
}

/// one system-level case: (kind, ops, non-trivial)
fn gen_sys(id: u64, r: &mut Rng) -> (String, Vec<String>, bool) {
    let lat = *r.pick(&[0u64, 2, 5, 5, 20]);
    let handlers = r.range(1, 4);
    let hc: Vec<String> = if r.chance(1, 2) { vec![] } else {
        (0..r.range(1, 4)).map(|_| r.pick(&[0u64, 0, 3, 7, 12, 18, 25, 33, 60, 700, 5000, 40000]).to_string()).collect()
    };
    let mdnsr = r.chance(1, 3);
    let kind = format!("sys H={} hc={} busy={} lat={} mdnsr={}", handlers, if hc.is_empty() { "-".to_string() } else { hc.join(",") }, if r.chance(5, 6) { 1 } else { 0 }, lat, mdnsr as u8);
    let mut ops: Vec<String> = Vec::new();
    let mut nt = !hc.is_empty();
    match id % 8 {
        0 => {
            // the race: the first secure message arrives together with the acknowledgement of the last handshake message
            ops.push(format!("race {} at=0 c=1", if r.chance(1, 2) { "pase" } else { "case" }));
            if r.chance(1, 2) {
                ops.push(format!("race {} at={} c=2", if r.chance(1, 2) { "pase" } else { "case" }, r.range(200, 3000)));
            }
            ops.push("quiesce 130000".into());
            ops.push("probe case".into());
            return (kind, ops, true);
        }
        1 => {
            // boundaries of the table: exactly 16, 15, 14 slots in use
            let p = if r.chance(1, 25) { 15 } else { *r.pick(&[16u64, 16, 14, 14, 14, 13, 12]) };
            ops.push(format!("pin {}", p));
            if p < 16 && r.chance(1, 2) {
                ops.push(format!("idl {}", 16 - p));
            }
            ops.push("quiesce 2000".into());
            ops.push(format!("probe {}", if r.chance(1, 2) { "pase" } else { "case" }));
            ops.push(format!("probe {}", if r.chance(1, 2) { "pase" } else { "case" }));
            return (kind, ops, true);
        }
        _ => {}
    }
    // pre-filled table: free capacity from 2 (below the smallest configuration) upwards
    let pinned = *r.pick(&[0u64, 0, 4, 8, 10, 11, 12, 13, 13, 14]);
    if pinned > 0 {
        ops.push(format!("pin {}", pinned));
        nt = true;
    }
    if r.chance(1, 3) {
        let k = r.range(1, (16 - pinned).min(6));
        ops.push(format!("idl {}", k));
    }
    let n_ini = r.range(1, 10);
    let burst = r.chance(1, 2);
    let mut t = 0u64;
    let mut pase_faults = 0;
    for _ in 0..n_ini {
        if !burst {
            t += *r.pick(&[0u64, 1, 10, 50, 400, 1500, 6000]);
        } else if r.chance(1, 4) {
            t += r.range(0, 30);
        }
        let c = r.range(1, 2);
        if r.chance(1, 10) {
            ops.push(format!("junk at={} c={} hex={}", t, c, gen_junk(r)));
            nt = true;
            continue;
        }
        if r.chance(1, 12) {
            ops.push(format!("rdv {} at={}{}", if r.chance(1, 2) { "resolve" } else { "browse" }, t, if r.chance(2, 3) { format!(" cancel={}", r.range(0, 4000)) } else { String::new() }));
            nt = true;
            continue;
        }
        let pase = r.chance(1, 2);
        let n_msgs = if pase { 3 } else { 2 };
        let mut op = format!("ini {} at={} c={}", if pase { "pase" } else { "case" }, t, c);
        let fault = r.below(10);
        let mut faulty = true;
        match fault {
            0 | 1 => op.push_str(&format!(" stop={}", r.range(1, n_msgs))),
            2 | 3 => op.push_str(&format!(" garble={}:{}:{}", r.range(1, n_msgs), r.pick(&["f", "f", "t", "r"]), r.below(4096))),
            4 | 5 => op.push_str(&format!(" cancel={}", if lat == 0 { r.range(0, 3) } else { r.range(0, lat * 8 + 3) })),
            6 if pase => op.push_str(" pw=bad"),
            7 => {
                op.push_str(&format!(" sec={}", r.range(1, 3)));
                faulty = false;
            }
            _ => faulty = false,
        }
        if faulty && pase {
            pase_faults += 1;
            if pase_faults > 12 {
                continue;
            }
        }
        nt |= faulty;
        ops.push(op);
    }
    ops.push(format!("quiesce {}", r.pick(&[130_000u64, 140_000, 160_000])));
    ops.push(format!("probe {}", if r.chance(1, 2) { "pase" } else { "case" }));
    ops.push(format!("probe {}", if r.chance(1, 2) { "pase" } else { "case" }));
    (kind, ops, nt)
}

pub fn gen(a: &Args) -> String {
    let mut r = Rng::new(a.seed);
    let mut out = Out::default();
    out.buf.push_str(&format!("#rule {} || {} || {}\n", RULE, SYS_RULE, rdv::RDV_RULE));
    let n_cases = if a.thorough { 40000 } else { 4500 };
    for id in 0..n_cases {
        let mut cr = r.fork();
        let len = if a.thorough { cr.range(10, 200) } else { cr.range(10, 80) } as usize;
        out.case(id, "tab");
        gen_case(&mut cr, &mut out, len);
    }
    // system level: a real device, real initiators, virtual time
    let n_sys = if a.thorough { 6000 } else { 500 };
    for id in 0..n_sys {
        let mut cr = r.fork();
        let (kind, ops, nt) = gen_sys(id, &mut cr);
        out.case(n_cases + id, &kind);
        sys::run_sys(&mut out, &kind, &ops);
        if nt {
            out.buf.push_str("#nt\n");
        }
    }
    // unit level: the real mDNS rendezvous slots with a manual poll order (tie of Model/Rendezvous)
    let n_rdv = if a.thorough { 20000 } else { 2000 };
    for id in 0..n_rdv {
        let mut cr = r.fork();
        let kind = if cr.chance(1, 2) { "rdv resolve" } else { "rdv browse" };
        let len = cr.range(3, 16) as usize;
        out.case(2_000_000 + id, kind);
        rdv::gen_rdv(&mut cr, &mut out, kind, len);
    }
    out.finish()
}

pub fn replay(a: &Args) -> String {
    let text = std::fs::read_to_string(a.input.as_ref().expect("--in")).expect("read input");
    let mut out = Out::default();
    for c in parse_cases(&text) {
        if c.kind.starts_with("sys") {
            out.case(c.id, &c.kind);
            sys::run_sys(&mut out, &c.kind, &c.ops);
        } else if c.kind.starts_with("rdv") {
            out.case(c.id, &c.kind);
            rdv::run_rdv(&mut out, &c);
        } else {
            tc::run_case(&mut out, &c);
        }
    }
    out.finish()
}
