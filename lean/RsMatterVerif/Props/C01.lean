import RsMatterVerif.Lemmas.Case
import RsMatterVerif.Props.C19
/-!
# C01 — CASE admits only holders of a valid NOC of the addressed fabric
-/
namespace C01
open Cert Case

/-- the successful branch of `try_handle_sigma1_resume` written out on its own … -/
def respResumeSucc (fabrics : List Fabric) (cache : List ResRec) (m : Msg) (newRid sid : Term) :
    Option RespResumeCtx :=
  match m with
  | .sigma1 iRnd iSid _ _ (some (rid, mic1)) =>
    match cache.find? (fun r => r.rid == rid) with
    | .none => .none
    | some r =>
      if mic1 ≠ Term.mic (resumeKey r.secret iRnd r.rid infoS1RK) nonceR1 then .none
      else
        match fabrics.find? (fun f => f.idx == r.fabIdx) with
        | .none => .none
        | some f =>
          let mic2 := Term.mic (resumeKey r.secret iRnd newRid infoS2RK) nonceR2
          let keys := resumeSessionKeys r.secret iRnd r.rid
          some { record := r,
                 session := { fabIdx := r.fabIdx, localNode := f.nodeId, peerNode := r.peerNode,
                              cats := r.cats, i2r := .part 0 keys, r2i := .part 1 keys,
                              localSid := sid, peerSid := iSid, sharedSecret := r.secret },
                 newRid := newRid, s2r := .sigma2Resume newRid mic2 sid }
  | _ => .none

/-- … is what the model's `respResume` (projection of the three-outcome `respResumeStep`) computes -/
theorem respResume_eq (fabrics : List Fabric) (cache : List ResRec) (m : Msg) (newRid sid : Term) :
    respResume fabrics cache m newRid sid = respResumeSucc fabrics cache m newRid sid := by
  unfold respResume respResumeStep respResumeSucc
  cases m with
  | sigma1 r s d e res =>
    cases res with
    | none => rfl
    | some p =>
      obtain ⟨rid, mic1⟩ := p
      simp only
      cases cache.find? (fun r => r.rid == rid) with
      | none => rfl
      | some rec =>
        simp only
        by_cases hm : mic1 = Term.mic (resumeKey rec.secret r rec.rid infoS1RK) nonceR1
        · simp only [hm, ne_eq, not_true_eq_false, ↓reduceIte]
          cases fabrics.find? (fun f => f.idx == rec.fabIdx) <;> rfl
        · simp only [hm, ne_eq, not_false_eq_true, ↓reduceIte]
  | _ => rfl

theorem responder_session_implies_auth (t : Time) (ctx : RespCtx) (m : Msg) (s : Session) (r : ResRec)
    (h : respSigma3 t ctx m = some (s, r)) :
    ∃ noc icac sig,
      -- Sigma3 is a ciphertext under this handshake's S3K carrying a chain and a signature
      m = .sigma3 (.enc (s3k ctx.secret ctx.fabric.ipk ctx.s1 ctx.s2) nonceS3 (tbe3 noc icac sig)) ∧
      -- the chain is valid (C19) up to the root of the fabric the destination id selected,
      -- and carries that fabric's id
      CaseValid t ctx.fabric.view noc icac ∧
      -- proof of possession of the NOC key over this handshake's ephemeral keys
      sig = Term.sign noc.pubKey (tbs noc icac ctx.peerEph (.epk ctx.eph)) ∧
      -- the session is bound to exactly that fabric, node id and CATs
      s.fabIdx = ctx.fabric.idx ∧ nodeIdOf noc.subject = some s.peerNode ∧
      s.cats = catsOf noc.subject ∧ s.localNode = ctx.fabric.nodeId ∧
      -- keys from the transcript of this handshake
      s.i2r = .part 0 (sessionKeys ctx.secret ctx.fabric.ipk ctx.s1 ctx.s2 m) ∧
      s.r2i = .part 1 (sessionKeys ctx.secret ctx.fabric.ipk ctx.s1 ctx.s2 m) ∧
      s.sharedSecret = ctx.secret ∧
      -- the resumption record takes the same identity and this handshake's secret
      r = { fabIdx := s.fabIdx, peerNode := s.peerNode, cats := s.cats, rid := ctx.rid, secret := ctx.secret } := by
  unfold respSigma3 at h
  split at h
  · rename_i k n p
    split at h
    · cases h
    · rename_i hk
      simp only [ne_eq, not_or, Decidable.not_not] at hk
      split at h
      · cases h
      · rename_i noc icac sig hp
        have hp' := parseTbe_some hp
        split at h
        · cases h
        · rename_i hv
          split at h
          · cases h
          · rename_i hsig
            simp only [ne_eq, Decidable.not_not] at hsig
            split at h
            · cases h
            · split at h
              · cases h
              · rename_i peer hpeer
                simp only [Option.some.injEq, Prod.mk.injEq] at h
                obtain ⟨hs, hr⟩ := h
                refine ⟨noc, icac, sig, ?_, (C19.validateCase_iff _ _ _ _).1 hv, hsig, ?_⟩
                · rw [hk.1, hk.2, hp']; rfl
                · subst hs; subst hr
                  exact ⟨rfl, hpeer, rfl, rfl, rfl, rfl, rfl, rfl⟩
  · cases h


/-- the fabric of the handshake is the one the destination id of Sigma1 selects: the first fabric
of the table whose HMAC over (initiator random, root key, fabric id, own node id) equals it -/
theorem respSigma1_selects_fabric (fabrics : List Fabric) (m : Msg) (eph : Nat) (rnd rid sid : Term)
    (ctx : RespCtx) (h : respSigma1 fabrics m eph rnd rid sid = .sent ctx) :
    ∃ iRnd iSid dest iEph resume,
      m = .sigma1 iRnd iSid dest iEph resume ∧ findFabric fabrics iRnd dest = some ctx.fabric ∧
      ctx.fabric ∈ fabrics ∧
      destId ctx.fabric.ipk iRnd ctx.fabric.root.pubKey ctx.fabric.fabricId ctx.fabric.nodeId = dest ∧
      ctx.s1 = m ∧ ctx.peerEph = iEph ∧ ctx.eph = eph ∧ ctx.secret = ecdh eph iEph ∧ ctx.peerSid = iSid ∧
      ctx.rid = rid ∧ ctx.sid = sid := by
  unfold respSigma1 at h
  split at h
  · rename_i iRnd iSid dest iEph resume
    split at h
    · cases h
    · rename_i f hf
      split at h
      · cases h
      · simp only [RespOut1.sent.injEq] at h
        subst h
        refine ⟨iRnd, iSid, dest, iEph, resume, rfl, hf, ?_, ?_, rfl, rfl, rfl, rfl, rfl, rfl, rfl⟩
        · exact List.mem_of_find?_eq_some hf
        · have := List.find?_some hf
          simpa using this
  · cases h

/-- **Responder, resumption**: a session completed on the resumption path takes the identity of
a cached record whose secret produced the `Resume1MIC` of the received Sigma1 (for the random
and resumption id that Sigma1 carries), and only after a success status report. -/
theorem responder_resume_implies_mic (fabrics : List Fabric) (cache : List ResRec) (m1 m2 : Msg)
    (newRid sid : Term) (ctx : RespResumeCtx) (s : Session) (r' : ResRec)
    (h1 : respResume fabrics cache m1 newRid sid = some ctx)
    (h2 : respResumeFinish ctx m2 = some (s, r')) :
    ∃ rec ∈ cache, ∃ iRnd iSid dest iEph,
      m1 = .sigma1 iRnd iSid dest iEph
        (some (rec.rid, Term.mic (resumeKey rec.secret iRnd rec.rid infoS1RK) nonceR1)) ∧
      m2 = .status true ∧
      s.fabIdx = rec.fabIdx ∧ s.peerNode = rec.peerNode ∧ s.cats = rec.cats ∧
      s.i2r = .part 0 (resumeSessionKeys rec.secret iRnd rec.rid) ∧
      s.r2i = .part 1 (resumeSessionKeys rec.secret iRnd rec.rid) ∧
      r' = { rec with rid := newRid } := by
  rw [respResume_eq] at h1
  unfold respResumeSucc at h1
  split at h1
  · rename_i iRnd iSid dest iEph rid mic1
    split at h1
    · cases h1
    · rename_i rec hrec
      split at h1
      · cases h1
      · rename_i hmic
        simp only [ne_eq, Decidable.not_not] at hmic
        split at h1
        · cases h1
        · rename_i f hf
          simp only [Option.some.injEq] at h1
          subst h1
          unfold respResumeFinish at h2
          split at h2
          · simp only [Option.some.injEq, Prod.mk.injEq] at h2
            obtain ⟨hs, hr⟩ := h2
            have hrid : rec.rid = rid := by
              have := List.find?_some hrec; simpa using this
            refine ⟨rec, List.mem_of_find?_eq_some hrec, iRnd, iSid, dest, iEph, ?_, rfl, ?_⟩
            · rw [hrid, hmic, hrid]
            · subst hs; subst hr
              exact ⟨rfl, rfl, rfl, rfl, rfl, rfl⟩
          · cases h2
  · cases h1

/-- **Initiator**: Sigma3 is only sent (and the handshake only continues) if Sigma2 is a
ciphertext under this handshake's S2K carrying a chain valid for the initiator's fabric, for the
node id the initiator addressed, with a signature by the NOC key over this handshake's
ephemeral keys. -/
theorem initiator_sigma2_implies_auth (t : Time) (c : InitCtx) (m : Msg) (c3 : InitCtx3)
    (h : initSigma2 t c m = some c3) :
    ∃ rRnd rSid rEph noc icac sig rid,
      m = .sigma2 rRnd rSid rEph
        (.enc (s2k (ecdh c.eph rEph) c.fabric.ipk rRnd rEph c.s1) nonceS2 (tbe2 noc icac sig rid)) ∧
      CaseValid t c.fabric.view noc icac ∧
      nodeIdOf noc.subject = some c.peerNode ∧
      sig = Term.sign noc.pubKey (tbs noc icac rEph (.epk c.eph)) ∧
      c3.ctx = c ∧ c3.s2 = m ∧ c3.cats = catsOf noc.subject ∧ c3.secret = ecdh c.eph rEph ∧
      c3.peerSid = rSid ∧ c3.peerRid = rid ∧
      c3.s3 = .sigma3 (.enc (s3k (ecdh c.eph rEph) c.fabric.ipk c.s1 m) nonceS3
        (tbe3 c.fabric.noc c.fabric.icac
          (Term.sign c.fabric.opKey (tbs c.fabric.noc c.fabric.icac (.epk c.eph) rEph)))) := by
  unfold initSigma2 at h
  split at h
  · rename_i rRnd rSid rEph k n p
    simp only at h
    split at h
    · cases h
    · rename_i hk
      simp only [ne_eq, not_or, Decidable.not_not] at hk
      split at h
      · rename_i noc icac sig rid hp
        have hp' := parseTbe_some hp
        split at h
        · cases h
        · rename_i hv
          split at h
          · cases h
          · rename_i hnode
            simp only [ne_eq, Decidable.not_not] at hnode
            split at h
            · cases h
            · rename_i hsig
              simp only [ne_eq, Decidable.not_not] at hsig
              split at h
              · cases h
              · simp only [Option.some.injEq] at h
                subst h
                refine ⟨rRnd, rSid, rEph, noc, icac, sig, rid, ?_, (C19.validateCase_iff _ _ _ _).1 hv,
                  hnode, hsig, rfl, rfl, rfl, rfl, rfl, rfl, rfl⟩
                rw [hk.1, hk.2, hp']; rfl
      · cases h
  · cases h

/-- the initiator's session is bound to its own fabric, the addressed node id and the CATs of
the validated NOC, with keys from its transcript; it needs a success status report -/
theorem initiator_session_implies_auth (t : Time) (c : InitCtx) (m2 m4 : Msg) (c3 : InitCtx3)
    (s : Session) (r : ResRec) (h2 : initSigma2 t c m2 = some c3) (h4 : initFinish c3 m4 = some (s, r)) :
    m4 = .status true ∧ s.fabIdx = c.fabric.idx ∧ s.peerNode = c.peerNode ∧
    s.localNode = c.fabric.nodeId ∧
    (∃ noc icac, CaseValid t c.fabric.view noc icac ∧ nodeIdOf noc.subject = some s.peerNode ∧
      s.cats = catsOf noc.subject) ∧
    s.i2r = .part 0 (sessionKeys c3.secret c.fabric.ipk c.s1 m2 c3.s3) ∧
    s.r2i = .part 1 (sessionKeys c3.secret c.fabric.ipk c.s1 m2 c3.s3) := by
  obtain ⟨rRnd, rSid, rEph, noc, icac, sig, rid, hm, hv, hn, hsig, hc, hs2, hcats, hsec, _, _, hs3⟩ :=
    initiator_sigma2_implies_auth t c m2 c3 h2
  unfold initFinish at h4
  split at h4
  · simp only [Option.some.injEq, Prod.mk.injEq] at h4
    obtain ⟨hs, _⟩ := h4
    subst hs
    rw [hc, hs2]
    exact ⟨rfl, rfl, rfl, rfl, ⟨noc, icac, hv, hn, hcats⟩, rfl, rfl⟩
  · cases h4

/-- initiator, resumption: only a `Resume2MIC` under the cached secret (for this handshake's
random and the new resumption id) completes the session, with the cached identity -/
theorem initiator_resume_implies_mic (c : InitCtx) (m : Msg) (s : Session) (r' : ResRec)
    (h : initSigma2Resume c m = some (s, r')) :
    ∃ rec newRid rSid, c.cached = some rec ∧
      m = .sigma2Resume newRid (Term.mic (resumeKey rec.secret c.rnd newRid infoS2RK) nonceR2) rSid ∧
      s.fabIdx = rec.fabIdx ∧ s.peerNode = rec.peerNode ∧ s.cats = rec.cats ∧
      s.i2r = .part 0 (resumeSessionKeys rec.secret c.rnd rec.rid) ∧
      s.r2i = .part 1 (resumeSessionKeys rec.secret c.rnd rec.rid) ∧
      r' = { rec with rid := newRid } := by
  unfold initSigma2Resume at h
  split at h
  · rename_i newRid mic2 rSid rec hc
    split at h
    · cases h
    · rename_i hmic
      simp only [ne_eq, Decidable.not_not] at hmic
      simp only [Option.some.injEq, Prod.mk.injEq] at h
      obtain ⟨hs, hr⟩ := h
      subst hs; subst hr
      exact ⟨rec, newRid, rSid, hc, by rw [hmic], rfl, rfl, rfl, rfl, rfl, rfl⟩
  · cases h


/-! ## Agreement: whoever accepts the peer's own ciphertext has seen the peer's transcript -/

theorem ecdh_comm (a b : Nat) : ecdh a (.epk b) = ecdh b (.epk a) := by
  unfold ecdh
  by_cases h1 : a ≤ b <;> by_cases h2 : b ≤ a <;> simp [h1, h2]
  · omega
  · omega

/-- the Sigma2 an honest responder emits -/
theorem respSigma1_s2 (fabrics : List Fabric) (m : Msg) (eph : Nat) (rnd rid sid : Term)
    (ctx : RespCtx) (h : respSigma1 fabrics m eph rnd rid sid = .sent ctx) :
    ∃ iEph, ctx.peerEph = iEph ∧ ctx.secret = ecdh eph iEph ∧ ctx.s1 = m ∧
    ctx.s2 = .sigma2 rnd sid (.epk eph)
      (.enc (s2k ctx.secret ctx.fabric.ipk rnd (.epk eph) m) nonceS2
        (tbe2 ctx.fabric.noc ctx.fabric.icac
          (Term.sign ctx.fabric.opKey (tbs ctx.fabric.noc ctx.fabric.icac (.epk eph) iEph)) rid)) := by
  unfold respSigma1 at h
  split at h
  · rename_i iRnd iSid dest iEph resume
    split at h
    · cases h
    · split at h
      · cases h
      · simp only [RespOut1.sent.injEq] at h
        subst h
        exact ⟨iEph, rfl, rfl, rfl, rfl⟩
  · cases h

/-- **Initiator side of agreement**: if the initiator accepts the Sigma2 an honest responder
produced, then that responder had received exactly the initiator's Sigma1 (any change of any
Sigma1 field in flight is detected here), both computed the same ECDH secret, and the chain and
signature the initiator validated are the responder's own. -/
theorem initiator_accepts_honest_sigma2 (fabrics : List Fabric) (m1' : Msg) (eph : Nat)
    (rnd rid sid : Term) (ctx : RespCtx) (t : Time) (c : InitCtx) (c3 : InitCtx3)
    (hR : respSigma1 fabrics m1' eph rnd rid sid = .sent ctx)
    (hI : initSigma2 t c ctx.s2 = some c3) :
    m1' = c.s1 ∧ c3.secret = ctx.secret ∧ ctx.fabric.ipk = c.fabric.ipk ∧
    nodeIdOf ctx.fabric.noc.subject = some c.peerNode := by
  obtain ⟨iEph, _, hsec, hs1, hs2⟩ := respSigma1_s2 fabrics m1' eph rnd rid sid ctx hR
  obtain ⟨rRnd, rSid, rEph, noc, icac, sig, rid', hm, _, hn, _, _, _, _, hsec3, _⟩ :=
    initiator_sigma2_implies_auth t c ctx.s2 c3 hI
  rw [hs2] at hm
  simp only [Msg.sigma2.injEq, Term.enc.injEq, s2k, Term.kdf.injEq, Term.pair.injEq, tt1,
    Term.hash.injEq, tbe2, Term.cert.injEq] at hm
  obtain ⟨_, _, hEph, ⟨hk, ⟨hipk, _, _, htt⟩, _⟩, _, hnoc, _⟩ := hm
  refine ⟨toTerm_inj htt, ?_, hipk, ?_⟩
  · rw [hsec3, ← hk]
  · rw [hnoc]; exact hn

/-- **Responder side of agreement / keys_agree**: if the responder accepts the Sigma3 an honest
initiator produced, then both hold the same Sigma1 and Sigma2 (any change of any Sigma1 / Sigma2
field in flight is detected here at the latest), the same secret and IPK, hence the same
directional keys; and the responder's session is bound to the initiator's own NOC. -/
theorem keys_agree (t t' : Time) (ctx : RespCtx) (c : InitCtx) (m2 : Msg) (c3 : InitCtx3)
    (sR sI : Session) (rR rI : ResRec)
    (hI2 : initSigma2 t' c m2 = some c3)
    (hR : respSigma3 t ctx c3.s3 = some (sR, rR))
    (hI4 : initFinish c3 (.status true) = some (sI, rI)) :
    ctx.s1 = c.s1 ∧ ctx.s2 = m2 ∧ sR.i2r = sI.i2r ∧ sR.r2i = sI.r2i ∧
    sR.sharedSecret = sI.sharedSecret ∧
    nodeIdOf c.fabric.noc.subject = some sR.peerNode ∧ sR.cats = catsOf c.fabric.noc.subject := by
  obtain ⟨noc, icac, sig, hm, _, _, _, hnode, hcats, _, hi2r, hr2i, hR', hrec⟩ :=
    responder_session_implies_auth t ctx c3.s3 sR rR hR
  obtain ⟨rRnd, rSid, rEph, noc2, icac2, sig2, rid2, hm2, _, _, _, hc, hs2, _, hsec, _, _, hs3⟩ :=
    initiator_sigma2_implies_auth t' c m2 c3 hI2
  rw [hs3] at hm
  simp only [Msg.sigma3.injEq, Term.enc.injEq, s3k, Term.kdf.injEq, Term.pair.injEq, tt2,
    Term.hash.injEq, tbe3, Term.cert.injEq] at hm
  obtain ⟨⟨hk, ⟨hipk, ht1, ht2⟩, _⟩, _, hnoc, _⟩ := hm
  have h1 : c.s1 = ctx.s1 := toTerm_inj ht1
  have h2 : m2 = ctx.s2 := toTerm_inj ht2
  unfold initFinish at hI4
  simp only [Option.some.injEq, Prod.mk.injEq] at hI4
  obtain ⟨hsI, _⟩ := hI4
  subst hsI
  have hsec' : c3.secret = ctx.secret := by rw [hsec, hk]
  refine ⟨h1.symm, h2.symm, ?_, ?_, ?_, ?_, ?_⟩
  · rw [hi2r]; simp only [hc, hs2, hsec', hipk, h1, h2, hs3]
  · rw [hr2i]; simp only [hc, hs2, hsec', hipk, h1, h2, hs3]
  · rw [hR']; exact hsec'.symm
  · rw [hnoc]; exact hnode
  · rw [hnoc]; exact hcats


/-! ## Tampering: single changes of the handshake messages -/

/-- Sigma1 changed in flight (any field, or replaced / replayed as a whole): the initiator does
not accept the Sigma2 the responder builds on it — no Sigma3 is sent, no session on either side. -/
theorem tamper_sigma1_no_session (fabrics : List Fabric) (m1' : Msg) (eph : Nat)
    (rnd rid sid : Term) (ctx : RespCtx) (t : Time) (c : InitCtx)
    (hR : respSigma1 fabrics m1' eph rnd rid sid = .sent ctx) (hne : m1' ≠ c.s1) :
    initSigma2 t c ctx.s2 = none := by
  cases h : initSigma2 t c ctx.s2 with
  | none => rfl
  | some c3 => exact absurd (initiator_accepts_honest_sigma2 fabrics m1' eph rnd rid sid ctx t c c3 hR h).1 hne

/-- Sigma1 or Sigma2 changed in flight, Sigma3 relayed: the responder rejects the initiator's
Sigma3 (different transcript hash ⇒ different S3K). -/
theorem tamper_sigma12_no_session (t t' : Time) (ctx : RespCtx) (c : InitCtx) (m2 : Msg) (c3 : InitCtx3)
    (hI2 : initSigma2 t' c m2 = some c3) (hne : ctx.s1 ≠ c.s1 ∨ ctx.s2 ≠ m2) :
    respSigma3 t ctx c3.s3 = none := by
  cases h : respSigma3 t ctx c3.s3 with
  | none => rfl
  | some p =>
    obtain ⟨sR, rR⟩ := p
    have := keys_agree t t' ctx c m2 c3 sR _ rR _ hI2 h rfl
    rcases hne with h1 | h1
    · exact absurd this.1 h1
    · exact absurd this.2.1 h1

/-- anything that is not a ciphertext under this handshake's S3K (bit flips, truncation, replay of
a Sigma3 of another handshake, another message type) gives the responder no session -/
theorem tamper_sigma3_no_session (t : Time) (ctx : RespCtx) (m : Msg)
    (h : ∀ p, m ≠ .sigma3 (.enc (s3k ctx.secret ctx.fabric.ipk ctx.s1 ctx.s2) nonceS3 p)) :
    respSigma3 t ctx m = none := by
  cases hr : respSigma3 t ctx m with
  | none => rfl
  | some q =>
    obtain ⟨s, r⟩ := q
    obtain ⟨noc, icac, sig, hm, _⟩ := responder_session_implies_auth t ctx m s r hr
    exact absurd hm (h _)

/-- likewise for the initiator and Sigma2 -/
theorem tamper_sigma2_no_session (t : Time) (c : InitCtx) (m : Msg)
    (h : ∀ rRnd rSid rEph p, m ≠ .sigma2 rRnd rSid rEph
      (.enc (s2k (ecdh c.eph rEph) c.fabric.ipk rRnd rEph c.s1) nonceS2 p)) :
    initSigma2 t c m = none := by
  cases hr : initSigma2 t c m with
  | none => rfl
  | some c3 =>
    obtain ⟨rRnd, rSid, rEph, noc, icac, sig, rid, hm, _⟩ := initiator_sigma2_implies_auth t c m c3 hr
    exact absurd hm (h _ _ _ _)

/-- the final status report: anything but success leaves the initiator without a session (the
responder keeps the session of the untouched run) -/
theorem tamper_status_no_session (c3 : InitCtx3) (m : Msg) (h : m ≠ .status true) :
    initFinish c3 m = none := by
  unfold initFinish
  split
  · exact absurd rfl h
  · rfl

/-- what `try_handle_sigma1_resume` has established when it answers with `Sigma2_Resume` -/
theorem respResume_some (fabrics : List Fabric) (cache : List ResRec) (m : Msg) (newRid sid : Term)
    (ctx : RespResumeCtx) (h : respResume fabrics cache m newRid sid = some ctx) :
    ∃ rec ∈ cache, ∃ iRnd iSid dest iEph,
      m = .sigma1 iRnd iSid dest iEph
        (some (rec.rid, Term.mic (resumeKey rec.secret iRnd rec.rid infoS1RK) nonceR1)) ∧
      ctx.record = rec ∧ ctx.newRid = newRid ∧
      ctx.s2r = .sigma2Resume newRid (Term.mic (resumeKey rec.secret iRnd newRid infoS2RK) nonceR2) sid ∧
      ctx.session.i2r = .part 0 (resumeSessionKeys rec.secret iRnd rec.rid) ∧
      ctx.session.r2i = .part 1 (resumeSessionKeys rec.secret iRnd rec.rid) := by
  rw [respResume_eq] at h
  unfold respResumeSucc at h
  split at h
  · rename_i iRnd iSid dest iEph rid mic1
    split at h
    · cases h
    · rename_i rec hrec
      split at h
      · cases h
      · rename_i hmic
        simp only [ne_eq, Decidable.not_not] at hmic
        split at h
        · cases h
        · simp only [Option.some.injEq] at h
          subst h
          have hrid : rec.rid = rid := by
            have := List.find?_some hrec; simpa using this
          refine ⟨rec, List.mem_of_find?_eq_some hrec, iRnd, iSid, dest, iEph, ?_, rfl, rfl, rfl, rfl, rfl⟩
          rw [hrid, hmic, hrid]
  · cases h

theorem respResumeStep_sent_iff (fabrics : List Fabric) (cache : List ResRec) (m : Msg) (newRid sid : Term)
    (cx : RespResumeCtx) :
    respResumeStep fabrics cache m newRid sid = .sent cx ↔ respResume fabrics cache m newRid sid = some cx := by
  unfold respResume
  cases respResumeStep fabrics cache m newRid sid <;> simp

/-- whenever `try_handle_sigma1_resume` does not fall through, it has found the record with the
received id and verified `Resume1MIC` under that record's secret; what happens then depends only on
whether the record's fabric index is (still) in the table -/
theorem respResumeStep_accepts (fabrics : List Fabric) (cache : List ResRec) (m : Msg) (newRid sid : Term)
    (h : respResumeStep fabrics cache m newRid sid ≠ .fallThrough) :
    ∃ rec iRnd iSid dest iEph, cache.find? (fun r => r.rid == rec.rid) = some rec ∧
      m = .sigma1 iRnd iSid dest iEph
        (some (rec.rid, Term.mic (resumeKey rec.secret iRnd rec.rid infoS1RK) nonceR1)) ∧
      ((∃ fb cx, fabrics.find? (fun f => f.idx == rec.fabIdx) = some fb ∧
          respResumeStep fabrics cache m newRid sid = .sent cx) ∨
       (fabrics.find? (fun f => f.idx == rec.fabIdx) = none ∧
          respResumeStep fabrics cache m newRid sid =
            .aborted (.sigma2Resume newRid (Term.mic (resumeKey rec.secret iRnd newRid infoS2RK) nonceR2) sid))) := by
  unfold respResumeStep at h ⊢
  split at h
  · rename_i iRnd iSid dest iEph rid mic1
    split at h
    · exact absurd rfl h
    · rename_i rec hrec
      split at h
      · exact absurd rfl h
      · rename_i hmic
        simp only [ne_eq, Decidable.not_not] at hmic
        have hrid : rec.rid = rid := by
          have := List.find?_some hrec; simpa using this
        refine ⟨rec, iRnd, iSid, dest, iEph, by rw [hrid]; exact hrec, by rw [hrid, hmic, hrid], ?_⟩
        simp only [hmic, ne_eq, not_true_eq_false, ↓reduceIte]
        cases hf : fabrics.find? (fun f => f.idx == rec.fabIdx) with
        | none => right; exact ⟨rfl, rfl⟩
        | some fb => left; exact ⟨fb, _, rfl, rfl⟩
  · exact absurd rfl h

/-- **resumption, keys_agree**: the responder resumes on the initiator's own Sigma1 and the
initiator accepts the responder's own `Sigma2_Resume` ⇒ same directional keys and the same
rotated resumption id on both sides -/
theorem resume_keys_agree (f : Fabric) (cacheI cacheR : List ResRec) (peer eph : Nat) (rnd sidI : Term)
    (fabrics : List Fabric) (newRid sid : Term) (ctxR : RespResumeCtx) (sR sI : Session) (rR rI : ResRec)
    (h1 : respResume fabrics cacheR (initSigma1 f cacheI peer eph rnd sidI).s1 newRid sid = some ctxR)
    (h2 : respResumeFinish ctxR (.status true) = some (sR, rR))
    (h3 : initSigma2Resume (initSigma1 f cacheI peer eph rnd sidI) ctxR.s2r = some (sI, rI)) :
    sR.i2r = sI.i2r ∧ sR.r2i = sI.r2i ∧ rR.rid = rI.rid := by
  obtain ⟨recR, _, iRnd, iSid, dest, iEph, hm1, hrec, hnr, hs2r, hki, hkr⟩ :=
    respResume_some fabrics cacheR _ newRid sid ctxR h1
  obtain ⟨recI, newRid', rSid, hc, hm, _, _, _, hIi, hIr, hrI⟩ :=
    initiator_resume_implies_mic _ ctxR.s2r sI rI h3
  unfold respResumeFinish at h2
  simp only [Option.some.injEq, Prod.mk.injEq] at h2
  obtain ⟨hsR, hrR⟩ := h2
  -- the initiator's Sigma1 carries its own record's id and MIC
  have hcached : (initSigma1 f cacheI peer eph rnd sidI).cached = some recI := hc
  simp only [initSigma1] at hm1 hcached hIi hIr
  rw [hcached] at hm1
  simp only [Option.map_some, Msg.sigma1.injEq, Option.some.injEq, Prod.mk.injEq, Term.mic.injEq,
    resumeKey, Term.kdf.injEq, Term.pair.injEq] at hm1
  obtain ⟨hrnd, _, _, _, hrid, ⟨hsec, _, _⟩, _⟩ := hm1
  rw [hs2r] at hm
  simp only [Msg.sigma2Resume.injEq] at hm
  obtain ⟨hnew, _, _⟩ := hm
  refine ⟨?_, ?_, ?_⟩
  · rw [← hsR, hki, hIi, ← hsec, ← hrid, ← hrnd]
  · rw [← hsR, hkr, hIr, ← hsec, ← hrid, ← hrnd]
  · rw [← hrR, hrI, hnr, hnew]


/-! ## The Dolev-Yao attacker

`Derivable H S C K t`: what an on-path attacker can construct from the terms `K` it has seen, with
all public operations, its own ephemeral secrets (any secret not in the honest set `H`),
signatures under the long-term keys satisfying `S` and the certificates satisfying `C`
(certificates are symbolic records, so "issued by a CA" has to come from outside).
Decryption needs the key. -/

inductive Derivable (H : List Nat) (S : Nat → Prop) (C : Cert → Prop) (K : List Term) : Term → Prop
  | known {t} : t ∈ K → Derivable H S C K t
  | atom (n) : Derivable H S C K (.atom n)
  | none : Derivable H S C K .none
  | cert {c} : C c → Derivable H S C K (.cert c)
  | epk (n) : Derivable H S C K (.epk n)
  | ownEcdh {z t} : z ∉ H → Derivable H S C K t → Derivable H S C K (ecdh z t)
  | pair {a b} : Derivable H S C K a → Derivable H S C K b → Derivable H S C K (.pair a b)
  | fst {a b} : Derivable H S C K (.pair a b) → Derivable H S C K a
  | snd {a b} : Derivable H S C K (.pair a b) → Derivable H S C K b
  | hash {a} : Derivable H S C K a → Derivable H S C K (.hash a)
  | kdf {a b c} : Derivable H S C K a → Derivable H S C K b → Derivable H S C K c →
      Derivable H S C K (.kdf a b c)
  | mac {a b} : Derivable H S C K a → Derivable H S C K b → Derivable H S C K (.mac a b)
  | sign {k m} : S k → Derivable H S C K m → Derivable H S C K (.sign k m)
  | mic {a b} : Derivable H S C K a → Derivable H S C K b → Derivable H S C K (.mic a b)
  | enc {k n p} : Derivable H S C K k → Derivable H S C K n → Derivable H S C K p →
      Derivable H S C K (.enc k n p)
  | dec {k n p} : Derivable H S C K (.enc k n p) → Derivable H S C K k → Derivable H S C K p
  | part {i t} : Derivable H S C K t → Derivable H S C K (.part i t)

/-- the secrets of a handshake with ephemeral secrets `a ≤ b`: the ECDH result and every key
derived from it -/
def isSec (a b : Nat) : Term → Bool
  | .shared x y => x == a && y == b
  | .kdf (.shared x y) _ _ => x == a && y == b
  | _ => false

/-- `P`: the secrets occur only as keys of `enc` / `mic` (never exposed) -/
def P (a b : Nat) : Term → Prop
  | .atom _ => True
  | .epk _ => True
  | .shared x y => ¬ (x = a ∧ y = b)
  | .badShared _ t => P a b t
  | .pair u v => P a b u ∧ P a b v
  | .hash u => P a b u
  | .kdf s x y => isSec a b (.kdf s x y) = false ∧ P a b s ∧ P a b x ∧ P a b y
  | .mac k m => P a b k ∧ P a b m
  | .sign _ m => P a b m
  | .mic k n => isSec a b k = true ∨ (P a b k ∧ P a b n)
  | .enc k n p => isSec a b k = true ∨ (P a b k ∧ P a b n ∧ P a b p)
  | .cert _ => True
  | .none => True
  | .part _ t => P a b t

theorem P_not_sec {a b : Nat} {k : Term} (h : P a b k) : isSec a b k = false := by
  cases k <;> simp [isSec, P] at h ⊢
  · rename_i x y; intro hx; exact fun hy => h hx hy
  · rename_i s x y
    exact h.1

theorem P_ecdh (a b z : Nat) (t : Term) (hz : ¬ (z = a ∨ z = b)) (ht : P a b t) : P a b (ecdh z t) := by
  unfold ecdh
  split
  · rename_i y
    split <;> (simp only [P]; omega)
  · exact ht

theorem derivable_P (a b : Nat) (H : List Nat) (S : Nat → Prop) (C : Cert → Prop) (K : List Term)
    (ha : a ∈ H) (hb : b ∈ H) (hK : ∀ t ∈ K, P a b t) :
    ∀ t, Derivable H S C K t → P a b t := by
  intro t h
  induction h with
  | known hm => exact hK _ hm
  | atom n => trivial
  | none => trivial
  | cert _ => trivial
  | epk n => trivial
  | ownEcdh hz _ ih =>
    apply P_ecdh _ _ _ _ _ ih
    rintro (h | h)
    · exact hz (h ▸ ha)
    · exact hz (h ▸ hb)
  | pair _ _ ih1 ih2 => exact ⟨ih1, ih2⟩
  | fst _ ih => exact ih.1
  | snd _ ih => exact ih.2
  | hash _ ih => exact ih
  | kdf _ _ _ ih1 ih2 ih3 =>
    refine ⟨?_, ih1, ih2, ih3⟩
    rename_i s x y _ _ _
    cases s <;> simp [isSec]
    rename_i u v
    simp [P] at ih1
    exact ih1
  | mac _ _ ih1 ih2 => exact ⟨ih1, ih2⟩
  | sign _ _ ih => exact ih
  | mic _ _ ih1 ih2 => exact Or.inr ⟨ih1, ih2⟩
  | enc _ _ _ ih1 ih2 ih3 => exact Or.inr ⟨ih1, ih2, ih3⟩
  | dec _ _ ih1 ih2 =>
    rcases ih1 with h1 | h1
    · rw [P_not_sec ih2] at h1; cases h1
    · exact h1.2.2
  | part _ ih => exact ih

/-- `Q`: every ciphertext / MIC under a secret key is one of the honest ones in `E` -/
def Q (a b : Nat) (E : List Term) : Term → Prop
  | .atom _ => True
  | .epk _ => True
  | .shared _ _ => True
  | .badShared _ t => Q a b E t
  | .pair u v => Q a b E u ∧ Q a b E v
  | .hash u => Q a b E u
  | .kdf s x y => Q a b E s ∧ Q a b E x ∧ Q a b E y
  | .mac k m => Q a b E k ∧ Q a b E m
  | .sign _ m => Q a b E m
  | .mic k n => (isSec a b k = true → Term.mic k n ∈ E) ∧ Q a b E k ∧ Q a b E n
  | .enc k n p => (isSec a b k = true → Term.enc k n p ∈ E) ∧ Q a b E k ∧ Q a b E n ∧ Q a b E p
  | .cert _ => True
  | .none => True
  | .part _ t => Q a b E t

theorem Q_ecdh (a b z : Nat) (E : List Term) (t : Term) (ht : Q a b E t) : Q a b E (ecdh z t) := by
  unfold ecdh
  split
  · split <;> trivial
  · exact ht

theorem derivable_PQ (a b : Nat) (H : List Nat) (S : Nat → Prop) (C : Cert → Prop) (E K : List Term)
    (ha : a ∈ H) (hb : b ∈ H) (hK : ∀ t ∈ K, P a b t ∧ Q a b E t) :
    ∀ t, Derivable H S C K t → P a b t ∧ Q a b E t := by
  intro t h
  have hP : ∀ t, Derivable H S C K t → P a b t :=
    derivable_P a b H S C K ha hb (fun t ht => (hK t ht).1)
  refine ⟨hP t h, ?_⟩
  induction h with
  | known hm => exact (hK _ hm).2
  | atom n => trivial
  | none => trivial
  | cert _ => trivial
  | epk n => trivial
  | ownEcdh _ _ ih => exact Q_ecdh _ _ _ _ _ ih
  | pair _ _ ih1 ih2 => exact ⟨ih1, ih2⟩
  | fst _ ih => exact ih.1
  | snd _ ih => exact ih.2
  | hash _ ih => exact ih
  | kdf _ _ _ ih1 ih2 ih3 => exact ⟨ih1, ih2, ih3⟩
  | mac _ _ ih1 ih2 => exact ⟨ih1, ih2⟩
  | sign _ _ ih => exact ih
  | mic hk _ ih1 ih2 =>
    refine ⟨?_, ih1, ih2⟩
    intro hs; rw [P_not_sec (hP _ hk)] at hs; cases hs
  | enc hk _ _ ih1 ih2 ih3 =>
    refine ⟨?_, ih1, ih2, ih3⟩
    intro hs; rw [P_not_sec (hP _ hk)] at hs; cases hs
  | dec _ _ ih1 _ => exact ih1.2.2.2
  | part _ ih => exact ih

theorem ecdh_epk (x y : Nat) : ecdh x (.epk y) = .shared (min x y) (max x y) := by
  unfold ecdh
  by_cases h : x ≤ y
  · simp [h, Nat.min_eq_left h, Nat.max_eq_right h]
  · have h' : y ≤ x := by omega
    simp [h, Nat.min_eq_right h', Nat.max_eq_left h']

theorem PQ_cert_opt (a b : Nat) (E : List Term) (o : Option Cert) :
    P a b (optCert o) ∧ Q a b E (optCert o) := by
  cases o <;> simp [optCert, P, Q]

/-- **Sigma3 cannot be forged** (Dolev-Yao): an attacker who sees the whole handshake and knows
the fabric's IPK (an insider), has its own ephemeral secrets, may even sign under any long-term key
and fabricate any certificate record, but knows neither ephemeral secret of this handshake,
cannot construct any Sigma3 the responder accepts other than the initiator's own.  With
`keys_agree` this is the tamper clause for the responder: no session, or the session of the
untouched run.  Public values (randoms, session ids, resumption id, IPK) are atoms. -/
theorem sigma3_unforgeable (t t' : Time) (fabrics : List Fabric) (f : Fabric) (peer ephI ephR : Nat)
    (rI sI ipk rR idR sR : Nat) (m1' : Msg) (ctx : RespCtx) (c3 : InitCtx3) (m : Msg)
    (hipk : f.ipk = .atom ipk)
    (hR : respSigma1 fabrics m1' ephR (.atom rR) (.atom idR) (.atom sR) = .sent ctx)
    (hI : initSigma2 t' (initSigma1 f [] peer ephI (.atom rI) (.atom sI)) ctx.s2 = some c3)
    (S : Nat → Prop) (C : Cert → Prop)
    (hD : Derivable [ephI, ephR] S C [(initSigma1 f [] peer ephI (.atom rI) (.atom sI)).s1.toTerm,
      m1'.toTerm, ctx.s2.toTerm, c3.s3.toTerm, f.ipk] m.toTerm)
    (hA : (respSigma3 t ctx m).isSome = true) : m = c3.s3 := by
  -- the responder saw the initiator's own Sigma1
  obtain ⟨hm1, hsec3, hipk', _⟩ :=
    initiator_accepts_honest_sigma2 fabrics m1' ephR (.atom rR) (.atom idR) (.atom sR) ctx t' _ c3 hR hI
  obtain ⟨iEph, hpe, hsec, hs1, hs2⟩ := respSigma1_s2 fabrics m1' ephR _ _ _ ctx hR
  obtain ⟨rRnd, rSid, rEph, noc, icac, sig, rid, hm2, _, _, _, hc, _, _, hsecI, _, _, hs3⟩ :=
    initiator_sigma2_implies_auth t' _ ctx.s2 c3 hI
  -- shapes
  have hiEph : iEph = .epk ephI := by
    rw [hm1] at hR
    unfold respSigma1 initSigma1 at hR
    simp only [List.find?_nil, Option.map_none] at hR
    split at hR
    · cases hR
    · split at hR
      · cases hR
      · simp only [RespOut1.sent.injEq] at hR
        rw [← hR] at hpe
        exact hpe.symm
  have hrEph : rEph = .epk ephR := by
    rw [hs2] at hm2
    simp only [Msg.sigma2.injEq] at hm2
    exact hm2.2.2.1.symm
  -- the accepted message
  cases hres : respSigma3 t ctx m with
  | none => rw [hres] at hA; cases hA
  | some q =>
    obtain ⟨sR', rR'⟩ := q
    obtain ⟨noc3, icac3, sig3, hm, _⟩ := responder_session_implies_auth t ctx m sR' rR' hres
    -- the shared secret
    let a := min ephR ephI
    let b := max ephR ephI
    have hS : ctx.secret = .shared a b := by rw [hsec, hiEph, ecdh_epk]
    have hSI : ecdh ephI rEph = .shared a b := by
      rw [hrEph, ecdh_epk, Nat.min_comm, Nat.max_comm]
    let E2 : Term := .enc (s2k ctx.secret ctx.fabric.ipk (.atom rR) (.epk ephR) m1') nonceS2
      (tbe2 ctx.fabric.noc ctx.fabric.icac
        (Term.sign ctx.fabric.opKey (tbs ctx.fabric.noc ctx.fabric.icac (.epk ephR) iEph)) (.atom idR))
    let E3 : Term := .enc (s3k (ecdh ephI rEph) f.ipk (initSigma1 f [] peer ephI (.atom rI) (.atom sI)).s1 ctx.s2) nonceS3
      (tbe3 f.noc f.icac (Term.sign f.opKey (tbs f.noc f.icac (.epk ephI) rEph)))
    have hipkR : ctx.fabric.ipk = .atom ipk := by rw [hipk', ← hipk]; rfl
    have hisS : ∀ x y, isSec a b (.kdf (.shared a b) x y) = true := by intro x y; simp [isSec]
    -- the messages on the wire keep the secrets under wraps and contain no other ciphertext
    have h1 : P a b (initSigma1 f [] peer ephI (.atom rI) (.atom sI)).s1.toTerm ∧
        Q a b [E2, E3] (initSigma1 f [] peer ephI (.atom rI) (.atom sI)).s1.toTerm := by
      simp [initSigma1, Msg.toTerm, resumeTerm, destId, hipk, P, Q]
    have hcert : ∀ o : Option Cert, P a b (optCert o) ∧ Q a b [E2, E3] (optCert o) :=
      PQ_cert_opt a b [E2, E3]
    have hs3' : c3.s3 = .sigma3 E3 := hs3
    have hm1Q : Q a b [E2, E3] m1'.toTerm := by rw [hm1]; exact h1.2
    have hE2mem : E2 ∈ [E2, E3] := List.mem_cons_self
    have hE3mem : E3 ∈ [E2, E3] := List.mem_cons_of_mem _ List.mem_cons_self
    have hQE2 : Q a b [E2, E3] E2 := by
      show (_ → E2 ∈ [E2, E3]) ∧ Q a b _ (s2k ctx.secret ctx.fabric.ipk (.atom rR) (.epk ephR) m1') ∧
        Q a b _ nonceS2 ∧ Q a b _ (tbe2 ctx.fabric.noc ctx.fabric.icac _ (.atom idR))
      refine ⟨fun _ => hE2mem, ?_, trivial, ?_⟩
      · show Q a b _ ctx.secret ∧ Q a b _ (Term.pair ctx.fabric.ipk (.pair (.atom rR) (.pair (.epk ephR) (tt1 m1')))) ∧ Q a b _ infoS2K
        rw [hS, hipkR]
        exact ⟨trivial, ⟨trivial, trivial, trivial, hm1Q⟩, trivial⟩
      · show Q a b _ (Term.cert _) ∧ Q a b _ (optCert ctx.fabric.icac) ∧ Q a b _ (Term.sign _ _) ∧ Q a b _ (Term.atom idR)
        refine ⟨trivial, (hcert _).2, ?_, trivial⟩
        show Q a b _ (Term.cert _) ∧ Q a b _ (optCert ctx.fabric.icac) ∧ Q a b _ (Term.epk ephR) ∧ Q a b _ iEph
        rw [hiEph]
        exact ⟨trivial, (hcert _).2, trivial, trivial⟩
    have h2 : P a b ctx.s2.toTerm ∧ Q a b [E2, E3] ctx.s2.toTerm := by
      rw [hs2]
      have hk : isSec a b (s2k ctx.secret ctx.fabric.ipk (.atom rR) (.epk ephR) m1') = true := by
        rw [hS]; exact hisS _ _
      refine ⟨?_, ?_⟩
      · show P a b (.atom 2) ∧ P a b (.atom rR) ∧ P a b (.atom sR) ∧ P a b (.epk ephR) ∧ P a b E2
        exact ⟨trivial, trivial, trivial, trivial, Or.inl hk⟩
      · show Q a b _ (.atom 2) ∧ Q a b _ (.atom rR) ∧ Q a b _ (.atom sR) ∧ Q a b _ (.epk ephR) ∧ Q a b _ E2
        exact ⟨trivial, trivial, trivial, trivial, hQE2⟩
    have hQE3 : Q a b [E2, E3] E3 := by
      show (_ → E3 ∈ [E2, E3]) ∧ Q a b _ (s3k (ecdh ephI rEph) f.ipk _ ctx.s2) ∧
        Q a b _ nonceS3 ∧ Q a b _ (tbe3 f.noc f.icac _)
      refine ⟨fun _ => hE3mem, ?_, trivial, ?_⟩
      · show Q a b _ (ecdh ephI rEph) ∧ Q a b _ (Term.pair f.ipk (tt2 _ ctx.s2)) ∧ Q a b _ infoS3K
        rw [hSI, hipk]
        exact ⟨trivial, ⟨trivial, h1.2, h2.2⟩, trivial⟩
      · show Q a b _ (Term.cert _) ∧ Q a b _ (optCert f.icac) ∧ Q a b _ (Term.sign _ _)
        refine ⟨trivial, (hcert _).2, ?_⟩
        show Q a b _ (Term.cert _) ∧ Q a b _ (optCert f.icac) ∧ Q a b _ (Term.epk ephI) ∧ Q a b _ rEph
        rw [hrEph]
        exact ⟨trivial, (hcert _).2, trivial, trivial⟩
    have h3 : P a b c3.s3.toTerm ∧ Q a b [E2, E3] c3.s3.toTerm := by
      rw [hs3']
      have hk : isSec a b (s3k (ecdh ephI rEph) f.ipk (initSigma1 f [] peer ephI (.atom rI) (.atom sI)).s1 ctx.s2) = true := by
        rw [hSI]; exact hisS _ _
      exact ⟨⟨trivial, Or.inl hk⟩, ⟨trivial, hQE3⟩⟩
    have hab : a ∈ [ephI, ephR] ∧ b ∈ [ephI, ephR] := by
      simp only [List.mem_cons, List.not_mem_nil, or_false, a, b]; omega
    have hPQ := derivable_PQ a b [ephI, ephR] S C [E2, E3] _ hab.1 hab.2 (by
      intro x hx
      simp only [List.mem_cons, List.not_mem_nil, or_false] at hx
      rcases hx with rfl | rfl | rfl | rfl | rfl
      · exact h1
      · rw [hm1]; exact h1
      · exact h2
      · exact h3
      · rw [hipk]; simp [P, Q]) m.toTerm hD
    -- the accepted ciphertext is under a secret key, hence one of the two honest ones
    have hq := hPQ.2
    rw [hm] at hq
    simp only [Msg.toTerm, Q] at hq
    have hk3 : isSec a b (s3k ctx.secret ctx.fabric.ipk ctx.s1 ctx.s2) = true := by
      rw [hS]; exact hisS _ _
    have hmem := hq.2.1 hk3
    simp only [List.mem_cons, List.not_mem_nil, or_false] at hmem
    rcases hmem with h | h
    · -- a Sigma2 ciphertext is under another key (different KDF info)
      simp [E2, s3k, s2k, infoS3K, infoS2K] at h
    · rw [hm, h, hs3']


/-! ## The Sigma2 side: signature origin

Unlike Sigma3, Sigma2 is not protected by encryption alone: an insider who knows the IPK can run
its own ECDH with the initiator and encrypt whatever it likes under the resulting S2K.  What it
cannot produce is the responder's TBS signature over the initiator's ephemeral key.  The
invariant `R` says where signatures and certificates the attacker ends up with come from. -/

/-- `R`: signature / certificate origin.  Outside the honest ciphertexts `E` (which the attacker
cannot open), no signature under a key outside `S` and no certificate outside `C` occurs. -/
def R (S : Nat → Prop) (C : Cert → Prop) (E : List Term) : Term → Prop
  | .atom _ => True
  | .epk _ => True
  | .shared _ _ => True
  | .badShared _ t => R S C E t
  | .pair u v => R S C E u ∧ R S C E v
  | .hash u => R S C E u
  | .kdf s x y => R S C E s ∧ R S C E x ∧ R S C E y
  | .mac k m => R S C E k ∧ R S C E m
  | .sign k m => S k ∧ R S C E m
  | .mic k n => R S C E k ∧ R S C E n
  | .enc k n p => Term.enc k n p ∈ E ∨ (R S C E k ∧ R S C E n ∧ R S C E p)
  | .cert c => C c
  | .none => True
  | .part _ t => R S C E t

theorem R_ecdh (S : Nat → Prop) (C : Cert → Prop) (E : List Term) (z : Nat) (t : Term)
    (ht : R S C E t) : R S C E (ecdh z t) := by
  unfold ecdh
  split
  · split <;> trivial
  · exact ht

/-- every term the attacker derives satisfies the origin invariant, provided what it starts from
does and every honest ciphertext in `E` is under a secret key of the handshake `(a, b)` -/
theorem derivable_R (a b : Nat) (H : List Nat) (S : Nat → Prop) (C : Cert → Prop) (E K : List Term)
    (ha : a ∈ H) (hb : b ∈ H) (hK : ∀ t ∈ K, P a b t ∧ R S C E t)
    (hE : ∀ k n p, Term.enc k n p ∈ E → isSec a b k = true) :
    ∀ t, Derivable H S C K t → R S C E t := by
  intro t h
  have hP : ∀ t, Derivable H S C K t → P a b t :=
    derivable_P a b H S C K ha hb (fun t ht => (hK t ht).1)
  induction h with
  | known hm => exact (hK _ hm).2
  | atom n => trivial
  | none => trivial
  | cert hc => exact hc
  | epk n => trivial
  | ownEcdh _ _ ih => exact R_ecdh _ _ _ _ _ ih
  | pair _ _ ih1 ih2 => exact ⟨ih1, ih2⟩
  | fst _ ih => exact ih.1
  | snd _ ih => exact ih.2
  | hash _ ih => exact ih
  | kdf _ _ _ ih1 ih2 ih3 => exact ⟨ih1, ih2, ih3⟩
  | mac _ _ ih1 ih2 => exact ⟨ih1, ih2⟩
  | sign hs _ ih => exact ⟨hs, ih⟩
  | mic _ _ ih1 ih2 => exact ⟨ih1, ih2⟩
  | enc _ _ _ ih1 ih2 ih3 => exact Or.inr ⟨ih1, ih2, ih3⟩
  | dec _ hk ih1 _ =>
    rcases ih1 with h1 | h1
    · have := hE _ _ _ h1
      rw [P_not_sec (hP _ hk)] at this; cases this
    · exact h1.2.2
  | part _ ih => exact ih

/-- what the attacker can present as an intermediate: nothing, or a certificate of `C` -/
theorem R_optCert {S : Nat → Prop} {C : Cert → Prop} {E : List Term} {o : Option Cert}
    (h : R S C E (optCert o)) : ∀ i ∈ o, C i := by
  intro i hi
  cases o with
  | none => cases hi
  | some c => cases hi; exact h

/-- **Sigma2 cannot be forged** (`C01_full`, the initiator side of unforgeability): against the
same Dolev-Yao attacker (sees the wire, knows the IPK, own ephemeral secrets, signs under every
key in `S`, presents every certificate in `C`), if
* `hcert`: no chain the attacker can PRESENT — leaf in `C` and intermediate, if any, in `C` too —
  that is valid for the addressed fabric and names the addressed node id certifies a key the
  attacker can sign with (the premise quantifies over presentable chains only: certificates are
  free records, so an intermediate "signed by the root" can always be written down; what matters
  is whether the attacker holds it.  `hcert_of_provenance` in `Props/C01Net.lean` derives `hcert`
  from where the attacker's certificates come from; the `example` below shows that some such
  hypothesis is necessary),
then every Sigma2 derivable from the wire that the initiator accepts is the honest responder's own
Sigma2 for this handshake (same random, ephemeral key, ciphertext — hence same chain, signature and
resumption id), up to the responder session id, which Sigma2 does not authenticate (it is bound
by the transcript hash at Sigma3, see `net_single_mutation_full`).
Scope: the initiator offers no resumption (`initSigma1 f [] …`) and the responder answered the
initiator's UNTAMPERED Sigma1 (`hR`); a forged Sigma1 is the subject of `tamper_sigma1_no_session`
and of the network theorem. -/
theorem C01_full (t : Time) (fabrics : List Fabric) (f : Fabric) (peer ephI ephR : Nat)
    (rI sI ipk rR idR sR : Nat) (ctx : RespCtx) (c3 : InitCtx3) (S : Nat → Prop) (C : Cert → Prop)
    (m : Msg)
    (hipk : f.ipk = .atom ipk)
    (hR : respSigma1 fabrics (initSigma1 f [] peer ephI (.atom rI) (.atom sI)).s1 ephR (.atom rR)
      (.atom idR) (.atom sR) = .sent ctx)
    (hcert : ∀ c ic, C c → (∀ i ∈ ic, C i) → CaseValid t f.view c ic →
      nodeIdOf c.subject = some peer → ¬ S c.pubKey)
    (hD : Derivable [ephI, ephR] S C
      [(initSigma1 f [] peer ephI (.atom rI) (.atom sI)).s1.toTerm, ctx.s2.toTerm, f.ipk] m.toTerm)
    (hA : initSigma2 t (initSigma1 f [] peer ephI (.atom rI) (.atom sI)) m = some c3) :
    ∃ sid', m = .sigma2 (.atom rR) sid' (.epk ephR)
      (.enc (s2k ctx.secret ctx.fabric.ipk (.atom rR) (.epk ephR) ctx.s1) nonceS2
        (tbe2 ctx.fabric.noc ctx.fabric.icac
          (Term.sign ctx.fabric.opKey (tbs ctx.fabric.noc ctx.fabric.icac (.epk ephR) (.epk ephI)))
          (.atom idR))) := by
  obtain ⟨iEph, hpe, hsec, hs1, hs2⟩ := respSigma1_s2 fabrics _ ephR _ _ _ ctx hR
  obtain ⟨rRnd, rSid, rEph, noc, icac, sig, rid, hm, hv, hn, hsig, _⟩ :=
    initiator_sigma2_implies_auth t _ m c3 hA
  have hiEph : iEph = .epk ephI := by
    have hR' := hR
    unfold respSigma1 initSigma1 at hR'
    simp only [List.find?_nil, Option.map_none] at hR'
    split at hR'
    · cases hR'
    · split at hR'
      · cases hR'
      · simp only [RespOut1.sent.injEq] at hR'
        rw [← hR'] at hpe
        exact hpe.symm
  let a := min ephR ephI
  let b := max ephR ephI
  have hSec : ctx.secret = .shared a b := by rw [hsec, hiEph, ecdh_epk]
  let E2 : Term := .enc (s2k ctx.secret ctx.fabric.ipk (.atom rR) (.epk ephR) ctx.s1) nonceS2
    (tbe2 ctx.fabric.noc ctx.fabric.icac
      (Term.sign ctx.fabric.opKey (tbs ctx.fabric.noc ctx.fabric.icac (.epk ephR) (.epk ephI))) (.atom idR))
  have hs2' : ctx.s2 = .sigma2 (.atom rR) (.atom sR) (.epk ephR) E2 := by
    rw [hs2, hiEph]; simp only [E2, hs1]
  have hkE2 : isSec a b (s2k ctx.secret ctx.fabric.ipk (.atom rR) (.epk ephR) ctx.s1) = true := by
    rw [hSec]; simp [s2k, isSec]
  have hab : a ∈ [ephI, ephR] ∧ b ∈ [ephI, ephR] := by
    simp only [List.mem_cons, List.not_mem_nil, or_false, a, b]; omega
  have h1 : P a b (initSigma1 f [] peer ephI (.atom rI) (.atom sI)).s1.toTerm ∧
      R S C [E2] (initSigma1 f [] peer ephI (.atom rI) (.atom sI)).s1.toTerm := by
    simp [initSigma1, Msg.toTerm, resumeTerm, destId, hipk, P, R]
  have h2 : P a b ctx.s2.toTerm ∧ R S C [E2] ctx.s2.toTerm := by
    rw [hs2']
    refine ⟨?_, ?_⟩
    · show P a b (.atom 2) ∧ P a b (.atom rR) ∧ P a b (.atom sR) ∧ P a b (.epk ephR) ∧ P a b E2
      exact ⟨trivial, trivial, trivial, trivial, Or.inl hkE2⟩
    · show R S C _ (.atom 2) ∧ R S C _ (.atom rR) ∧ R S C _ (.atom sR) ∧ R S C _ (.epk ephR) ∧ R S C _ E2
      exact ⟨trivial, trivial, trivial, trivial, Or.inl List.mem_cons_self⟩
  have hRm := derivable_R a b [ephI, ephR] S C [E2] _ hab.1 hab.2 (by
    intro x hx
    simp only [List.mem_cons, List.not_mem_nil, or_false] at hx
    rcases hx with rfl | rfl | rfl
    · exact h1
    · exact h2
    · rw [hipk]; simp [P, R]) (by
    intro k n p hmem
    simp only [List.mem_cons, List.not_mem_nil, or_false, E2, Term.enc.injEq] at hmem
    rw [hmem.1]; exact hkE2) m.toTerm hD
  rw [hm] at hRm
  simp only [Msg.toTerm, R] at hRm
  rcases hRm.2.2.2.2 with hmem | hr
  · -- the ciphertext is the responder's own: the random and ephemeral key are bound by its key
    simp only [List.mem_cons, List.not_mem_nil, or_false] at hmem
    have hmem' := hmem
    simp only [E2, Term.enc.injEq, s2k, Term.kdf.injEq, Term.pair.injEq] at hmem'
    obtain ⟨⟨_, ⟨_, hrnd, hreph, _⟩, _⟩, _, _⟩ := hmem'
    refine ⟨rSid, ?_⟩
    rw [hm, hmem, hrnd, hreph]
  · -- a ciphertext of the attacker's own making: its signature would have to be under the
    -- responder's operational key
    exfalso
    have hr3 := hr.2.2
    simp only [tbe2, R] at hr3
    have hCn : C noc := hr3.1
    have hSk : S noc.pubKey := by
      have := hr3.2.2.1
      rw [hsig] at this
      exact this.1
    exact hcert noc icac hCn (R_optCert hr3.2.1) hv hn hSk

/-- the earlier form of the hypotheses (the attacker cannot sign under the responder's key, and
every presentable valid chain for the addressed node id certifies that key) implies `hcert` -/
theorem C01_full_of_unique_key (t : Time) (fabrics : List Fabric) (f : Fabric) (peer ephI ephR : Nat)
    (rI sI ipk rR idR sR : Nat) (ctx : RespCtx) (c3 : InitCtx3) (S : Nat → Prop) (C : Cert → Prop)
    (m : Msg)
    (hipk : f.ipk = .atom ipk)
    (hR : respSigma1 fabrics (initSigma1 f [] peer ephI (.atom rI) (.atom sI)).s1 ephR (.atom rR)
      (.atom idR) (.atom sR) = .sent ctx)
    (hS : ¬ S ctx.fabric.opKey)
    (hC : ∀ c ic, C c → (∀ i ∈ ic, C i) → CaseValid t f.view c ic → nodeIdOf c.subject = some peer →
      c.pubKey = ctx.fabric.opKey)
    (hD : Derivable [ephI, ephR] S C
      [(initSigma1 f [] peer ephI (.atom rI) (.atom sI)).s1.toTerm, ctx.s2.toTerm, f.ipk] m.toTerm)
    (hA : initSigma2 t (initSigma1 f [] peer ephI (.atom rI) (.atom sI)) m = some c3) :
    ∃ sid', m = .sigma2 (.atom rR) sid' (.epk ephR)
      (.enc (s2k ctx.secret ctx.fabric.ipk (.atom rR) (.epk ephR) ctx.s1) nonceS2
        (tbe2 ctx.fabric.noc ctx.fabric.icac
          (Term.sign ctx.fabric.opKey (tbs ctx.fabric.noc ctx.fabric.icac (.epk ephR) (.epk ephI)))
          (.atom idR))) :=
  C01_full t fabrics f peer ephI ephR rI sI ipk rR idR sR ctx c3 S C m hipk hR
    (fun c ic hc hic hv hn hs => hS (hC c ic hc hic hv hn ▸ hs)) hD hA

/-! ## Where the certificate hypothesis comes from -/

/-- **`hcert` from the provenance of the attacker's certificates.**  Certificates are symbolic
records (`sigBy` is a field), so "the attacker can present `c`" has to be constrained from outside.
The realistic constraint: every certificate the attacker can present was either issued by an honest
party (`honest`: the fabric's CA, its intermediates, other nodes' certificates it has seen, its OWN
genuine NOC if it is a fabric member) or is of its own making — then its signature, if it verifies
at all, verifies under a key the attacker owns.  If moreover the attacker does not own the root
key, and the honest issuers certified attacker-owned keys only in non-CA certificates for node ids
other than the addressed one, then no presentable chain that is valid for the fabric and names the
addressed node id certifies an attacker key.  Self-issued leaves and intermediates, mis-named
chains, certificates of other fabrics … are all inside `C` and all harmless. -/
theorem hcert_of_provenance (t : Time) (f : FabricView) (peer : Nat) (S : Nat → Prop)
    (C honest : Cert → Prop)
    (hprov : ∀ c, C c → honest c ∨ ∀ k, c.sigBy = some k → S k)
    (hroot : ¬ S f.root.pubKey)
    (hhon : ∀ h, honest h → S h.pubKey →
      h.bc.map Prod.fst ≠ some true ∧ nodeIdOf h.subject ≠ some peer) :
    ∀ c ic, C c → (∀ i ∈ ic, C i) → CaseValid t f c ic → nodeIdOf c.subject = some peer →
      ¬ S c.pubKey := by
  intro c ic hc hic hv hn hs
  rcases hprov c hc with hh | hself
  · exact (hhon c hh hs).2 hn
  · cases ic with
    | none =>
      have h := hv.1
      simp [ChainValid, pathOf] at h
      exact hroot (hself _ h.1.1.1)
    | some i =>
      have h := hv.1
      simp [ChainValid, pathOf, List.zipIdx] at h
      have hSi : S i.pubKey := hself _ h.1.1.1
      rcases hprov i (hic i rfl) with hi | hi
      · exact (hhon i hi hSi).1 h.2.2.2.2.1.1.2.1
      · exact hroot (hi _ h.1.2.1.1)

/-! ## Non-vacuity: a concrete honest handshake (full and resumed) -/

def devNoc : Cert :=
  { C19.exNocDirect with subject := [.nodeId 200, .fabricId 7], skid := some 8, pubKey := 8 }

def ctlFabric : Fabric :=
  { idx := 1, fabricId := 7, root := C19.exRoot, ipk := .atom 77, nodeId := 5, noc := C19.exNoc,
    icac := some C19.exIcac, opKey := 9 }

def devFabric : Fabric :=
  { idx := 2, fabricId := 7, root := C19.exRoot, ipk := .atom 77, nodeId := 200, noc := devNoc,
    icac := .none, opKey := 8 }

def exInit : InitCtx := initSigma1 ctlFabric [] 200 11 (.atom 501) (.atom 601)

def exResp : RespCtx :=
  match respSigma1 [devFabric] exInit.s1 12 (.atom 502) (.atom 702) (.atom 602) with
  | .sent ctx => ctx
  | .refused => default

def exInit3 : InitCtx3 := (initSigma2 C19.exT exInit exResp.s2).getD default

/-- the honest run completes on both sides … -/
example : (respSigma3 C19.exT exResp exInit3.s3).isSome = true := by decide
example : (initFinish exInit3 (.status true)).isSome = true := by decide
/-- … with the responder's session bound to the controller's NOC (node 5, CAT 65537, fabric
index 2 = the fabric the destination id selected) and both sides holding the same keys -/
example : ((respSigma3 C19.exT exResp exInit3.s3).map fun p => (p.1.fabIdx, p.1.peerNode, p.1.cats)) =
    some (2, 5, [65537]) := by decide
example : ((respSigma3 C19.exT exResp exInit3.s3).map fun p => (p.1.i2r, p.1.r2i)) =
    ((initFinish exInit3 (.status true)).map fun p => (p.1.i2r, p.1.r2i)) := by decide
/-- a Sigma1 with one field changed in flight: the initiator refuses the resulting Sigma2 -/
example :
    (match respSigma1 [devFabric] (.sigma1 (.atom 501) (.atom 999) (destId (.atom 77) (.atom 501) 0 7 200) (.epk 11) .none)
        12 (.atom 502) (.atom 702) (.atom 602) with
      | .sent ctx => (initSigma2 C19.exT exInit ctx.s2).isSome
      | .refused => true) = false := by decide
/-- a destination id for a fabric the responder does not have is refused -/
example : (match respSigma1 [devFabric] (.sigma1 (.atom 501) (.atom 601) (destId (.atom 78) (.atom 501) 0 7 200) (.epk 11) .none)
    12 (.atom 502) (.atom 702) (.atom 602) with | .refused => true | _ => false) = true := by decide
/-- a controller whose NOC chains to another root gets no session -/
example : (respSigma3 C19.exT { exResp with fabric := { devFabric with root := { C19.exRoot with pubKey := 4, sigBy := some 4 } } }
    exInit3.s3).isSome = false := by decide

/-! ## `C01_full`: its certificate assumption is necessary, and its hypotheses are satisfiable -/

/-- the attacker's view of the concrete honest run -/
def exWire : List Term := [exInit.s1.toTerm, exResp.s2.toTerm, ctlFabric.ipk]

/-- a second certificate for the addressed node id 200, valid under the same root, certifying
a key (66) the attacker owns -/
def evilNoc : Cert := { devNoc with skid := some 66, pubKey := 66 }

/-- the Sigma2 an insider with `evilNoc` builds from its own ephemeral secret 99 -/
def evilSigma2 : Msg :=
  .sigma2 (.atom 1) (.atom 2) (.epk 99)
    (.enc (s2k (ecdh 99 (.epk 11)) (.atom 77) (.atom 1) (.epk 99) exInit.s1) nonceS2
      (tbe2 evilNoc .none (Term.sign 66 (tbs evilNoc .none (.epk 99) (.epk 11))) (.atom 3)))

example : CaseValid C19.exT ctlFabric.view evilNoc .none := by decide

/-- **the certificate assumption is necessary**: if a second valid certificate for the addressed
node id exists for a key the attacker can sign with, the attacker (who cannot sign under the
responder's key 8) derives a Sigma2 from the wire that the initiator accepts and that is not the
responder's. -/
example :
    Derivable [11, 12] (· = 66) (· = evilNoc) exWire evilSigma2.toTerm ∧
    ¬ (fun k => k = 66) devFabric.opKey ∧
    (initSigma2 C19.exT exInit evilSigma2).isSome = true ∧
    ∀ sid', evilSigma2 ≠ .sigma2 (.atom 502) sid' (.epk 12) exResp.s2.toTerm := by
  refine ⟨?_, by decide, by decide, fun sid' h => by simp [evilSigma2] at h⟩
  have hk : Derivable [11, 12] (· = 66) (· = evilNoc) exWire exInit.s1.toTerm :=
    .known (by simp [exWire])
  have hsh : Derivable [11, 12] (· = 66) (· = evilNoc) exWire (ecdh 99 (.epk 11)) :=
    .ownEcdh (by decide) (.epk 11)
  have hc : Derivable [11, 12] (· = 66) (· = evilNoc) exWire (.cert evilNoc) := .cert rfl
  unfold evilSigma2 Msg.toTerm
  refine .pair (.atom _) (.pair (.atom _) (.pair (.atom _) (.pair (.epk _) (.enc ?_ (.atom _) ?_))))
  · exact .kdf hsh (.pair (.atom _) (.pair (.atom _) (.pair (.epk _) (.hash hk)))) (.atom _)
  · exact .pair hc (.pair .none (.pair (.sign rfl (.pair hc (.pair .none (.pair (.epk _) (.epk _))))) (.atom _)))

/-! a realistic attacker: an insider of the fabric (it holds a genuine NOC for node 300 on its own
key 66), who has seen every honest certificate and can present ANY certificate record of its own
making — in particular self-issued NOCs for the addressed node id 200 and self-issued
intermediates — but does not own the root key -/

/-- the attacker's genuine NOC (node 300, key 66, issued by the fabric's root) -/
def insiderNoc : Cert :=
  { devNoc with subject := [.nodeId 300, .fabricId 7], skid := some 66, pubKey := 66 }

def honestCerts : List Cert := [C19.exRoot, C19.exIcac, C19.exNoc, devNoc, insiderNoc]

/-- signs with key 66 only -/
def exS : Nat → Prop := (· = 66)

/-- presents every honest certificate and every record whose signature verifies under its own key
or under no key at all -/
def exC : Cert → Prop := fun c => c ∈ honestCerts ∨ ∀ k, c.sigBy = some k → k = 66

/-- a NOC the attacker makes itself: names the addressed node 200 on fabric 7, certifies its own
key 66, signed with its own key 66 — presentable, with a self-issued intermediate too -/
def selfNoc : Cert :=
  { C19.exNoc with subject := [.nodeId 200, .fabricId 7], issuer := [.icaId 66], akid := some 66,
                   skid := some 67, pubKey := 66, sigBy := some 66 }
def selfIcac : Cert :=
  { C19.exIcac with subject := [.icaId 66], issuer := [.icaId 66], skid := some 66, akid := some 66,
                    pubKey := 66, sigBy := some 66 }
/-- the intermediate that WOULD make `selfNoc` valid: signed by the root — a record one can write
down, but not one the attacker can present -/
def ghostIcac : Cert := { C19.exIcac with subject := [.icaId 66], skid := some 66, pubKey := 66 }

example : exC insiderNoc ∧ exC selfNoc ∧ exC selfIcac ∧ ¬ exC ghostIcac := by
  refine ⟨Or.inl (by decide), Or.inr (by intro k h; cases h; rfl), Or.inr (by intro k h; cases h; rfl), ?_⟩
  rintro (h | h)
  · revert h; decide
  · exact absurd (h 0 rfl) (by decide)
example : CaseValid C19.exT ctlFabric.view insiderNoc .none := by decide
example : ¬ CaseValid C19.exT ctlFabric.view selfNoc (some selfIcac) := by decide
example : CaseValid C19.exT ctlFabric.view selfNoc (some ghostIcac) := by decide

/-- the certificate hypothesis holds for this attacker (by `hcert_of_provenance`) … -/
theorem exHcert : ∀ c ic, exC c → (∀ i ∈ ic, exC i) → CaseValid C19.exT ctlFabric.view c ic →
    nodeIdOf c.subject = some 200 → ¬ exS c.pubKey :=
  hcert_of_provenance C19.exT ctlFabric.view 200 exS exC (· ∈ honestCerts)
    (fun _ h => h) (by unfold exS; decide)
    (by
      have : ∀ h ∈ honestCerts, h.pubKey = 66 →
          h.bc.map Prod.fst ≠ some true ∧ nodeIdOf h.subject ≠ some 200 := by decide
      exact this)

/-- … whereas the same hypothesis WITHOUT the premise "the intermediate is presentable too" is
false for it (and for every attacker that can present a self-made leaf): the audit's
counter-example -/
example : ¬ ∀ c ic, exC c → CaseValid C19.exT ctlFabric.view c ic →
    nodeIdOf c.subject = some 200 → ¬ exS c.pubKey :=
  fun h => h selfNoc (some ghostIcac) (Or.inr (by intro k hk; cases hk; rfl)) (by decide) (by decide) rfl

/-- **the assumptions are satisfiable**: in the concrete run, against the insider attacker above,
the hypotheses of `C01_full` hold and the theorem pins the accepted Sigma2 down -/
example : ∃ sid', exResp.s2 = .sigma2 (.atom 502) sid' (.epk 12)
    (.enc (s2k exResp.secret exResp.fabric.ipk (.atom 502) (.epk 12) exResp.s1) nonceS2
      (tbe2 exResp.fabric.noc exResp.fabric.icac
        (Term.sign exResp.fabric.opKey (tbs exResp.fabric.noc exResp.fabric.icac (.epk 12) (.epk 11)))
        (.atom 702))) :=
  C01_full C19.exT [devFabric] ctlFabric 200 11 12 501 601 77 502 702 602 exResp exInit3
    exS exC exResp.s2 rfl (by rfl) exHcert
    (.known (by simp)) (by
      show initSigma2 C19.exT exInit exResp.s2 = some ((initSigma2 C19.exT exInit exResp.s2).getD default)
      have h : (initSigma2 C19.exT exInit exResp.s2).isSome = true := by decide
      cases hh : initSigma2 C19.exT exInit exResp.s2 with
      | none => rw [hh] at h; cases h
      | some v => rfl)

end C01
