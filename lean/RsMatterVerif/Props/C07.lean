import RsMatterVerif.Lemmas.AdminRec
/-!
# C07 — nothing bound to a fabric outlives that fabric

Model: `Model/Admin.lean`.  A secure session carries the fabric INDEX (`SessionMode`), a resumption
record carries the fabric index; ACL entries and group keys live inside the fabric record (they go
with it by construction).  The danger is the index: `Fabrics::add` hands out `max + 1`, so the index
of a fabric that went away is given to the next one.

1. `noRef_always`: **invariant** - after every history (any session, any order, store faults
   included; factory reset excluded) every non-expired secure session and every resumption record
   refers to a fabric index that is in the fabric table.
2. `gone_fabric_unreferenced`: hence, once a fabric index is not in the table (RemoveFabric, fail-safe
   rollback), nothing usable refers to it.
3. `rmfab_gone`, `rollback_gone`: RemoveFabric / a rollback that does not find a stored copy really
   take the index out of the table.
4. `new_fabric_starts_clean` (index reuse): when AddNOC creates a fabric, the only non-expired
   session on its index is the PASE session that issued the command, and no resumption record is -
   an old session / old credentials cannot reach the new fabric.
5. `rmfab_others_untouched`, `rollback_others_untouched`: sessions of other fabrics are unaffected.

6. **Ghost generations** (`noDangling_always`, `restart_noDangling`, `noDangling_calm`): every fabric
   gets a fresh generation id at `AddNOC`; a session / resumption record carries the generation it was
   made for.  `NoDangling`: whatever is usable refers to a fabric that exists WITH THAT GENERATION - so
   the re-use of a fabric index is covered by the invariant itself.  `C07_full_noDangling_holds`: it
   holds after EVERY history without factory reset - store faults, restarts and crash points together.
-/
namespace C07
open Admin

/-- **Invariant.** -/
theorem noRef_run (cfg : Cfg) (ops : List Op) : ∀ (n : Node), NoRef n → Op.freset ∉ ops → NoRef (run cfg n ops) := by
  induction ops with
  | nil => intro n h _; exact h
  | cons op rest ih =>
    intro n h hno
    have hop : op ≠ .freset := fun he => hno (by rw [he]; exact List.mem_cons_self)
    exact ih _ (step_noRef cfg n op h hop) (fun hm => hno (List.mem_cons_of_mem _ hm))

theorem noRef_always (cfg : Cfg) (ops : List Op) (hno : Op.freset ∉ ops) : NoRef (run cfg {} ops) :=
  noRef_run cfg ops {} noRef_init hno

/-- nothing usable refers to a fabric index that is not in the table -/
theorem gone_fabric_unreferenced (n : Node) (h : NoRef n) (i : Nat) (hi : i ≠ 0) (hgone : hasFabric n i = false) :
    (∀ s ∈ n.sessions, s.expired = false → s.mode.fab ≠ i) ∧ (∀ r ∈ n.resum, r.fab ≠ i) := by
  refine ⟨fun s hs he hf => ?_, fun r hr hf => ?_⟩
  · have := h.1 s hs he (by rw [hf]; exact hi)
    rw [hf, hgone] at this; cases this
  · have := h.2 r hr
    rw [hf, hgone] at this; cases this

example : ∃ n : Node, NoRef n ∧ hasFabric n 1 = false := ⟨{}, noRef_init, rfl⟩

/-! ## the fabric really goes away -/

theorem purgeResum_fabrics (n : Node) (i : Nat) : (purgeResum n i).1.fabrics = n.fabrics :=
  (purgeResum_mem n i).1

/-- an acknowledged RemoveFabric of an existing fabric takes its index out of the table; a
RemoveFabric that is answered with an error (store failure) leaves the fabric table and the sessions
exactly as they were (fixed finding `C07-failed-removefabric-resurrects`) -/
theorem rmfab_gone_or_untouched (cfg : Cfg) (n : Node) (sid s idx : Nat) (mode : Mode) :
    ((sessOp cfg n sid mode (.rmfab s idx)).2 = .ok ∧
      hasFabric (sessOp cfg n sid mode (.rmfab s idx)).1 idx = false) ∨
    ((sessOp cfg n sid mode (.rmfab s idx)).2 ≠ .ok ∧
      (sessOp cfg n sid mode (.rmfab s idx)).1.fabrics = n.fabrics ∧
      (sessOp cfg n sid mode (.rmfab s idx)).1.sessions = n.sessions) := by
  simp only [sessOp]
  split
  · exact Or.inr ⟨by simp, rfl, rfl⟩
  · split
    · have ⟨p1, p2, _⟩ := purgeResum_mem n idx
      rcases hp : purgeResum n idx with ⟨n2, b⟩
      rw [hp] at p1 p2
      simp only at p1 p2
      cases b with
      | false => exact Or.inr ⟨by simp, p1, p2⟩
      | true =>
        simp only []
        have hfr := (removeFabricKey_spec n2 idx).1
        rcases hrk : removeFabricKey n2 idx with ⟨n3, b3⟩
        rw [hrk] at hfr
        simp only at hfr
        cases b3 with
        | false => exact Or.inr ⟨by simp, hfr.fabrics.trans p1, hfr.sessions.trans p2⟩
        | true =>
          refine Or.inl ⟨rfl, ?_⟩
          simp only [ok, decide_not]
          rw [hasFabric_eq]
          show HasIdx (List.filter (fun f => !decide (f.idx = idx)) n3.fabrics) idx = false
          rw [hasIdx_filter_ne]; simp
    · exact Or.inr ⟨by simp, rfl, rfl⟩

/-- a rollback that finds no stored copy takes the fail-safe's fabric out of the table -/
theorem rollback_gone (cfg : Cfg) (n : Node) (a : Armed) (fs : List Fabric) (h0 : a.fab ≠ 0)
    (hr : rollbackFabrics cfg n a = .ok fs) (hkv : n.kv.fabs.find? (fun f => f.idx = a.fab) = none) :
    HasIdx fs a.fab = false := by
  unfold rollbackFabrics at hr
  simp only [h0, if_false, hkv, decide_not] at hr
  injection hr with hr; subst hr
  rw [hasIdx_filter_ne]; simp

/-! ## index reuse -/

/-- **A new fabric starts clean**: when AddNOC creates the fabric `idx` in a `NoRef` state, the only
non-expired session bound to `idx` afterwards is the session `sid` that issued the command (the PASE
session promoted by it), and no resumption record is bound to `idx`. -/
theorem addNoc_starts_clean (cfg : Cfg) (n : Node) (sid ca fid node subj ser idx : Nat) (mode : Mode)
    (h : NoRef n) (hacc : (addNoc cfg n sid mode ca fid node subj ser).2 = .okIdx idx) :
    (∀ s' ∈ (addNoc cfg n sid mode ca fid node subj ser).1.sessions,
        s'.expired = false → s'.mode.fab = idx → s'.id = sid) ∧
    (∀ r' ∈ (addNoc cfg n sid mode ca fid node subj ser).1.resum, r'.fab ≠ idx) ∧
    hasFabric n idx = false := by
  generalize hres : addNoc cfg n sid mode ca fid node subj ser = r at hacc ⊢
  simp only [addNoc] at hres
  -- what freshness of the new index gives in a `NoRef` state
  have key : ∀ idx', (if maxIdx n.fabrics < 254 then some (maxIdx n.fabrics + 1)
        else List.find? (fun i => decide (1 ≤ i) && !hasFabric n i) (List.range 255)) = some idx' →
      (∀ s' ∈ n.sessions, s'.expired = false → s'.mode.fab ≠ idx') ∧ (∀ r' ∈ n.resum, r'.fab ≠ idx') ∧
      hasFabric n idx' = false := by
    intro idx' hidx'
    have hfresh := newIdx_fresh n idx' hidx'
    have hne0 : idx' ≠ 0 := by
      intro hz
      rw [hz] at hidx'
      split at hidx'
      · injection hidx' with hh; omega
      · have := List.find?_some hidx'
        simp at this
    have := gone_fabric_unreferenced n h idx' hne0 hfresh
    exact ⟨this.1, this.2, hfresh⟩
  repeat' split at hres
  all_goals first | (subst hres; simp at hacc; done) | skip
  · -- promoted PASE session
    rename_i idx' hidx' _ _ _ _
    have ⟨k1, k2, k3⟩ := key idx' hidx'
    subst hres
    simp only [Status.okIdx.injEq] at hacc
    subst hacc
    refine ⟨fun s' hs' he hf => ?_, k2, k3⟩
    simp only [List.mem_map] at hs'
    obtain ⟨s0, hs0, rfl⟩ := hs'
    by_cases hsid : s0.id = sid
    · simp [hsid]
    · simp only [hsid, if_false] at he hf ⊢
      exact absurd hf (k1 s0 hs0 he)
  · -- CASE session: nobody is bound to the new index
    rename_i idx' hidx' _ _ _ _ _
    have ⟨k1, k2, k3⟩ := key idx' hidx'
    subst hres
    simp only [Status.okIdx.injEq] at hacc
    subst hacc
    exact ⟨fun s' hs' he hf => absurd hf (k1 s' hs' he), k2, k3⟩

/-- the same for the whole command (the retry of a failed resumption-cache store that precedes it
touches neither the fabric table nor the sessions nor the cache) -/
theorem new_fabric_starts_clean (cfg : Cfg) (n : Node) (sid s ca fid node subj ser idx : Nat) (mode : Mode)
    (h : NoRef n) (hacc : (sessOp cfg n sid mode (.addnoc s ca fid node subj ser)).2 = .okIdx idx) :
    (∀ s' ∈ (sessOp cfg n sid mode (.addnoc s ca fid node subj ser)).1.sessions,
        s'.expired = false → s'.mode.fab = idx → s'.id = sid) ∧
    (∀ r' ∈ (sessOp cfg n sid mode (.addnoc s ca fid node subj ser)).1.resum, r'.fab ≠ idx) ∧
    hasFabric n idx = false := by
  simp only [sessOp] at hacc ⊢
  rcases retryResum_cases n with hr | hr
  · rw [hr] at hacc ⊢
    exact addNoc_starts_clean cfg n sid ca fid node subj ser idx mode h hacc
  · rw [hr] at hacc ⊢
    have h1 := storeResum_noRef n h
    have ⟨hfr, _⟩ := storeResum_spec n
    rcases hst : storeResum n with ⟨n1, b⟩
    rw [hst] at hacc h1 hfr
    cases b with
    | false => simp at hacc
    | true =>
      have := addNoc_starts_clean cfg n1 sid ca fid node subj ser idx mode h1 hacc
      refine ⟨this.1, this.2.1, ?_⟩
      have h3 := this.2.2
      rw [hasFabric_eq] at h3 ⊢
      rw [← hfr.fabrics]; exact h3

/-! ## other fabrics -/

/-- RemoveFabric keeps every session of the other fabrics exactly as it was -/
theorem removeForFabric_others (l : List Sess) (idx : Nat) (exp : Option Nat) (s : Sess) (hs : s ∈ l)
    (hf : s.mode.fab ≠ idx) (hid : some s.id ≠ exp) : s ∈ removeForFabric l idx exp := by
  unfold removeForFabric
  rw [List.mem_map]
  refine ⟨s, List.mem_filter.mpr ⟨hs, by simp [hf]⟩, by simp [hid]⟩

theorem removePase_others (l : List Sess) (exp : Option Nat) (s : Sess) (hs : s ∈ l)
    (hc : s.mode.isPase = false) : s ∈ removePase l exp := by
  unfold removePase
  rw [List.mem_map]
  refine ⟨s, List.mem_filter.mpr ⟨hs, by simp [hc]⟩, by simp [hc]⟩

/-- **Sessions of other fabrics are unaffected by a rollback**: every CASE session that is not on
the removed fabric (and is not the triggering session) is still there, unchanged. -/
theorem rollback_others_untouched (n : Node) (removed exp : Option Nat) (s : Sess) (hs : s ∈ n.sessions)
    (hc : s.mode.isPase = false) (hf : ∀ idx, removed = some idx → s.mode.fab ≠ idx) (hid : some s.id ≠ exp) :
    s ∈ rollbackSessions n removed exp := by
  unfold rollbackSessions
  cases removed with
  | none => exact removePase_others _ _ s hs hc
  | some idx =>
    apply removePase_others _ _ s _ hc
    apply removeForFabric_others _ _ _ s hs (hf idx rfl)
    split
    · split
      · exact hid
      · simp
    · simp

example : ∃ (l : List Sess) (s : Sess), s ∈ l ∧ s.mode.fab ≠ 1 ∧ some s.id ≠ (none : Option Nat) :=
  ⟨[{ id := 0, mode := .case 2, peer := 1, expired := false, gen := 0 }], _, List.mem_cons_self, by decide, by simp⟩

/-! ## the ghost-generation form -/

/-- **`NoDangling` is an invariant** (together with `StoreSub`): after every history without restart
and factory reset - any command order, any session, reserved sessions that complete later, store
faults at any write - every non-expired secure session and every resumption record refers to a fabric
that exists with the generation it was made for. -/
theorem noDangling_always (cfg : Cfg) (ops : List Op) (hno : Op.freset ∉ ops)
    (hnr : ∀ op ∈ ops, restartLike op = false) : NoDangling (run cfg {} ops) :=
  (run_genInv cfg ops {} genInv_init hno hnr).1

example : ∃ ops : List Op, Op.freset ∉ ops ∧ (∀ op ∈ ops, restartLike op = false) ∧
    (run {} {} ops).sessions.length = 2 :=
  ⟨[.boot, .pase, .arm 0 60, .csr 0 false, .root 0 1, .addnoc 0 1 5 10 100 1, .caseEst 1 100 1],
   by decide, by decide, by decide⟩

/-- a restart from a store whose resumption records fit its fabrics keeps the invariant -/
theorem restart_noDangling (n : Node) (kv : KV) (hist : List KV) (h : RecOK kv) :
    NoDangling (restartFrom n kv hist) :=
  (restartFrom_genInv n kv hist h).1

/-- index reuse is covered: a session or record of an earlier incarnation of the index cannot be
usable - its generation would have to be the one of the fabric that is there now -/
theorem no_session_of_another_incarnation (n : Node) (h : NoDangling n) (s : Sess) (hs : s ∈ n.sessions)
    (he : s.expired = false) (h0 : s.mode.fab ≠ 0) (f : Fabric) (hf : getFabric n s.mode.fab = some f) :
    s.gen = f.gen := by
  have := h.1 s hs he h0
  unfold fabGen at this
  rw [hf] at this
  simpa using this.symm

theorem no_record_of_another_incarnation (n : Node) (h : NoDangling n) (r : Resum) (hr : r ∈ n.resum)
    (f : Fabric) (hf : getFabric n r.fab = some f) : r.gen = f.gen := by
  have := h.2 r hr
  unfold fabGen at this
  rw [hf] at this
  simpa using this.symm

/-- **The full statement: EVERY history** without factory reset - store faults at any write, restarts,
crash points (restart from ANY element of the store history), corrupted resumption blobs and the
factory-reset-before-start-up, all together: nothing dangles.  Index re-use across a restart is
covered: the stored resumption records always fit the stored fabrics (`RecOK`).  This became provable
with the repair of `C07-failed-purge-on-rollback`: a store of the (purged) resumption cache that
failed is remembered (`resumStale`) and retried before `AddNOC` makes a new fabric - a stored record
whose fabric is gone can only be there while the mark is set (`RecLive`), and no fabric index is
handed out while it is. -/
def C07_full_noDangling : Prop :=
  ∀ (cfg : Cfg) (ops : List Op), Op.freset ∉ ops → NoDangling (run cfg {} ops)

theorem C07_full_noDangling_holds : C07_full_noDangling :=
  fun cfg ops hno => (run_good cfg ops {} genInv_init rec_init hno).1.1

/-- the same under its old name (the `Calm` hypothesis - no store fault fires - is not needed any more) -/
theorem noDangling_calm (cfg : Cfg) (ops : List Op) (hno : Op.freset ∉ ops) :
    NoDangling (run cfg {} ops) :=
  C07_full_noDangling_holds cfg ops hno

/-- ... and every store a crash can leave behind is fit for a restart -/
theorem every_snapshot_recOK (cfg : Cfg) (ops : List Op) (hno : Op.freset ∉ ops) :
    RecOK (run cfg {} ops).kv ∧ ∀ kv ∈ (run cfg {} ops).hist, RecOK kv := by
  have ⟨hg, hr⟩ := run_good cfg ops {} genInv_init rec_init hno
  exact ⟨recOK_of hg hr.live, hr.hist⟩

/-- a history with removal, restart, re-use of the index and a crash point -/
example :
    let ops : List Op := [.boot, .pase, .arm 0 60, .csr 0 false, .root 0 1, .addnoc 0 1 5 10 100 1,
      .caseEst 1 100 1, .complete 1, .flush, .rmfab 1 1, .restart, .boot, .pase, .arm 0 60, .csr 0 false,
      .root 0 2, .addnoc 0 2 6 11 101 2, .caseEst 1 101 2, .complete 1, .crash 3]
    Op.freset ∉ ops ∧ Calm {} {} ops ∧ (run {} {} ops).fabrics.length = 1 := by
  refine ⟨by decide, by decide, by decide⟩

/-- the history of the repaired finding `C07-failed-purge-on-rollback` (a store fault during the
rollback, index re-use, restart): the failed store is retried by the second `AddNOC`, the restart
loads no record of the dropped fabric -/
example :
    let ops : List Op := [.boot, .pase, .arm 0 60, .csr 0 false, .root 0 1, .addnoc 0 1 5 10 100 1, .caseEst 1 100 1,
      .flush, .kvfail 1, .arm 1 0, .pase, .arm 2 60, .csr 2 false, .root 2 2, .addnoc 2 2 6 11 101 2,
      .caseEst 1 101 2, .complete 3, .restart]
    Op.freset ∉ ops ∧ ¬ Calm {} {} ops ∧ (run {} {} ops).resum = [] ∧ (run {} {} ops).fabrics.length = 1 := by
  refine ⟨by decide, by decide, by decide, by decide⟩

end C07
