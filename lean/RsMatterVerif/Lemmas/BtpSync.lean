import RsMatterVerif.Lemmas.BtpLink
/-!
# The cross-end invariant of two well-behaved BTP ends

For one direction `X → Y` of an established link (`X` sends segments, `Y` receives them and returns
acknowledgements on the opposite queue) the invariant `DirOk` accounts for everything in flight:

* sequence continuity: the segments travelling `X → Y` carry the sequence numbers
  `Y.ack_seq + 1, Y.ack_seq + 2, …`, the last one is `X.last_sent_seq_num` (`DataChain`, `last`);
* window accounting: `X`'s unacknowledged count `window − X.level` =
  segments in flight + a number `hi ≥ Y.ack_level` that covers the segments received by `Y` and not
  yet acknowledged, and the segments whose acknowledgement is travelling back; the acknowledgements
  in the queue `Y → X` are strictly ordered inside that range (`AckChain`);
* every segment in flight is one the receiver will accept in the reassembly state it will then be
  in (`SegOk` along `DataChain`), and the receive ring buffer has room for a full window
  (`buf`).
-/
namespace Btp

/-- the acknowledgement carried by a data / ack segment on the wire -/
def ackOf (seg : List Nat) : Option Nat :=
  match decodeHdr seg with
  | .ok (h, _) => if h.hs then none else h.getAck
  | .error _ => none

/-- The acknowledgements travelling back to the sender, oldest first, measured as distances
`wrapSub pos a` behind the receiver's position `pos` (= its `ack_seq`): strictly decreasing, all
below `hi`, the last one at least `lo`. -/
def AckChain (pos : Nat) : Nat → Nat → List (List Nat) → Prop
  | hi, lo, [] => lo ≤ hi
  | hi, lo, seg :: rest =>
    match ackOf seg with
    | none => AckChain pos hi lo rest
    | some a => a < 256 ∧ wrapSub pos a < hi ∧ AckChain pos (wrapSub pos a) lo rest

theorem ackChain_le {pos : Nat} : ∀ {q : List (List Nat)} {hi lo : Nat}, AckChain pos hi lo q → lo ≤ hi := by
  intro q
  induction q with
  | nil => intro hi lo h; exact h
  | cons seg rest ih =>
    intro hi lo h
    simp only [AckChain] at h
    split at h
    · exact ih h
    · have := ih h.2.2; omega

/-- a segment without acknowledgement joins the queue -/
theorem ackChain_snoc_none {pos : Nat} {seg : List Nat} (hs : ackOf seg = none) :
    ∀ {q : List (List Nat)} {hi lo : Nat}, AckChain pos hi lo q → AckChain pos hi lo (q ++ [seg]) := by
  intro q
  induction q with
  | nil => intro hi lo h; simp only [List.nil_append, AckChain, hs]; exact h
  | cons s rest ih =>
    intro hi lo h
    simp only [List.cons_append, AckChain] at h ⊢
    split
    · rename_i hn; rw [hn] at h; exact ih h
    · rename_i a ha; rw [ha] at h; exact ⟨h.1, h.2.1, ih h.2.2⟩

/-- a segment acknowledging everything received so far (`a = pos`) joins the queue -/
theorem ackChain_snoc_ack {pos : Nat} (hp : pos < 256) {seg : List Nat} (hs : ackOf seg = some pos) :
    ∀ {q : List (List Nat)} {hi lo : Nat}, AckChain pos hi lo q → 1 ≤ lo → AckChain pos hi 0 (q ++ [seg]) := by
  have h0 : wrapSub pos pos = 0 := by unfold wrapSub; omega
  intro q
  induction q with
  | nil =>
    intro hi lo h hl
    simp only [List.nil_append, AckChain, hs, h0] at h ⊢
    exact ⟨hp, by omega, Nat.le_refl _⟩
  | cons s rest ih =>
    intro hi lo h hl
    simp only [List.cons_append, AckChain] at h ⊢
    split
    · rename_i hn; rw [hn] at h; exact ih h hl
    · rename_i a ha; rw [ha] at h; exact ⟨h.1, h.2.1, ih h.2.2 hl⟩

/-- the receiver accepts one more segment: every distance grows by one -/
theorem ackChain_shift {pos : Nat} (hp : pos < 256) :
    ∀ {q : List (List Nat)} {hi lo : Nat}, AckChain pos hi lo q → hi < 255 →
      AckChain ((pos + 1) % 256) (hi + 1) (lo + 1) q := by
  intro q
  induction q with
  | nil => intro hi lo h _; simp only [AckChain] at h ⊢; omega
  | cons s rest ih =>
    intro hi lo h hh
    simp only [AckChain] at h ⊢
    split
    · rename_i hn; rw [hn] at h; exact ih h hh
    · rename_i a ha
      rw [ha] at h
      obtain ⟨h1, h2, h3⟩ := h
      have e : wrapSub ((pos + 1) % 256) a = wrapSub pos a + 1 := by
        unfold wrapSub at h2 ⊢; omega
      rw [e]
      exact ⟨h1, by omega, ih h3 (by omega)⟩

theorem ackChain_lo {pos : Nat} : ∀ {q : List (List Nat)} {hi lo lo' : Nat}, AckChain pos hi lo q → lo' ≤ lo →
    AckChain pos hi lo' q := by
  intro q
  induction q with
  | nil => intro hi lo lo' h hl; simp only [AckChain] at h ⊢; omega
  | cons s rest ih =>
    intro hi lo lo' h hl
    simp only [AckChain] at h ⊢
    split
    · rename_i hn; rw [hn] at h; exact ih h hl
    · rename_i a ha; rw [ha] at h; exact ⟨h.1, h.2.1, ih h.2.2 hl⟩

/-- distance (behind `pos`) of the youngest acknowledgement travelling in `q` -/
def lastAck (pos : Nat) : List (List Nat) → Option Nat
  | [] => none
  | seg :: rest =>
    match lastAck pos rest with
    | some d => some d
    | none => (ackOf seg).map (wrapSub pos)

/-- no segment of `q` carries an acknowledgement -/
def NoAck (q : List (List Nat)) : Prop := ∀ seg ∈ q, ackOf seg = none

theorem lastAck_none_iff (pos : Nat) : ∀ q : List (List Nat), lastAck pos q = none ↔ NoAck q := by
  intro q
  induction q with
  | nil => simp [lastAck, NoAck]
  | cons seg rest ih =>
    simp only [lastAck, NoAck, List.mem_cons, forall_eq_or_imp]
    cases h : lastAck pos rest with
    | some d =>
      simp only [reduceCtorEq, false_iff, not_and]
      intro _ hn
      have := ih.mpr hn
      rw [h] at this; cases this
    | none =>
      have hr := ih.mp h
      simp only [Option.map_eq_none_iff]
      exact ⟨fun h1 => ⟨h1, hr⟩, fun h1 => h1.1⟩

theorem lastAck_snoc_none {pos : Nat} {seg : List Nat} (hs : ackOf seg = none) :
    ∀ q : List (List Nat), lastAck pos (q ++ [seg]) = lastAck pos q := by
  intro q
  induction q with
  | nil => simp [lastAck, hs]
  | cons s rest ih => simp only [List.cons_append, lastAck, ih]

theorem lastAck_snoc_some {pos a : Nat} {seg : List Nat} (hs : ackOf seg = some a) :
    ∀ q : List (List Nat), lastAck pos (q ++ [seg]) = some (wrapSub pos a) := by
  intro q
  induction q with
  | nil => simp [lastAck, hs]
  | cons s rest ih => simp only [List.cons_append, lastAck, ih]

theorem lastAck_shift {pos : Nat} (hp : pos < 256) :
    ∀ {q : List (List Nat)} {hi lo : Nat}, AckChain pos hi lo q → hi < 255 →
      lastAck ((pos + 1) % 256) q = (lastAck pos q).map (· + 1) := by
  intro q
  induction q with
  | nil => intro _ _ _ _; rfl
  | cons s rest ih =>
    intro hi lo h hh
    simp only [AckChain] at h
    simp only [lastAck]
    cases ha : ackOf s with
    | none =>
      rw [ha] at h
      rw [ih h hh]
      cases lastAck pos rest <;> simp
    | some a =>
      rw [ha] at h
      obtain ⟨h1, h2, h3⟩ := h
      rw [ih h3 (by omega)]
      cases lastAck pos rest with
      | some d => simp
      | none =>
        simp only [Option.map_none, Option.map_some, Option.some.injEq]
        unfold wrapSub at h2 ⊢; omega

/-- the accounting is tight: the youngest acknowledgement in flight covers everything `Y` had
received when it was sent (`d = ack_level`); with no acknowledgement in flight, `X` counts exactly
what `Y` has received and not acknowledged (`hi = lo`; the handshake response is counted by the
initiator as a received, unacknowledged segment - before that fix there was a slack of one) -/
def Tight (pos hi lo : Nat) (aq : List (List Nat)) : Prop :=
  match lastAck pos aq with
  | some d => d = lo
  | none => hi = lo

/-! ## What a well-behaved sender emits -/

/-- A data / ack segment as `prep_tx_data` builds it, relative to the state the receiver will be in
when the segment arrives: `seq` = the receiver's `ack_seq`, `rem` = bytes still missing from the
SDU being reassembled. -/
structure SegOk (mtu seq rem : Nat) (h : Hdr) (p : List Nat) : Prop where
  canon : h.Canon
  seq : h.seqNum = (seq + 1) % 256
  fits : p.length + h.len ≤ mtu
  shape :
    -- a stand-alone acknowledgement
    (h.beg = false ∧ h.cont = false ∧ h.fin = false ∧ h.ack = true ∧ p = []) ∨
    -- a data segment
    (p ≠ [] ∧ h.cont = !h.beg ∧ (h.beg = true → rem = 0 ∧ h.msgLen ≤ 1232) ∧
      p.length ≤ (if h.beg then h.msgLen else rem) ∧
      h.fin = decide (p.length = (if h.beg then h.msgLen else rem)) ∧
      (h.fin = false → p.length + h.len = mtu))

/-- the segments in flight towards a receiver whose last accepted sequence number is `seq` and
whose reassembly state is `rs` -/
def DataChain (mtu : Nat) : Nat → Spec.Reasm → List (List Nat) → Prop
  | _, _, [] => True
  | seq, rs, seg :: rest =>
    ∃ h p, decodeHdr seg = .ok (h, p) ∧ SegOk mtu seq rs.remaining h p ∧
      DataChain mtu ((seq + 1) % 256) (rs.feed h p) rest

theorem feedSeg_of_decode {rs : Spec.Reasm} {seg : List Nat} {h : Hdr} {p : List Nat}
    (hd : decodeHdr seg = .ok (h, p)) (hhs : h.hs = false) : feedSeg rs seg = rs.feed h p := by
  simp [feedSeg, hd, hhs]

theorem dataChain_snoc {mtu : Nat} {seg : List Nat} {h : Hdr} {p : List Nat}
    (hd : decodeHdr seg = .ok (h, p)) :
    ∀ {q : List (List Nat)} {seq : Nat} {rs : Spec.Reasm}, DataChain mtu seq rs q →
      SegOk mtu ((seq + q.length) % 256) (feedAll rs q).remaining h p → DataChain mtu seq rs (q ++ [seg]) := by
  intro q
  induction q with
  | nil =>
    intro seq rs _ hs
    simp only [List.nil_append, DataChain]
    refine ⟨h, p, hd, ?_, trivial⟩
    have e : (seq + ([] : List (List Nat)).length) % 256 = seq % 256 := by simp
    rw [e] at hs
    exact ⟨hs.canon, by rw [hs.seq]; omega, hs.fits, hs.shape⟩
  | cons s rest ih =>
    intro seq rs hc hs
    simp only [List.cons_append, DataChain] at hc ⊢
    obtain ⟨h1, p1, hd1, hok1, hrest⟩ := hc
    refine ⟨h1, p1, hd1, hok1, ih hrest ?_⟩
    have e : ((seq + 1) % 256 + rest.length) % 256 = (seq + (s :: rest).length) % 256 := by
      simp only [List.length_cons]; omega
    rw [e]
    have e2 : feedAll (rs.feed h1 p1) rest = feedAll rs (s :: rest) := by
      show _ = feedAll (feedSeg rs s) rest
      rw [feedSeg_of_decode hd1 hok1.canon.hs]
    rw [e2]; exact hs

theorem dataChain_noHs {mtu : Nat} : ∀ {q : List (List Nat)} {seq : Nat} {rs : Spec.Reasm},
    DataChain mtu seq rs q → NoHs q := by
  intro q
  induction q with
  | nil => intro _ _ _ seg hs; exact absurd hs List.not_mem_nil
  | cons s rest ih =>
    intro seq rs hc seg hs
    simp only [DataChain] at hc
    obtain ⟨h1, p1, hd1, hok1, hrest⟩ := hc
    rcases List.mem_cons.mp hs with rfl | hm
    · exact ⟨h1, p1, hd1, hok1.canon.hs⟩
    · exact ih hrest seg hm

/-! ## The receiver accepts what a well-behaved sender emits -/

theorem integrity_ok {mtu seq rem : Nat} {r : RecvWindow} {h : Hdr} {p : List Nat} (hok : SegOk mtu seq rem h p)
    (hseq : r.ackSeq = seq) : r.checkDataIntegrity h p.length mtu = true := by
  obtain ⟨hc, hsq, hfits, hshape⟩ := hok
  obtain ⟨c1, c2, c3, c4, c5, c6⟩ := hc
  unfold RecvWindow.checkDataIntegrity
  rcases hshape with ⟨hb, hcn, hf, ha, hp⟩ | ⟨hp, hcn, hb, hle, hf, hnf⟩
  · subst hp
    simp [c1, c2, Hdr.getOpcode, Hdr.isStandaloneAck, Hdr.getMsgLen, Hdr.getAck, Hdr.getSeq, hb, hcn, hf, ha, hseq, hsq]
  · cases hbeg : h.beg
    · simp [hbeg] at hcn
      simp [c1, c2, Hdr.getOpcode, Hdr.isStandaloneAck, Hdr.getMsgLen, Hdr.getAck, Hdr.getSeq, hbeg, hcn, hseq, hsq]
      cases hfin : h.fin
      · right; exact hnf hfin
      · left; rfl
    · simp [hbeg] at hcn
      simp [c1, c2, Hdr.getOpcode, Hdr.isStandaloneAck, Hdr.getMsgLen, Hdr.getAck, Hdr.getSeq, hbeg, hcn, hseq, hsq]
      cases hfin : h.fin
      · right; exact hnf hfin
      · left; rfl

theorem segOk_getMsgLen {mtu seq rem : Nat} {h : Hdr} {p : List Nat} (hok : SegOk mtu seq rem h p) :
    h.getMsgLen = if h.beg then some h.msgLen else none := by
  simp [Hdr.getMsgLen, hok.canon.hs]

/-- bytes pushed into the ring buffer by an accepted segment: at most `mtu` -/
theorem segOk_pushed {mtu seq rem : Nat} {h : Hdr} {p : List Nat} (hok : SegOk mtu seq rem h p) :
    (sduPrefix h.getMsgLen).length + p.length ≤ mtu := by
  have hf := hok.fits
  rw [segOk_getMsgLen hok]
  have hl : h.len = 1 + (if h.ack then 1 else 0) + 1 + (if h.beg then 2 else 0) := by
    simp [Hdr.len, hok.canon.hs, hok.canon.mgmt]
  cases hb : h.beg
  · simp [sduPrefix]; omega
  · simp only [hb, if_true] at hl ⊢
    unfold sduPrefix
    simp only
    split <;> simp <;> omega

theorem commit_ok {r : RecvWindow} {h : Hdr} {pfx p : List Nat} {rem now : Nat} (hl : 1 ≤ r.level)
    (hal : r.ackLevel < 255) (hmc : r.msgCt < 255) : ∃ r', r.commit h pfx p rem now = .ok r' := by
  unfold RecvWindow.commit
  rw [csub_ok hl, cadd_ok (by omega)]
  simp only
  by_cases hc : (h.fin && !p.isEmpty) = true
  · simp only [hc, if_true]; rw [cadd_ok (by omega)]; exact ⟨_, rfl⟩
  · simp only [hc]; exact ⟨_, rfl⟩

/-- `accept_incoming` with all its guards passed is the commit -/
theorem acceptIncoming_eq_commit (r : RecvWindow) (h : Hdr) (p : List Nat) (mtu now : Nat)
    (g1 : r.checkDataIntegrity h p.length mtu = true) (g2 : r.level ≠ 0)
    (g3 : ¬ (h.getMsgLen.isSome = true ∧ r.remMsgLen > 0)) (g4 : fitsButNotFinal h mtu = false)
    (g4b : orphanSegment r h = false)
    (g5 : p.length ≤ r.startRem h.getMsgLen)
    (g6 : ¬ (h.fin = false ∧ p ≠ [] ∧ r.startRem h.getMsgLen - p.length = 0))
    (g7 : ¬ (h.fin = true ∧ r.startRem h.getMsgLen - p.length > 0))
    (g8 : (sduPrefix h.getMsgLen).length + p.length ≤ ringFree r.buf) :
    r.acceptIncoming h p mtu now =
      r.commit h (sduPrefix h.getMsgLen) p (r.startRem h.getMsgLen - p.length) now := by
  unfold RecvWindow.acceptIncoming
  split
  · rename_i c; simp [g1] at c
  split
  · rename_i c; exact absurd (by simpa using c) g2
  split
  · rename_i c; exact absurd (by simpa using c) g3
  split
  · rename_i c; rw [g4] at c; cases c
  split
  · rename_i c; rw [g4b] at c; cases c
  split
  · rename_i c; omega
  split
  · rename_i c
    have c' : (h.fin = false ∧ ¬p = []) ∧ r.startRem h.getMsgLen - p.length = 0 := by simpa using c
    exact absurd ⟨c'.1.1, c'.1.2, c'.2⟩ g6
  split
  · rename_i c; exact absurd (by simpa using c) g7
  split
  · rename_i c; omega
  rfl

/-- **the receive window accepts a well-formed segment** (sequence number, flags, lengths as
`SegOk` says) whenever it has a free slot and the ring buffer has room -/
theorem accept_ok {mtu seq : Nat} {r : RecvWindow} {h : Hdr} {p : List Nat}
    (hok : SegOk mtu seq r.remMsgLen h p) (hseq : r.ackSeq = seq) (hl : 1 ≤ r.level)
    (hal : r.ackLevel < 255) (hmc : r.msgCt < 255)
    (hbuf : r.buf.length + (sduPrefix h.getMsgLen).length + p.length ≤ 3166) (now : Nat) :
    ∃ r', r.acceptIncoming h p mtu now = .ok r' ∧ r'.level + 1 = r.level ∧ r'.ackLevel = r.ackLevel + 1 ∧
      r'.ackSeq = h.seqNum ∧ r'.remMsgLen = (if h.beg then h.msgLen else r.remMsgLen) - p.length ∧
      r'.buf = (r.buf ++ sduPrefix h.getMsgLen) ++ p ∧ r'.receivedAt = some now := by
  have hint := integrity_ok hok hseq
  have hgm := segOk_getMsgLen hok
  have hsr : r.startRem h.getMsgLen = (if h.beg then h.msgLen else r.remMsgLen) := by
    rw [hgm]; cases h.beg <;> simp [RecvWindow.startRem]
  obtain ⟨r', hr'⟩ := commit_ok (r := r) (h := h) (pfx := sduPrefix h.getMsgLen) (p := p)
    (rem := r.startRem h.getMsgLen - p.length) (now := now) hl hal hmc
  have hsh := hok.shape
  have g3 : ¬ (h.getMsgLen.isSome = true ∧ r.remMsgLen > 0) := by
    rw [hgm]
    rintro ⟨h1, h2⟩
    cases hbeg : h.beg
    · simp [hbeg] at h1
    · rcases hsh with ⟨hb, _⟩ | ⟨_, _, hb, _⟩
      · rw [hb] at hbeg; cases hbeg
      · have := (hb hbeg).1; omega
  have g4 : fitsButNotFinal h mtu = false := by
    unfold fitsButNotFinal; rw [hgm]
    cases hbeg : h.beg
    · simp
    · rcases hsh with ⟨hb, _⟩ | ⟨hp, hcn, hb, hle, hf, hnf⟩
      · rw [hb] at hbeg; cases hbeg
      · simp only [hbeg, if_true] at hf hle ⊢
        cases hfin : h.fin
        · have h1 := hnf hfin
          rw [hfin] at hf
          have : p.length ≠ h.msgLen := by simpa using hf.symm
          simp; omega
        · simp
  have g4b : orphanSegment r h = false := by
    unfold orphanSegment
    rcases hsh with ⟨hb, hc, hf, ha, _⟩ | ⟨hp, _, _, hle, _⟩
    · have : h.isStandaloneAck = true := by
        simp [Hdr.isStandaloneAck, Hdr.getMsgLen, Hdr.getAck, hok.canon.hs, hb, hc, hf, ha]
      simp [this]
    · cases hbeg : h.beg
      · have hpl : 0 < p.length := List.length_pos_iff.mpr hp
        simp only [hbeg, Bool.false_eq_true, if_false] at hle
        have : (r.remMsgLen == 0) = false := by simp; omega
        simp [this]
      · simp [hgm, hbeg]
  have g5 : p.length ≤ r.startRem h.getMsgLen := by
    rw [hsr]
    rcases hsh with ⟨_, _, _, _, hp⟩ | ⟨_, _, _, hle, _⟩
    · subst hp; simp
    · exact hle
  have g6 : ¬ (h.fin = false ∧ p ≠ [] ∧ r.startRem h.getMsgLen - p.length = 0) := by
    rw [hsr]
    rintro ⟨h1, h2, h3⟩
    rcases hsh with ⟨_, _, _, _, hp⟩ | ⟨_, _, _, hle, hf, _⟩
    · exact h2 hp
    · rw [h1] at hf
      have : p.length ≠ (if h.beg = true then h.msgLen else r.remMsgLen) := by simpa using hf.symm
      omega
  have g7 : ¬ (h.fin = true ∧ r.startRem h.getMsgLen - p.length > 0) := by
    rw [hsr]
    rintro ⟨h1, h3⟩
    rcases hsh with ⟨_, _, hf, _⟩ | ⟨_, _, _, hle, hf, _⟩
    · rw [hf] at h1; cases h1
    · rw [h1] at hf
      have : p.length = (if h.beg = true then h.msgLen else r.remMsgLen) := by simpa using hf.symm
      omega
  have g8 : (sduPrefix h.getMsgLen).length + p.length ≤ ringFree r.buf := by
    unfold ringFree; simp only [maxMessageSize_eq]; omega
  have hacc : r.acceptIncoming h p mtu now = .ok r' := by
    rw [acceptIncoming_eq_commit r h p mtu now hint (by omega) g3 g4 g4b g5 g6 g7 g8, hr']
  refine ⟨r', hacc, ?_⟩
  obtain ⟨e1, e2, _, e4, e5, e6, e7⟩ := commit_inv hr'
  refine ⟨e4, e6, e5, by rw [e2, hsr], ?_, e7⟩
  rw [e1, ringPush_eq r.buf _ (by omega), ringPush_eq _ _ (by simp only [List.length_append]; omega)]

/-! ## One direction of an established link -/

/-- negotiated parameters: the window fits the 8-bit counters and a full window of segments fits
half of the receive ring buffer (`initial_window_size`) -/
structure POk (W mtu : Nat) : Prop where
  w1 : 1 ≤ W
  w255 : W ≤ 255
  m20 : 20 ≤ mtu
  m244 : mtu ≤ 244
  wm : W * mtu ≤ 1583

/-- **The cross-end invariant of the direction `X → Y`**: `snd` = `X`'s send window, `rcv` = `Y`'s
receive window, `rs` = the specification-side reassembly of what `Y` has accepted, `dq` = segments
in flight `X → Y`, `aq` = segments in flight `Y → X` (they carry the acknowledgements). -/
structure DirOk (W mtu : Nat) (snd : SendWindow) (rcv : RecvWindow) (rs : Spec.Reasm)
    (dq aq : List (List Nat)) : Prop where
  sws : snd.windowSize = W
  lvl : snd.level ≤ W
  sum : rcv.level + rcv.ackLevel = W
  last : snd.lastSent = (rcv.ackSeq + dq.length) % 256
  pos : rcv.ackSeq < 256
  /-- no more segments in flight than `X` counts as unacknowledged -/
  cnt : dq.length ≤ W - snd.level
  /-- unacknowledged at `X` = in flight + (received and not acknowledged by `Y`, or acknowledged by
  an acknowledgement that is still travelling) -/
  acks : AckChain rcv.ackSeq (W - snd.level - dq.length) rcv.ackLevel aq
  chain : DataChain mtu rcv.ackSeq rs dq
  rem : rcv.remMsgLen = rs.remaining
  rsb : rs.remaining > 0 → rs.cur.length + rs.remaining ≤ 1232
  buf : rcv.buf.length ≤ 1233 + rcv.ackLevel * mtu
  mc : rcv.msgCt ≤ rcv.ackLevel
  tight : Tight rcv.ackSeq (W - snd.level - dq.length) rcv.ackLevel aq
  stamp : rcv.ackLevel > 0 → rcv.receivedAt.isSome = true

/-- the cross-end form of "never more unacknowledged segments than the peer's window allows":
the segments in flight fit the free slots of the peer's receive window -/
theorem DirOk.inflight_le {W mtu : Nat} {snd : SendWindow} {rcv : RecvWindow} {rs : Spec.Reasm}
    {dq aq : List (List Nat)} (d : DirOk W mtu snd rcv rs dq aq) :
    dq.length ≤ rcv.level ∧ dq.length + rcv.ackLevel ≤ W - snd.level ∧ W - snd.level ≤ W := by
  have h1 := ackChain_le d.acks
  have h2 := d.cnt
  have h3 := d.sum
  have h4 := d.lvl
  omega

theorem feed_rsb {mtu seq : Nat} {rs : Spec.Reasm} {h : Hdr} {p : List Nat} (hok : SegOk mtu seq rs.remaining h p)
    (hb : rs.remaining > 0 → rs.cur.length + rs.remaining ≤ 1232) :
    ((rs.feed h p).remaining > 0 → (rs.feed h p).cur.length + (rs.feed h p).remaining ≤ 1232) ∧
    (rs.feed h p).remaining = (if h.beg then h.msgLen else rs.remaining) - p.length := by
  unfold Spec.Reasm.feed
  rcases hok.shape with ⟨hb0, _, hf, _, hp⟩ | ⟨hp, _, hbg, hle, hf, _⟩
  · subst hp
    simp only [hb0, hf, Bool.false_eq_true, if_false, List.append_nil, List.length_nil, Nat.sub_zero]
    exact ⟨hb, trivial⟩
  · cases hfin : h.fin
    · simp only [Bool.false_eq_true, if_false]
      rw [hfin] at hf
      have hne : p.length ≠ (if h.beg = true then h.msgLen else rs.remaining) := by simpa using hf.symm
      refine ⟨?_, trivial⟩
      intro _
      cases hbeg : h.beg
      · simp only [hbeg, Bool.false_eq_true, if_false, List.length_append] at hle hne ⊢
        have := hb (by omega); omega
      · simp only [hbeg, if_true] at hle hne ⊢
        have := (hbg hbeg).2; omega
    · simp only [if_true]
      rw [hfin] at hf
      have heq : p.length = (if h.beg = true then h.msgLen else rs.remaining) := by simpa using hf.symm
      refine ⟨fun h0 => absurd h0 (by omega), by omega⟩

/-- **`Y` accepts the oldest segment in flight** -/
theorem dirOk_accept {W mtu : Nat} (hp : POk W mtu) {snd : SendWindow} {rcv : RecvWindow} {rs : Spec.Reasm}
    {seg : List Nat} {rest aq : List (List Nat)} (d : DirOk W mtu snd rcv rs (seg :: rest) aq) (now : Nat) :
    ∃ h p r', decodeHdr seg = .ok (h, p) ∧ h.Canon ∧ rcv.acceptIncoming h p mtu now = .ok r' ∧
      DirOk W mtu snd r' (rs.feed h p) rest aq := by
  obtain ⟨h, p, hdec, hok, hrest⟩ := d.chain
  have hin := d.inflight_le
  simp only [List.length_cons] at hin
  have hsum := d.sum
  have hl : 1 ≤ rcv.level := by omega
  have hal : rcv.ackLevel < 255 := by have := hp.w255; omega
  have hmc : rcv.msgCt < 255 := by have := d.mc; omega
  have hpush := segOk_pushed hok
  have hmul : (rcv.ackLevel + 1) * mtu ≤ W * mtu := Nat.mul_le_mul_right _ (by omega)
  have hsucc : (rcv.ackLevel + 1) * mtu = rcv.ackLevel * mtu + mtu := Nat.succ_mul _ _
  have hbufb := d.buf
  have hwm := hp.wm
  rw [← d.rem] at hok
  obtain ⟨r', hacc, e1, e2, e3, e4, e5, e6⟩ := accept_ok hok rfl hl hal hmc (by omega) now
  have hmc' : r'.msgCt ≤ r'.ackLevel := by
    obtain ⟨_, _, _, _, _, _, _, _, hc⟩ := acceptIncoming_inv hacc
    obtain ⟨_, _, e6, _⟩ := commit_inv hc
    rw [e6, e2]; have := d.mc
    split <;> omega
  rw [d.rem] at hok
  obtain ⟨hrsb, hrem⟩ := feed_rsb hok d.rsb
  refine ⟨h, p, r', hdec, hok.canon, hacc, ?_⟩
  have hseq := hok.seq
  have hpos := d.pos
  have hlast := d.last
  have hcnt := d.cnt
  simp only [List.length_cons] at hlast hcnt
  constructor
  · exact d.sws
  · exact d.lvl
  · omega
  · rw [e3, hseq, hlast]; omega
  · rw [e3]; exact hok.canon.seqNum
  · omega
  · rw [e3, hseq, e2]
    have hsh := ackChain_shift hpos d.acks (by simp only [List.length_cons]; have := hp.w255; omega)
    have e : W - snd.level - (seg :: rest).length + 1 = W - snd.level - rest.length := by
      simp only [List.length_cons]; omega
    rw [e] at hsh; exact hsh
  · rw [e3, hseq]; exact hrest
  · rw [e4, hrem, d.rem]
  · exact hrsb
  · rw [e5, e2]; simp only [List.length_append]; omega
  · exact hmc'
  · rw [e3, hseq, e2]
    have hlt : W - snd.level - (seg :: rest).length < 255 := by
      simp only [List.length_cons]; have := hp.w255; omega
    have hsh := lastAck_shift hpos d.acks hlt
    have ht := d.tight
    unfold Tight at ht ⊢
    rw [hsh]
    simp only [List.length_cons] at ht
    cases hla : lastAck rcv.ackSeq aq with
    | none => rw [hla] at ht; simp only [Option.map_none]; simp only at ht; omega
    | some dd => rw [hla] at ht; simp only [Option.map_some]; simp only at ht; omega
  · intro _; rw [e6]; rfl

theorem tight_tail_none {pos hi lo : Nat} {seg : List Nat} {rest : List (List Nat)} (hs : ackOf seg = none)
    (h : Tight pos hi lo (seg :: rest)) : Tight pos hi lo rest := by
  unfold Tight at h ⊢
  simp only [lastAck, hs, Option.map_none] at h
  cases hl : lastAck pos rest with
  | none => rw [hl] at h; exact h
  | some d => rw [hl] at h; exact h

theorem tight_tail_some {pos hi lo a : Nat} {seg : List Nat} {rest : List (List Nat)} (hs : ackOf seg = some a)
    (h : Tight pos hi lo (seg :: rest)) : Tight pos (wrapSub pos a) lo rest := by
  unfold Tight at h ⊢
  simp only [lastAck, hs, Option.map_some] at h
  cases hl : lastAck pos rest with
  | none => rw [hl] at h; simp only at h ⊢; omega
  | some d => rw [hl] at h; exact h

/-- **`X` processes the acknowledgement (if any) carried by the oldest segment travelling `Y → X`** -/
theorem dirOk_ack {W mtu : Nat} (hW : W ≤ 255) {snd : SendWindow} {rcv : RecvWindow} {rs : Spec.Reasm}
    {seg : List Nat} {dq rest : List (List Nat)} (d : DirOk W mtu snd rcv rs dq (seg :: rest))
    {h : Hdr} {p : List Nat} (hdec : decodeHdr seg = .ok (h, p)) (hhs : h.hs = false) (now : Nat) :
    snd.checkIncoming h = .ok () ∧ ∃ w', snd.acceptIncoming h now = .ok w' ∧
      DirOk W mtu w' rcv rs dq rest ∧ (h.getAck = none → w' = snd) ∧ (h.getAck.isSome = true → 1 ≤ w'.level) := by
  have hack : ackOf seg = h.getAck := by simp [ackOf, hdec, hhs]
  have hacks := d.acks
  simp only [AckChain, hack] at hacks
  have hlvl := d.lvl
  have hcnt := d.cnt
  have hlast := d.last
  have hpos := d.pos
  have hsws := d.sws
  cases hga : h.getAck with
  | none =>
    rw [hga] at hacks
    refine ⟨by simp [SendWindow.checkIncoming, hga], snd, by simp [SendWindow.acceptIncoming, hga], ?_,
      (fun _ => rfl), (fun h0 => by simp at h0)⟩
    exact { d with acks := hacks, tight := tight_tail_none (hack.trans hga) d.tight }
  | some a =>
    rw [hga] at hacks
    obtain ⟨ha, hlt, hrest⟩ := hacks
    have htt := tight_tail_some (hack.trans hga) d.tight
    have hws : wrapSub snd.lastSent a = wrapSub rcv.ackSeq a + dq.length := by
      rw [hlast]; unfold wrapSub at hlt ⊢; omega
    refine ⟨?_, ?_⟩
    · unfold SendWindow.checkIncoming
      simp only [hga]
      rw [csub_ok (by omega)]
      simp only
      have : ¬ (wrapSub snd.lastSent a ≥ snd.windowSize - snd.level) := by omega
      simp only [this, if_false]
    · unfold SendWindow.acceptIncoming
      simp only [hga]
      by_cases heq : snd.lastSent = a
      · simp only [heq, if_true]
        have h0 : wrapSub snd.lastSent a = 0 := by rw [heq]; unfold wrapSub; omega
        refine ⟨_, rfl, ?_, (fun h0 => by cases h0), (fun _ => by show 1 ≤ snd.windowSize; omega)⟩
        have e : W - snd.windowSize - dq.length = wrapSub rcv.ackSeq a := by omega
        constructor <;> (try simp only [])
        · exact hsws
        · omega
        · exact d.sum
        · rw [← heq]; exact hlast
        · exact hpos
        · omega
        · rw [e]; exact hrest
        · exact d.chain
        · exact d.rem
        · exact d.rsb
        · exact d.buf
        · exact d.mc
        · rw [e]; exact htt
        · exact d.stamp
      · simp only [heq, if_false]
        rw [csub_ok (by omega)]
        refine ⟨_, rfl, ?_, (fun h0 => by cases h0), (fun _ => by show 1 ≤ snd.windowSize - wrapSub snd.lastSent a; omega)⟩
        have e : W - (snd.windowSize - wrapSub snd.lastSent a) - dq.length = wrapSub rcv.ackSeq a := by omega
        constructor <;> (try simp only [])
        · exact hsws
        · omega
        · exact d.sum
        · exact hlast
        · exact hpos
        · omega
        · rw [e]; exact hrest
        · exact d.chain
        · exact d.rem
        · exact d.rsb
        · exact d.buf
        · exact d.mc
        · rw [e]; exact htt
        · exact d.stamp

/-- **`X` emits a segment** (it has a free slot, and the segment is well-formed with respect to
the state the receiver will be in after everything in flight) -/
theorem dirOk_emit {W mtu : Nat} {snd : SendWindow} {rcv : RecvWindow} {rs : Spec.Reasm}
    {dq aq : List (List Nat)} (d : DirOk W mtu snd rcv rs dq aq) (hl : 1 ≤ snd.level)
    {seg : List Nat} {h : Hdr} {p : List Nat} (hdec : decodeHdr seg = .ok (h, p))
    (hok : SegOk mtu snd.lastSent (feedAll rs dq).remaining h p) (t : Option Nat) :
    DirOk W mtu { snd with level := snd.level - 1, lastSent := (snd.lastSent + 1) % 256, sentAt := t }
      rcv rs (dq ++ [seg]) aq := by
  have hlvl := d.lvl
  have hcnt := d.cnt
  have hlast := d.last
  have e : W - (snd.level - 1) - (dq.length + 1) = W - snd.level - dq.length := by omega
  constructor <;> (try simp only [List.length_append, List.length_singleton])
  · exact d.sws
  · omega
  · exact d.sum
  · rw [hlast]; omega
  · exact d.pos
  · omega
  · rw [e]; exact d.acks
  · refine dataChain_snoc hdec d.chain ?_
    rw [← hlast]; exact hok
  · exact d.rem
  · exact d.rsb
  · exact d.buf
  · exact d.mc
  · rw [e]; exact d.tight
  · exact d.stamp

/-- **`Y` emits a segment** (it travels in the acknowledgement queue of this direction): either it
carries the pending acknowledgement of everything received so far and re-opens the receive window,
or it carries none -/
theorem dirOk_emitAck {W mtu : Nat} {snd : SendWindow} {rcv : RecvWindow} {rs : Spec.Reasm}
    {dq aq : List (List Nat)} (d : DirOk W mtu snd rcv rs dq aq) {seg : List Nat}
    (hack : ackOf seg = rcv.pendingAck)
    (hbuf : rcv.msgCt = 0 → rcv.buf.length ≤ 1233) :
    DirOk W mtu snd (if rcv.pendingAck.isSome then { rcv with level := rcv.level + rcv.ackLevel, ackLevel := 0 } else rcv)
      rs dq (aq ++ [seg]) := by
  unfold RecvWindow.pendingAck at hack ⊢
  by_cases hc : (rcv.ackLevel > 0 && rcv.msgCt == 0) = true
  · simp only [hc, if_true, Option.isSome_some] at hack ⊢
    have hc' : rcv.ackLevel > 0 ∧ rcv.msgCt = 0 := by simpa using hc
    have hsum := d.sum
    constructor <;> (try simp only [])
    · exact d.sws
    · exact d.lvl
    · omega
    · exact d.last
    · exact d.pos
    · exact d.cnt
    · exact ackChain_snoc_ack d.pos hack d.acks hc'.1
    · exact d.chain
    · exact d.rem
    · exact d.rsb
    · have := hbuf hc'.2; omega
    · omega
    · unfold Tight
      rw [lastAck_snoc_some hack]
      show wrapSub rcv.ackSeq rcv.ackSeq = 0
      unfold wrapSub; have := d.pos; omega
    · intro h0; omega
  · simp only [hc, Bool.false_eq_true, if_false, Option.isSome_none] at hack ⊢
    have ht := d.tight
    unfold Tight at ht
    exact { d with acks := ackChain_snoc_none hack d.acks,
                   tight := by unfold Tight; rw [lastAck_snoc_none hack]; exact ht }

/-- **the application at `Y` fetches a message**: only the ring buffer shrinks -/
theorem dirOk_fetch {W mtu : Nat} {snd : SendWindow} {rcv rcv' : RecvWindow} {rs : Spec.Reasm}
    {dq aq : List (List Nat)} (d : DirOk W mtu snd rcv rs dq aq)
    (h1 : rcv'.level = rcv.level) (h2 : rcv'.ackLevel = rcv.ackLevel) (h3 : rcv'.ackSeq = rcv.ackSeq)
    (h4 : rcv'.remMsgLen = rcv.remMsgLen) (h5 : rcv'.buf.length ≤ rcv.buf.length) (h6 : rcv'.msgCt ≤ rcv.msgCt)
    (h7 : rcv'.receivedAt = rcv.receivedAt) :
    DirOk W mtu snd rcv' rs dq aq := by
  constructor
  · exact d.sws
  · exact d.lvl
  · rw [h1, h2]; exact d.sum
  · rw [h3]; exact d.last
  · rw [h3]; exact d.pos
  · exact d.cnt
  · rw [h3, h2]; exact d.acks
  · rw [h3]; exact d.chain
  · rw [h4]; exact d.rem
  · exact d.rsb
  · rw [h2]; have := d.buf; omega
  · rw [h2]; have := d.mc; omega
  · rw [h3, h2]; exact d.tight
  · rw [h2, h7]; exact d.stamp

/-! ## What the pump emits -/

theorem buildSegment_data_ok {s : Session} {data : List Nat} {off : Nat}
    (hne : data ≠ []) (hoff : off < data.length) (hmtu : 20 ≤ s.mtu) :
    ∃ h p, s.buildSegment data off = .ok (h, p) ∧ h.seqNum = s.send.nextSeq ∧
      h.getAck = s.recv.pendingAck ∧ p.length + h.len ≤ s.mtu ∧ (h.fin = false → p.length + h.len = s.mtu) := by
  unfold Session.buildSegment
  have hne' : (!data.isEmpty) = true := by simp [hne]
  simp only [hne', if_true]
  have hgt : ¬ off > data.length := by omega
  simp only [hgt, if_false]
  obtain ⟨H, hH⟩ : ∃ H : Hdr, H = (if off = 0 then { s.baseHdr with beg := true, msgLen := data.length % 65536 }
      else { s.baseHdr with cont := true }) := ⟨_, rfl⟩
  rw [← hH]
  have hHl : H.len ≤ 6 := hdr_len_le _
  rw [csub_ok (Nat.le_trans hHl (by omega))]
  simp only
  have hsq : H.seqNum = s.send.nextSeq ∧ H.ack = s.recv.pendingAck.isSome ∧ H.ackNum = s.recv.pendingAck.getD 0 ∧ H.fin = false := by
    rw [hH]; split <;> exact ⟨rfl, rfl, rfl, rfl⟩
  have hga : ∀ H' : Hdr, H'.ack = H.ack → H'.ackNum = H.ackNum → H'.getAck = s.recv.pendingAck := by
    intro H' h1 h2
    unfold Hdr.getAck; rw [h1, h2, hsq.2.1, hsq.2.2.1]
    cases s.recv.pendingAck <;> simp
  refine ⟨_, _, rfl, ?_, ?_, ?_, ?_⟩
  · split <;> exact hsq.1
  · split <;> exact hga _ rfl rfl
  · have hl : ∀ H' : Hdr, H' = { H with fin := true } → H'.len = H.len := by intro H' h; rw [h]; rfl
    simp only [List.length_take, List.length_drop]
    split
    · rw [hl _ rfl]; omega
    · omega
  · simp only [List.length_take, List.length_drop]
    split
    · intro hf; simp at hf
    · rename_i hc; intro _; omega

/-- the data segment built by `prep_tx_data` is well-formed with respect to the sender-side
reassembly state (`TxRep`: `rem` = what is still missing from the SDU on the wire) -/
theorem buildSegment_segOk {s : Session} (hs : SInv s) {data : List Nat} {off : Nat}
    (hne : data ≠ []) (hoff : off < data.length) (hlen : data.length ≤ 1232) (hmtu : 20 ≤ s.mtu) :
    ∃ h p, s.buildSegment data off = .ok (h, p) ∧
      SegOk s.mtu s.send.lastSent (if off = 0 then 0 else data.length - off) h p ∧
      h.getAck = s.recv.pendingAck := by
  obtain ⟨h, p, hb, hsq, hga, hfit, hfull⟩ := buildSegment_data_ok (s := s) hne hoff hmtu
  obtain ⟨hcan, hbeg, hcont, hml, hpl, _, hle, hfin⟩ := buildSegment_spec hs hne hoff hlen hmtu hb
  refine ⟨h, p, hb, ⟨hcan, hsq, hfit, .inr ⟨?_, ?_, ?_, ?_, ?_, hfull⟩⟩, hga⟩
  · intro h0; rw [h0] at hpl; simp at hpl
  · rw [hbeg, hcont]; by_cases h0 : off = 0 <;> simp [h0]
  · intro hb1
    have h0 : off = 0 := by rw [hbeg] at hb1; simpa using hb1
    simp only [h0, if_true]
    exact ⟨trivial, by rw [hml h0]; exact hlen⟩
  · by_cases h0 : off = 0
    · have : h.beg = true := by rw [hbeg]; simp [h0]
      simp only [this, if_true, hml h0]; omega
    · have : h.beg = false := by rw [hbeg]; simp [h0]
      simp only [this, Bool.false_eq_true, if_false, h0]; omega
  · rw [hfin]
    by_cases h0 : off = 0
    · have : h.beg = true := by rw [hbeg]; simp [h0]
      simp only [this, if_true, hml h0, h0, Nat.zero_add]
    · have : h.beg = false := by rw [hbeg]; simp [h0]
      simp only [this, Bool.false_eq_true, if_false, h0]
      congr 1
      exact propext ⟨fun h => by omega, fun h => by omega⟩

/-- the stand-alone acknowledgement built by `prep_tx_data(&[], …)` -/
theorem baseHdr_segOk {s : Session} (hs : SInv s) (hm : 20 ≤ s.mtu) (rem : Nat)
    (hp : s.recv.pendingAck.isSome = true) :
    s.buildSegment [] 0 = .ok (s.baseHdr, []) ∧ SegOk s.mtu s.send.lastSent rem s.baseHdr [] ∧
      s.baseHdr.getAck = s.recv.pendingAck := by
  obtain ⟨hcan, hb, hf, hc⟩ := baseHdr_canon s hs
  refine ⟨by simp [Session.buildSegment], ⟨hcan, rfl, ?_, .inl ⟨hb, hc, hf, hp, rfl⟩⟩, ?_⟩
  · have := hdr_len_le s.baseHdr; simp only [List.length_nil]; omega
  · unfold Hdr.getAck
    show (if s.recv.pendingAck.isSome = true then some (s.recv.pendingAck.getD 0) else none) = _
    cases s.recv.pendingAck <;> simp

/-- the session after a segment has been emitted: one send slot taken, the pending acknowledgement
(if any) went out and the receive window is re-opened -/
def Session.afterTx (s : Session) (now : Nat) : Session :=
  { s with
    send := { s.send with level := s.send.level - 1, lastSent := (s.send.lastSent + 1) % 256, sentAt := some now },
    recv := if s.recv.pendingAck.isSome then { s.recv with level := s.recv.level + s.recv.ackLevel, ackLevel := 0 }
            else s.recv }

theorem notFull_level {s : Session} (hnf : s.send.isFull s.recv = false) : 1 ≤ s.send.level := by
  unfold SendWindow.isFull at hnf
  simp at hnf
  omega

/-- the last send slot is only used for a segment that carries an acknowledgement (the fix) -/
theorem notFull_last {s : Session} (hnf : s.send.isFull s.recv = false) :
    s.send.level = 1 → s.recv.pendingAck.isSome = true := by
  intro h1
  unfold SendWindow.isFull at hnf
  simp only [h1, Bool.or_eq_false_iff, Bool.and_eq_false_iff] at hnf
  cases hp : s.recv.pendingAck with
  | some a => rfl
  | none => rw [hp] at hnf; simp at hnf

theorem prepTxData_emit_eq {s : Session} (hs : SInv s) {data : List Nat} {off now : Nat} {h : Hdr} {p : List Nat}
    (hnf : s.send.isFull s.recv = false) (hb : s.buildSegment data off = .ok (h, p))
    (hsz : (h.encode ++ p).length ≤ 512) :
    s.prepTxData data off now = .ok (s.afterTx now, h.encode ++ p, off + p.length) := by
  unfold Session.prepTxData
  simp only [hnf, Bool.false_eq_true, if_false, hb]
  have : ¬ ((h.encode ++ p).length > txBufLen) := by show ¬ (_ > 512); omega
  simp only [this, if_false]
  unfold SendWindow.postSend
  rw [csub_ok (notFull_level hnf)]
  simp only
  unfold RecvWindow.postSend
  by_cases hp : s.recv.pendingAck.isSome = true
  · simp only [hp, if_true]
    rw [cadd_ok (by have := hs.recvSum; have := hs.wsLe; omega)]
    simp only [Session.afterTx, hp, if_true]
  · simp only [hp, Bool.false_eq_true, if_false, Session.afterTx]

theorem prepTxData_full {s : Session} {data : List Nat} {off now : Nat} (hf : s.send.isFull s.recv = true) :
    s.prepTxData data off now = .ok (s, [], off) := by
  unfold Session.prepTxData; simp only [hf, if_true]

theorem prepTxHandshake_idle {s : Session} (hnp : s.handshakePending = false) (g : Option Nat) (now : Nat) :
    s.prepTxHandshake g now = .ok (s, []) := by
  unfold Session.prepTxHandshake; simp [hnp]

theorem segLen_le {mtu seq rem : Nat} {h : Hdr} {p : List Nat} (hok : SegOk mtu seq rem h p) (hm : mtu ≤ 244) :
    (h.encode ++ p).length ≤ 512 ∧ 0 < (h.encode ++ p).length := by
  have := encode_length_le h
  have := hok.fits
  simp only [List.length_append]; omega

/-- what the pump of an established end does: nothing — because the send window is full, or
because there is neither an SDU nor a due acknowledgement — or one well-formed segment -/
theorem endOutgoing_sync {e : End} (he : EInv e) (hnp : e.s.handshakePending = false)
    (hest : e.s.established = true) {tx : Spec.Reasm} {sub : List (List Nat)} (ht : TxRep e tx sub) (now : Nat) :
    (e.processOutgoing now = .ok (e, []) ∧
      (e.s.send.isFull e.s.recv = true ∨ (e.sdu = [] ∧ e.s.isAckDue now ackTimeoutSecs = false))) ∨
    ∃ h p e', e.processOutgoing now = .ok (e', h.encode ++ p) ∧ 1 ≤ e.s.send.level ∧
      SegOk e.s.mtu e.s.send.lastSent tx.remaining h p ∧ h.getAck = e.s.recv.pendingAck ∧
      e'.s = e.s.afterTx now ∧ e'.gattMtu = e.gattMtu ∧
      (e.s.send.level = 1 → e.s.recv.pendingAck.isSome = true) := by
  obtain ⟨hm20, hm244, _⟩ := he.s.est hest
  unfold End.processOutgoing
  rw [prepTxHandshake_idle hnp]
  simp only [List.length_nil, Nat.lt_irrefl, if_false]
  have he1 : ({ e with s := e.s } : End) = e := rfl
  rw [he1]
  -- the acknowledgement step, taken when the data step emits nothing
  have hack : (e.ackStep now = .ok (e, []) ∧
        (e.s.send.isFull e.s.recv = true ∨ e.s.isAckDue now ackTimeoutSecs = false)) ∨
      ∃ h p e', e.ackStep now = .ok (e', h.encode ++ p) ∧ 1 ≤ e.s.send.level ∧
        SegOk e.s.mtu e.s.send.lastSent tx.remaining h p ∧ h.getAck = e.s.recv.pendingAck ∧
        e'.s = e.s.afterTx now ∧ e'.gattMtu = e.gattMtu ∧
        (e.s.send.level = 1 → e.s.recv.pendingAck.isSome = true) := by
    unfold End.ackStep
    by_cases hdue : e.s.isAckDue now ackTimeoutSecs = true
    · simp only [hdue, if_true]
      by_cases hf : e.s.send.isFull e.s.recv = true
      · left; rw [prepTxData_full hf]; exact ⟨rfl, .inl hf⟩
      · right
        have hf' : e.s.send.isFull e.s.recv = false := by simpa using hf
        have hp : e.s.recv.pendingAck.isSome = true := by
          unfold Session.isAckDue at hdue; simp at hdue; simpa using hdue.1
        obtain ⟨hb, hok, hga⟩ := baseHdr_segOk he.s hm20 tx.remaining hp
        rw [prepTxData_emit_eq he.s hf' hb (segLen_le hok hm244).1]
        exact ⟨_, _, { e with s := e.s.afterTx now }, rfl, notFull_level hf', hok, hga, rfl, rfl, notFull_last hf'⟩
    · left
      have hd0 : e.s.isAckDue now ackTimeoutSecs = false := by
        cases h : e.s.isAckDue now ackTimeoutSecs
        · rfl
        · exact absurd h hdue
      simp only [hd0, Bool.false_eq_true, if_false]
      exact ⟨trivial, .inr trivial⟩
  unfold End.dataStep
  by_cases hd : (!e.sdu.isEmpty && e.s.established) = true
  · simp only [hd, if_true]
    by_cases hf : e.s.send.isFull e.s.recv = true
    · rw [prepTxData_full hf]
      simp only [List.length_nil, Nat.lt_irrefl, if_false]
      rw [he1]
      rcases hack with ⟨h1, _⟩ | h2
      · exact .inl ⟨h1, .inl hf⟩
      · exact .inr h2
    · right
      have hf' : e.s.send.isFull e.s.recv = false := by simpa using hf
      have hne : e.sdu ≠ [] := by
        intro h0; simp [h0] at hd
      obtain ⟨h, p, hb, hok, hga⟩ := buildSegment_segOk he.s hne (ht.offLt hne) he.len hm20
      have hrem : tx.remaining = (if e.off = 0 then 0 else e.sdu.length - e.off) := ht.rem
      rw [← hrem] at hok
      have hl := segLen_le hok hm244
      rw [prepTxData_emit_eq he.s hf' hb hl.1]
      simp only [hl.2, if_true]
      by_cases hend : e.off + p.length = e.sdu.length
      · simp only [hend, if_true, hl.2]
        exact ⟨h, p, { e with s := e.s.afterTx now, sdu := [], off := 0 }, rfl, notFull_level hf', hok, hga, rfl, rfl, notFull_last hf'⟩
      · simp only [hend, if_false, hl.2, if_true]
        exact ⟨h, p, { e with s := e.s.afterTx now, off := e.off + p.length }, rfl, notFull_level hf', hok, hga, rfl, rfl, notFull_last hf'⟩
  · simp only [hd, Bool.false_eq_true, if_false, List.length_nil, Nat.lt_irrefl]
    have hsdu : e.sdu = [] := by
      simp only [hest, Bool.and_true, Bool.not_eq_true', Bool.not_eq_false] at hd
      simpa using hd
    rcases hack with ⟨h1, h2⟩ | h2
    · left
      refine ⟨h1, ?_⟩
      rcases h2 with h2 | h2
      · exact .inl h2
      · exact .inr ⟨hsdu, h2⟩
    · exact .inr h2

/-! ## The link -/

/-- the state from which nothing can ever be sent again: both send windows exhausted and no
acknowledgement travelling in either direction -/
def Dead (l : LMon) : Prop :=
  l.a.e.s.send.level = 0 ∧ l.b.e.s.send.level = 0 ∧ NoAck l.qab ∧ NoAck l.qba

theorem dead_iff (l : LMon) (x : Side) : Dead l ↔
    ((l.get x).e.s.send.level = 0 ∧ (l.get x.other).e.s.send.level = 0 ∧ NoAck (l.inq x) ∧ NoAck (l.inq x.other)) := by
  cases x
  · exact ⟨fun ⟨a, b, c, d⟩ => ⟨a, b, d, c⟩, fun ⟨a, b, c, d⟩ => ⟨a, b, d, c⟩⟩
  · exact ⟨fun ⟨a, b, c, d⟩ => ⟨b, a, c, d⟩, fun ⟨a, b, c, d⟩ => ⟨b, a, c, d⟩⟩

theorem noAck_cons {seg : List Nat} {rest : List (List Nat)} :
    NoAck (seg :: rest) ↔ ackOf seg = none ∧ NoAck rest := by
  simp [NoAck]

theorem noAck_snoc {seg : List Nat} {q : List (List Nat)} :
    NoAck (q ++ [seg]) ↔ NoAck q ∧ ackOf seg = none := by
  simp only [NoAck, List.mem_append, List.mem_singleton]
  constructor
  · intro h; exact ⟨fun s hs => h s (.inl hs), h seg (.inr rfl)⟩
  · rintro ⟨h1, h2⟩ s (hs | hs)
    · exact h1 s hs
    · rw [hs]; exact h2

/-- **Both ends established with the same parameters, and both directions accounted for.** -/
structure Sync (W M : Nat) (l : LMon) : Prop where
  st : Steady l
  par : POk W M
  ses : ∀ x, (l.get x).e.s.established = true ∧ (l.get x).e.s.windowSize = W ∧ (l.get x).e.s.mtu = M
  dir : ∀ x, DirOk W M (l.get x).e.s.send (l.get x.other).e.s.recv (l.get x.other).rs (l.inq x.other) (l.inq x)
  /-- never both send windows exhausted with no acknowledgement travelling -/
  nodead : ¬ Dead l

theorem sync_mk {W M : Nat} {l' : LMon} (x : Side) (hst : Steady l') (par : POk W M)
    (hx : (l'.get x).e.s.established = true ∧ (l'.get x).e.s.windowSize = W ∧ (l'.get x).e.s.mtu = M)
    (hy : (l'.get x.other).e.s.established = true ∧ (l'.get x.other).e.s.windowSize = W ∧
      (l'.get x.other).e.s.mtu = M)
    (d1 : DirOk W M (l'.get x).e.s.send (l'.get x.other).e.s.recv (l'.get x.other).rs (l'.inq x.other) (l'.inq x))
    (d2 : DirOk W M (l'.get x.other).e.s.send (l'.get x).e.s.recv (l'.get x).rs (l'.inq x) (l'.inq x.other))
    (nd : ¬ ((l'.get x).e.s.send.level = 0 ∧ (l'.get x.other).e.s.send.level = 0 ∧ NoAck (l'.inq x) ∧
      NoAck (l'.inq x.other))) :
    Sync W M l' := by
  refine ⟨hst, par, ?_, ?_, fun h => nd ((dead_iff l' x).mp h)⟩
  · intro y
    cases x <;> cases y <;> first | exact hx | exact hy
  · intro y
    cases x <;> cases y <;> first | exact d1 | exact d2

theorem fetchMessage_frame {r r' : RecvWindow} {cap : Nat} {m : Option (List Nat)}
    (h : r.fetchMessage cap = .ok (r', m)) :
    r'.level = r.level ∧ r'.ackLevel = r.ackLevel ∧ r'.ackSeq = r.ackSeq ∧ r'.remMsgLen = r.remMsgLen ∧
    r'.buf.length ≤ r.buf.length ∧ r'.msgCt ≤ r.msgCt ∧ r'.receivedAt = r.receivedAt := by
  unfold RecvWindow.fetchMessage at h
  split at h
  · have hh := Prod.mk.inj (Except.ok.inj h); rw [← hh.1]; simp
  · split at h
    · rename_i lo hi rest hb
      simp only at h
      split at h
      · cases h
      · split at h
        · cases h
        · unfold csub at h
          split at h
          · rename_i e he; split at he <;> cases he
            cases h
          · rename_i mc hmc
            split at hmc
            · cases hmc
              have hh := Prod.mk.inj (Except.ok.inj h); rw [← hh.1]
              simp only [hb, List.length_drop, List.length_cons]
              refine ⟨trivial, trivial, trivial, trivial, by omega, by omega, trivial⟩
            · cases hmc
    · cases h

theorem endRecv_frame2 {e e' : End} {cap : Nat} {m : Option (List Nat)} (h : e.recv cap = .ok (e', m)) :
    e'.s.send = e.s.send ∧ e'.s.established = e.s.established ∧ e'.s.windowSize = e.s.windowSize ∧
    e'.s.mtu = e.s.mtu ∧
    e'.s.recv.level = e.s.recv.level ∧ e'.s.recv.ackLevel = e.s.recv.ackLevel ∧
    e'.s.recv.ackSeq = e.s.recv.ackSeq ∧ e'.s.recv.remMsgLen = e.s.recv.remMsgLen ∧
    e'.s.recv.buf.length ≤ e.s.recv.buf.length ∧ e'.s.recv.msgCt ≤ e.s.recv.msgCt ∧
    e'.s.recv.receivedAt = e.s.recv.receivedAt := by
  unfold End.recv at h
  split at h
  · unfold Session.fetchMessage at h
    cases hf : e.s.recv.fetchMessage cap with
    | error f => rw [hf] at h; cases h
    | ok r =>
      rw [hf] at h
      obtain ⟨r', mm⟩ := r
      have hh := Prod.mk.inj (Except.ok.inj h)
      rw [← hh.1]
      obtain ⟨f1, f2, f3, f4, f5, f6, f7⟩ := fetchMessage_frame hf
      exact ⟨rfl, rfl, rfl, rfl, f1, f2, f3, f4, f5, f6, f7⟩
  · have hh := Prod.mk.inj (Except.ok.inj h)
    rw [← hh.1]; simp

/-- with no complete message waiting, the ring buffer holds at most the SDU in progress -/
theorem ring_len_idle {r : RecvWindow} {rs : Spec.Reasm} {n : Nat} (hr : RingRep r rs n) (hm : r.msgCt = 0)
    (hb : rs.remaining > 0 → rs.cur.length + rs.remaining ≤ 1232) : r.buf.length ≤ 1233 := by
  have h1 := hr.cnt
  have h2 := hr.nLe
  have hn : n = rs.done.length := by omega
  have hbuf := hr.buf
  rw [hn, List.drop_length] at hbuf
  rw [hbuf]
  split
  · rename_i hpos; have := hb hpos
    simp [flat]; omega
  · simp [flat]

theorem ackOf_encode {h : Hdr} (hc : h.Canon) (p : List Nat) : ackOf (h.encode ++ p) = h.getAck := by
  simp [ackOf, decode_encode h hc p, hc.hs]

/-- **The step theorem of the cross-end invariant**: in a synchronised state no scheduler operation
fails (except `send` refusing an empty / over-long message), and the invariant is preserved. -/
theorem sync_step {W M : Nat} {l : LMon} (hl : LInv l) (hs : Sync W M l) (op : Op) :
    (∃ l' o, l.step op = .ok (l', o) ∧ Sync W M l') ∨
    (l.step op = .error .invalidArgument ∧ ∃ x m, op = .send x m) := by
  -- an operation that succeeds preserves the steady part
  have hsteady : ∀ {l' o}, l.step op = .ok (l', o) → Steady l' := fun h => steady_step hl hs.st h
  have hnd : ∀ x, ¬ ((l.get x).e.s.send.level = 0 ∧ (l.get x.other).e.s.send.level = 0 ∧ NoAck (l.inq x) ∧
      NoAck (l.inq x.other)) := fun x h => hs.nodead ((dead_iff l x).mpr h)
  cases op with
  | send x m =>
    cases h : (l.get x).e.send m with
    | error f =>
      right
      have hf : f = .invalidArgument := by
        unfold End.send at h
        split at h
        · cases h; rfl
        · split at h <;> cases h
      subst hf
      exact ⟨by simp only [LMon.step, Mon.step, h], x, m, rfl⟩
    | ok r =>
      left
      obtain ⟨e', ok⟩ := r
      have hstep : l.step (.send x m) = .ok (l.set x { (l.get x) with e := e', submitted := if ok then (l.get x).submitted ++ [m] else (l.get x).submitted }, .queued ok) := by
        simp only [LMon.step, Mon.step, h]
      refine ⟨_, _, hstep, ?_⟩
      have hfs := endSend_frame h
      have d1 := hs.dir x
      have d2 := hs.dir x.other
      simp only [other_other] at d2
      refine sync_mk x (hsteady hstep) hs.par ?_ ?_ ?_ ?_ ?_
      · simp only [get_set_same]; rw [hfs]; exact hs.ses x
      · simp only [get_set_other]; exact hs.ses x.other
      · simp only [get_set_same, get_set_other, inq_set]; rw [hfs]; exact d1
      · simp only [get_set_same, get_set_other, inq_set]; rw [hfs]; exact d2
      · simp only [get_set_same, get_set_other, inq_set]; rw [hfs]; exact hnd x
  | tick n =>
    left
    refine ⟨{ l with now := l.now + n }, .none, rfl, hsteady (l' := { l with now := l.now + n }) (o := .none) rfl, hs.par, ?_, ?_,
      fun h => hs.nodead h⟩
    · intro x; cases x <;> first | exact hs.ses .a | exact hs.ses .b
    · intro x; cases x <;> first | exact hs.dir .a | exact hs.dir .b
  | fetch x cap =>
    left
    obtain ⟨hm, _⟩ := hl.get x
    have d1 := hs.dir x
    have d2 := hs.dir x.other
    simp only [other_other] at d2
    rcases endRecv_spec (l.get x).e hm.e (l.get x).rs (l.get x).fetched.length hm.ring cap with h0 | ⟨full, e', h1, _, _, _⟩
    · have hstep : l.step (.fetch x cap) = .ok (l.set x { (l.get x) with e := (l.get x).e }, .none) := by
        simp only [LMon.step, Mon.step, h0]
      refine ⟨_, _, hstep, sync_mk x (hsteady hstep) hs.par ?_ ?_ ?_ ?_ ?_⟩
      · simp only [get_set_same]; exact hs.ses x
      · simp only [get_set_other]; exact hs.ses x.other
      · simp only [get_set_same, get_set_other, inq_set]; exact d1
      · simp only [get_set_same, get_set_other, inq_set]; exact d2
      · simp only [get_set_same, get_set_other, inq_set]; exact hnd x
    · have hstep : l.step (.fetch x cap) = .ok (l.set x { (l.get x) with e := e', fetched := (l.get x).fetched ++ [(full.take cap, cap)] }, .msg (full.take cap)) := by
        simp only [LMon.step, Mon.step, h1]
      obtain ⟨f0, fe, fw, fm, f1, f2, f3, f4, f5, f6, f7⟩ := endRecv_frame2 h1
      refine ⟨_, _, hstep, sync_mk x (hsteady hstep) hs.par ?_ ?_ ?_ ?_ ?_⟩
      · simp only [get_set_same]; rw [fe, fw, fm]; exact hs.ses x
      · simp only [get_set_other]; exact hs.ses x.other
      · simp only [get_set_same, get_set_other, inq_set]; rw [f0]; exact d1
      · simp only [get_set_same, get_set_other, inq_set]
        exact dirOk_fetch d2 f1 f2 f3 f4 f5 f6 f7
      · simp only [get_set_same, get_set_other, inq_set]; rw [f0]; exact hnd x
  | poll x =>
    left
    obtain ⟨hm, _⟩ := hl.get x
    have dx := hs.st x
    have d1 := hs.dir x
    have d2 := hs.dir x.other
    simp only [other_other] at d2
    obtain ⟨hest, hw, hmt⟩ := hs.ses x
    rcases endOutgoing_sync hm.e dx.pend hest dx.tx l.now with ⟨h0, _⟩ | ⟨h, p, e', h1, hlv, hok, hga, he', _, hlast1⟩
    · have hstep : l.step (.poll x) = .ok (l.set x { (l.get x) with e := (l.get x).e }, .none) := by
        simp only [LMon.step, Mon.step, h0, List.length_nil, Nat.lt_irrefl, if_false]
      refine ⟨_, _, hstep, sync_mk x (hsteady hstep) hs.par ?_ ?_ ?_ ?_ ?_⟩
      · simp only [get_set_same]; exact hs.ses x
      · simp only [get_set_other]; exact hs.ses x.other
      · simp only [get_set_same, get_set_other, inq_set]; exact d1
      · simp only [get_set_same, get_set_other, inq_set]; exact d2
      · simp only [get_set_same, get_set_other, inq_set]; exact hnd x
    · rw [hmt] at hok
      have hlen := (segLen_le hok hs.par.m244).2
      have hstep : l.step (.poll x) = .ok ((l.set x { (l.get x) with e := e', tx := feedSeg (l.get x).tx (h.encode ++ p) }).setInq x.other
          ((l.set x { (l.get x) with e := e', tx := feedSeg (l.get x).tx (h.encode ++ p) }).inq x.other ++ [h.encode ++ p]), .tx (h.encode ++ p)) := by
        simp only [LMon.step, Mon.step, h1, hlen, if_true]
      have hdec := decode_encode h hok.canon p
      refine ⟨_, _, hstep, sync_mk x (hsteady hstep) hs.par ?_ ?_ ?_ ?_ ?_⟩
      · simp only [get_setInq, get_set_same]; rw [he']; exact hs.ses x
      · simp only [get_setInq, get_set_other]; exact hs.ses x.other
      · simp only [get_setInq, get_set_same, get_set_other, inq_setInq_same, inq_setInq_other, inq_set]
        rw [he']
        refine dirOk_emit d1 hlv hdec ?_ (some l.now)
        have hq := dx.q
        rw [hq]; exact hok
      · simp only [get_setInq, get_set_same, get_set_other, inq_setInq_same, inq_setInq_other, inq_set]
        rw [he']
        refine dirOk_emitAck d2 ?_ ?_
        · rw [ackOf_encode hok.canon p]; exact hga
        · intro hmc; exact ring_len_idle hm.ring hmc d2.rsb
      · simp only [get_setInq, get_set_same, get_set_other, inq_setInq_same, inq_setInq_other, inq_set]
        rw [he']
        rintro ⟨h1', _, _, h4⟩
        have hl1 : (l.get x).e.s.send.level = 1 := by
          have : ((l.get x).e.s.afterTx l.now).send.level = (l.get x).e.s.send.level - 1 := rfl
          omega
        have hpa := hlast1 hl1
        rw [noAck_snoc, ackOf_encode hok.canon p, hga] at h4
        rw [h4.2] at hpa; cases hpa
  | deliver x =>
    left
    cases hq : l.inq x with
    | nil =>
      exact ⟨l, .none, by simp only [LMon.step, hq], hs⟩
    | cons seg rest =>
      obtain ⟨hm, _⟩ := hl.get x
      have d1 := hs.dir x
      have d2 := hs.dir x.other
      simp only [other_other] at d2
      rw [hq] at d1 d2
      obtain ⟨hest, hw, hmt⟩ := hs.ses x
      obtain ⟨h, p, r', hdec, hcan, hacc, d2'⟩ := dirOk_accept hs.par d2 l.now
      obtain ⟨hchk, w', hsa, d1', hwn, hws⟩ := dirOk_ack hs.par.w255 d1 hdec hcan.hs l.now
      have hin : (l.get x).e.processIncoming seg l.now =
          .ok { (l.get x).e with s := { (l.get x).e.s with recv := r', send := w' } } := by
        unfold End.processIncoming Session.processRx
        rw [hdec]
        simp only
        unfold Session.processRxSeg
        simp only [hcan.hs, Bool.false_eq_true, if_false]
        unfold Session.processRxData
        rw [hchk]
        simp only
        rw [hmt, hacc]
        simp only
        rw [hsa]
      have hg : ghostRx (l.get x).rs (l.get x).fetched.length seg = ((l.get x).rs.feed h p, (l.get x).fetched.length) := by
        rw [ghostRx_noHs _ _ _ ⟨h, p, hdec, hcan.hs⟩, feedSeg_of_decode hdec hcan.hs]
      have hstep : l.step (.deliver x) = .ok ((l.set x { (l.get x) with
            e := { (l.get x).e with s := { (l.get x).e.s with recv := r', send := w' } },
            rs := (l.get x).rs.feed h p,
            fetched := (l.get x).fetched.take (l.get x).fetched.length }).setInq x rest, .delivered) := by
        simp only [LMon.step, hq, Mon.step, hin, hg]
      refine ⟨_, _, hstep, sync_mk x (hsteady hstep) hs.par ?_ ?_ ?_ ?_ ?_⟩
      · simp only [get_setInq, get_set_same]; exact ⟨hest, hw, hmt⟩
      · simp only [get_setInq, get_set_other]; exact hs.ses x.other
      · simp only [get_setInq, get_set_same, get_set_other, inq_setInq_same, inq_setInq_otherSide, inq_set]
        exact d1'
      · simp only [get_setInq, get_set_same, get_set_other, inq_setInq_same, inq_setInq_otherSide, inq_set]
        exact d2'
      · simp only [get_setInq, get_set_same, get_set_other, inq_setInq_same, inq_setInq_otherSide, inq_set]
        rintro ⟨h1', h2', h3', h4'⟩
        cases hga : h.getAck with
        | none =>
          rw [hwn hga] at h1'
          refine hnd x ⟨h1', h2', ?_, h4'⟩
          rw [hq]
          exact noAck_cons.mpr ⟨by simp [ackOf, hdec, hcan.hs, hga], h3'⟩
        | some a =>
          have := hws (by rw [hga]; rfl)
          have h0 : w'.level = 0 := h1'
          omega

end Btp
