//! C15 system-level wire tap (`sys` cases): real handshakes and request / response / report traffic
//! between two real `Matter` nodes on the simulated network, under scripted per-datagram loss
//! patterns that force retransmissions; the COMPLETE wire log goes to the driver, which checks that
//! every (direction, session, counter) carries exactly one distinct datagram and that new counters
//! only grow.
//!
//! ops (sequential; `sched=` = verdict for the op's datagrams in send order, then deliver:
//!      `d` deliver, `x` drop, `u` duplicate, `l<ms>` delay):
//!   `hs pase|case sched=… [upd=<ms>:<d|c>]`   a real handshake controller -> device (PaseInitiator / CaseInitiator
//!                             against the SecureChannel responder); the newest session is used by the following ops;
//!                             `upd=`: `<ms>` after the op started the device's (`d`) / controller's (`c`) operational
//!                             certificate and key are replaced (UpdateNOC) - while a Sigma2 / Sigma3 may be waiting
//!                             for its retransmission
//!   (`rr` / `rep` with `flaky=<j>`: the builder of request j is NOT idempotent - its output differs on every invocation;
//!    the transport must refuse to send such a retransmission: the send fails, nothing differing reaches the wire;
//!    `flakyrel=<j>`: the builder of request j produces the SAME payload every time but asks for reliable delivery only
//!    on its first invocation - a retransmission would carry the original's counter with the R flag cleared)
//!   `rr n=<k> sched=…`        k request/response rounds on that session: the controller's application sends a
//!                             reliable request on a new exchange, the device's application answers with a reliable
//!                             response on the same exchange, the next request acknowledges it
//!   `rep n=<k> sched=…`       k reports: the device opens an exchange on the session and sends a reliable report,
//!                             the controller's application answers each with a reliable status response
//!   `tap`                     => the wire log: `<n> <t>:<from>:<verdict>:<hex>,…` (every datagram of the case)
use std::cell::RefCell;
use std::collections::VecDeque;
use std::future::Future;
use std::pin::Pin;
use std::rc::Rc;

use embassy_futures::select::{select, Either};
use embassy_time::{Duration, MockDriver, Timer};

use rs_matter::crypto::test_only_crypto;
use rs_matter::dm::devices::test::{TEST_DEV_ATT, TEST_DEV_COMM, TEST_DEV_DET};
use rs_matter::error::{Error, ErrorCode};
use rs_matter::respond::{ChainedExchangeHandler, ExchangeHandler, Responder};
use rs_matter::sc::SecureChannel;
use rs_matter::transport::exchange::{Exchange, MessageMeta};
use rs_matter::transport::network::NoNetwork;
use rs_matter::Matter;

use super::sys::{drive, err_code, install_fabric, kvs, newest_secure_session, num, perform, session_ids, Tasks, DEV_NODE, DEV_PW};
use crate::c19::{gen_records, mint, GenP, Keys};
use crate::proto::Out;
use crate::simnet::{addr_of, Policy, SimNet, Verdict};

const PROTO_APP: u16 = 0x0001;

pub struct Sched(pub Rc<RefCell<VecDeque<Verdict>>>, pub u64);
impl Policy for Sched {
    fn decide(&mut self, _: usize, _: usize, _: &[u8], seq: u64) -> Verdict {
        if seq > 3000 {
            return Verdict::Drop;
        }
        match self.0.borrow_mut().pop_front() {
            Some(Verdict::Deliver) | None => {
                if self.1 == 0 {
                    Verdict::Deliver
                } else {
                    Verdict::Delay(self.1)
                }
            }
            Some(v) => v,
        }
    }
}

pub fn parse_sched(s: &str) -> VecDeque<Verdict> {
    s.split('.')
        .filter(|x| !x.is_empty())
        .map(|x| match x.as_bytes()[0] {
            b'x' => Verdict::Drop,
            b'u' => Verdict::Dup,
            b'l' => Verdict::Delay(x[1..].parse().unwrap_or(50)),
            _ => Verdict::Deliver,
        })
        .collect()
}

/// UpdateNOC on the node's only fabric: same node id and root, a new operational key + certificate (what the
/// `UpdateNOC` command does through `Fabrics::update`)
fn update_fabric<C: rs_matter::crypto::Crypto>(crypto: &C, keys: &Keys, m: &Matter, node: u64, kn: u64) -> bool {
    let p = GenP { fab: 7, node, cats: vec![], rca: 3, ica: None, nb: 1, na: 0, kr: 0, ki: 1, kn };
    let (_root, _icac, noc) = gen_records(&p);
    let Ok(nb) = mint(crypto, keys, &noc) else { return false };
    let sk = keys.key(noc.pk).sk;
    m.with_state(|st| {
        st.fabrics
            .update(crypto, core::num::NonZeroU8::new(1).unwrap(), rs_matter::crypto::CanonPkcSecretKeyRef::new(&sk), &nb, &[])
            .is_ok()
    })
}

/// the application on either node: answers every message `[tag, j, last]` with `[tag, j, 0xEE]`, reliably
struct App;
impl ExchangeHandler for App {
    async fn handle(&self, mut ex: Exchange<'_>) -> Result<(), Error> {
        loop {
            let (tag, j, last) = {
                let rx = ex.recv().await?;
                let p = rx.payload();
                (p.first().copied().unwrap_or(0), p.get(1).copied().unwrap_or(0), p.get(2).copied().unwrap_or(1) != 0)
            };
            ex.send_with(|_, wb| {
                wb.append(&[tag, j, 0xEE, 0x5a, 0x5a])?;
                Ok(Some(MessageMeta::new(PROTO_APP, 0x05, true)))
            })
            .await?;
            if last {
                return Ok(());
            }
        }
    }
}

/// the requesting side: `n` messages `[tag, j, last]`, each answered; the last answer is acknowledged
/// `flaky = Some(j)`: the builder of request `j` is NOT idempotent (it writes the number of its invocation):
/// a retransmission of that request would differ from the original;
/// `flakyrel = Some(j)`: the builder of request `j` writes the same payload every time but returns `reliable = true`
/// only on its first invocation: the rebuilt message would differ from the original in the R flag of its header
async fn rounds(mut ex: Exchange<'_>, tag: u8, n: u8, flaky: Option<u8>, flakyrel: Option<u8>) -> Result<(), Error> {
    for j in 0..n {
        let last = j + 1 >= n;
        let mut calls = 0u8;
        ex.send_with(|_, wb| {
            calls = calls.saturating_add(1);
            wb.append(&[tag, j, last as u8, 0xa5])?;
            if flaky == Some(j) {
                wb.append(&[calls])?;
            }
            Ok(Some(MessageMeta::new(PROTO_APP, 0x02, flakyrel != Some(j) || calls == 1)))
        })
        .await?;
        let rx = core::pin::pin!(ex.recv());
        let to = core::pin::pin!(Timer::after(Duration::from_millis(20_000)));
        match select(rx, to).await {
            Either::First(r) => {
                r?;
            }
            Either::Second(_) => return Err(ErrorCode::RxTimeout.into()),
        }
    }
    ex.acknowledge().await
}

pub fn run_case(kind: &str, ops: &[String]) -> Vec<String> {
    MockDriver::get().reset();
    MockDriver::get().advance(Duration::from_millis(1000));
    let km = kvs(kind);
    let lat = num(&km, "lat").unwrap_or(5).min(100);
    let sched: Rc<RefCell<VecDeque<Verdict>>> = Rc::new(RefCell::new(VecDeque::new()));
    let net = SimNet::new(2, Box::new(Sched(sched.clone(), lat)));
    let crypto = test_only_crypto();
    let keys = Keys::new(&crypto);
    let dev = Box::new(Matter::new(&TEST_DEV_DET, TEST_DEV_COMM, &TEST_DEV_ATT, 0));
    let ctl = Box::new(Matter::new(&TEST_DEV_DET, TEST_DEV_COMM, &TEST_DEV_ATT, 0));
    let _ = install_fabric(&crypto, &keys, &dev, DEV_NODE);
    let ctl_fab = install_fabric(&crypto, &keys, &ctl, 100);
    let _ = dev.open_basic_comm_window(900, &crypto, &());
    let socks: Vec<_> = (0..2).map(|i| net.socket(i)).collect();

    let dev_handler = ChainedExchangeHandler::new(PROTO_APP, App, SecureChannel::new(&crypto, &()));
    let dev_resp = Responder::new("device", dev_handler, &dev, 0);
    let ctl_resp = Responder::new("controller", App, &ctl, 0);
    let mut tasks: Vec<Option<Pin<Box<dyn Future<Output = ()> + '_>>>> = Vec::new();
    for (m, s) in [(&dev, &socks[0]), (&ctl, &socks[1])] {
        let crypto = &crypto;
        tasks.push(Some(Box::pin(async move {
            let _ = m.run(crypto, s, s, NoNetwork).await;
        })));
    }
    {
        let (a, b) = (&dev_resp, &ctl_resp);
        tasks.push(Some(Box::pin(async move {
            let _ = a.run::<3>().await;
        })));
        tasks.push(Some(Box::pin(async move {
            let _ = b.run::<2>().await;
        })));
    }
    let results: RefCell<Vec<String>> = RefCell::new(Vec::new());
    let upd_n = std::cell::Cell::new(0u64);
    let upd_fail = std::cell::Cell::new(false);
    {
        let script = async {
            // (controller session, device session) of the newest handshake
            let mut cur: Option<(u32, u32)> = None;
            let mut tag: u8 = 0;
            for op in ops {
                let w: Vec<&str> = op.split_whitespace().collect();
                let m = kvs(op);
                *sched.borrow_mut() = parse_sched(m.get("sched").map(|s| s.as_str()).unwrap_or(""));
                let n = num(&m, "n").unwrap_or(1).clamp(1, 6) as u8;
                tag = tag.wrapping_add(1);
                let r: String = match w.first().copied().unwrap_or("") {
                    "hs" => {
                        let kind = w.get(1).copied().unwrap_or("pase");
                        let (bc, bd) = (session_ids(&ctl), session_ids(&dev));
                        let upd: Option<(u64, bool)> = m.get("upd").and_then(|u| {
                            let (ms, who) = u.split_once(':')?;
                            Some((ms.parse().ok()?, who == "d"))
                        });
                        let updater = async {
                            if let Some((ms, on_dev)) = upd {
                                Timer::after(Duration::from_millis(ms.min(20_000))).await;
                                upd_n.set(upd_n.get() + 1);
                                let kn = 5 + (upd_n.get() % 3);
                                let ok = if on_dev { update_fabric(&crypto, &keys, &dev, DEV_NODE, kn) } else { update_fabric(&crypto, &keys, &ctl, 100, kn) };
                                if !ok {
                                    upd_fail.set(true);
                                }
                            }
                        };
                        let hsf = async {
                            let ex = Exchange::initiate_plaintext(&ctl, &crypto, addr_of(0)).await?;
                            perform(kind, &ctl, &crypto, ctl_fab, DEV_PW, ex).await
                        };
                        let (r, _) = embassy_futures::join::join(hsf, updater).await;
                        // the responder still waits for the acknowledgement of its last message
                        Timer::after(Duration::from_millis(3_000)).await;
                        match r {
                            Ok(()) => match (newest_secure_session(&ctl, &bc), newest_secure_session(&dev, &bd)) {
                                (Some(c), Some(d)) => {
                                    cur = Some((c, d));
                                    "ok".into()
                                }
                                _ => "err:nosession".into(),
                            },
                            Err(e) => format!("err:{}{}", err_code(&e), if upd_fail.get() { ":updfail" } else { "" }),
                        }
                    }
                    "rr" | "rep" => match cur {
                        None => "skip".into(),
                        Some((c, d)) => {
                            let r = if w[0] == "rr" {
                                match Exchange::initiate_for_session(&ctl, &crypto, c) {
                                    Ok(ex) => rounds(ex, tag, n, num(&m, "flaky").map(|f| f as u8), num(&m, "flakyrel").map(|f| f as u8)).await,
                                    Err(e) => Err(e),
                                }
                            } else {
                                match Exchange::initiate_for_session(&dev, &crypto, d) {
                                    Ok(ex) => rounds(ex, tag, n, num(&m, "flaky").map(|f| f as u8), num(&m, "flakyrel").map(|f| f as u8)).await,
                                    Err(e) => Err(e),
                                }
                            };
                            // stragglers: retransmissions still in flight, acknowledgements of duplicates
                            Timer::after(Duration::from_millis(4_000)).await;
                            match r {
                                Ok(()) => "ok".into(),
                                Err(e) => format!("err:{}", err_code(&e)),
                            }
                        }
                    },
                    "tap" => "-".into(),
                    _ => "bad".into(),
                };
                results.borrow_mut().push(r);
            }
        };
        let all = Tasks(tasks);
        let both = core::pin::pin!(select(all, script));
        let _ = drive(&net, both, 600_000);
    }
    let mut out = results.into_inner();
    while out.len() < ops.len() {
        out.push("hang".into());
    }
    let wire: Vec<String> = net
        .log()
        .iter()
        .map(|l| {
            let v = match l.verdict {
                Verdict::Deliver => "d".to_string(),
                Verdict::Drop => "x".to_string(),
                Verdict::Dup => "u".to_string(),
                Verdict::Delay(ms) => format!("l{}", ms),
            };
            format!("{}:{}:{}:{}", l.t_ms, l.from, v, crate::proto::hex(&l.bytes))
        })
        .collect();
    for (i, op) in ops.iter().enumerate() {
        if op.starts_with("tap") {
            out[i] = format!("{} {}", wire.len(), wire.join(","));
        }
    }
    out
}

pub fn run_sys(out: &mut Out, kind: &str, ops: &[String]) {
    let r = match std::panic::catch_unwind(std::panic::AssertUnwindSafe(|| run_case(kind, ops))) {
        Ok(r) => r,
        Err(e) => {
            if std::env::var_os("VH_PANIC_MSG").is_some() {
                let msg = e.downcast_ref::<String>().cloned().or_else(|| e.downcast_ref::<&str>().map(|s| s.to_string()));
                eprintln!("panic: {}", msg.unwrap_or_default());
            }
            ops.iter().map(|_| "panic".to_string()).collect()
        }
    };
    for (op, res) in ops.iter().zip(r.iter()) {
        let head = op.split_whitespace().next().unwrap_or("?");
        out.stat(&format!("sys_op_{}", head), 1);
        if head != "tap" {
            out.stat(&format!("sys_{}_{}", head, res.split(':').next().unwrap_or("?")), 1);
        } else {
            out.stat("sys_datagrams", res.split_whitespace().next().and_then(|n| n.parse().ok()).unwrap_or(0));
        }
        out.op(op, res);
    }
}
