import RsMatterVerif.Lemmas.BtpSync
/-!
# The BTP handshake between two fresh ends

`Phase` is the invariant of the link from two fresh ends (`a` the initiator, `b` the responder) up
to and including the synchronised state `Sync`: request not yet sent / request travelling /
request accepted / response travelling (the responder may already send data behind it) /
established at both ends with the same segment size and window.
-/
namespace Btp

/-- the initiator's session after it has sent its Handshake Request -/
def initSent (ra : Bool) : Session := { Session.fresh true ra with handshakePending := false }

/-- the window announced in the Handshake Request -/
def reqWin (ga : Option Nat) : Nat := min (maxMessageSize / (announcedMtu ga - gattHeaderSize) / 2) 255

def reqBytes (ga : Option Nat) : List Nat :=
  handshakeHdr.encode ++ [4, 0, 0, 0, announcedMtu ga % 256, announcedMtu ga / 256 % 256, reqWin ga]

/-- the segment size the responder selects -/
def negMtu (ga gb : Option Nat) (rb : Bool) : Nat :=
  (Session.fresh false rb).selectMtu gb (announcedMtu ga) - gattHeaderSize

/-- the window the responder selects -/
def negWin (ga gb : Option Nat) (rb : Bool) : Nat :=
  min (reqWin ga) (min (maxMessageSize / negMtu ga gb rb / 2) 255)

def respBytes (M W : Nat) : List Nat := handshakeHdr.encode ++ [4, M % 256, M / 256 % 256, W]

theorem decode_hs (p : List Nat) : decodeHdr (handshakeHdr.encode ++ p) =
    .ok ({ hs := true, mgmt := true, fin := true, beg := true, opcode := 0x6c }, p) := by
  rfl

theorem prepTxHandshake_init (ra : Bool) (ga : Option Nat) (now : Nat) :
    (Session.fresh true ra).prepTxHandshake ga now = .ok (initSent ra, reqBytes ga) := by
  have hb := announcedMtu_bounds ga
  unfold Session.prepTxHandshake
  simp only [Session.fresh, if_true]
  rw [csub_ok (by simp; omega)]
  simp only
  unfold initialWindowSize
  have : ¬ (announcedMtu ga - gattHeaderSize = 0) := by simp; omega
  simp only [this, if_false]
  rfl

theorem negMtu_bounds (ga gb : Option Nat) (rb : Bool) : 20 ≤ negMtu ga gb rb ∧ negMtu ga gb rb ≤ 244 := by
  have := selectMtu_bounds (Session.fresh false rb) gb (announcedMtu ga)
  unfold negMtu; simp; omega

theorem reqWin_bounds (ga : Option Nat) : 6 ≤ reqWin ga ∧ reqWin ga ≤ 255 := by
  have hb := announcedMtu_bounds ga
  obtain ⟨w, hw, h1, h2⟩ := initialWindowSize_ok (mtu := announcedMtu ga - 3) (by omega)
  unfold initialWindowSize at hw
  have : ¬ (announcedMtu ga - 3 = 0) := by omega
  simp only [this, if_false] at hw
  have := Except.ok.inj hw
  unfold reqWin; simp only [gattHeaderSize_eq]
  rw [this]; exact ⟨h2 (by omega), h1⟩

theorem negPar (ga gb : Option Nat) (rb : Bool) : POk (negWin ga gb rb) (negMtu ga gb rb) := by
  obtain ⟨m1, m2⟩ := negMtu_bounds ga gb rb
  obtain ⟨r1, r2⟩ := reqWin_bounds ga
  obtain ⟨w, hw, h1, h2⟩ := initialWindowSize_ok (mtu := negMtu ga gb rb) m1
  unfold initialWindowSize at hw
  have : ¬ (negMtu ga gb rb = 0) := by omega
  simp only [this, if_false] at hw
  have hw' := Except.ok.inj hw
  have h6 := h2 m2
  have hle : negWin ga gb rb ≤ maxMessageSize / negMtu ga gb rb / 2 := by
    unfold negWin; omega
  have hmul : negWin ga gb rb * 2 * negMtu ga gb rb ≤ 3166 := by
    have h1 : negWin ga gb rb * 2 ≤ maxMessageSize / negMtu ga gb rb := by omega
    have := (Nat.le_div_iff_mul_le (by omega : 0 < negMtu ga gb rb)).mp h1
    simpa using this
  refine ⟨?_, ?_, m1, m2, ?_⟩
  · unfold negWin; omega
  · unfold negWin; omega
  · have e : negWin ga gb rb * 2 * negMtu ga gb rb = 2 * (negWin ga gb rb * negMtu ga gb rb) := by
      rw [Nat.mul_comm (negWin ga gb rb) 2, Nat.mul_assoc]
    omega


theorem le16 (x : Nat) (h : x < 65536) : x % 256 + 256 * (x / 256 % 256) = x := by omega

theorem processRx_req (rb : Bool) (ga gb : Option Nat) (now : Nat) :
    (Session.fresh false rb).processRx gb (reqBytes ga) now =
      .ok ((Session.fresh false rb).setup 4 (negMtu ga gb rb) (negWin ga gb rb) 0) := by
  have hb := announcedMtu_bounds ga
  obtain ⟨m1, m2⟩ := negMtu_bounds ga gb rb
  have hp := negPar ga gb rb
  unfold Session.processRx reqBytes
  rw [decode_hs]
  simp only
  unfold Session.processRxSeg
  simp only [if_true, Session.fresh, Bool.false_eq_true, if_false]
  unfold Session.processRxHandshakeReq
  have hi : checkHandshakeIntegrity { hs := true, mgmt := true, fin := true, beg := true, opcode := 0x6c } = true := by
    decide
  simp only [hi, Bool.not_true, Bool.false_eq_true, if_false]
  have hd : decodeReq [4, 0, 0, 0, announcedMtu ga % 256, announcedMtu ga / 256 % 256, reqWin ga] =
      .ok { versions := 4, mtu := announcedMtu ga, windowSize := reqWin ga } := by
    simp only [decodeReq]
    rw [le16 _ (by omega)]
  rw [hd]
  simp only
  have hv : reqVersion 4 = 4 := by decide
  rw [hv]
  have hsel : ({ initiator := false, handshakePending := false, relaxed := rb } : Session).selectMtu gb (announcedMtu ga) - gattHeaderSize = negMtu ga gb rb := rfl
  rw [csub_ok (by
    have := selectMtu_bounds ({ initiator := false, handshakePending := false, relaxed := rb } : Session) gb (announcedMtu ga)
    simp; omega)]
  simp only
  rw [hsel]
  unfold initialWindowSize
  have : ¬ (negMtu ga gb rb = 0) := by omega
  simp only [this, if_false]
  have hw : min (reqWin ga) (min (maxMessageSize / negMtu ga gb rb / 2) 255) = negWin ga gb rb := rfl
  rw [hw]
  have : ¬ (negWin ga gb rb = 0) := by have := hp.w1; omega
  simp only [this, if_false]
  rfl

theorem prepTxHandshake_resp (rb : Bool) (gb : Option Nat) (M W now : Nat) (hw : 1 ≤ W) :
    ((Session.fresh false rb).setup 4 M W 0).prepTxHandshake gb now =
      .ok ({ (Session.fresh false rb).setup 4 M W 0 with
              send := { windowSize := W, level := W - 1, lastSent := 0, sentAt := some now },
              handshakePending := false }, respBytes M W) := by
  unfold Session.prepTxHandshake
  simp only [Session.setup, Session.fresh, Bool.not_false, if_true, Bool.false_eq_true, if_false]
  unfold SendWindow.postSend
  rw [csub_ok hw]
  simp only [respBytes]

theorem processRx_resp (ra : Bool) (g : Option Nat) (M W now : Nat) (hp : POk W M) :
    (initSent ra).processRx g (respBytes M W) now = .ok ((initSent ra).setup 4 M W now) := by
  unfold Session.processRx respBytes
  rw [decode_hs]
  simp only
  unfold Session.processRxSeg
  simp only [if_true, initSent, Session.fresh]
  unfold Session.processRxHandshakeResp
  have hi : checkHandshakeIntegrity { hs := true, mgmt := true, fin := true, beg := true, opcode := 0x6c } = true := by
    decide
  simp only [hi, Bool.not_true, Bool.false_eq_true, if_false]
  have hd : decodeResp [4, M % 256, M / 256 % 256, W] = .ok { version := 4, mtu := M, windowSize := W } := by
    simp only [decodeResp]
    rw [le16 _ (by have := hp.m244; omega)]
  rw [hd]
  simp only
  have : (decide (M < minMtu - gattHeaderSize) || decide (M > maxMtu - gattHeaderSize) || decide (W = 0)) = false := by
    have := hp.m20; have := hp.m244; have := hp.w1
    simp only [minMtu_eq, maxMtu_eq, gattHeaderSize_eq, Bool.or_eq_false_iff, decide_eq_false_iff_not]
    refine ⟨⟨decide_eq_false (by omega), decide_eq_false (by omega)⟩, by omega⟩
  simp only [this, Bool.false_eq_true, if_false]


/-! ## Operations that change nothing the phases talk about -/

/-- an end that has nothing to say -/
structure Quiet (s : Session) : Prop where
  pend : s.handshakePending = false
  est : s.established = false
  ack : s.recv.ackLevel = 0

theorem quiet_outgoing {e : End} (hq : Quiet e.s) (now : Nat) : e.processOutgoing now = .ok (e, []) := by
  unfold End.processOutgoing
  rw [prepTxHandshake_idle hq.pend]
  simp only [List.length_nil, Nat.lt_irrefl, if_false]
  have he1 : ({ e with s := e.s } : End) = e := rfl
  rw [he1]
  unfold End.dataStep
  simp only [hq.est, Bool.and_false, Bool.false_eq_true, if_false, List.length_nil, Nat.lt_irrefl]
  unfold End.ackStep Session.isAckDue RecvWindow.pendingAck
  simp [hq.ack]

theorem recv_idle {e : End} (h : e.s.recv.msgCt = 0) (cap : Nat) : e.recv cap = .ok (e, none) := by
  unfold End.recv Session.messageAvailable
  simp [h]

/-- the part of the link state the handshake phases talk about is unchanged -/
structure CoreEq (l l' : LMon) : Prop where
  sa : l'.a.e.s = l.a.e.s
  sb : l'.b.e.s = l.b.e.s
  ga : l'.a.e.gattMtu = l.a.e.gattMtu
  gb : l'.b.e.gattMtu = l.b.e.gattMtu
  qab : l'.qab = l.qab
  qba : l'.qba = l.qba
  rsA : l'.a.rs = l.a.rs
  rsB : l'.b.rs = l.b.rs
  fA : l'.a.fetched = l.a.fetched
  fB : l'.b.fetched = l.b.fetched
  txA : l'.a.tx = l.a.tx
  txB : l'.b.tx = l.b.tx
  repA : TxRep l.a.e l.a.tx l.a.submitted → TxRep l'.a.e l'.a.tx l'.a.submitted
  repB : TxRep l.b.e l.b.tx l.b.submitted → TxRep l'.b.e l'.b.tx l'.b.submitted

theorem CoreEq.refl (l : LMon) : CoreEq l l :=
  ⟨rfl, rfl, rfl, rfl, rfl, rfl, rfl, rfl, rfl, rfl, rfl, rfl, id, id⟩

def IdleOp (l : LMon) : Op → Prop
  | .send _ _ => True
  | .tick _ => True
  | .fetch x _ => (l.get x).e.s.recv.msgCt = 0
  | .poll x => Quiet (l.get x).e.s
  | .deliver x => l.inq x = []

theorem endSend_gatt {e e' : End} {m : List Nat} {ok : Bool} (h : e.send m = .ok (e', ok)) :
    e'.gattMtu = e.gattMtu := by
  unfold End.send at h
  split at h
  · cases h
  · split at h
    · have hh := Prod.mk.inj (Except.ok.inj h); rw [← hh.1]
    · have hh := Prod.mk.inj (Except.ok.inj h); rw [← hh.1]

theorem idle_step {l : LMon} (op : Op) (h : IdleOp l op) :
    (∃ l' o, l.step op = .ok (l', o) ∧ CoreEq l l') ∨
    (l.step op = .error .invalidArgument ∧ ∃ x m, op = .send x m) := by
  cases op with
  | send x m =>
    cases hs : (l.get x).e.send m with
    | error f =>
      right
      have hf : f = .invalidArgument := by
        unfold End.send at hs
        split at hs
        · cases hs; rfl
        · split at hs <;> cases hs
      subst hf
      exact ⟨by simp only [LMon.step, Mon.step, hs], x, m, rfl⟩
    | ok r =>
      left
      obtain ⟨e', ok⟩ := r
      have hfs := endSend_frame hs
      have hg := endSend_gatt hs
      have hstep : l.step (.send x m) = .ok (l.set x { (l.get x) with e := e', submitted := if ok then (l.get x).submitted ++ [m] else (l.get x).submitted }, .queued ok) := by
        simp only [LMon.step, Mon.step, hs]
      refine ⟨_, _, hstep, ?_⟩
      cases x
      · exact ⟨hfs, rfl, hg, rfl, rfl, rfl, rfl, rfl, rfl, rfl, rfl, rfl, fun ht => endSend_tx ht hs, id⟩
      · exact ⟨rfl, hfs, rfl, hg, rfl, rfl, rfl, rfl, rfl, rfl, rfl, rfl, id, fun ht => endSend_tx ht hs⟩
  | tick n =>
    left
    exact ⟨{ l with now := l.now + n }, .none, rfl, ⟨rfl, rfl, rfl, rfl, rfl, rfl, rfl, rfl, rfl, rfl, rfl, rfl, id, id⟩⟩
  | fetch x cap =>
    left
    have hr := recv_idle (e := (l.get x).e) h cap
    have hstep : l.step (.fetch x cap) = .ok (l.set x { (l.get x) with e := (l.get x).e }, .none) := by
      simp only [LMon.step, Mon.step, hr]
    refine ⟨_, _, hstep, ?_⟩
    cases x <;> exact ⟨rfl, rfl, rfl, rfl, rfl, rfl, rfl, rfl, rfl, rfl, rfl, rfl, id, id⟩
  | poll x =>
    left
    have hr := quiet_outgoing (e := (l.get x).e) h l.now
    have hstep : l.step (.poll x) = .ok (l.set x { (l.get x) with e := (l.get x).e }, .none) := by
      simp only [LMon.step, Mon.step, hr, List.length_nil, Nat.lt_irrefl, if_false]
    refine ⟨_, _, hstep, ?_⟩
    cases x <;> exact ⟨rfl, rfl, rfl, rfl, rfl, rfl, rfl, rfl, rfl, rfl, rfl, rfl, id, id⟩
  | deliver x =>
    left
    have hq : l.inq x = [] := h
    exact ⟨l, .none, by simp only [LMon.step, hq], CoreEq.refl l⟩

/-! ## The phases -/

/-- what holds in every phase before both ends are established -/
structure Pre (ga gb : Option Nat) (l : LMon) : Prop where
  gA : l.a.e.gattMtu = ga
  gB : l.b.e.gattMtu = gb
  txA : TxRep l.a.e l.a.tx l.a.submitted
  txB : TxRep l.b.e l.b.tx l.b.submitted
  aTx : l.a.tx = {}
  rsA : l.a.rs = {}
  rsB : l.b.rs = {}
  fA : l.a.fetched = []
  fB : l.b.fetched = []

theorem Pre.core {ga gb : Option Nat} {l l' : LMon} (h : Pre ga gb l) (c : CoreEq l l') : Pre ga gb l' :=
  ⟨c.ga.trans h.gA, c.gb.trans h.gB, c.repA h.txA, c.repB h.txB, c.txA.trans h.aTx, c.rsA.trans h.rsA,
    c.rsB.trans h.rsB, c.fA.trans h.fA, c.fB.trans h.fB⟩

/-- response travelling: the responder is established and may already send data behind its
response; both directions are accounted for against the state the initiator *will* have once it has
processed the response -/
structure Ph3 (ra : Bool) (ga gb : Option Nat) (W M : Nat) (dq : List (List Nat)) (l : LMon) : Prop where
  pre : Pre ga gb l
  sa : l.a.e.s = initSent ra
  qab : l.qab = []
  qba : l.qba = respBytes M W :: dq
  par : POk W M
  est : l.b.e.s.established = true
  pend : l.b.e.s.handshakePending = false
  w : l.b.e.s.windowSize = W
  m : l.b.e.s.mtu = M
  /-- against the receive window the initiator will have when it accepts the response at instant `t`:
  the response counts as its received, unacknowledged segment number 0 -/
  d1 : ∀ t, DirOk W M l.b.e.s.send { level := W - 1, ackLevel := 1, ackSeq := 0, receivedAt := some t } {} dq []
  d2 : DirOk W M { windowSize := W, level := W } l.b.e.s.recv {} [] dq
  q : feedAll {} dq = l.b.tx

/-- **the invariant of the link from two fresh ends** -/
inductive Phase (ra rb : Bool) (ga gb : Option Nat) (l : LMon) : Prop
  | p0 (pre : Pre ga gb l) (sa : l.a.e.s = Session.fresh true ra) (sb : l.b.e.s = Session.fresh false rb)
      (qab : l.qab = []) (qba : l.qba = []) (bTx : l.b.tx = {})
  | p1 (pre : Pre ga gb l) (sa : l.a.e.s = initSent ra) (sb : l.b.e.s = Session.fresh false rb)
      (qab : l.qab = [reqBytes ga]) (qba : l.qba = []) (bTx : l.b.tx = {})
  | p2 (pre : Pre ga gb l) (sa : l.a.e.s = initSent ra)
      (sb : l.b.e.s = (Session.fresh false rb).setup 4 (negMtu ga gb rb) (negWin ga gb rb) 0)
      (qab : l.qab = []) (qba : l.qba = []) (bTx : l.b.tx = {})
  | p3 (dq : List (List Nat)) (h : Ph3 ra ga gb (negWin ga gb rb) (negMtu ga gb rb) dq l)
  | sync (h : Sync (negWin ga gb rb) (negMtu ga gb rb) l)

theorem quiet_fresh (rb : Bool) : Quiet (Session.fresh false rb) := ⟨rfl, rfl, rfl⟩
theorem quiet_initSent (ra : Bool) : Quiet (initSent ra) := ⟨rfl, rfl, rfl⟩

theorem feedSeg_hs (tx : Spec.Reasm) (p : List Nat) : feedSeg tx (handshakeHdr.encode ++ p) = tx := by
  unfold feedSeg; rw [decode_hs]; rfl

theorem ghostRx_hs (rs : Spec.Reasm) (n : Nat) (p : List Nat) : ghostRx rs n (handshakeHdr.encode ++ p) = ({}, 0) := by
  unfold ghostRx; rw [decode_hs]; rfl

theorem hsLen (p : List Nat) : (handshakeHdr.encode ++ p).length > 0 := by
  have : handshakeHdr.encode.length = 2 := by decide
  simp only [List.length_append]; omega

theorem Ph3.core {ra : Bool} {ga gb : Option Nat} {W M : Nat} {dq : List (List Nat)} {l l' : LMon}
    (h : Ph3 ra ga gb W M dq l) (c : CoreEq l l') : Ph3 ra ga gb W M dq l' := by
  refine ⟨h.pre.core c, c.sa.trans h.sa, c.qab.trans h.qab, c.qba.trans h.qba, h.par, ?_, ?_, ?_, ?_, ?_, ?_, ?_⟩
  · rw [c.sb]; exact h.est
  · rw [c.sb]; exact h.pend
  · rw [c.sb]; exact h.w
  · rw [c.sb]; exact h.m
  · rw [c.sb]; exact h.d1
  · rw [c.sb]; exact h.d2
  · rw [c.txB]; exact h.q

theorem afterTx_frame (s : Session) (now : Nat) :
    (s.afterTx now).established = s.established ∧ (s.afterTx now).windowSize = s.windowSize ∧
    (s.afterTx now).mtu = s.mtu ∧ (s.afterTx now).handshakePending = s.handshakePending :=
  ⟨rfl, rfl, rfl, rfl⟩

theorem d1_init {W M : Nat} (hp : POk W M) (t : Option Nat) (t' : Nat) :
    DirOk W M { windowSize := W, level := W - 1, lastSent := 0, sentAt := t }
      { level := W - 1, ackLevel := 1, ackSeq := 0, receivedAt := some t' } {} [] [] := by
  have := hp.w1
  constructor <;> (try simp only [List.length_nil, AckChain, DataChain, Tight, lastAck]) <;>
    first | trivial | omega | rfl | (intro _; rfl) | (intro h; cases h)

theorem d2_init {W M : Nat} (hp : POk W M) (rb : Bool) :
    DirOk W M { windowSize := W, level := W } ((Session.fresh false rb).setup 4 M W 0).recv {} [] [] := by
  have := hp.w1
  constructor <;>
    (try simp only [Session.setup, Session.fresh, Bool.false_eq_true, if_false, List.length_nil, AckChain, DataChain,
      Tight, lastAck]) <;>
    first | trivial | omega | rfl | (intro h; cases h)

/-- how far the handshake is: 4 = request not sent, 3 = request travelling, 2 = request accepted,
1 = response travelling, 0 = both ends established -/
def hsRank (l : LMon) : Nat :=
  if l.a.e.s.established then 0
  else if l.b.e.s.established then (if l.b.e.s.handshakePending then 2 else 1)
  else if l.a.e.s.handshakePending then 4 else 3

/-- the operation that completes the current step of the handshake -/
def hsOp : Nat → Op
  | 4 => .poll .a
  | 3 => .deliver .b
  | 2 => .poll .b
  | _ => .deliver .a

/-- the handshake never goes back, and the operation it waits for advances it -/
def HsAdv (l l' : LMon) (op : Op) : Prop :=
  hsRank l' ≤ hsRank l ∧ (op = hsOp (hsRank l) → hsRank l ≠ 0 → hsRank l' < hsRank l)

theorem hsRank_core {l l' : LMon} (c : CoreEq l l') : hsRank l' = hsRank l := by
  unfold hsRank; rw [c.sa, c.sb]

theorem hsAdv_zero {l l' : LMon} (op : Op) (h : l'.a.e.s.established = true) : HsAdv l l' op := by
  have h0 : hsRank l' = 0 := by simp [hsRank, h]
  rw [HsAdv, h0]
  exact ⟨Nat.zero_le _, fun _ hne => Nat.pos_of_ne_zero hne⟩

theorem hsAdv_one {l l' : LMon} {op : Op} (hr : hsRank l = 1) (ha : l'.a.e.s.established = false)
    (hb : l'.b.e.s.established = true) (hp : l'.b.e.s.handshakePending = false) (hop : op ≠ .deliver .a) :
    HsAdv l l' op := by
  have h1 : hsRank l' = 1 := by simp [hsRank, ha, hb, hp]
  rw [HsAdv, h1, hr]
  exact ⟨Nat.le_refl _, fun h => absurd h hop⟩

/-- **the step theorem of the handshake**: from every state of the link reachable from two fresh
ends no scheduler operation fails (except `send` refusing an empty / over-long message), the
phase invariant is preserved, the handshake never goes back and the operation it waits for
(`hsOp`) advances it -/
theorem phase_step_adv {ra rb : Bool} {ga gb : Option Nat} {l : LMon} (hl : LInv l) (hp : Phase ra rb ga gb l)
    (op : Op) :
    (∃ l' o, l.step op = .ok (l', o) ∧ Phase ra rb ga gb l' ∧ HsAdv l l' op) ∨
    (l.step op = .error .invalidArgument ∧ ∃ x m, op = .send x m) := by
  -- an idle operation keeps the phase
  have idle : ∀ (_ : IdleOp l op) (_ : op ≠ hsOp (hsRank l)) (keep : ∀ l', CoreEq l l' → Phase ra rb ga gb l'),
      (∃ l' o, l.step op = .ok (l', o) ∧ Phase ra rb ga gb l' ∧ HsAdv l l' op) ∨
      (l.step op = .error .invalidArgument ∧ ∃ x m, op = .send x m) := by
    intro hi hns keep
    rcases idle_step op hi with ⟨l', o, h1, h2⟩ | h
    · exact .inl ⟨l', o, h1, keep l' h2, by rw [HsAdv, hsRank_core h2]; exact ⟨Nat.le_refl _, fun h => absurd h hns⟩⟩
    · exact .inr h
  cases hp with
  | p0 pre sa sb qab qba bTx =>
    by_cases hop : op = .poll .a
    · -- the initiator sends its request
      subst hop
      left
      have hout : l.a.e.processOutgoing l.now = .ok ({ l.a.e with s := initSent ra }, reqBytes ga) := by
        have h1 : l.a.e.s.prepTxHandshake l.a.e.gattMtu l.now = .ok (initSent ra, reqBytes ga) := by
          rw [sa, pre.gA, prepTxHandshake_init]
        unfold End.processOutgoing
        rw [h1]
        simp only [reqBytes, hsLen, if_true]
      have hlen : (reqBytes ga).length > 0 := hsLen _
      have hstep : l.step (.poll .a) = .ok ({ l with a := { l.a with e := { l.a.e with s := initSent ra } }, qab := l.qab ++ [reqBytes ga] }, .tx (reqBytes ga)) := by
        simp only [LMon.step, LMon.get, Mon.step, hout, hlen, if_true]
        simp only [reqBytes, feedSeg_hs]
        rfl
      refine ⟨_, _, hstep, .p1 ?_ rfl sb (by simp only [qab]; rfl) qba bTx, ?_⟩
      · exact ⟨pre.gA, pre.gB, txRep_congr (e := l.a.e) rfl rfl pre.txA, pre.txB, pre.aTx, pre.rsA, pre.rsB, pre.fA, pre.fB⟩
      · simp [HsAdv, hsRank, sa, sb, Session.fresh, initSent]
    · apply idle
      · cases op with
        | send x m => trivial
        | tick n => trivial
        | fetch x cap => cases x <;> simp only [IdleOp, LMon.get, sa, sb] <;> rfl
        | poll x =>
          cases x
          · exact absurd rfl hop
          · simp only [IdleOp, LMon.get, sb]; exact quiet_fresh rb
        | deliver x => cases x <;> simp only [IdleOp, LMon.inq, qab, qba]
      · rw [show hsRank l = 4 by simp [hsRank, sa, sb, Session.fresh]]; exact hop
      · intro l' c
        exact .p0 (pre.core c) (c.sa.trans sa) (c.sb.trans sb) (c.qab.trans qab) (c.qba.trans qba) (c.txB.trans bTx)
  | p1 pre sa sb qab qba bTx =>
    by_cases hop : op = .deliver .b
    · -- the responder accepts the request
      subst hop
      left
      have hin : l.b.e.processIncoming (reqBytes ga) l.now = .ok { l.b.e with s := (Session.fresh false rb).setup 4 (negMtu ga gb rb) (negWin ga gb rb) 0 } := by
        have h1 : l.b.e.s.processRx l.b.e.gattMtu (reqBytes ga) l.now = .ok ((Session.fresh false rb).setup 4 (negMtu ga gb rb) (negWin ga gb rb) 0) := by
          rw [sb, pre.gB, processRx_req]
        unfold End.processIncoming
        rw [h1]
      have hstep : l.step (.deliver .b) = .ok ({ l with b := { l.b with e := { l.b.e with s := (Session.fresh false rb).setup 4 (negMtu ga gb rb) (negWin ga gb rb) 0 }, rs := {}, fetched := l.b.fetched.take 0 }, qab := [] }, .delivered) := by
        simp only [LMon.step, LMon.inq, qab, LMon.get, Mon.step, hin]
        simp only [reqBytes, ghostRx_hs]
        rfl
      refine ⟨_, _, hstep, .p2 ?_ sa rfl rfl qba bTx, ?_⟩
      · exact ⟨pre.gA, pre.gB, pre.txA, txRep_congr (e := l.b.e) rfl rfl pre.txB, pre.aTx, pre.rsA, rfl, pre.fA, rfl⟩
      · simp [HsAdv, hsRank, sa, sb, Session.fresh, initSent, Session.setup]
    · apply idle
      · cases op with
        | send x m => trivial
        | tick n => trivial
        | fetch x cap => cases x <;> simp only [IdleOp, LMon.get, sa, sb] <;> rfl
        | poll x =>
          cases x
          · simp only [IdleOp, LMon.get, sa]; exact quiet_initSent ra
          · simp only [IdleOp, LMon.get, sb]; exact quiet_fresh rb
        | deliver x =>
          cases x
          · simp only [IdleOp, LMon.inq, qba]
          · exact absurd rfl hop
      · rw [show hsRank l = 3 by simp [hsRank, sa, sb, Session.fresh, initSent]]; exact hop
      · intro l' c
        exact .p1 (pre.core c) (c.sa.trans sa) (c.sb.trans sb) (c.qab.trans qab) (c.qba.trans qba) (c.txB.trans bTx)
  | p2 pre sa sb qab qba bTx =>
    have hpar := negPar ga gb rb
    by_cases hop : op = .poll .b
    · -- the responder sends its response
      subst hop
      left
      have hout : l.b.e.processOutgoing l.now = .ok ({ l.b.e with s := { l.b.e.s with send := { windowSize := negWin ga gb rb, level := negWin ga gb rb - 1, lastSent := 0, sentAt := some l.now }, handshakePending := false } }, respBytes (negMtu ga gb rb) (negWin ga gb rb)) := by
        have h1 := prepTxHandshake_resp rb l.b.e.gattMtu (negMtu ga gb rb) (negWin ga gb rb) l.now hpar.w1
        rw [← sb] at h1
        unfold End.processOutgoing
        rw [h1]
        simp only [respBytes, hsLen, if_true]
      have hlen : (respBytes (negMtu ga gb rb) (negWin ga gb rb)).length > 0 := hsLen _
      have hstep : l.step (.poll .b) = .ok ({ l with b := { l.b with e := { l.b.e with s := { l.b.e.s with send := { windowSize := negWin ga gb rb, level := negWin ga gb rb - 1, lastSent := 0, sentAt := some l.now }, handshakePending := false } } }, qba := l.qba ++ [respBytes (negMtu ga gb rb) (negWin ga gb rb)] }, .tx (respBytes (negMtu ga gb rb) (negWin ga gb rb))) := by
        simp only [LMon.step, LMon.get, Mon.step, hout, hlen, if_true]
        simp only [respBytes, feedSeg_hs]
        rfl
      refine ⟨_, _, hstep, .p3 [] ?_, by simp [HsAdv, hsRank, sa, sb, Session.fresh, initSent, Session.setup]⟩
      refine ⟨⟨pre.gA, pre.gB, pre.txA, txRep_congr (e := l.b.e) rfl rfl pre.txB, pre.aTx, pre.rsA, pre.rsB, pre.fA, pre.fB⟩,
        sa, qab, by simp only [qba]; rfl, hpar, ?_, rfl, ?_, ?_, fun t => d1_init hpar _ t, ?_, by simp only [bTx]; rfl⟩
      · show l.b.e.s.established = true
        rw [sb]; rfl
      · show l.b.e.s.windowSize = _
        rw [sb]; rfl
      · show l.b.e.s.mtu = _
        rw [sb]; rfl
      · show DirOk _ _ _ l.b.e.s.recv _ _ _
        rw [sb]; exact d2_init hpar rb
    · apply idle
      · cases op with
        | send x m => trivial
        | tick n => trivial
        | fetch x cap => cases x <;> simp only [IdleOp, LMon.get, sa, sb] <;> rfl
        | poll x =>
          cases x
          · simp only [IdleOp, LMon.get, sa]; exact quiet_initSent ra
          · exact absurd rfl hop
        | deliver x => cases x <;> simp only [IdleOp, LMon.inq, qab, qba]
      · rw [show hsRank l = 2 by simp [hsRank, sa, sb, Session.fresh, initSent, Session.setup]]; exact hop
      · intro l' c
        exact .p2 (pre.core c) (c.sa.trans sa) (c.sb.trans sb) (c.qab.trans qab) (c.qba.trans qba) (c.txB.trans bTx)
  | p3 dq h =>
    obtain ⟨hmb, _⟩ := hl.get .b
    have hal0 : l.b.e.s.recv.ackLevel = 0 := by
      have := ackChain_le h.d2.acks
      simp only [List.length_nil] at this; omega
    have hmc0 : l.b.e.s.recv.msgCt = 0 := by have := h.d2.mc; omega
    have hr1 : hsRank l = 1 := by simp [hsRank, h.sa, h.est, h.pend, initSent, Session.fresh]
    have hsa0 : l.a.e.s.established = false := by rw [h.sa]; rfl
    by_cases hop1 : op = .poll .b
    · -- the responder's pump: nothing, or a data segment behind the response
      subst hop1
      left
      rcases endOutgoing_sync hmb.e h.pend h.est h.pre.txB l.now with ⟨h0, _⟩ | ⟨hd, p, e', h1, hlv, hok, hga, he', hgatt, _⟩
      all_goals simp only [LMon.get] at *
      · have hstep : l.step (.poll .b) = .ok (l.set .b { (l.get .b) with e := (l.get .b).e }, .none) := by
          simp only [LMon.step, Mon.step, LMon.get, h0, List.length_nil, Nat.lt_irrefl, if_false]
        exact ⟨_, _, hstep, .p3 dq (h.core ⟨rfl, rfl, rfl, rfl, rfl, rfl, rfl, rfl, rfl, rfl, rfl, rfl, id, id⟩),
          hsAdv_one hr1 hsa0 h.est h.pend (by intro h; cases h)⟩
      · rw [h.m] at hok
        have hlen := (segLen_le hok h.par.m244).2
        have hstep : l.step (.poll .b) = .ok ({ l with b := { l.b with e := e', tx := feedSeg l.b.tx (hd.encode ++ p) }, qba := l.qba ++ [hd.encode ++ p] }, .tx (hd.encode ++ p)) := by
          simp only [LMon.step, Mon.step, LMon.get, h1, hlen, if_true]
          rfl
        have hdec := decode_encode hd hok.canon p
        obtain ⟨ht', _, hp'⟩ := endOutgoing_tx hmb.e h.pend h.pre.txB h1
        simp only [hlen, if_true] at ht'
        obtain ⟨f1, f2, f3, f4⟩ := afterTx_frame l.b.e.s l.now
        refine ⟨_, _, hstep, .p3 (dq ++ [hd.encode ++ p]) ?_,
          hsAdv_one hr1 hsa0 (by show e'.s.established = true; rw [he', f1]; exact h.est) hp' (by intro h; cases h)⟩
        refine ⟨⟨h.pre.gA, ?_, h.pre.txA, ht', h.pre.aTx, h.pre.rsA, h.pre.rsB, h.pre.fA, h.pre.fB⟩,
          h.sa, h.qab, by simp only [h.qba]; rfl, h.par, ?_, hp', ?_, ?_, ?_, ?_, ?_⟩
        · show e'.gattMtu = gb
          rw [hgatt]; exact h.pre.gB
        · show e'.s.established = true; rw [he', f1]; exact h.est
        · show e'.s.windowSize = _; rw [he', f2]; exact h.w
        · show e'.s.mtu = _; rw [he', f3]; exact h.m
        · intro t
          show DirOk _ _ e'.s.send _ _ _ _
          rw [he']
          refine dirOk_emit (h.d1 t) hlv hdec ?_ (some l.now)
          rw [h.q]; exact hok
        · show DirOk _ _ _ e'.s.recv _ _ _
          rw [he']
          refine dirOk_emitAck h.d2 ?_ ?_
          · rw [ackOf_encode hok.canon p]; exact hga
          · intro hmc; exact ring_len_idle hmb.ring hmc (by rw [h.pre.rsB]; intro h0; simp at h0)
        · show feedAll {} (dq ++ [hd.encode ++ p]) = feedSeg l.b.tx (hd.encode ++ p)
          rw [feedAll_snoc, h.q]
    · by_cases hop2 : op = .deliver .a
      · -- the initiator accepts the response: both ends are established
        subst hop2
        left
        have hW := h.par
        have hin : l.a.e.processIncoming (respBytes (negMtu ga gb rb) (negWin ga gb rb)) l.now = .ok { l.a.e with s := (initSent ra).setup 4 (negMtu ga gb rb) (negWin ga gb rb) l.now } := by
          unfold End.processIncoming
          rw [h.sa, processRx_resp ra _ _ _ _ hW]
        have hstep : l.step (.deliver .a) = .ok ({ l with a := { l.a with e := { l.a.e with s := (initSent ra).setup 4 (negMtu ga gb rb) (negWin ga gb rb) l.now }, rs := {}, fetched := l.a.fetched.take 0 }, qba := dq }, .delivered) := by
          simp only [LMon.step, LMon.inq, h.qba, LMon.get, Mon.step, hin]
          simp only [respBytes, ghostRx_hs]
          rfl
        refine ⟨_, _, hstep, .sync ?_, hsAdv_zero _ rfl⟩
        refine sync_mk .a ?_ hW ⟨rfl, rfl, rfl⟩ ⟨h.est, h.w, h.m⟩ ?_ ?_ ?_
        · intro x
          cases x
          · refine ⟨rfl, txRep_congr (e := l.a.e) rfl rfl h.pre.txA, ?_, ?_⟩
            · intro seg hs
              simp only [Side.other, LMon.inq, h.qab] at hs
              exact absurd hs List.not_mem_nil
            · show feedAll l.b.rs l.qab = l.a.tx
              rw [h.qab, h.pre.rsB, h.pre.aTx]; rfl
          · refine ⟨h.pend, h.pre.txB, ?_, ?_⟩
            · exact dataChain_noHs (h.d1 0).chain
            · show feedAll {} dq = l.b.tx
              exact h.q
        · show DirOk _ _ ((initSent ra).setup 4 _ _ _).send l.b.e.s.recv l.b.rs l.qab dq
          rw [h.qab, h.pre.rsB]; exact h.d2
        · show DirOk _ _ l.b.e.s.send ((initSent ra).setup 4 _ _ _).recv {} dq l.qab
          rw [h.qab]; exact h.d1 l.now
        · -- the initiator's send window is completely open
          rintro ⟨h0, _⟩
          have : ((initSent ra).setup 4 (negMtu ga gb rb) (negWin ga gb rb) l.now).send.level = negWin ga gb rb := rfl
          have h0' : ((initSent ra).setup 4 (negMtu ga gb rb) (negWin ga gb rb) l.now).send.level = 0 := h0
          have := hW.w1
          omega
      · apply idle
        · cases op with
          | send x m => trivial
          | tick n => trivial
          | fetch x cap =>
            cases x
            · simp only [IdleOp, LMon.get, h.sa]; rfl
            · exact hmc0
          | poll x =>
            cases x
            · simp only [IdleOp, LMon.get, h.sa]; exact quiet_initSent ra
            · exact absurd rfl hop1
          | deliver x =>
            cases x
            · exact absurd rfl hop2
            · simp only [IdleOp, LMon.inq, h.qab]
        · rw [hr1]; exact hop2
        · intro l' c
          exact .p3 dq (h.core c)
  | sync h =>
    rcases sync_step hl h op with ⟨l', o, h1, h2⟩ | h'
    · exact .inl ⟨l', o, h1, .sync h2, hsAdv_zero _ (h2.ses .a).1⟩
    · exact .inr h'

/-- **the step theorem of the handshake**: from every state of the link reachable from two fresh
ends no scheduler operation fails (except `send` refusing an empty / over-long message) and the
phase invariant is preserved -/
theorem phase_step {ra rb : Bool} {ga gb : Option Nat} {l : LMon} (hl : LInv l) (hp : Phase ra rb ga gb l)
    (op : Op) :
    (∃ l' o, l.step op = .ok (l', o) ∧ Phase ra rb ga gb l') ∨
    (l.step op = .error .invalidArgument ∧ ∃ x m, op = .send x m) := by
  rcases phase_step_adv hl hp op with ⟨l', o, h1, h2, _⟩ | h
  · exact .inl ⟨l', o, h1, h2⟩
  · exact .inr h

end Btp
