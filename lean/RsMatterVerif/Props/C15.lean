import RsMatterVerif.Lemmas.Transport
import RsMatterVerif.Lemmas.TxWire
import RsMatterVerif.Lemmas.IdHist
import RsMatterVerif.Model.TxGuard
/-!
# C15 — a nonce is never used for two different messages

Theorems over `Model/Transport.lean`, `Model/TxWire.lean`, `Model/TxGuard.lean`:
1. send counters (whole histories of `Session::pre_send` / `post_recv` / slot operations, `runS`):
   `new_counter_above_all_earlier`, and with the `u32` bound as an explicit hypothesis
   (`start + number of operations ≤ 2^32`) `new_counter_above_all_earlier_u32`;
   `counter_wraps_without_bound` (the hypothesis is needed: no roll-over handling in the code);
   `same_counter_is_retransmission` concludes only the FLAG `ctr.is_some()` of `Session::pre_send`;
1b. **one counter, one message** (`same_counter_same_message`): over the four call sites of
   `Session::pre_send` (`Model/TxWire.lean`: `TxMessage::complete` with the retransmission guard,
   the duplicate's acknowledgement WITHOUT exchange slot, `CloseSession`, the owed acknowledgement of a
   dropped exchange without pending retransmission), for every history that respects the exchange
   discipline at every receive and stays below `2^32` messages: two messages handed to the transport
   with the same counter have the same exchange id, initiator flag, reliable flag, acknowledgement
   field and content digest. `dupAck_through_exchange_breaks`: the statement is false for the call site
   of the seeded defect (the acknowledgement written through the exchange's slot);
2. one exchange's reliability layer: `retransmissions_identical`,
   `original_and_retransmissions_identical` (the first transmission is part of the trace),
   `ack_changes_without_discipline`, `retransmission_reuses_counter` (one step);
3. the allocators, one call: `nextSessId_fresh`, `nextExchId_fresh` (+ `_range`), and with the
   non-termination of the Rust loops explicit: `allocators_terminate` (within the capacities
   `MAX_SESSIONS` / `MAX_EXCHANGES` the loops terminate and the model's total `allocLoop` computes their
   answer; the `length < 65535` hypotheses follow from `Consts`), `nextExchIdD_fresh` (including the
   lazy seeding from `next_exch_id = 0`);
4. (id, role) of the live exchanges of a session, one step: `exchUniq_postRecv`, `exchUniq_addInit`,
   `exchUniq_removeExch`, `initiate_keeps_uniq`;
5. **along every history**: `sessIds_unique_always` (add / `get_next_sess_id` / `update` installing a
   handed-out id / abandon / complete / remove / eviction, under `staleFree`: no handed-out id stays
   un-installed for 65535 further candidates — `stale_id_is_handed_out_again` shows the hypothesis is
   needed), `exchIds_unique_always` (initiate / receive / drop / accept / send / freed slot / session
   added / removed, from any table within capacity, the never-used one included);
6. payloads (`Model/TxGuard.lean`, one message's send loop): `guard_one_payload_per_counter`,
   `guard_idempotent_never_refused`, `guard_refuses_first_difference`.
-/
namespace C15
open Transport

/-! ## 1. Send counters -/

/-- operations on one session, as the transport performs them -/
inductive SOp
  /-- `Session::pre_send` -/
  | tx (idx : Option Nat) (rel : Bool) (hdrAck sai : Option Nat)
  /-- `Session::post_recv` -/
  | rx (h : RxHdr) (now : Nat)
  /-- `add_exch(id, Initiator)` -/
  | open_ (id : Nat)
  /-- `remove_exch(i)` (exchange dropped by its owner) -/
  | close (i : Nat)
  /-- the closer frees a slot -/
  | free (i : Nat)

def stepS (s : Sess) : SOp → Sess × Option TxOut
  | .tx idx rel ha sai =>
    match s.preSend idx rel ha sai with
    | (s', .ok o) => (s', some o)
    | (s', .error _) => (s', none)
  | .rx h now => ((s.postRecv h now).1, none)
  | .open_ id => (match s.addExch id .io with
    | some (s', _) => s'
    | none => s, none)
  | .close i => ((s.removeExch i).1, none)
  | .free i => ({ s with exchs := s.exchs.set i none }, none)

/-- run a history, collecting what was put on the wire (in order) -/
def runS : Sess → List SOp → Sess × List TxOut
  | s, [] => (s, [])
  | s, op :: ops =>
    let r := stepS s op
    let rest := runS r.1 ops
    (rest.1, (match r.2 with
      | some o => [o]
      | none => []) ++ rest.2)

/-- a fresh session satisfies the invariant: no exchange, no pending retransmission -/
theorem slotsBelow_fresh (uid ctr : Nat) : SlotsBelow ({ uid := uid, ctr := ctr } : Sess) ctr := by
  intro j e r hs _
  simp [Sess.slot] at hs

theorem stepS_facts (s : Sess) (op : SOp) (hinv : SlotsBelow s s.ctr) :
    SlotsBelow (stepS s op).1 (stepS s op).1.ctr ∧ s.ctr ≤ (stepS s op).1.ctr ∧
    (∀ o, (stepS s op).2 = some o → o.ctr < (stepS s op).1.ctr ∧ (o.retransmission = false → o.ctr = s.ctr)) := by
  cases op with
  | tx idx rel ha sai =>
    have hf := preSend_facts s idx rel ha sai hinv
    simp only at hf
    simp only [stepS]
    generalize hP : s.preSend idx rel ha sai = P at hf
    obtain ⟨s', res⟩ := P
    cases res with
    | error e => exact ⟨hf.1, hf.2.1, fun o ho => by simp at ho⟩
    | ok o =>
      refine ⟨hf.1, hf.2.1, fun o' ho' => ?_⟩
      simp only [Option.some.injEq] at ho'
      subst ho'
      have := hf.2.2 o rfl
      exact ⟨this.1, fun h => (this.2.1 h).1⟩
  | rx h now =>
    have hf := postRecv_facts s h now
    simp only [stepS]
    refine ⟨?_, by omega, fun o ho => by simp at ho⟩
    rw [hf.2]
    exact slotsBelow_of_rtSub hf.1 hinv
  | open_ id =>
    simp only [stepS]
    cases ha : s.addExch id .io with
    | none => exact ⟨hinv, Nat.le_refl _, fun o ho => by simp at ho⟩
    | some p =>
      obtain ⟨s', i⟩ := p
      have hc := (addExch_slot s s' id .io i ha).2.1
      refine ⟨?_, by simp only; omega, fun o ho => by simp at ho⟩
      simp only [hc]
      exact slotsBelow_of_rtSub (rtSub_addExch s s' id .io i ha) hinv
  | close i =>
    have hf := removeExch_facts s i
    simp only [stepS]
    refine ⟨?_, by omega, fun o ho => by simp at ho⟩
    rw [hf.2]
    exact slotsBelow_of_rtSub hf.1 hinv
  | free i =>
    simp only [stepS]
    exact ⟨slotsBelow_of_rtSub (free_facts s i) hinv, Nat.le_refl _, fun o ho => by simp at ho⟩

/-- the relation the property states between an earlier and a later wire message of a session -/
def LaterNewIsGreater (a b : TxOut) : Prop := b.retransmission = false → a.ctr < b.ctr

theorem runS_facts (ops : List SOp) : ∀ (s : Sess), SlotsBelow s s.ctr →
    s.ctr ≤ (runS s ops).1.ctr ∧
    (∀ o ∈ (runS s ops).2, o.ctr < (runS s ops).1.ctr ∧ (o.retransmission = false → s.ctr ≤ o.ctr)) ∧
    List.Pairwise LaterNewIsGreater (runS s ops).2 := by
  induction ops with
  | nil => intro s _; simp [runS]
  | cons op ops ih =>
    intro s hinv
    have hst := stepS_facts s op hinv
    have hrest := ih (stepS s op).1 hst.1
    simp only [runS]
    refine ⟨by omega, ?_, ?_⟩
    · intro o ho
      rcases List.mem_append.1 ho with h1 | h2
      · cases hr : (stepS s op).2 with
        | none => simp [hr] at h1
        | some o1 =>
          simp only [hr, List.mem_singleton] at h1
          subst h1
          have := hst.2.2 o hr
          exact ⟨by omega, fun h => by have := this.2 h; omega⟩
      · have := hrest.2.1 o h2
        exact ⟨this.1, fun h => by have := this.2 h; omega⟩
    · rw [List.pairwise_append]
      refine ⟨?_, hrest.2.2, ?_⟩
      · cases (stepS s op).2 <;> simp
      · intro a ha b hb hnew
        cases hr : (stepS s op).2 with
        | none => simp [hr] at ha
        | some o1 =>
          simp only [hr, List.mem_singleton] at ha
          subst ha
          have h1 := (hst.2.2 a hr).1
          have h2 := (hrest.2.1 b hb).2 hnew
          omega

/-- **Counters strictly increase**: on every history of a session (starting from any state in which
the pending retransmissions lie below the send counter — e.g. a fresh session), a message that is
not a retransmission carries a counter strictly greater than every earlier message of the session. -/
theorem new_counter_above_all_earlier (s : Sess) (hinv : SlotsBelow s s.ctr) (ops : List SOp) :
    List.Pairwise (fun a b => b.retransmission = false → a.ctr < b.ctr) (runS s ops).2 :=
  (runS_facts ops s hinv).2.2

/-- Two outputs of `Session::pre_send` with the same counter ⇒ the later one went through a slot whose
pending entry remembered that counter (`retransmission` is exactly the flag `ctr.is_some()` of
`Session::pre_send`). This says NOTHING about the two messages being the same message — `runS`
accepts `[(7,false,none),(7,true,some 99)]`, see the example below; that the later message IS the
earlier one is `same_counter_same_message`, over the call sites of `pre_send` and the guard. -/
theorem same_counter_is_retransmission (s : Sess) (hinv : SlotsBelow s s.ctr) (ops : List SOp) :
    List.Pairwise (fun a b => a.ctr = b.ctr → b.retransmission = true) (runS s ops).2 := by
  refine List.Pairwise.imp ?_ (new_counter_above_all_earlier s hinv ops)
  intro a b h heq
  cases hb : b.retransmission with
  | true => rfl
  | false => have := h hb; omega

/-- non-vacuity: a concrete history with a new message, its retransmission, an acknowledgement and
another new message — counters 7, 7 (retransmission), 8. -/
example :
    ((runS ({ uid := 0, ctr := 7 } : Sess)
        [.open_ 5, .tx (some 0) true none none, .tx (some 0) true none none,
         .rx { ctr := 1, exch := 5, initiator := false, ack := some 7, reliable := true, newOk := true } 0,
         .tx (some 0) true none none]).2.map (fun o => (o.ctr, o.retransmission, o.ack)))
      = [(7, false, none), (7, true, none), (8, false, some 1)] := by decide

/-- what `same_counter_is_retransmission` does not exclude: `Session::pre_send` itself hands the counter
of a pending retransmission to ANY message written through that slot — here an unreliable message
with another acknowledgement field (the shape of the seeded defect "the duplicate's stand-alone
acknowledgement is written through the exchange slot"). -/
example :
    ((runS ({ uid := 0, ctr := 7 } : Sess)
        [.open_ 5, .tx (some 0) true none none, .tx (some 0) false (some 99) none]).2.map
          (fun o => (o.ctr, o.retransmission, o.ack))) = [(7, false, none), (7, true, some 99)] := by decide

/-- the `u32` send counter (`Session::get_msg_ctr`: `msg_ctr += 1`, no roll-over handling): the
model's natural-number counters ARE the `u32` counters as long as the session sends fewer messages
than are left up to `2^32` — each operation consumes at most one counter -/
theorem stepS_ctr_le (s : Sess) (op : SOp) : (stepS s op).1.ctr ≤ s.ctr + 1 := by
  cases op with
  | tx idx rel ha sai =>
    have := TxWire.preSend_ctr_le s idx rel ha sai
    simp only [stepS]
    split <;> simp_all
  | rx h now => simp only [stepS]; rw [(postRecv_facts s h now).2]; omega
  | open_ id =>
    simp only [stepS]
    cases ha : s.addExch id .io with
    | none => simp
    | some p => obtain ⟨s', i⟩ := p; simp only; rw [(addExch_slot s s' id .io i ha).2.1]; omega
  | close i => simp only [stepS]; rw [(removeExch_facts s i).2]; omega
  | free i => simp [stepS]

theorem runS_ctr_le (ops : List SOp) : ∀ (s : Sess), (runS s ops).1.ctr ≤ s.ctr + ops.length := by
  induction ops with
  | nil => intro s; simp [runS]
  | cons op ops ih =>
    intro s
    have h1 := stepS_ctr_le s op
    have h2 := ih (stepS s op).1
    simp only [runS, List.length_cons]
    omega

/-- **Counters strictly increase, as `u32` values**: under the explicit hypothesis that the history
does not exhaust the 32-bit counter (`start + number of operations ≤ 2^32`; the start is below
`2^28`), every counter on the wire is below `2^32` — no wrap — and a message that is not a
retransmission carries a `u32` counter strictly greater than every earlier one. Without the
hypothesis the code wraps (release) or panics (debug): `counter_wraps_without_bound`. -/
theorem new_counter_above_all_earlier_u32 (s : Sess) (hinv : SlotsBelow s s.ctr) (ops : List SOp)
    (hwrap : s.ctr + ops.length ≤ 2 ^ 32) :
    (∀ o ∈ (runS s ops).2, o.ctr < 2 ^ 32) ∧
    List.Pairwise (fun a b => b.retransmission = false → a.ctr % 2 ^ 32 < b.ctr % 2 ^ 32) (runS s ops).2 := by
  have hf := runS_facts ops s hinv
  have hle := runS_ctr_le ops s
  have hlt : ∀ o ∈ (runS s ops).2, o.ctr < 2 ^ 32 := fun o ho => by have := (hf.2.1 o ho).1; omega
  refine ⟨hlt, ?_⟩
  have hpw := hf.2.2
  rw [List.pairwise_iff_forall_sublist] at hpw ⊢
  intro a b hab hnew
  have ha : a ∈ (runS s ops).2 := hab.subset (by simp)
  have hb : b ∈ (runS s ops).2 := hab.subset (by simp)
  rw [Nat.mod_eq_of_lt (hlt a ha), Nat.mod_eq_of_lt (hlt b hb)]
  exact hpw hab hnew

/-- the hypothesis is needed: the model's 2^32-th counter and counter 0 are the same `u32` -/
theorem counter_wraps_without_bound :
    let s : Sess := { uid := 0, ctr := 2 ^ 32 - 1 }
    ((runS s [.tx none false none none, .tx none false none none]).2.map (fun o => o.ctr % 2 ^ 32)) = [2 ^ 32 - 1, 0] := by
  decide

/-! ## 1b. One counter, one message — over the call sites of `Session::pre_send`

`Model/TxWire.lean`: every message a session hands to the transport, with what its header carries
(counter, exchange id, initiator flag, reliable flag, acknowledgement field) and the digest of
(protocol id, opcode, payload), produced by the four call sites of `Session::pre_send`:
`TxMessage::complete` (+ the retransmission guard), the duplicate's stand-alone acknowledgement in
`handle_rx_packet` (NO exchange slot), `CloseSession`, and the owed acknowledgement of a dropped
exchange without pending retransmission in `handle_dropped_exchange`. -/

open TxWire in
/-- **One counter, one message.** For every history of operations on a session — sends through the
`Exchange` API with ANY builder outputs (reliable or not, any digests, idempotent or not),
acknowledgements of duplicates, close-session messages, sweeps of dropped exchanges, received
messages, exchanges opened / dropped / freed — that starts with nothing pending, respects the
exchange discipline at every receive (`TxWire.disciplined`) and does not exhaust the `u32` counter
(`hwrap`): any two messages handed to the transport with the same `u32` counter are the SAME
message: same exchange id and initiator flag, same reliable flag, same acknowledgement field, same
content digest. (With the session key and the source node id the counter is the AEAD nonce: no
nonce protects two different messages.) -/
theorem same_counter_same_message (s : Sess) (hidle : ∀ j e, s.slot j = some e → e.mrp.retrans = none)
    (ops : List Op) (hdisc : disciplined dupAckSlot { s := s } ops = true)
    (hwrap : s.ctr + ops.length ≤ 2 ^ 32) :
    List.Pairwise (fun a b => a.ctr % 2 ^ 32 = b.ctr % 2 ^ 32 → a = b) (run dupAckSlot { s := s } ops).2 ∧
    ∀ w ∈ (run dupAckSlot { s := s } ops).2, w.ctr < 2 ^ 32 := by
  have g := inv_run ops { s := s } [] (inv_init s hidle) hdisc
  simp only [List.nil_append] at g
  have hle := run_ctr_le ops { s := s }
  have hlt : ∀ w ∈ (run dupAckSlot { s := s } ops).2, w.ctr < 2 ^ 32 := fun w hw => by
    have := g.wlt w hw
    have h0 : ({ s := s } : St).s.ctr = s.ctr := rfl
    omega
  refine ⟨?_, hlt⟩
  have hpw := g.pw
  rw [List.pairwise_iff_forall_sublist] at hpw ⊢
  intro a b hab heq
  have ha : a ∈ (run dupAckSlot { s := s } ops).2 := hab.subset (by simp)
  have hb : b ∈ (run dupAckSlot { s := s } ops).2 := hab.subset (by simp)
  rw [Nat.mod_eq_of_lt (hlt a ha), Nat.mod_eq_of_lt (hlt b hb)] at heq
  exact hpw hab heq

/-- non-vacuity (all hypotheses hold) on a realistic history: request sent (counter 7), lost, the
peer's retransmitted earlier message arrives as a duplicate and is acknowledged outside the exchange
(counter 8), our request is retransmitted (7 again, identical), a non-idempotent rebuild is refused
(nothing sent), the response arrives with the acknowledgement, the next request takes counter 9. -/
example :
    let s : Sess := { uid := 0, ctr := 7, mode := .case }
    let dup : RxHdr := { ctr := 3, exch := 5, initiator := false, ack := none, reliable := true, newOk := true }
    let rsp : RxHdr := { ctr := 4, exch := 5, initiator := false, ack := some 7, reliable := true, newOk := true }
    let ops : List TxWire.Op := [.open_ 5, .complete 0 true 900 none, .dupAck dup none, .complete 0 true 900 none,
      .complete 0 true 901 none, .rx rsp 0, .complete 0 true 902 none]
    TxWire.disciplined TxWire.dupAckSlot { s := s } ops = true ∧
    ((TxWire.run TxWire.dupAckSlot { s := s } ops).2.map (fun w => (w.ctr, w.exch, w.reliable, w.ack, w.digest))) =
      [(7, 5, true, none, 900), (8, 5, false, some 3, 0), (7, 5, true, none, 900), (9, 5, true, some 4, 902)] := by
  decide

/-- the duplicate's acknowledgement written THROUGH the exchange the duplicate belongs to (the seeded
defect: `write_packet(packet, Some(session), Some(exch_index), …)` in `handle_rx_packet`) -/
def dupAckThroughExchange : Sess → RxHdr → Option Nat := fun s h => s.getExchForRx h

/-- **The call site matters**: with the exchange slot passed to `write_packet`, the stand-alone
acknowledgement of a duplicate goes out under the counter of the request that exchange is still
waiting for — one counter, two different messages. `same_counter_same_message` is a theorem about
the call site the code has (`TxWire.dupAckSlot = none`), not about `Session::pre_send` alone. -/
theorem dupAck_through_exchange_breaks :
    let s : Sess := { uid := 0, ctr := 7, mode := .case }
    let dup : RxHdr := { ctr := 3, exch := 5, initiator := false, ack := none, reliable := true, newOk := true }
    let ops : List TxWire.Op := [.open_ 5, .complete 0 true 900 none, .dupAck dup none]
    TxWire.disciplined dupAckThroughExchange { s := s } ops = true ∧
    ((TxWire.run dupAckThroughExchange { s := s } ops).2.map (fun w => (w.ctr, w.exch, w.reliable, w.ack, w.digest))) =
      [(7, 5, true, none, 900), (7, 5, false, some 3, 0)] ∧
    ((TxWire.run TxWire.dupAckSlot { s := s } ops).2.map (fun w => (w.ctr, w.exch, w.reliable, w.ack, w.digest))) =
      [(7, 5, true, none, 900), (8, 5, false, some 3, 0)] := by
  intro s dup ops
  refine ⟨by decide, by decide, by decide⟩

/-- **The guard matters, including the reliable flag** (repo fix
`C15-retransmission-reliable-flag-differs`): a rebuilt message with the same content but
`reliable = false` is refused; so is a stand-alone acknowledgement through `Exchange::acknowledge`
while the exchange waits for the acknowledgement of its own message. -/
example :
    let s : Sess := { uid := 0, ctr := 7, mode := .case }
    ((TxWire.run TxWire.dupAckSlot { s := s }
        [.open_ 5, .complete 0 true 900 none, .complete 0 false 900 none, .complete 0 false TxWire.ackDigest none,
         .complete 0 true 900 none]).2.map (fun w => (w.ctr, w.reliable, w.digest))) =
      [(7, true, 900), (7, true, 900)] := by
  decide

/-- the discipline hypothesis is needed here as well: a reliable message without acknowledgement on an
exchange that waits for one replaces the owed acknowledgement; the retransmission then differs in
its acknowledgement field (same as `ack_changes_without_discipline` on the bare reliability layer) -/
example :
    let s : Sess := { uid := 0, ctr := 7, mode := .case }
    let m1 : RxHdr := { ctr := 3, exch := 5, initiator := true, ack := none, reliable := true, newOk := true }
    let m2 : RxHdr := { ctr := 4, exch := 5, initiator := true, ack := none, reliable := true, newOk := true }
    let ops : List TxWire.Op := [.rx m1 0, .complete 0 true 900 none, .rx m2 0, .complete 0 true 900 none]
    TxWire.disciplined TxWire.dupAckSlot { s := s } ops = false ∧
    ((TxWire.run TxWire.dupAckSlot { s := s } ops).2.map (fun w => (w.ctr, w.ack))) = [(7, some 3), (7, some 4)] := by
  decide

/-! ## 2. A retransmission is identical to the original -/

/-- what happens on one exchange while a message waits for its acknowledgement -/
inductive MEv
  /-- the sender loop retransmits: `pre_send` with the pending counter, same header input -/
  | retransmit
  /-- a message arrives on the exchange -/
  | recv (rxCtr : Nat) (ack : Option Nat) (rel : Bool) (now : Nat)

/-- the one-outstanding-message discipline of an exchange: while our message is unacknowledged the
peer's messages on this exchange either carry an acknowledgement or do not ask for one -/
def MEv.disciplined : MEv → Bool
  | .retransmit => true
  | .recv _ ack rel _ => ack.isSome || !rel

/-- run the events; every retransmission yields `(counter, ack field)` as written into the header -/
def runM (hdrAck sai : Option Nat) : Mrp → List MEv → List (Nat × Option Nat)
  | _, [] => []
  | m, .retransmit :: evs =>
    match m.retrans with
    | none => runM hdrAck sai m evs   -- acknowledged meanwhile: the sender loop stops
    | some r =>
      let res := m.preSend r.ctr true hdrAck sai
      match res.2.2 with
      | none => (r.ctr, res.2.1) :: runM hdrAck sai res.1 evs
      | some _ => runM hdrAck sai res.1 evs
  | m, .recv c a rel now :: evs => runM hdrAck sai (m.postRecv c a rel now).1 evs

theorem runM_identical (hdrAck sai : Option Nat) (c0 : Nat) (a0 : Option Nat) (evs : List MEv) :
    ∀ (m : Mrp), (∀ r, m.retrans = some r → r.ctr = c0) → m.ackCtr = a0 ∨ m.retrans = none →
    (∀ e ∈ evs, e.disciplined = true) →
    ∀ p ∈ runM hdrAck sai m evs, p = (c0, match a0 with
      | some a => some a
      | none => hdrAck) := by
  induction evs with
  | nil => intro m _ _ _ p hp; simp [runM] at hp
  | cons ev evs ih =>
    intro m hc hack hdis p hp
    have hdis' : ∀ e ∈ evs, e.disciplined = true := fun e he => hdis e (List.mem_cons_of_mem _ he)
    cases ev with
    | retransmit =>
      cases hrt : m.retrans with
      | none =>
        simp only [runM, hrt] at hp
        exact ih m hc hack hdis' p hp
      | some r =>
        have hack0 : m.ackCtr = a0 := by
          rcases hack with h | h
          · exact h
          · simp [hrt] at h
        simp only [runM, hrt] at hp
        have hout := preSend_outAck m r.ctr true hdrAck sai
        have horig := preSend_retrans_origin m r.ctr true hdrAck sai
        simp only at horig
        have hcase := horig.2.2 r hrt rfl
        have hnext : ∀ r', (m.preSend r.ctr true hdrAck sai).1.retrans = some r' → r'.ctr = c0 := by
          intro r' hr'
          rcases horig.1 r' hr' with ⟨hn, _⟩ | ⟨r0, hr0, hcc⟩
          · simp [hrt] at hn
          · rw [hcc]; exact hc r0 hr0
        rcases hcase with herr | ⟨herr, hnone⟩
        · simp only [herr] at hp
          rcases List.mem_cons.1 hp with h1 | h2
          · rw [h1, hout, hc r hrt, ← hack0]
            rfl
          · exact ih _ hnext (Or.inl (by rw [preSend_ackCtr m r.ctr true hdrAck sai herr, hack0])) hdis' p h2
        · simp only [herr] at hp
          exact ih _ hnext (Or.inr hnone) hdis' p hp
    | recv c a rel now =>
      simp only [runM] at hp
      have hd : (a.isSome || !rel) = true := hdis _ (List.mem_cons_self ..)
      cases hrt : m.retrans with
      | none =>
        -- nothing pending: nothing will be retransmitted any more unless `retrans` reappears, which
        -- `post_recv` never does
        have hn : (m.postRecv c a rel now).1.retrans = none := by
          cases hx : (m.postRecv c a rel now).1.retrans with
          | none => rfl
          | some r' => have := postRecv_mrp_retrans m c a rel now r' hx; simp [hrt] at this
        exact ih _ (fun r' hr' => by simp [hn] at hr') (Or.inr hn) hdis' p hp
      | some r =>
        have hpend := postRecv_pending m r c a rel now hrt
        simp only at hpend
        have hack0 : m.ackCtr = a0 := by
          rcases hack with h | h
          · exact h
          · simp [hrt] at h
        have hcnext : ∀ r', (m.postRecv c a rel now).1.retrans = some r' → r'.ctr = c0 := by
          intro r' hr'
          have := postRecv_mrp_retrans m c a rel now r' hr'
          exact hc r' this
        cases a with
        | some av =>
          by_cases hav : av = r.ctr
          · subst hav
            exact ih _ hcnext (Or.inr (hpend.1 rfl).2) hdis' p hp
          · have := hpend.2.1 av rfl hav
            rw [this] at hp
            exact ih m hc hack hdis' p hp
        | none =>
          have hrel : rel = false := by simpa using hd
          have := (hpend.2.2 rfl).2.2
          simp only [hrel, Bool.false_eq_true, ↓reduceIte] at this
          exact ih _ hcnext (Or.inl (by rw [hrel, this, hack0])) hdis' p hp

/-- **Retransmissions are identical**: from the moment a reliable message with counter `c` has been
sent on an exchange (its `pre_send` piggy-backed the acknowledgement `outAckOf m hdrAck`), every
retransmission — under every interleaving with received messages that respect the exchange
discipline, matching or stale acknowledgements, duplicates — writes exactly the same counter and
the same acknowledgement field into the header. -/
theorem retransmissions_identical (m : Mrp) (r : Retrans) (hdrAck sai : Option Nat) (evs : List MEv)
    (hr : m.retrans = some r) (hdis : ∀ e ∈ evs, e.disciplined = true) :
    ∀ p ∈ runM hdrAck sai m evs, p = (r.ctr, outAckOf m hdrAck) := by
  intro p hp
  have := runM_identical hdrAck sai r.ctr m.ackCtr evs m
    (fun r' hr' => by rw [hr] at hr'; simp only [Option.some.injEq] at hr'; rw [hr'])
    (Or.inl rfl) hdis p hp
  exact this

/-- … with the ORIGINAL transmission in the trace: the first `pre_send` of a reliable message on an
exchange with nothing pending succeeds and writes `(c, a)`; every later retransmission — under every
disciplined interleaving with received messages — writes exactly `(c, a)` again. -/
theorem original_and_retransmissions_identical (m : Mrp) (c : Nat) (hdrAck sai : Option Nat) (evs : List MEv)
    (hm : m.retrans = none) (hdis : ∀ e ∈ evs, e.disciplined = true) :
    (m.preSend c true hdrAck sai).2.2 = none ∧
    ∀ p ∈ runM hdrAck sai (m.preSend c true hdrAck sai).1 evs, p = (c, (m.preSend c true hdrAck sai).2.1) := by
  have horig := preSend_retrans_origin m c true hdrAck sai
  simp only at horig
  have hok := horig.2.1 hm
  refine ⟨hok, ?_⟩
  have hrt : (m.preSend c true hdrAck sai).1.retrans = some (Retrans.new sai c) := by
    unfold Mrp.preSend; simp [hm]
  intro p hp
  have := retransmissions_identical _ _ hdrAck sai evs hrt hdis p hp
  rw [this, preSend_outAck]
  unfold outAckOf
  rw [preSend_ackCtr m c true hdrAck sai hok]
  rfl

/-- non-vacuity of the hypotheses, and the retransmission really happens -/
example : runM none none { retrans := some { base := 300, ctr := 9, count := 0 }, ack := some { ctr := 4, acked := true } }
    [.retransmit, .recv 5 (some 3) true 0, .retransmit, .recv 6 none false 0, .retransmit]
    = [(9, some 4), (9, some 4), (9, some 4)] := by decide

/-- the discipline hypothesis is needed: a reliable message *without* an acknowledgement, received
while ours is pending, replaces the pending acknowledgement and the next retransmission differs
(same counter 9, different acknowledgement field). In rs-matter the exchange layer never produces
this (a peer sends its next message only after ours arrived, and then acknowledges it). -/
theorem ack_changes_without_discipline :
    runM none none { retrans := some { base := 300, ctr := 9, count := 0 }, ack := some { ctr := 4, acked := true } }
      [.retransmit, .recv 5 none true 0, .retransmit] = [(9, some 4), (9, some 5)] := by decide

/-- `Session::pre_send` uses the remembered counter exactly for a slot with a pending retransmission,
and does not consume a new one. -/
theorem retransmission_reuses_counter (s : Sess) (i : Nat) (e : Exch) (r : Retrans) (rel : Bool)
    (ha sai : Option Nat) (hinv : SlotsBelow s s.ctr) (hs : s.slot i = some e) (hr : e.mrp.retrans = some r) :
    ∀ o, (s.preSend (some i) rel ha sai).2 = .ok o → o.ctr = r.ctr ∧ o.retransmission = true ∧
      (s.preSend (some i) rel ha sai).1.ctr = s.ctr := by
  intro o ho
  have hf := (preSend_facts s (some i) rel ha sai hinv).2.2 o ho
  cases hrt : o.retransmission with
  | true =>
    obtain ⟨i', e', r', hi, hs', hr', hc, hctr⟩ := hf.2.2 hrt
    simp only [Option.some.injEq] at hi
    subst hi
    rw [hs] at hs'
    simp only [Option.some.injEq] at hs'
    subst hs'
    rw [hr] at hr'
    simp only [Option.some.injEq] at hr'
    subst hr'
    exact ⟨hc, rfl, hctr⟩
  | false =>
    -- impossible: with a pending retransmission the message is flagged as one
    exfalso
    unfold Sess.preSend at ho
    simp only [hs, hr, Option.map_some] at ho
    generalize e.mrp.preSend r.ctr rel ha sai = P at ho
    obtain ⟨m', oa, err⟩ := P
    cases err with
    | none =>
      simp only [Except.ok.injEq] at ho
      subst ho
      simp at hrt
    | some er => cases er <;> simp at ho <;> (split at ho <;> simp at ho)

/-! ## 3. Identifiers -/

/-- `get_next_sess_id` never returns the local id of a session in the table — for every table
with fewer than 65535 sessions (the capacity is `Consts.maxSessions`: `Transport.cap_lengths` derives
the hypothesis from `Cap`; `allocators_terminate`: within the capacity the Rust loop terminates). ONE call. -/
theorem nextSessId_fresh (t : Table) (h1 : 1 ≤ t.nextSid) (h2 : t.nextSid ≤ 65535)
    (hlen : t.sessions.length < 65535) : t.nextSessId.2 ∉ t.liveSessIds := by
  unfold Table.nextSessId
  exact allocLoop_fresh _ _ h1 h2 (by simpa [Table.liveSessIds] using hlen)

/-- and never 0 (the id of unsecured sessions), and the allocator stays in range -/
theorem nextSessId_range (t : Table) :
    1 ≤ t.nextSessId.1.nextSid ∧ t.nextSessId.1.nextSid ≤ 65535 := by
  unfold Table.nextSessId
  exact allocLoop_next_range _ _ _

/-- `get_next_exch_id` (after the repair) never returns the id of a live initiator-role exchange of
any session — for every table with fewer than 65535 such exchanges, allocator already seeded
(`1 ≤ nextExch`; the never-used table with `nextExch = 0` goes through the seeding branch:
`nextExchIdD_fresh`). ONE call. -/
theorem nextExchId_fresh (t : Table) (h1 : 1 ≤ t.nextExch) (h2 : t.nextExch ≤ 65535)
    (hlen : t.liveInitExchIds.length < 65535) : t.nextExchId.2 ∉ t.liveInitExchIds := by
  unfold Table.nextExchId
  exact allocLoop_fresh _ _ h1 h2 hlen

theorem nextExchId_range (t : Table) :
    1 ≤ t.nextExchId.1.nextExch ∧ t.nextExchId.1.nextExch ≤ 65535 := by
  unfold Table.nextExchId
  exact allocLoop_next_range _ _ _

/-- the defect that was repaired, as a statement about the *old* role test: skipping only ids of
responder-role exchanges lets the allocator return the id of a live initiator exchange
(live initiator exchange 0x1234, allocator at 0x1234 ⇒ 0x1234 again). -/
example : (allocLoop [] 65536 0x1234).1 = 0x1234 := by decide
example : (allocLoop [0x1234] 65536 0x1234).1 = 0x1235 := by
  unfold allocLoop; simp [allocLoop, bump]

/-! ## 4. (id, role) stays unique among the live exchanges of a session -/

/-- on a session no two live exchanges share (exchange id, role) -/
def ExchUniq (s : Sess) : Prop :=
  ∀ i j e f, s.slot i = some e → s.slot j = some f → e.id = f.id →
    e.role.isResponder = f.role.isResponder → i = j

theorem exchUniq_fresh (uid ctr : Nat) : ExchUniq ({ uid := uid, ctr := ctr } : Sess) := by
  intro i j e f hi; simp [Sess.slot] at hi

/-- slots of `s'` are slots of `s` with the same key, index by index -/
theorem exchUniq_of_keys (s s' : Sess) (hu : ExchUniq s)
    (hk : ∀ k e', s'.slot k = some e' → ∃ e, s.slot k = some e ∧ e.id = e'.id ∧ e.role.isResponder = e'.role.isResponder) :
    ExchUniq s' := by
  intro i j e f hi hj hid hrole
  obtain ⟨e0, he0, h1, h2⟩ := hk i e hi
  obtain ⟨f0, hf0, h3, h4⟩ := hk j f hj
  exact hu i j e0 f0 he0 hf0 (by rw [h1, h3, hid]) (by rw [h2, h4, hrole])

/-- **Received messages keep (id, role) unique**: a responder exchange is opened only when no live
exchange has the header's key. -/
theorem exchUniq_postRecv (s : Sess) (h : RxHdr) (now : Nat) (hu : ExchUniq s) :
    ExchUniq (s.postRecv h now).1 := by
  have hspec := postRecv_effect s h now
  unfold RecvSpec at hspec
  cases hr : (s.postRecv h now).2 with
  | error er =>
    have := hspec.2.2 er hr
    exact exchUniq_of_keys s _ hu (fun k e' hk => ⟨e', by rw [← this k]; exact hk, rfl, rfl⟩)
  | ok b =>
    cases b with
    | false =>
      obtain ⟨i, e, m, _, hs, hs', hrest⟩ := hspec.1 hr
      apply exchUniq_of_keys s _ hu
      intro k e' hk
      by_cases hki : k = i
      · subst hki
        rw [hs'] at hk
        simp only [Option.some.injEq] at hk
        subst hk
        exact ⟨e, hs, rfl, rfl⟩
      · exact ⟨e', by rw [← hrest k hki]; exact hk, rfl, rfl⟩
    | true =>
      obtain ⟨hg, hi, _, _, i0, m, hfree, hnew, hrest⟩ := hspec.2.1 hr
      have hnone := getExchForRx_none s h hg
      intro i j e f hsi hsj hid hrole
      by_cases h1 : i = i0 <;> by_cases h2 : j = i0
      · rw [h1, h2]
      · exfalso
        subst h1
        rw [hnew] at hsi
        simp only [Option.some.injEq] at hsi
        subst hsi
        rw [hrest j h2] at hsj
        exact hnone j f hsj ⟨by simpa using hid.symm, by rw [← hrole, hi]; rfl⟩
      · exfalso
        subst h2
        rw [hnew] at hsj
        simp only [Option.some.injEq] at hsj
        subst hsj
        rw [hrest i h1] at hsi
        exact hnone i e hsi ⟨by simpa using hid, by rw [hrole, hi]; rfl⟩
      · rw [hrest i h1] at hsi
        rw [hrest j h2] at hsj
        exact hu i j e f hsi hsj hid hrole

theorem mem_liveInitIds (s : Sess) (j : Nat) (f : Exch) (hs : s.slot j = some f)
    (hr : f.role.isResponder = false) : f.id ∈ liveInitIds s := by
  unfold liveInitIds
  rw [List.mem_filterMap]
  refine ⟨some f, List.mem_of_getElem? ((slot_eq_some s j f).1 hs), ?_⟩
  simp [hr]

/-- **Initiated exchanges keep (id, role) unique**: `initiate_for_session` takes its id from the
allocator, which (`nextExchId_fresh`) avoids the ids of all live initiator exchanges. -/
theorem exchUniq_addInit (s s' : Sess) (id i : Nat) (hu : ExchUniq s) (hfresh : id ∉ liveInitIds s)
    (ha : s.addExch id .io = some (s', i)) : ExchUniq s' := by
  obtain ⟨hfree, _, hsl⟩ := addExch_slot s s' id .io i ha
  intro a b e f hsa hsb hid hrole
  rw [hsl a] at hsa
  rw [hsl b] at hsb
  by_cases h1 : a = i <;> by_cases h2 : b = i
  · rw [h1, h2]
  · exfalso
    simp only [h1, ↓reduceIte, Option.some.injEq] at hsa
    simp only [h2, ↓reduceIte] at hsb
    subst hsa
    apply hfresh
    have := mem_liveInitIds s b f hsb (by rw [← hrole]; rfl)
    have hid' : id = f.id := hid
    rw [hid']; exact this
  · exfalso
    simp only [h2, ↓reduceIte, Option.some.injEq] at hsb
    simp only [h1, ↓reduceIte] at hsa
    subst hsb
    apply hfresh
    have := mem_liveInitIds s a e hsa (by rw [hrole]; rfl)
    have hid' : e.id = id := hid
    rw [← hid']; exact this
  · simp only [h1, ↓reduceIte] at hsa
    simp only [h2, ↓reduceIte] at hsb
    exact hu a b e f hsa hsb hid hrole

/-- the ids of a session's live initiator exchanges are among the table's -/
theorem liveInitIds_sub (t : Table) (s : Sess) (hs : s ∈ t.sessions) (x : Nat) (hx : x ∈ liveInitIds s) :
    x ∈ t.liveInitExchIds := by
  unfold Table.liveInitExchIds
  exact List.mem_flatMap.2 ⟨s, hs, hx⟩

theorem setDropped_isResponder (r : RoleSt) : r.setDropped.isResponder = r.isResponder := by
  cases r <;> rfl

/-- dropping an exchange keeps (id, role) unique -/
theorem exchUniq_removeExch (s : Sess) (i : Nat) (hu : ExchUniq s) : ExchUniq (s.removeExch i).1 := by
  apply exchUniq_of_keys s _ hu
  intro k e' hk
  unfold Sess.removeExch at hk
  split at hk
  · exact ⟨e', hk, rfl, rfl⟩
  · rename_i e he
    split at hk
    · rw [slot_set] at hk
      split at hk
      · rename_i hik
        subst hik
        split at hk
        · simp only [Option.some.injEq] at hk
          subst hk
          exact ⟨e, he, rfl, (setDropped_isResponder e.role).symm⟩
        · simp at hk
      · exact ⟨e', hk, rfl, rfl⟩
    · rw [slot_set] at hk
      split at hk
      · split at hk <;> simp at hk
      · exact ⟨e', hk, rfl, rfl⟩


/-- **Locally chosen exchange ids are unique among the live exchanges of their role**: for every
table (allocator seeded, fewer than 65535 live initiator exchanges — the table holds at most
`maxSessions · maxExchanges`), giving a session of the table a new initiator exchange with the id
`get_next_exch_id` returns keeps (id, role) unique on that session. -/
theorem initiate_keeps_uniq (t : Table) (s s' : Sess) (i : Nat) (hs : s ∈ t.sessions) (hu : ExchUniq s)
    (h1 : 1 ≤ t.nextExch) (h2 : t.nextExch ≤ 65535) (hlen : t.liveInitExchIds.length < 65535)
    (ha : s.addExch t.nextExchId.2 .io = some (s', i)) : ExchUniq s' :=
  exchUniq_addInit s s' _ i hu
    (fun hin => nextExchId_fresh t h1 h2 hlen (liveInitIds_sub t s hs _ hin)) ha

/-- non-vacuity: allocator at a live initiator id skips it; the new exchange gets the next id -/
example :
    let s : Sess := { uid := 0, ctr := 0, exchs := [some { id := 0x1234, role := .io }] }
    let t : Table := { nextExch := 0x1234, sessions := [s] }
    t.nextExchId.2 = 0x1235 := by decide

/-! ## 5. Uniqueness of the identifiers along every history -/

/-- **The allocator loops terminate** (the Rust `loop { … }` has no bound): on every table within the
capacities `MAX_SESSIONS` / `MAX_EXCHANGES` the explicit-divergence versions of the two allocators
answer — never `none` — and answer what the executable model's total `allocLoop` computes. The
`length < 65535` hypotheses of the freshness theorems follow from `Cap` (`Transport.cap_lengths`,
`maxSessions · maxExchanges < 65535`). -/
theorem allocators_terminate (t : Table) (hcap : Cap t) (h1 : 1 ≤ t.nextSid) (h2 : t.nextSid ≤ 65535)
    (h3 : t.nextExch ≤ 65535) (cand : Nat) :
    t.nextSessIdD = some t.nextSessId ∧ t.nextExchIdD cand = some (t.seedExch cand).nextExchId := by
  have hl := cap_lengths t hcap
  constructor
  · unfold Table.nextSessIdD Table.nextSessId
    have ht := allocLoopD_terminates t.liveSessIds t.nextSid h1 h2 hl.1
    cases h : allocLoopD t.liveSessIds 65536 t.nextSid with
    | none => rw [h] at ht; cases ht
    | some r => rw [allocLoopD_eq _ _ _ r h]; rfl
  · have hr := seedExch_range t cand h3
    have hl2 : (t.seedExch cand).liveInitExchIds.length < 65535 := by
      unfold Table.liveInitExchIds
      rw [seedExch_sessions]
      exact hl.2
    unfold Table.nextExchIdD Table.nextExchId
    simp only
    have ht := allocLoopD_terminates _ _ hr.1 hr.2 hl2
    cases h : allocLoopD (t.seedExch cand).liveInitExchIds 65536 (t.seedExch cand).nextExch with
    | none => rw [h] at ht; cases ht
    | some r => rw [allocLoopD_eq _ _ _ r h]; rfl

/-- the default (empty, never used) table satisfies the hypotheses: `next_exch_id = 0` is the
"not seeded" state, handled by the seeding branch (`Table.seedExch`), and the id `get_next_exch_id`
then answers is never 0 -/
example : Cap ({} : Table) ∧ 1 ≤ ({} : Table).nextSid ∧ ({} : Table).nextExch ≤ 65535 ∧
    (({} : Table).nextExchIdD 0).map (·.2) = some 1 ∧ (({} : Table).nextExchIdD 0x1234).map (·.2) = some 0x1234 := by
  refine ⟨⟨by decide, fun s hs => by cases hs⟩, by decide, by decide, by decide, by decide⟩

/-- the exchange-id allocator including the seeding branch never answers a live initiator id, never 0 -/
theorem nextExchIdD_fresh (t t' : Table) (cand x : Nat) (h3 : t.nextExch ≤ 65535)
    (h : t.nextExchIdD cand = some (t', x)) : x ∉ t.liveInitExchIds ∧ 1 ≤ x ∧ x ≤ 65535 ∧ 1 ≤ t'.nextExch ∧ t'.nextExch ≤ 65535 := by
  unfold Table.nextExchIdD at h
  simp only [Option.map_eq_some_iff] at h
  obtain ⟨r, hr, heq⟩ := h
  obtain ⟨x', nx⟩ := r
  simp only [Prod.mk.injEq] at heq
  obtain ⟨ht', hx⟩ := heq
  subst hx
  have hrange := seedExch_range t cand h3
  obtain ⟨k, _, hxk, hnk, hfresh, _⟩ := allocLoopD_spec _ _ _ _ _ hr
  have hlive : (t.seedExch cand).liveInitExchIds = t.liveInitExchIds := by
    unfold Table.liveInitExchIds; rw [seedExch_sessions]
  rw [hlive] at hfresh
  have h1 := bumpIter_range k _ hrange.1 hrange.2
  have h2 := bumpIter_range (k + 1) _ hrange.1 hrange.2
  rw [← ht']
  exact ⟨hfresh, by omega, by omega, by simp only; omega, by simp only; omega⟩

open C15 in
/-- **Local session ids are unique among the live sessions — along every history.** Start from a
table within capacity whose secure sessions have pairwise distinct local ids (e.g. the empty
table); run ANY history of `Sessions::add` / `reserve_now`, `get_next_sess_id` (start of a
handshake), `ReservedSession::update` installing an id that `get_next_sess_id` handed out (not an
arbitrary one), handshakes abandoned, `complete`, `get`, `remove`, eviction. If no handed-out id
stays un-installed while the allocator consumes 65535 further candidates (`staleFree` — the
allocator looks only at INSTALLED ids; without this an id handed to a stalled handshake is handed
out again after a full round: `stale_id_is_handed_out_again`), then in the final table any two
sessions with the same local id have id 0 (unsecured / not installed yet), and the ids handed out and
not yet installed are distinct from each other and from every installed id. -/
theorem sessIds_unique_always (t0 : Table) (hcap : t0.sessions.length ≤ Consts.maxSessions)
    (h1 : 1 ≤ t0.nextSid) (h2 : t0.nextSid ≤ 65535) (hu : SessUniq t0.sessions)
    (ops : List SidOp) (hs : staleFree { t := t0 } ops) :
    let st := runSid { t := t0 } ops
    st.t.sessions.Pairwise (fun a b => a.localSid = b.localSid → a.localSid = 0) ∧
    st.out.Pairwise (fun p q => p.1 ≠ q.1) ∧ ∀ p ∈ st.out, ∀ s ∈ st.t.sessions, s.localSid ≠ p.1 := by
  have g0 : SidInv t0.nextSid { t := t0 } :=
    { c0r := ⟨h1, h2⟩, pos := rfl, outPos := fun p hp => (by cases hp), cap := hcap, uniq := hu,
      outFresh := fun p hp => (by cases hp), outDistinct := List.Pairwise.nil }
  have g := sidInv_run ops _ g0 hs
  refine ⟨?_, g.outDistinct, g.outFresh⟩
  rw [List.pairwise_iff_getElem]
  intro i j hi hj hij heq
  apply Classical.byContradiction
  intro hne
  have := g.uniq i j _ _ (List.getElem?_eq_getElem hi) (List.getElem?_eq_getElem hj) heq hne
  omega

open C15 in
/-- non-vacuity: two interleaved handshakes on the empty table — both allocate before either
installs; ids 1 and 2; a removal and a third handshake re-using nothing live -/
example :
    let ops : List SidOp := [.add 5 true 0 0, .add 6 true 0 0, .alloc, .alloc, .install 1 0 77 .case 0,
      .install 0 0 78 .pase 0, .remove 1, .add 7 true 0 0, .alloc, .install 2 0 79 .case 0]
    staleFree {} ops ∧ (runSid {} ops).t.sessions.map (fun s => (s.uid, s.localSid)) = [(0, 2), (2, 3)] := by
  intro ops
  refine ⟨?_, by decide⟩
  simp only [ops, staleFree, NoStale]
  decide

open C15 in
/-- **The hypothesis is needed**: `get_next_sess_id` sees only installed ids. Id 1 is handed to a
handshake that stalls; the allocator is brought round (here by positioning it; in the code by 65535
further allocations) and hands out 1 again; both handshakes install it: two live sessions with local
id 1. -/
theorem stale_id_is_handed_out_again :
    let st : SidSt := { t := { nextSid := 1, sessions := [{ uid := 0, ctr := 0, reserved := true }, { uid := 1, ctr := 0, reserved := true }] },
                        tick := 65535, out := [(1, 0)] }
    let st' := runSid st [.alloc, .install 0 0 7 .case 0, .install 1 0 8 .case 0]
    ¬ NoStale (stepSid st .alloc) ∧ st'.t.sessions.map (·.localSid) = [1, 1] := by
  intro st st'
  refine ⟨?_, by decide⟩
  simp only [NoStale, st]
  decide

/-- operations on the session table that reach the exchange slots of a session -/
inductive XOp
  /-- `Exchange::initiate_for_session` (`cand`: the random `u16` of the allocator's lazy seeding) -/
  | initiate (uid now cand : Nat)
  /-- a message received on session `uid`: `Session::post_recv` (opens a responder exchange for a new id) -/
  | recv (uid : Nat) (h : RxHdr) (now : Nat)
  /-- `Exchange::drop` → `remove_exch` -/
  | drop (uid i now : Nat)
  /-- `accept_if`: AcceptPending → Owned -/
  | accept (uid i now : Nat)
  /-- `Session::pre_send` -/
  | send (uid : Nat) (idx : Option Nat) (rel : Bool) (ha sai : Option Nat) (now : Nat)
  /-- `handle_dropped_exchange` frees a slot -/
  | freeSlot (uid i now : Nat)
  | addSess (ctr : Nat) (rsv : Bool) (now port : Nat)
  | rmSess (uid : Nat)

/-- look the session up (`Sessions::get`), change it, write it back -/
def withSessT (t : Table) (uid now : Nat) (f : Sess → Sess) : Table :=
  match t.get uid now with
  | (t1, none) => t1
  | (t1, some s) => t1.setSess (f s)

def stepX (t : Table) : XOp → Table
  | .initiate uid now cand => (t.initiateS uid now cand).1
  | .recv uid h now => withSessT t uid now (fun s => (s.postRecv h now).1)
  | .drop uid i now => (t.dropExchange uid i now).1
  | .accept uid i now => (t.accept uid i now).1
  | .send uid idx rel ha sai now => withSessT t uid now (fun s => (s.preSend idx rel ha sai).1)
  | .freeSlot uid i now => withSessT t uid now (fun s => { s with exchs := s.exchs.set i none })
  | .addSess ctr rsv now port => (t.add ctr rsv now port).1
  | .rmSess uid => (t.remove uid).1

def runX : Table → List XOp → Table
  | t, [] => t
  | t, op :: ops => runX (stepX t op) ops

/-- the table invariant: allocator position in the `u16` range, capacities, (id, role) unique per session -/
structure XInv (t : Table) : Prop where
  range : t.nextExch ≤ 65535
  cap : Cap t
  uniq : ∀ s ∈ t.sessions, ExchUniq s

theorem exchUniq_touch (s : Sess) (now : Nat) (hu : ExchUniq s) : ExchUniq { s with lastUse := now } :=
  fun i j e f hi hj => hu i j e f hi hj

theorem xinv_get {t : Table} (g : XInv t) (uid now : Nat) : XInv (t.get uid now).1 := by
  rcases get_cases t uid now with h | ⟨i, s, hs, hu, hf, h⟩
  · rw [h]; exact g
  · rw [h]
    have hmem : s ∈ t.sessions := List.mem_iff_getElem?.2 ⟨i, hs⟩
    refine { range := g.range, cap := ⟨by simpa using g.cap.1, ?_⟩, uniq := ?_ }
    · intro x hx
      rcases List.mem_or_eq_of_mem_set hx with h1 | h1
      · exact g.cap.2 x h1
      · subst h1; exact g.cap.2 s hmem
    · intro x hx
      rcases List.mem_or_eq_of_mem_set hx with h1 | h1
      · exact g.uniq x h1
      · subst h1; exact exchUniq_touch s now (g.uniq s hmem)

/-- the generic step: a session-level operation that keeps uid, capacity and (id, role) uniqueness -/
theorem xinv_withSess {t : Table} (g : XInv t) (uid now : Nat) (f : Sess → Sess)
    (huid : ∀ s, (f s).uid = s.uid)
    (hf : ∀ s, ExchUniq s → s.exchs.length ≤ Consts.maxExchanges →
      ExchUniq (f s) ∧ (f s).exchs.length ≤ Consts.maxExchanges) : XInv (withSessT t uid now f) := by
  unfold withSessT
  rcases get_cases t uid now with h | ⟨i, s, hs, hu, hfi, h⟩
  · rw [h]; exact g
  · rw [h]
    simp only
    rw [setSess_after_get t i ({ s with lastUse := now }) (f { s with lastUse := now }) uid hfi hu
      (by rw [huid]; exact hu)]
    have hmem : s ∈ t.sessions := List.mem_iff_getElem?.2 ⟨i, hs⟩
    have hfs := hf { s with lastUse := now } (exchUniq_touch s now (g.uniq s hmem)) (g.cap.2 s hmem)
    refine { range := g.range, cap := ⟨by simpa using g.cap.1, ?_⟩, uniq := ?_ }
    · intro x hx
      rcases List.mem_or_eq_of_mem_set hx with h1 | h1
      · exact g.cap.2 x h1
      · subst h1; exact hfs.2
    · intro x hx
      rcases List.mem_or_eq_of_mem_set hx with h1 | h1
      · exact g.uniq x h1
      · subst h1; exact hfs.1

theorem preSend_keys (s : Sess) (idx : Option Nat) (rel : Bool) (ha sai : Option Nat) (k : Nat) (e' : Exch)
    (hk : (s.preSend idx rel ha sai).1.slot k = some e') :
    ∃ e, s.slot k = some e ∧ e.id = e'.id ∧ e.role.isResponder = e'.role.isResponder := by
  cases idx with
  | none => exact ⟨e', hk, rfl, rfl⟩
  | some i =>
    cases hs : s.slot i with
    | none =>
      have : (s.preSend (some i) rel ha sai).1 = s := by simp [Sess.preSend, hs]
      rw [this] at hk
      exact ⟨e', hk, rfl, rfl⟩
    | some e =>
      rw [(TxWire.preSend_some_spec s i e rel ha sai hs).1 k] at hk
      split at hk
      · rename_i hik
        subst hik
        cases hk
        exact ⟨e, hs, rfl, rfl⟩
      · exact ⟨e', hk, rfl, rfl⟩

theorem xinv_step {t : Table} (g : XInv t) (op : XOp) : XInv (stepX t op) := by
  cases op with
  | initiate uid now cand =>
    simp only [stepX]
    unfold Table.initiateS
    have g1 := xinv_get g uid now
    rcases get_cases t uid now with h | ⟨i, s, hs, hu, hfi, h⟩
    · rw [h]; exact g
    · rw [h] at g1 ⊢
      simp only at g1 ⊢
      generalize hs1 : ({ s with lastUse := now } : Sess) = s1 at g1 ⊢
      have hs1uid : s1.uid = uid := by rw [← hs1]; exact hu
      generalize ht1 : ({ t with sessions := t.sessions.set i s1 } : Table) = t1 at g1 ⊢
      have ht1s : t1.sessions = t.sessions.set i s1 := by rw [← ht1]
      have hilt : i < t.sessions.length := (List.getElem?_eq_some_iff.1 hs).1
      have hmem1 : s1 ∈ t1.sessions := by rw [ht1s]; exact List.mem_set hilt s1
      split
      · exact g1
      · -- the allocator (seeded if it never was) answers an id no live initiator exchange of the table has
        have hrange := seedExch_range t1 cand g1.range
        have hsess : (t1.seedExch cand).sessions = t1.sessions := seedExch_sessions t1 cand
        have hlen : (t1.seedExch cand).liveInitExchIds.length < 65535 := by
          have := (cap_lengths t1 g1.cap).2
          unfold Table.liveInitExchIds at this ⊢
          rw [hsess]; exact this
        have hfresh := nextExchId_fresh (t1.seedExch cand) hrange.1 hrange.2 hlen
        have hnr := nextExchId_range (t1.seedExch cand)
        have hns : (t1.seedExch cand).nextExchId.1.sessions = t1.sessions := hsess
        cases ha : s1.addExch (t1.seedExch cand).nextExchId.2 .io with
        | none =>
          simp only
          exact { range := hnr.2, cap := by unfold Cap; rw [hns]; exact g1.cap,
                  uniq := by rw [hns]; exact g1.uniq }
        | some p =>
          obtain ⟨s2, i2⟩ := p
          simp only
          have hul := addExch_uid_len s1 s2 _ .io i2 ha
          have hu2 : ExchUniq s2 := exchUniq_addInit s1 s2 _ i2 (g1.uniq s1 hmem1)
            (fun hin => hfresh (by
              unfold Table.liveInitExchIds
              rw [hsess]
              exact List.mem_flatMap.2 ⟨s1, hmem1, hin⟩)) ha
          have hss : ((t1.seedExch cand).nextExchId.1.setSess s2).sessions = t.sessions.set i s2 :=
            setSess_sessions_of _ t.sessions i s1 s2 uid (by rw [hns, ht1s]) hfi hs1uid (by rw [hul.1]; exact hs1uid)
          refine { range := by rw [setSess_nextExch]; exact hnr.2, cap := ?_, uniq := ?_ }
          · unfold Cap
            rw [hss]
            refine ⟨by simpa using g.cap.1, ?_⟩
            intro x hx
            rcases List.mem_or_eq_of_mem_set hx with h1 | h1
            · exact g.cap.2 x h1
            · subst h1; exact hul.2 (g1.cap.2 s1 hmem1)
          · rw [hss]
            intro x hx
            rcases List.mem_or_eq_of_mem_set hx with h1 | h1
            · exact g.uniq x h1
            · subst h1; exact hu2
  | recv uid h now =>
    exact xinv_withSess g uid now _ (fun s => (postRecv_uid_len s h now).1)
      (fun s hu hl => ⟨exchUniq_postRecv s h now hu, (postRecv_uid_len s h now).2 hl⟩)
  | drop uid i now =>
    have : (t.dropExchange uid i now).1 = withSessT t uid now (fun s => (s.removeExch i).1) := by
      unfold Table.dropExchange withSessT
      generalize t.get uid now = r
      obtain ⟨t1, so⟩ := r
      cases so <;> rfl
    simp only [stepX]
    rw [this]
    exact xinv_withSess g uid now _ (fun s => (removeExch_uid_len s i).1)
      (fun s hu hl => ⟨exchUniq_removeExch s i hu, by rw [(removeExch_uid_len s i).2]; exact hl⟩)
  | accept uid i now =>
    let f : Sess → Sess := fun s => match s.slot i with
      | some e => if e.role = .rp then { s with exchs := s.exchs.set i (some { e with role := .ro }) } else s
      | none => s
    have hget := xinv_get g uid now
    simp only [stepX]
    unfold Table.accept
    rcases get_cases t uid now with h | ⟨j, s, hs, hu, hfi, h⟩
    · rw [h]; exact g
    · rw [h] at hget ⊢
      simp only at hget ⊢
      split
      · rename_i e he
        split
        · rename_i hrp
          have hw := xinv_withSess g uid now f
            (fun s => by
              simp only [f]
              split
              · split <;> rfl
              · rfl)
            (fun s hu hl => by
              simp only [f]
              split
              · rename_i e0 he0
                split
                · rename_i hrp0
                  refine ⟨exchUniq_of_keys s _ hu ?_, by simpa using hl⟩
                  intro k e' hk
                  rw [slot_set] at hk
                  split at hk
                  · rename_i hik
                    subst hik
                    split at hk
                    · cases hk
                      exact ⟨e0, he0, rfl, by rw [hrp0]; rfl⟩
                    · cases hk
                  · exact ⟨e', hk, rfl, rfl⟩
                · exact ⟨hu, hl⟩
              · exact ⟨hu, hl⟩)
          unfold withSessT at hw
          rw [h] at hw
          simp only [f, he, hrp, ↓reduceIte] at hw
          exact hw
        · exact hget
      · exact hget
  | send uid idx rel ha sai now =>
    exact xinv_withSess g uid now _ (fun s => (preSend_uid_len s idx rel ha sai).1)
      (fun s hu hl => ⟨exchUniq_of_keys s _ hu (preSend_keys s idx rel ha sai),
        by rw [(preSend_uid_len s idx rel ha sai).2]; exact hl⟩)
  | freeSlot uid i now =>
    refine xinv_withSess g uid now _ (fun s => rfl) (fun s hu hl => ⟨exchUniq_of_keys s _ hu ?_, by simpa using hl⟩)
    intro k e' hk
    obtain ⟨hk', _⟩ := TxWire.slot_freed s i k e' hk
    exact ⟨e', hk', rfl, rfl⟩
  | addSess ctr rsv now port =>
    simp only [stepX]
    unfold Table.add
    simp only
    split
    · exact { range := g.range, cap := g.cap, uniq := g.uniq }
    · rename_i hcap
      simp only [ge_iff_le, Nat.not_le] at hcap
      refine { range := g.range, cap := ⟨?_, ?_⟩, uniq := ?_ }
      · simp only [List.length_append, List.length_cons, List.length_nil]; omega
      · intro x hx
        rcases List.mem_append.1 hx with h1 | h1
        · exact g.cap.2 x h1
        · simp only [List.mem_singleton] at h1; subst h1; exact Nat.zero_le _
      · intro x hx
        rcases List.mem_append.1 hx with h1 | h1
        · exact g.uniq x h1
        · simp only [List.mem_singleton] at h1
          subst h1
          intro a b e f hi
          simp [Sess.slot] at hi
  | rmSess uid =>
    simp only [stepX]
    unfold Table.remove
    split
    · refine { range := g.range, cap := ⟨Nat.le_trans (swapRemove_length_le _ _) g.cap.1, ?_⟩, uniq := ?_ }
      · intro x hx; exact g.cap.2 x (swapRemove_mem _ _ x hx)
      · intro x hx; exact g.uniq x (swapRemove_mem _ _ x hx)
    · exact g

/-- **Exchange ids are unique among the live exchanges of their role — along every history.** Start
from a table within capacity on which every session has (id, role) unique among its live exchanges
(e.g. the empty, never used table: the allocator's `next_exch_id = 0` "not seeded" state is
handled by the seeding branch); run ANY history of `initiate_for_session` (id from
`get_next_exch_id`), received messages (open responder exchanges), exchange drops, accepts,
sends, freed slots, sessions added and removed: on every session of the final table no two live
exchanges share (exchange id, role). -/
theorem exchIds_unique_always (t0 : Table) (hcap : Cap t0) (hr : t0.nextExch ≤ 65535)
    (hu : ∀ s ∈ t0.sessions, ExchUniq s) (ops : List XOp) :
    ∀ s ∈ (runX t0 ops).sessions, ExchUniq s := by
  have key : ∀ (ops : List XOp) (t : Table), XInv t → XInv (runX t ops) := by
    intro ops
    induction ops with
    | nil => intro t g; exact g
    | cons op ops ih => intro t g; exact ih _ (xinv_step g op)
  exact (key ops t0 { range := hr, cap := hcap, uniq := hu }).uniq

/-- non-vacuity, from the default table (allocator not seeded, seed drawn = 0x1234): two initiated
exchanges, a received message opening a responder exchange with the SAME id 0x1234 (other role), a
drop + freed slot, another initiate -/
example :
    let hdr : RxHdr := { ctr := 9, exch := 0x1234, initiator := true, ack := none, reliable := true, newOk := true }
    let t := runX {} [.addSess 5 false 0 0, .initiate 0 1 0x1234, .initiate 0 2 0, .recv 0 hdr 3, .drop 0 0 4,
      .freeSlot 0 0 5, .initiate 0 6 0]
    t.sessions.map (fun s => s.exchs.map (fun o => o.map (fun e => (e.id, e.role.isResponder)))) =
      [[none, some (0x1235, false), some (0x1234, true), some (0x1236, false)]] := by
  decide

/-! ## 6. The payload of a retransmission (`TxMessage::complete`, repo fix `C15-retransmission-rebuilt-differs`) -/

open TxGuard in
theorem sendLoop_some (c f : Nat) (ds : List Nat) :
    ∀ x ∈ (sendLoop { ctr := c, digest := some f } ds).1, x = (c, f) := by
  induction ds with
  | nil => intro x hx; simp [sendLoop] at hx
  | cons d ds ih =>
    intro x hx
    simp only [sendLoop, Entry.check] at hx
    by_cases hfd : f = d
    · subst hfd
      simp only [beq_self_eq_true, ↓reduceIte, List.mem_cons] at hx
      rcases hx with rfl | hx
      · rfl
      · exact ih x hx
    · have : (f == d) = false := by simpa using hfd
      simp [this] at hx

open TxGuard in
/-- **One payload per counter, whatever the builder does**: for every sequence of builder outputs
(first transmission and any number of rebuilds for retransmissions, idempotent or not), everything
`TxMessage::complete` hands to the transport for this message carries the message's counter and the
digest of the FIRST transmission. -/
theorem guard_one_payload_per_counter (c : Nat) (ds : List Nat) (x y : Nat × Nat)
    (hx : x ∈ (sendLoop { ctr := c } ds).1) (hy : y ∈ (sendLoop { ctr := c } ds).1) : x = y ∧ x.1 = c := by
  cases ds with
  | nil => simp [sendLoop] at hx
  | cons d ds =>
    have hall : ∀ z ∈ (sendLoop { ctr := c } (d :: ds)).1, z = (c, d) := by
      intro z hz
      simp only [sendLoop, Entry.check, ↓reduceIte, List.mem_cons] at hz
      rcases hz with rfl | hz
      · rfl
      · exact sendLoop_some c d ds z hz
    rw [hall x hx, hall y hy]
    exact ⟨rfl, rfl⟩

open TxGuard in
/-- an idempotent builder (every rebuild has the digest of the first output) is never refused and
every rebuild is sent -/
theorem guard_idempotent_never_refused (c d n : Nat) :
    sendLoop { ctr := c } (List.replicate (n + 1) d) = (List.replicate (n + 1) (c, d), false) := by
  have h : ∀ n, sendLoop { ctr := c, digest := some d } (List.replicate n d) = (List.replicate n (c, d), false) := by
    intro n
    induction n with
    | zero => rfl
    | succ n ih =>
      simp only [List.replicate_succ, sendLoop, Entry.check, beq_self_eq_true, ↓reduceIte]
      rw [ih]
  simp only [List.replicate_succ, sendLoop, Entry.check, ↓reduceIte]
  rw [h n]

open TxGuard in
/-- a builder whose `k+2`-th output is the first one that differs: the `k+1` identical messages are
sent, the differing one is not, the send loop ends with the refusal (nothing after it is sent either) -/
theorem guard_refuses_first_difference (c d d' k : Nat) (rest : List Nat) (hne : d ≠ d') :
    sendLoop { ctr := c } (List.replicate (k + 1) d ++ d' :: rest) = (List.replicate (k + 1) (c, d), true) := by
  have h : ∀ k, sendLoop { ctr := c, digest := some d } (List.replicate k d ++ d' :: rest) = (List.replicate k (c, d), true) := by
    intro k
    induction k with
    | zero =>
      have : (d == d') = false := by simpa using hne
      simp [sendLoop, Entry.check, this]
    | succ k ih =>
      simp only [List.replicate_succ, List.cons_append, sendLoop, Entry.check, beq_self_eq_true, ↓reduceIte]
      rw [ih]
  simp only [List.replicate_succ, List.cons_append, sendLoop, Entry.check, ↓reduceIte]
  rw [h k]

/-- non-vacuity: first transmission, one identical retransmission, then the builder produces something
else (e.g. Sigma2 after the node's operational certificate was replaced): two messages sent, refusal -/
example : TxGuard.sendLoop { ctr := 4711 } [9, 9, 8, 9] = ([(4711, 9), (4711, 9)], true) := by decide

end C15
