import RsMatterVerif.Model.Codec.BleRecovery
import RsMatterVerif.Lemmas.CodecBleAdv
/-! # Lemmas about the BLE network-recovery advertisement payload (`Model/Codec/BleRecovery.lean`) -/
namespace Codec.BleRecovery
open Codec

/-- a list of length 8 is its eight elements -/
theorem len8 (l : List Nat) (h : l.length = 8) : ∃ a b c d e f g i, l = [a, b, c, d, e, f, g, i] := by
  match l, h with
  | [a, b, c, d, e, f, g, i], _ => exact ⟨a, b, c, d, e, f, g, i, rfl⟩

/-- what `parseServiceData` answers on a payload of at least 11 bytes, in closed form -/
theorem parseServiceData_long (op v a b c d e f g i ad : Nat) (rest : List Nat) :
    parseServiceData (op :: v :: a :: b :: c :: d :: e :: f :: g :: i :: ad :: rest) =
      if op = OPCODE_NETWORK_RECOVERY then .ok (some { id := [a, b, c, d, e, f, g, i], additional := ad % 2 = 1 })
      else .ok none := by
  have hl : ¬ (op :: v :: a :: b :: c :: d :: e :: f :: g :: i :: ad :: rest).length < PAYLOAD_LEN := by
    simp only [List.length_cons, PAYLOAD_LEN]; omega
  unfold parseServiceData
  rw [if_neg hl]
  by_cases hop : op = OPCODE_NETWORK_RECOVERY
  · simp [hop, RBuf.index, RBuf.slice, RECOVERY_ID_LEN, bind, Except.bind, pure, Except.pure]
  · simp [hop, RBuf.index, bind, Except.bind, pure, Except.pure]

/-- **recovery advertisement: `parse_service_data (service_payload a) = a` and `parse_adv (iter a) = a`** -/
theorem parse_encode (a : Rec) (hwf : WF a) :
    parseServiceData (servicePayload a) = .ok (some a) ∧ parseAdv (encode a) = .ok (some a) := by
  obtain ⟨id, ad⟩ := a
  obtain ⟨a, b, c, d, e, f, g, i, rfl⟩ := len8 id hwf
  have hs : parseServiceData (servicePayload ⟨[a, b, c, d, e, f, g, i], ad⟩) = .ok (some ⟨[a, b, c, d, e, f, g, i], ad⟩) := by
    have : servicePayload ⟨[a, b, c, d, e, f, g, i], ad⟩ =
        OPCODE_NETWORK_RECOVERY :: 0 :: a :: b :: c :: d :: e :: f :: g :: i :: (if ad then 1 else 0) :: [] := rfl
    rw [this, parseServiceData_long]
    cases ad <;> simp
  refine ⟨hs, ?_⟩
  have hm : BleAdv.matterServiceData ((encode ⟨[a, b, c, d, e, f, g, i], ad⟩).length + 1) (encode ⟨[a, b, c, d, e, f, g, i], ad⟩)
      = .ok (some (servicePayload ⟨[a, b, c, d, e, f, g, i], ad⟩)) := by
    simp [encode, flagsRecord, serviceRecord, servicePayload, BleAdv.matterServiceData, BleAdv.splitAt, BleAdv.AD_TYPE_SERVICE_DATA_UUID16,
      BleAdv.MATTER_UUID16_LO, BleAdv.MATTER_UUID16_HI]
  simp only [parseAdv, hm, hs]

/-- **recovery advertisement: the parsers are total and never panic** (the indexes `payload[0]`,
`payload[2..10]`, `payload[10]` and the `try_into().unwrap()` are guarded by the length test) -/
theorem parseServiceData_np (p : List Nat) : NoPanic (parseServiceData p) := by
  by_cases hl : p.length < PAYLOAD_LEN
  · simp only [parseServiceData, if_pos hl]; exact NoPanic.ok _
  · match p, hl with
    | [], hl | [_], hl | [_, _], hl | [_, _, _], hl | [_, _, _, _], hl | [_, _, _, _, _], hl
    | [_, _, _, _, _, _], hl | [_, _, _, _, _, _, _], hl | [_, _, _, _, _, _, _, _], hl
    | [_, _, _, _, _, _, _, _, _], hl | [_, _, _, _, _, _, _, _, _, _], hl => simp [PAYLOAD_LEN] at hl
    | op :: v :: a :: b :: c :: d :: e :: f :: g :: i :: ad :: rest, _ =>
      rw [parseServiceData_long]
      split <;> exact NoPanic.ok _

theorem parseAdv_np (adv : List Nat) : NoPanic (parseAdv adv) := by
  unfold parseAdv
  obtain ⟨r, h⟩ := BleAdv.matterServiceData_ok adv
  rw [h]
  cases r with
  | none => exact NoPanic.ok _
  | some d => exact parseServiceData_np _

/-! ## refusal clauses -/

/-- a payload shorter than 11 bytes is not a recovery advertisement -/
theorem parse_rejects_short (p : List Nat) (h : p.length < PAYLOAD_LEN) : parseServiceData p = .ok none := by
  simp only [parseServiceData, if_pos h]

/-- a payload with another opcode (e.g. 0 = commissionable) is not a recovery advertisement -/
theorem parse_rejects_opcode (op : Nat) (rest : List Nat) (h : op ≠ OPCODE_NETWORK_RECOVERY) :
    parseServiceData (op :: rest) = .ok none := by
  by_cases hl : (op :: rest).length < PAYLOAD_LEN
  · exact parse_rejects_short _ hl
  · match rest, hl with
    | [], hl | [_], hl | [_, _], hl | [_, _, _], hl | [_, _, _, _], hl | [_, _, _, _, _], hl
    | [_, _, _, _, _, _], hl | [_, _, _, _, _, _, _], hl | [_, _, _, _, _, _, _, _], hl
    | [_, _, _, _, _, _, _, _, _], hl => simp [PAYLOAD_LEN] at hl
    | v :: a :: b :: c :: d :: e :: f :: g :: i :: ad :: rest, _ =>
      rw [parseServiceData_long, if_neg h]

/-- an advertisement without a Matter (UUID16 0xFFF6) service-data structure is refused -/
theorem parseAdv_rejects_no_matter (adv : List Nat) (h : BleAdv.matterServiceData (adv.length + 1) adv = .ok none) :
    parseAdv adv = .ok none := by
  simp only [parseAdv, h]

/-- soundness: whatever the parser accepts has the wire layout `01 vv id[8] ad …`, the id is eight
bytes taken verbatim and the flag is bit 0 of the byte after the id -/
theorem parse_some (p : List Nat) (r : Rec) (h : parseServiceData p = .ok (some r)) :
    WF r ∧ ∃ v ad rest, p = OPCODE_NETWORK_RECOVERY :: v :: (r.id ++ ad :: rest) ∧ r.additional = decide (ad % 2 = 1) := by
  by_cases hl : p.length < PAYLOAD_LEN
  · rw [parse_rejects_short p hl] at h; cases h
  · match p, hl with
    | [], hl | [_], hl | [_, _], hl | [_, _, _], hl | [_, _, _, _], hl | [_, _, _, _, _], hl
    | [_, _, _, _, _, _], hl | [_, _, _, _, _, _, _], hl | [_, _, _, _, _, _, _, _], hl
    | [_, _, _, _, _, _, _, _, _], hl | [_, _, _, _, _, _, _, _, _, _], hl => simp [PAYLOAD_LEN] at hl
    | op :: v :: a :: b :: c :: d :: e :: f :: g :: i :: ad :: rest, _ =>
      rw [parseServiceData_long] at h
      split at h
      · rename_i hop
        injection h with h; injection h with h; subst h
        exact ⟨rfl, v, ad, rest, by simp [hop], rfl⟩
      · cases h

/-- the two Matter advertisement kinds are separated by the opcode byte: the commissionable parser
refuses every recovery payload and the recovery parser refuses every commissionable payload -/
theorem kinds_disjoint (r : Rec) (a : BleAdv.Adv) :
    BleAdv.parseServiceData (servicePayload r) = .ok none ∧ parseServiceData (BleAdv.servicePayload a) = .ok none := by
  constructor
  · obtain ⟨id, ad⟩ := r
    simp only [servicePayload, OPCODE_NETWORK_RECOVERY]
    by_cases hl : (([1, 0] : List Nat) ++ id ++ [if ad = true then 1 else 0]).length < 8
    · simp only [BleAdv.parseServiceData, if_pos hl]
    · simp only [BleAdv.parseServiceData, if_neg hl]
      match id, hl with
      | [], hl | [_], hl | [_, _], hl | [_, _, _], hl | [_, _, _, _], hl => simp at hl
      | a :: b :: c :: d :: e :: rest, _ =>
        match rest with
        | [] => simp
        | _ :: _ => simp
  · exact parse_rejects_short _ (by simp [BleAdv.servicePayload, PAYLOAD_LEN])

example : WF { id := [1, 2, 3, 4, 5, 6, 7, 8], additional := false } := rfl

end Codec.BleRecovery
