import Driver.Util
/-! Driver for C05: not built yet. -/
namespace Driver.C05

def run : IO UInt32 := do
  IO.eprintln "C05: driver not built yet"
  return 2

end Driver.C05
