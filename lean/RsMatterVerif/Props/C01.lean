/-! # C01 — property theorems (not built yet) -/
