import RsMatterVerif.Model.SecureMsg
import Driver.Util
/-! Driver for C03: replays the harness' set-up (fabrics with group keys, sessions), encodings and
deliveries on `Model/SecureMsg` (ideal AEAD table filled with the cipher texts the real code
produced; operational group keys symbolic, their 16-bit session ids as reported) and evaluates the
specification — *handed on only if authentic for that session (group: under a key mapped to the
addressed group); otherwise no session, no counter store entry is touched and nothing secured is
sent; what was encoded is what is decoded* — on the implementation's own answers. -/
namespace Driver.C03
open SecureMsg

def hexDigit (c : Char) : Nat :=
  if '0' ≤ c ∧ c ≤ '9' then c.toNat - '0'.toNat
  else if 'a' ≤ c ∧ c ≤ 'f' then c.toNat - 'a'.toNat + 10
  else if 'A' ≤ c ∧ c ≤ 'F' then c.toNat - 'A'.toNat + 10
  else 0

def hexNat (s : String) : Nat := s.foldl (fun a c => a * 16 + hexDigit c) 0

def unhex (s : String) : Bytes :=
  if s = "-" then [] else
  let rec go : List Char → Bytes
    | a :: b :: r => (hexDigit a * 16 + hexDigit b) :: go r
    | _ => []
  go s.toList

def hexChar (n : Nat) : Char := if n < 10 then Char.ofNat (48 + n) else Char.ofNat (87 + n)

def toHexNat (n : Nat) : String :=
  if n = 0 then "0" else
  let rec go (fuel n : Nat) (acc : List Char) : List Char :=
    match fuel with
    | 0 => acc
    | f + 1 => if n = 0 then acc else go f (n / 16) (hexChar (n % 16) :: acc)
  String.ofList (go 20 n [])

def hexBytes (b : Bytes) : String :=
  if b.isEmpty then "-" else String.ofList (b.flatMap fun x => [hexChar (x / 16), hexChar (x % 16)])

abbrev KV := List (String × String)

def kvOf (ws : List String) : KV :=
  ws.filterMap fun w =>
    match w.splitOn "=" with
    | k :: v :: rest => some (k, "=".intercalate (v :: rest))
    | _ => none

def KV.get (m : KV) (k : String) : Option String := (m.find? (·.1 = k)).map (·.2)
def KV.num (m : KV) (k : String) : Nat := ((m.get k).bind String.toNat?).getD 0
def KV.hexOpt (m : KV) (k : String) : Option Nat :=
  match m.get k with
  | none => none
  | some "-" => none
  | some v => some (hexNat v)

/-- `<n>` UDP [::1]:1000+n, `t<n>` TCP, `b<n>` BTP, `v<n>` UDP 127.0.0.n:1000, `m<n>` UDP [::ffff:127.0.0.n]:1000 -/
def addrOf (s : String) : Addr :=
  match s.toList with
  | 't' :: r => .tcp (.v6 1) (1000 + (String.ofList r).toNat?.getD 0)
  | 'b' :: r => .btp ((String.ofList r).toNat?.getD 0)
  | 'v' :: r => .udp (.v4 (127 * 16777216 + (String.ofList r).toNat?.getD 0)) 1000
  | 'm' :: r => .udp (.v6 (65535 * 4294967296 + 127 * 16777216 + (String.ofList r).toNat?.getD 0)) 1000
  | _ => .udp (.v6 1) (1000 + s.toNat?.getD 0)

def addrStr : Addr → String
  | .tcp _ p => s!"t{p - 1000}"
  | .btp a => s!"b{a}"
  | .udp (.v4 n) _ => s!"v{n % 256}"
  | .udp (.v6 n) p => if n / 4294967296 = 65535 then s!"m{n % 256}" else s!"{p - 1000}"

def modeOf (s : String) : Mode :=
  match s.toList with
  | 'P' :: _ => .pase
  | 'C' :: _ => .case
  | 'G' :: r =>
    match (String.ofList r).splitOn "." with
    | [f, g] => .group (f.toNat?.getD 0) (g.toNat?.getD 0)
    | _ => .group 1 ((String.ofList r).toNat?.getD 0)
  | _ => .plain

def modeStr : Mode → String
  | .plain => "N" | .pase => "P" | .case => "C" | .group f g => s!"G{f}.{g}"

def exchsOf (s : String) : List Exch :=
  (s.splitOn ",").filterMap fun e =>
    let cs := e.toList
    if cs.length < 2 then none else
    let id := (String.ofList cs.dropLast).toNat?.getD 0
    some { id := id, responder := cs.getLast? != some 'I' }

/-- a directly installed key number `k` is the model key `2 k` (operational group keys are odd) -/
def sessOf (m : KV) : Session :=
  { addr := addrOf ((m.get "a").getD "0"), localNode := (m.hexOpt "ln").getD 0, peerNode := m.hexOpt "pn",
    decKey := 2 * m.num "dk", encKey := 2 * m.num "ek", localSid := m.num "ls", peerSid := m.num "ps",
    txCtr := m.num "tx" % 268435456, mode := modeOf ((m.get "m").getD "N"),
    exchs := (match m.get "ex" with | some e => exchsOf e | none => []),
    expired := m.num "expired" = 1 }

def optStr : Option Nat → String
  | some n => toString n
  | none => "-"

def exSum (e : Exch) : String :=
  s!"{e.id}/{if e.responder then "R" else "I"}/{optStr e.retrans}/{optStr e.ack}"

def payloadOf (len seed : Nat) : Bytes :=
  (List.range len).map fun i => (seed * 31 + i * 7 + (i / 256) * 13) % 256

def plainStr (p : PlainHdr) : String :=
  s!"{p.flags}:{p.sessId}:{p.secFlags}:{p.ctr}:{toHexNat p.src}:{toHexNat p.dst}"

def hdrStr (h : PacketHdr) : String :=
  let x := h.proto
  s!"{plainStr h.plain}/{x.exchFlags}:{x.opcode}:{x.exchId}:{x.protoId}:{x.vendor}:{x.ack}"

structure Dg where
  name : String
  bytes : Bytes
  hdrLen : Nat

structure St where
  w : World := {}
  now : Nat := 0
  /-- fabrics in use: harness number, model fabric -/
  fabs : List (Nat × FabricM) := []
  /-- operational key ↦ group session id, as derived by the real KDF -/
  sids : List (Nat × Nat) := []
  /-- model key ↦ name used by the harness (`k<n>` / `g<fab no>:<epoch>`) -/
  keyNames : List (Nat × String) := []
  /-- specification side: ordinal ↦ the session as installed / as the implementation described it
  when it created it (keys, peer id never change) -/
  decl : List (Nat × Session) := []
  installed : List Nat := []
  nextOrd : Nat := 0
  senders : List (String × Session) := []
  senderSid : List (String × Nat) := []
  dgs : List Dg := []
  tbl : Aead := []
  /-- implementation side: (ordinal, state hash) in table order; summaries by ordinal -/
  hashes : List (Nat × String) := []
  sums : List (Nat × String) := []
  gHash : String := ""
  gSum : String := "clock=0;[]"

def St.env (st : St) : Env :=
  { t := st.tbl, fabs := st.fabs.map (·.2), gsid := fun k => ((st.sids.find? (·.1 = k)).map (·.2)).getD 70000 }

def St.keyName (st : St) (k : Nat) : String := ((st.keyNames.find? (·.1 = k)).map (·.2)).getD "?"
def St.keyOfName (st : St) (n : String) : Nat := ((st.keyNames.find? (·.2 = n)).map (·.1)).getD 0

def identStr (st : St) (s : Session) : String :=
  let kn (k : Nat) := if s.isEncrypted then st.keyName k else "-"
  s!"id={s.localSid}:{s.peerSid}:{toHexNat s.localNode}:{match s.peerNode with | some n => toHexNat n | none => "-"}:{modeStr s.mode}:{kn s.decKey}:{kn s.encKey}:{addrStr s.addr}"

def sessSummary (st : St) (s : Session) (hidden : Bool) : String :=
  let tx := if hidden then "?" else toString s.txCtr
  let base := s!"rx={s.rx.max}:{s.rx.bitmap}:{if s.rx.synced then 1 else 0};tx={tx};ex=[{",".intercalate (s.exchs.map exSum)}]"
  if hidden then s!"{base};{identStr st s}" else base

def gstoreStr (g : Dedup.GStore) : String :=
  let es := g.entries.map fun e =>
    s!"{e.fab}:{toHexNat e.node}:{e.rx.max}:{e.rx.bitmap}:{if e.rx.synced then 1 else 0}:{e.lastUsed}"
  s!"clock={g.clock};[{",".intercalate es}]"

def flipBit (d : Bytes) (bit : Nat) : Option Bytes :=
  if bit / 8 < d.length then
    some (d.modify (bit / 8) (fun b => b ^^^ (1 <<< (bit % 8))))
  else none

def xorAt (d : Bytes) (off : Nat) (x : Bytes) : Bytes :=
  (List.range d.length).zipWith (fun i b => if off ≤ i ∧ i < off + x.length then b ^^^ (x.getD (i - off) 0) else b) d

def mutate (st : St) (d : Dg) (m : String) : Option Bytes :=
  match m.splitOn ":" with
  | ["none"] => some d.bytes
  | ["flip", b] => b.toNat?.bind (flipBit d.bytes)
  | ["trunc", n] => n.toNat?.map (d.bytes.take ·)
  | ["ext", h] => some (d.bytes ++ unhex h)
  | ["xor", off, h] => off.toNat?.map (xorAt d.bytes · (unhex h))
  | ["hdr", other] =>
    (st.dgs.find? (·.name = other)).map fun o => o.bytes.take o.hdrLen ++ d.bytes.drop d.hdrLen
  | _ => none

structure ImplOut where
  head : String
  now : Nat
  /-- (ordinal, hash) in table order -/
  hashes : List (Nat × String)
  lru : List Nat
  gHash : String
  /-- changed sessions: (table index, summary) -/
  changes : List (Nat × String)
  gSum : Option String
  replies : List String

def listOf (v : String) : List String := if v = "-" then [] else v.splitOn ","

def parseOut (out : String) : ImplOut :=
  let ws := words out
  let isChange (w : String) : Bool :=
    match w.toList with
    | 'C' :: r => !(r.takeWhile Char.isDigit).isEmpty && (r.dropWhile Char.isDigit).head? == some '='
    | _ => false
  let isMeta (w : String) : Bool :=
    w.startsWith "T=" || w.startsWith "S=" || w.startsWith "L=" || w.startsWith "G=" || w.startsWith "GS="
      || w.startsWith "R=" || isChange w
  let head := ws.filter (fun w => !isMeta w)
  let val (p : String) : Option String := (ws.find? (·.startsWith p)).map fun w => (w.drop p.length).toString
  let hashes := match val "S=" with
    | some v => (listOf v).filterMap fun e =>
        match e.splitOn ":" with
        | [o, h] => o.toNat?.map (·, h)
        | _ => none
    | none => []
  let lru := match val "L=" with
    | some v => (listOf v).map (·.toNat?.getD 0)
    | none => []
  let cs := ws.filterMap fun w =>
    if isChange w then
      match ((w.drop 1).toString).splitOn "=" with
      | i :: rest => i.toNat?.map (·, "=".intercalate rest)
      | _ => none
    else none
  { head := " ".intercalate head, now := ((val "T=").bind String.toNat?).getD 0, hashes, lru,
    gHash := (val "G=").getD "", changes := cs, gSum := val "GS=",
    replies := match val "R=" with | some v => v.splitOn ";" | none => [] }

/-- parse the decoded part `h=<plain>/<proto> p=<hex>` of an accepted delivery -/
def parseAccepted (head : String) : Option (PlainHdr × ProtoHdr × Bytes) :=
  let m := kvOf (words head)
  match m.get "h", m.get "p" with
  | some h, some p =>
    match h.splitOn "/" with
    | [a, b] =>
      match a.splitOn ":", b.splitOn ":" with
      | [pf, sid, sf, ctr, src, dst], [xf, op, xid, pid, vid, ack] =>
        let n (s : String) := s.toNat?.getD 0
        some ({ flags := n pf, sessId := n sid, secFlags := n sf, ctr := n ctr, src := hexNat src, dst := hexNat dst },
              { exchFlags := n xf, opcode := n op, exchId := n xid, protoId := n pid, vendor := n vid, ack := n ack },
              unhex p)
      | _, _ => none
    | _ => none
  | _, _ => none

def outcomeStr : Outcome → String
  | .err e => s!"err:{e.name}"
  | .ok _ nw h p => s!"ok:{if nw then "new" else "old"} h={hdrStr h} p={hexBytes p}"

/-- the session the implementation says it created: `…;id=<lsid>:<psid>:<lnode>:<pnode>:<mode>:<dec>:<enc>:<addr>` -/
def declOfSummary (st : St) (sum : String) : Option Session :=
  match (sum.splitOn ";").find? (·.startsWith "id=") with
  | none => none
  | some w =>
    match ((w.drop 3).toString).splitOn ":" with
    | [ls, ps, ln, pn, mode, dk, ek, a] =>
      some { addr := addrOf a, localNode := hexNat ln, peerNode := if pn = "-" then none else some (hexNat pn),
             decKey := st.keyOfName dk, encKey := st.keyOfName ek, localSid := ls.toNat?.getD 0,
             peerSid := ps.toNat?.getD 0, mode := modeOf mode }
    | _ => none

def replyStr (st : St) (r : Reply) (hideCtr : Bool) : String :=
  let key := match r.key with | some k => st.keyName k | none => "-"
  let h := if hideCtr then { r.hdr with plain := { r.hdr.plain with ctr := 0 } } else r.hdr
  s!"{addrStr r.to}|{key}|{hdrStr h}|{hexBytes r.payload}"

/-- the implementation's reply with the counter blanked (for sessions whose send counter is random) -/
def blankCtr (r : String) : String :=
  match r.splitOn "|" with
  | [a, k, h, p] =>
    match h.splitOn "/" with
    | [pl, px] =>
      match pl.splitOn ":" with
      | [pf, sid, sf, _, src, dst] => s!"{a}|{k}|{pf}:{sid}:{sf}:0:{src}:{dst}/{px}|{p}"
      | _ => r
    | _ => r
  | _ => r

def replyExchId (r : String) : Nat :=
  match r.splitOn "|" with
  | [_, _, h, _] =>
    match h.splitOn "/" with
    | [_, px] => match px.splitOn ":" with
      | _ :: _ :: xid :: _ => xid.toNat?.getD 0
      | _ => 0
    | _ => 0
  | _ => 0

/-- The property's specification evaluated on the implementation's answer to one delivery.
`dg` = the bytes delivered, `old/new` = (ordinal, state hash) lists before / after. -/
def oracle (st : St) (dg : Bytes) (io : ImplOut) (full : Bool) : Option String :=
  let old := st.hashes
  let new := io.hashes
  let E := st.env
  let declOf (o : Nat) : Option Session := (st.decl.find? (·.1 = o)).map (·.2)
  let isSecure (o : Nat) : Bool := match declOf o with | some s => s.isEncrypted | none => false
  let authentic (o : Nat) : Bool := match declOf o with | some s => authenticForB st.tbl s dg | none => false
  let hashOf (l : List (Nat × String)) (o : Nat) : Option String := (l.find? (·.1 = o)).map (·.2)
  let gauth := groupAuthenticB E dg
  let claimsSecure := match PlainHdr.decode dg with | .ok (h, _) => h.isEncrypted | .error _ => true
  let anyAuth := old.any fun (o, _) => isSecure o && authentic o
  let created := new.filter fun (o, _) => (hashOf old o).isNone
  let changed := new.filter fun (o, h) => match hashOf old o with | some h' => h' != h | none => false
  if io.head.startsWith "panic" then some "panic while processing a datagram" else
  -- (1) a secure session for which the datagram is not authentic keeps its counters, exchanges and
  --     keys — and stays in the table — when the datagram claims to be a secured one and is no
  --     authentic group message either (those two may evict an idle session of a full table)
  match old.find? (fun (o, h) => isSecure o && !authentic o && claimsSecure && !gauth && hashOf new o != some h) with
  | some (o, _) =>
    some s!"state of secure session #{o} changed by a datagram that is not authentic for it{if (hashOf new o).isNone then " (session removed)" else ""}"
  | none =>
    -- (1') whatever else happens, a session that is not removed and for which the datagram is not authentic is unchanged
    match changed.find? (fun (o, _) => isSecure o && !authentic o) with
    | some (o, _) => some s!"state of secure session #{o} changed by a datagram that is not authentic for it"
    | none =>
    -- (3) the group counter store is consulted only for an authentic group message (one that is
    --     authentic under a key mapped to the addressed group, or for a live group session of its sender)
    let grpSessAuth := old.any fun (o, _) =>
      match declOf o with | some s => s.isGroup && authenticForB st.tbl s dg | none => false
    if io.gSum.isSome && !gauth && !grpSessAuth then some "group counter store changed by a datagram that is no authentic group message" else
    -- (4) a session comes into existence only for an authentic group message or an unsecured datagram
    if !created.isEmpty && claimsSecure && !gauth then some "a session was created by a secured datagram that is no authentic group message" else
    -- (5) a datagram that is authentic for nothing makes the node send at most an unsecured SessionNotFound
    let badReply := full && claimsSecure && !anyAuth && !gauth &&
      (io.replies.length > 1 || io.replies.any fun r =>
        match r.splitOn "|" with
        | [_, k, _, p] => k != "-" || unhex p != statusReport GC_FAILURE SC_SESSION_NOT_FOUND []
        | _ => true)
    if badReply then some s!"reply to a datagram that is authentic for nothing: {io.replies}" else
    let handedOn := io.head.startsWith "ok" || io.head.startsWith "deliver"
    if !handedOn then none else
    -- (2) handed on: to exactly one session; if that is a secure one the datagram is authentic for it
    --     (a new group session: authentic under a key mapped to the addressed group) and the decoded
    --     header fields and payload are the encoded ones
    match changed ++ created with
    | [(o, _)] =>
      let isNew := (hashOf old o).isNone
      match parseAccepted io.head with
      | none => some "accepted delivery without decoded header"
      | some (pl, px, payload) =>
        if isNew then
          if !pl.isEncrypted then none else
          if !gauth then some "group message handed on although not authentic under a key of the addressed group" else
          let okRec := st.tbl.any fun rec =>
            dg == rec.aad ++ rec.ct && rec.aad == pl.encode && rec.pt == px.encode ++ payload
          if okRec then none else some s!"decoded header/payload differ from what was encoded (new group session #{o})"
        else
        if !isSecure o then none else
        if !authentic o then some s!"handed to secure session #{o} although not authentic for it" else
        -- a group data message that reaches an ephemeral group session (one the node created for an
        -- earlier message of the sender) must still be authentic under a key mapped to the group it addresses
        if pl.isGroup && !pl.isControl && !st.installed.contains o && !gauth then
          some s!"group data message handed on through session #{o} although no key mapped to the addressed group authenticates it" else
        match declOf o with
        | some s =>
          -- over a reliable transport the R and A flags are lowered on receipt (`adjust_reliability`)
          let okRec := st.tbl.any fun rec =>
            rec.key == s.decKey && dg == rec.aad ++ rec.ct && rec.aad == pl.encode
              && ((ProtoHdr.decode rec.pt).toOption.map fun (p, pay) => (p.adjustReliability s.addr, pay)) == some (px, payload)
          if okRec then none else some s!"decoded header/payload differ from what was encoded (session #{o})"
        | none => none
    | [] =>
      -- a group data message is judged by the per-sender group counter store, not by the session's
      -- window: what must have moved is the store, and the datagram must be an authentic group message
      match parseAccepted io.head with
      | some (pl, _, _) =>
        if pl.isGroup && !pl.isControl then
          if io.gSum.isNone then some "group data message handed on but neither a session nor the group counter store moved"
          else if gauth || grpSessAuth then none
          else some "group data message handed on although it is no authentic group message"
        else some "handed on but no session state moved (receive window not updated)"
      | none => some "accepted delivery without decoded header"
    | l => some s!"handed on but several sessions changed: {l.map (·.1)}"

def step (st : St) (line : String) : St × String :=
  let (op, out) := splitArrow line
  if out = "skip" then (st, "ok") else
  match words op with
  | "case" :: _ => ({}, "case")
  | ["f", no] =>
    let m := kvOf (words out)
    if !out.startsWith "ok" then (st, "DIS ok") else
    let f : FabricM := { fabIdx := m.num "idx", nodeId := (m.hexOpt "node").getD 0, cfid := (m.hexOpt "cfid").getD 0 }
    ({ st with fabs := st.fabs ++ [(no.toNat?.getD 0, f)] }, "ok")
  | "ks" :: rest =>
    let m := kvOf rest
    let mo := kvOf (words out)
    let no := m.num "f"
    match st.fabs.find? (·.1 = no) with
    | none => (st, if out.startsWith "err" then "ok" else "DIS err NoFabric")
    | some (_, f) =>
      if !out.startsWith "ok" then (st, s!"BAD key set refused: {out}") else
      let es := (listOf ((mo.get "e").getD "-")).map (·.toNat?.getD 0)
      let ss := (listOf ((mo.get "sid").getD "-")).map (·.toNat?.getD 0)
      -- epoch key number `k` is the 128-bit key `k` (distinct numbers, distinct keys)
      let ks : KeySetM := { id := m.num "id", epochKeys := es }
      let sets' : List KeySetM :=
        if f.keySets.any (fun x => x.id == ks.id) then f.keySets.map (fun x => if x.id == ks.id then ks else x)
        else f.keySets ++ [ks]
      let f' := { f with keySets := sets' }
      let newSids := (es.zip ss).map fun (e, s) => (opKey e f.cfid, s)
      let newNames := es.map fun e => (opKey e f.cfid, s!"g{no}.{e}")
      ({ st with fabs := st.fabs.map (fun x => if x.1 = no then (no, f') else x),
                 sids := newSids ++ st.sids, keyNames := newNames ++ st.keyNames }, "ok")
  | "gm" :: rest =>
    let m := kvOf rest
    let no := m.num "f"
    if !out.startsWith "ok" then (st, s!"BAD mapping refused: {out}") else
    ({ st with fabs := st.fabs.map fun x =>
        if x.1 = no then (no, { x.2 with keyMap := x.2.keyMap ++ [(m.num "g", m.num "ks")] }) else x }, "ok")
  | ["tick", n] => ({ st with now := st.now + n.toNat?.getD 0 }, "ok")
  | "s" :: rest =>
    let m := kvOf rest
    let s := sessOf m
    let o := st.nextOrd
    let st' := { st with w := { st.w with node := st.w.node ++ [s], lru := st.w.lru ++ [st.now] },
                         decl := st.decl ++ [(o, s)], installed := st.installed ++ [o], nextOrd := o + 1,
                         keyNames := (s.encKey, s!"k{m.num "ek"}") :: st.keyNames }
    match words out with
    | ["ok", sum, h] =>
      let st' := { st' with hashes := st.hashes ++ [(o, (h.drop 1).toString)], sums := st.sums ++ [(o, sum)] }
      if sum = sessSummary st s false then (st', "ok") else (st', s!"DIS {sessSummary st s false}")
    | _ => (st', s!"DIS ok {sessSummary st s false}")
  | "t" :: name :: rest =>
    let m := kvOf rest
    let s := sessOf m
    match m.get "gk" with
    | some gk =>
      match gk.splitOn ":" with
      | [fno, e] =>
        match st.fabs.find? (·.1 = fno.toNat?.getD 0) with
        | none => (st, if out.startsWith "err" then "ok" else "DIS err NoFabric")
        | some (_, f) =>
          let k := opKey (e.toNat?.getD 0) f.cfid
          let sid := (kvOf (words out)).num "sid"
          let s := { s with decKey := k, encKey := k }
          ({ st with senders := (name, s) :: st.senders.filter (·.1 ≠ name),
                     senderSid := (name, sid) :: st.senderSid.filter (·.1 ≠ name),
                     sids := if st.sids.any (·.1 = k) then st.sids else (k, sid) :: st.sids },
           if out.startsWith "ok" then
             -- the same key must always have the same session id
             (match st.sids.find? (·.1 = k) with
              | some (_, s0) => if s0 = sid then "ok" else "DIS group session id differs for the same key"
              | none => "ok")
           else "DIS ok")
      | _ => (st, "BAD gk")
    | none =>
      ({ st with senders := (name, s) :: st.senders.filter (·.1 ≠ name) }, if out = "ok" then "ok" else "DIS ok")
  | "x" :: name :: rest =>
    let m := kvOf rest
    match st.senders.find? (·.1 = (m.get "t").getD "") with
    | none => (st, "DIS skip")
    | some (tn, s) =>
      let sidv : Option Nat :=
        match m.get "sid" with
        | some v => if v.startsWith "@" then (st.senderSid.find? (·.1 = (v.drop 1).toString)).map (·.2) else v.toNat?
        | none => some 0
      match sidv with
      | none => (st, "DIS skip")
      | some sidn =>
      let h0 : PacketHdr :=
        { plain := { flags := m.num "pf", sessId := sidn, secFlags := m.num "sf", ctr := m.num "ctr",
                     src := (m.hexOpt "src").getD 0, dst := (m.hexOpt "dst").getD 0 },
          proto := { exchFlags := m.num "xf", opcode := m.num "op", exchId := m.num "xid", protoId := m.num "pid",
                     vendor := m.num "vid", ack := m.num "ack" } }
      if !fromBits MSGFLAGS_ALL h0.plain.flags || !fromBits SECFLAGS_ALL h0.plain.secFlags
          || !fromBits EXCHFLAGS_ALL h0.proto.exchFlags then
        (st, if out = "err BadFlags" then "ok" else "DIS err BadFlags")
      else
      let pre : Except Err (PacketHdr × Session) :=
        if m.get "k" = some "pre" then s.preSend h0 else .ok (h0, s)
      match pre with
      | .error e => (st, if out = s!"err {e.name}" then "ok" else s!"DIS err {e.name}")
      | .ok (h, s') =>
        let scBytes : Bytes := match m.get "sc" with
          | some v => match v.splitOn ":" with
            | [g, p, c] => le 2 (g.toNat?.getD 0) ++ le 4 (p.toNat?.getD 0) ++ le 2 (c.toNat?.getD 0)
            | _ => []
          | none => []
        let payload := scBytes ++ payloadOf (m.num "pl") (m.num "ps")
        let st := { st with senders := (tn, s') :: st.senders.filter (·.1 ≠ tn) }
        match words out with
        | ["dg", hx] =>
          let d := unhex hx
          let plainBytes := h.plain.encode
          let ct := d.drop plainBytes.length
          let (mdg, rec) := s'.encode h payload ct
          let lenOk := match rec with
            | some r => d.length = plainBytes.length + r.pt.length + TAG_LEN
            | none => true
          if mdg != d || !lenOk then
            (st, s!"DIS dg {hexBytes plainBytes}.. len={plainBytes.length + (h.proto.encode ++ payload).length + (if rec.isSome then TAG_LEN else 0)}")
          else
            let dgRec : Dg := { name := name, bytes := d, hdrLen := plainBytes.length }
            let st := { st with dgs := dgRec :: st.dgs.filter (·.name ≠ name) }
            match rec with
            | some r =>
              -- ideal-AEAD assumption made explicit: cipher texts of distinct encryptions are distinct
              if st.tbl.any (fun q => q.ct == r.ct && q != r) then (st, "BAD cipher text collision (ideal-AEAD assumption)")
              else ({ st with tbl := r :: st.tbl }, "ok")
            | none => (st, "ok")
        | _ => (st, s!"DIS dg {hexBytes h.plain.encode}..")
  | kind :: name :: rest =>
    if kind != "r" && kind != "h" then (st, "BAD op") else
    let full := kind == "h"
    let m := kvOf rest
    match st.dgs.find? (·.name = name) with
    | none => (st, "DIS skip")
    | some d =>
      match mutate st d ((m.get "m").getD "none") with
      | none => (st, "DIS skip")
      | some bytes =>
        let io := parseOut out
        let from_ := addrOf ((m.get "a").getD "0")
        let E := st.env
        -- sessions the implementation created: remember how it describes them (specification side)
        let newDecl := io.changes.filterMap fun (i, sum) =>
          match io.hashes[i]? with
          | some (o, _) => if st.decl.any (·.1 = o) then none else (declOfSummary st sum).map (o, ·)
          | none => none
        let ora := oracle st bytes io full
        let sums' := io.changes.foldl (fun acc (i, s) =>
          match io.hashes[i]? with
          | some (o, _) => (o, s) :: acc.filter (·.1 ≠ o)
          | none => acc) st.sums
        let exchId := match io.replies.getLast? with | some r => replyExchId r | none => 0
        let (mhead, mreplies, w') :=
          if full then
            let (res, w') := handleRx E st.now exchId st.w from_ bytes
            let head := match res.failed with
              | some e => s!"fail:{e.name}"
              | none =>
                if res.deliver then
                  match (receive E st.now st.w from_ bytes).1 with
                  | .ok _ _ h p => s!"deliver h={hdrStr h} p={hexBytes p}"
                  | .err _ => "deliver"
                else "consumed"
            (head, res.replies, w')
          else
            let (o, w') := receive E st.now st.w from_ bytes
            (outcomeStr o, [], w')
        let hidden (i : Nat) : Bool := match io.hashes[i]? with | some (o, _) => !st.installed.contains o | none => true
        let st1 := { st with decl := st.decl ++ newDecl }
        let msums := (List.range w'.node.length).map fun i =>
          match w'.node[i]? with
          | some s => sessSummary st1 s (hidden i)
          | none => ""
        let isums := io.hashes.map fun (o, _) => ((sums'.find? (·.1 = o)).map (·.2)).getD ""
        let gsum' := io.gSum.getD st.gSum
        -- replies: a reply on a session with a random send counter is compared with the counter blanked
        let hideCtrOf (r : Reply) : Bool :=
          match r.via with
          | none => false
          | some i =>
            -- written on a session the implementation created itself (random send counter)?
            match st.hashes[i]? with
            | some (o, _) => !st.installed.contains o
            | none => true
        let mrs := mreplies.map fun r => replyStr st1 r (hideCtrOf r)
        let irs := (io.replies.zip (mreplies.map hideCtrOf ++ List.replicate io.replies.length false)).map fun (r, hd) => if hd then blankCtr r else r
        let st' := { st1 with w := w', hashes := io.hashes, sums := sums', gHash := io.gHash, gSum := gsum',
                              nextOrd := io.hashes.foldl (fun a (o, _) => max a (o + 1)) st.nextOrd }
        match ora with
        | some why => (st', s!"ORA {why}")
        | none =>
          if io.now != st.now then (st', s!"BAD clock: harness says {io.now}, driver {st.now}")
          else if mhead != io.head then (st', s!"DIS {mhead}")
          else if msums != isums then (st', s!"DIS state {msums}")
          else if w'.lru != io.lru then (st', s!"DIS last_use {w'.lru}")
          else if gstoreStr w'.gstore != gsum' then (st', s!"DIS gstore {gstoreStr w'.gstore}")
          else if mrs != irs then (st', s!"DIS replies {mrs}")
          else (st', "ok")
  | _ => (st, "BAD op")

def run : IO UInt32 := Driver.runLoop ({} : St) step

end Driver.C03
