import RsMatterVerif.Model.Codec.MdnsService
import RsMatterVerif.Lemmas.CodecMdnsRound
/-!
# What a Matter node publishes over mDNS is a legal service description (`Model/Codec/MdnsService.lean`)

so the message round trip `Host::broadcast → parse_into_answer` applies to it for every value of the fields.
-/
namespace Codec.Mdns

/-- ASCII only -/
def Ascii (l : List Nat) : Prop := ∀ b ∈ l, b < 128 ∧ b ≠ 0x3D

theorem ascii_valid (l : List Nat) (h : ∀ b ∈ l, b < 128) : validUtf8 l = true := by
  induction l with
  | nil => rfl
  | cons b r ih =>
    rw [validUtf8.eq_def]
    simp only
    rw [if_pos (h b (by simp))]
    exact ih (fun x hx => h x (by simp [hx]))

theorem decDigits_spec : ∀ (f n : Nat) (acc : List Nat), (∀ b ∈ acc, 48 ≤ b ∧ b ≤ 57) →
    (∀ b ∈ decDigits f n acc, 48 ≤ b ∧ b ≤ 57) ∧ (decDigits f n acc).length ≤ acc.length + f ∧
    (1 ≤ f → acc.length + 1 ≤ (decDigits f n acc).length) := by
  intro f
  induction f with
  | zero => intro n acc h; exact ⟨h, by simp [decDigits], by omega⟩
  | succ f ih =>
    intro n acc h
    unfold decDigits
    simp only
    have hacc : ∀ b ∈ (48 + n % 10) :: acc, 48 ≤ b ∧ b ≤ 57 := by
      intro b hb
      simp only [List.mem_cons] at hb
      rcases hb with rfl | hb
      · omega
      · exact h b hb
    split
    · exact ⟨hacc, by simp only [List.length_cons]; omega, fun _ => by simp⟩
    · obtain ⟨a, b, c⟩ := ih (n / 10) _ hacc
      simp only [List.length_cons] at b c
      refine ⟨a, by omega, fun _ => ?_⟩
      cases f with
      | zero => simp [decDigits]
      | succ f => have := c (by omega); omega

theorem decimal_digits (n : Nat) : (∀ b ∈ decimal n, 48 ≤ b ∧ b ≤ 57) ∧ 1 ≤ (decimal n).length ∧ (decimal n).length ≤ 20 := by
  obtain ⟨a, b, c⟩ := decDigits_spec 20 n [] (by intro b hb; cases hb)
  exact ⟨a, by have := c (by omega); simpa [decimal] using this, by simpa [decimal] using b⟩

theorem hex16_length (n : Nat) : (hex16 n).length = 16 := by simp [hex16]

theorem hex16_chars (n : Nat) : ∀ b ∈ hex16 n, b < 128 ∧ b ≠ 0x3D := by
  intro b hb
  simp only [hex16, List.mem_map] at hb
  obtain ⟨i, _, rfl⟩ := hb
  unfold hexUpper
  have : n / 16 ^ (15 - i) % 16 < 16 := Nat.mod_lt _ (by omega)
  split <;> omega

theorem decimal_chars (n : Nat) : ∀ b ∈ decimal n, b < 128 ∧ b ≠ 0x3D := by
  intro b hb
  have := (decimal_digits n).1 b hb
  omega

theorem optDec_chars (o : Option Nat) : ∀ b ∈ optDec o, b < 128 ∧ b ≠ 0x3D := by
  cases o with
  | none => intro b hb; cases hb
  | some x => exact decimal_chars x

theorem optDec_length (o : Option Nat) : (optDec o).length ≤ 20 := by
  cases o with
  | none => simp [optDec]
  | some x => exact (decimal_digits x).2.2

/-- a TXT pair as `BroadcastWF.txt` wants it -/
def TxtOk (kv : List Nat × List Nat) : Prop :=
  kv.1.length + kv.2.length + 1 ≤ 255 ∧ 0x3D ∉ kv.1 ∧ validUtf8 kv.1 = true ∧ validUtf8 kv.2 = true

theorem txtOk_ascii (k v : List Nat) (hk : k.length ≤ 5) (hk' : ∀ b ∈ k, b < 128 ∧ b ≠ 0x3D) (hv : v.length ≤ 249)
    (hv' : validUtf8 v = true) : TxtOk (k, v) :=
  ⟨by simp only; omega, fun h => (hk' _ h).2 rfl, ascii_valid k (fun b hb => (hk' b hb).1), hv'⟩

theorem valid_of_chars (l : List Nat) (h : ∀ b ∈ l, b < 128 ∧ b ≠ 0x3D) : validUtf8 l = true :=
  ascii_valid l (fun b hb => (h b hb).1)

/-- the legal values of the user-supplied strings: UTF-8 (Rust `&str`) of at most 249 octets (Matter allows 32 / 128) -/
structure DevDet.WF (dd : DevDet) : Prop where
  dnValid : validUtf8 dd.deviceName = true
  dnLen : dd.deviceName.length ≤ 249
  piValid : validUtf8 dd.pairingInstruction = true
  piLen : dd.pairingInstruction.length ≤ 249

theorem key_chars (s : String) (h : (asciiStr s).all (fun b => b < 128 && b != 0x3D) = true) : ∀ b ∈ asciiStr s, b < 128 ∧ b ≠ 0x3D := by
  intro b hb
  have := List.all_eq_true.mp h b hb
  simpa using this

/-- **every TXT pair a Matter node publishes fits a TXT string, has a key without `=`, and is UTF-8** -/
theorem matterService_txt (l : LocalSvc) (dd : DevDet) (port : Nat) (icd : Option Bool) (hdd : dd.WF) :
    ∀ kv ∈ (matterService l dd port icd).1.txt, TxtOk kv := by
  have hd := fun n => decimal_digits n
  have icdOk : (icdTxt icd).length ≤ 249 ∧ validUtf8 (icdTxt icd) = true := by
    cases icd with
    | none => exact ⟨by simp [icdTxt], rfl⟩
    | some b => cases b <;> exact ⟨by simp [icdTxt], rfl⟩
  have tcpOk : (if dd.tcp then [54] else ([] : List Nat)).length ≤ 249 ∧ validUtf8 (if dd.tcp then [54] else []) = true := by
    cases dd.tcp <;> exact ⟨by simp, rfl⟩
  intro kv hkv
  cases l with
  | commissioned cfid node =>
    simp only [matterService, nonEmptyValues, List.mem_filter, List.mem_cons, List.not_mem_nil, or_false] at hkv
    rcases hkv.1 with rfl | rfl | rfl | rfl | rfl
    · exact txtOk_ascii _ _ (by decide) (key_chars "SAI" (by decide)) (by have := optDec_length dd.sai; omega) (valid_of_chars _ (optDec_chars _))
    · exact txtOk_ascii _ _ (by decide) (key_chars "SII" (by decide)) (by have := optDec_length dd.sii; omega) (valid_of_chars _ (optDec_chars _))
    · exact txtOk_ascii _ _ (by decide) (key_chars "T" (by decide)) tcpOk.1 tcpOk.2
    · exact txtOk_ascii _ _ (by decide) (key_chars "ICD" (by decide)) icdOk.1 icdOk.2
    · exact txtOk_ascii _ _ (by decide) (key_chars "DUMMY" (by decide)) (by decide) (by decide)
  | commissionable id disc enhanced =>
    simp only [matterService, nonEmptyValues, List.mem_filter, List.mem_cons, List.not_mem_nil, or_false] at hkv
    rcases hkv.1 with rfl | rfl | rfl | rfl | rfl | rfl | rfl | rfl | rfl | rfl | rfl
    · exact txtOk_ascii _ _ (by decide) (key_chars "D" (by decide)) (by have := (hd disc).2.2; omega) (valid_of_chars _ (decimal_chars _))
    · exact txtOk_ascii _ _ (by decide) (key_chars "CM" (by decide)) (by cases enhanced <;> simp) (by cases enhanced <;> rfl)
    · refine txtOk_ascii _ _ (by decide) (key_chars "VP" (by decide)) (by have := (hd dd.vid).2.2; have := (hd dd.pid).2.2; simp; omega) ?_
      refine valid_of_chars _ ?_
      intro b hb
      simp only [List.mem_append, List.mem_singleton] at hb
      rcases hb with (hb | rfl) | hb
      · exact decimal_chars _ b hb
      · decide
      · exact decimal_chars _ b hb
    · exact txtOk_ascii _ _ (by decide) (key_chars "SAI" (by decide)) (by have := optDec_length dd.sai; omega) (valid_of_chars _ (optDec_chars _))
    · exact txtOk_ascii _ _ (by decide) (key_chars "SII" (by decide)) (by have := optDec_length dd.sii; omega) (valid_of_chars _ (optDec_chars _))
    · exact txtOk_ascii _ _ (by decide) (key_chars "DN" (by decide)) hdd.dnLen hdd.dnValid
    · exact txtOk_ascii _ _ (by decide) (key_chars "PI" (by decide)) hdd.piLen hdd.piValid
    · exact txtOk_ascii _ _ (by decide) (key_chars "PH" (by decide)) (by have := (hd dd.pairingHint).2.2; omega) (valid_of_chars _ (decimal_chars _))
    · exact txtOk_ascii _ _ (by decide) (key_chars "DT" (by decide)) (by have := optDec_length dd.deviceType; omega) (valid_of_chars _ (optDec_chars _))
    · exact txtOk_ascii _ _ (by decide) (key_chars "T" (by decide)) tcpOk.1 tcpOk.2
    · exact txtOk_ascii _ _ (by decide) (key_chars "ICD" (by decide)) icdOk.1 icdOk.2

theorem nameWF_of_lengths (ls : List (List Nat)) (h1 : ∀ l ∈ ls, 1 ≤ l.length ∧ l.length ≤ 63)
    (h2 : (ls.map (fun l => l.length + 1)).sum + 1 ≤ 255) : NameWF ls :=
  ⟨h1, by rw [encName_length_sum]; exact h2⟩

/-- **the names a Matter node publishes are legal DNS names** (instance, service type, every subtype) -/
theorem matterService_names (l : LocalSvc) (dd : DevDet) (port : Nat) (icd : Option Bool) :
    NameWF (serviceFqdn (matterService l dd port icd).1) ∧
    ∀ sub ∈ (matterService l dd port icd).1.subtypes, NameWF (subtypeFqdn (matterService l dd port icd).1 sub) := by
  have hd := fun n => decimal_digits n
  cases l with
  | commissioned cfid node =>
    have h16a := hex16_length cfid
    have h16b := hex16_length node
    constructor
    · refine nameWF_of_lengths _ ?_ ?_
      · intro x hx
        simp only [serviceFqdn, matterService, List.mem_cons, List.not_mem_nil, or_false] at hx
        rcases hx with rfl | rfl | rfl | rfl
        · simp [h16a, h16b]
        · decide
        · decide
        · decide
      · simp [serviceFqdn, matterService, h16a, h16b, asciiStr, LOCAL]
    · intro sub hsub
      simp only [matterService, List.mem_singleton] at hsub
      subst hsub
      refine nameWF_of_lengths _ ?_ ?_
      · intro x hx
        simp only [subtypeFqdn, matterService, List.mem_cons, List.not_mem_nil, or_false] at hx
        rcases hx with rfl | rfl | rfl | rfl | rfl
        · simp [h16a, asciiStr]
        · decide
        · decide
        · decide
        · decide
      · simp [subtypeFqdn, matterService, h16a, asciiStr, LOCAL, SUB]
  | commissionable id disc enhanced =>
    have h16 := hex16_length id
    constructor
    · refine nameWF_of_lengths _ ?_ ?_
      · intro x hx
        simp only [serviceFqdn, matterService, List.mem_cons, List.not_mem_nil, or_false] at hx
        rcases hx with rfl | rfl | rfl | rfl
        · simp [h16]
        · decide
        · decide
        · decide
      · simp [serviceFqdn, matterService, h16, asciiStr, LOCAL]
    · intro sub hsub
      simp only [matterService, List.mem_filter, List.mem_cons, List.not_mem_nil, or_false] at hsub
      obtain ⟨hmem, hne⟩ := hsub
      have hlen : 1 ≤ sub.length ∧ sub.length ≤ 22 := by
        have h1 : 1 ≤ sub.length := by
          cases sub with
          | nil => simp at hne
          | cons a as => simp
        refine ⟨h1, ?_⟩
        rcases hmem with rfl | rfl | rfl | rfl | rfl
        · have := (hd disc).2.2; simp [asciiStr]; omega
        · have := (hd (shortDiscriminator disc)).2.2; simp [asciiStr]; omega
        · have := (hd dd.vid).2.2; simp [asciiStr]; omega
        · cases hdt : dd.deviceType with
          | none => simp
          | some dt => have := (hd dt).2.2; simp [asciiStr]; omega
        · decide
      refine nameWF_of_lengths _ ?_ ?_
      · intro x hx
        simp only [subtypeFqdn, matterService, List.mem_cons, List.not_mem_nil, or_false] at hx
        rcases hx with rfl | rfl | rfl | rfl | rfl
        · omega
        · decide
        · decide
        · decide
        · decide
      · simp [subtypeFqdn, matterService, asciiStr, LOCAL, SUB]; omega


theorem encTxt_length_le (kvs : List (List Nat × List Nat)) (h : ∀ kv ∈ kvs, kv.1.length + kv.2.length + 1 ≤ 255) :
    (encTxt kvs).length ≤ 256 * kvs.length + 1 := by
  by_cases he : kvs = []
  · subst he; decide
  · rw [encTxt_eq kvs he]
    clear he
    induction kvs with
    | nil => simp
    | cons kv kvs ih =>
      have h1 := h kv (by simp)
      have h2 := ih (fun x hx => h x (by simp [hx]))
      simp only [List.flatMap_cons, List.length_append, List.length_cons]
      have : (txtEntry kv).length = kv.1.length + kv.2.length + 2 := by simp [txtEntry]; omega
      omega

theorem matterService_counts (l : LocalSvc) (dd : DevDet) (port : Nat) (icd : Option Bool) :
    (matterService l dd port icd).1.txt.length ≤ 11 ∧ (matterService l dd port icd).1.subtypes.length ≤ 5 ∧
    (matterService l dd port icd).1.port = port := by
  cases l with
  | commissioned cfid node =>
    refine ⟨?_, by simp [matterService], rfl⟩
    simp only [matterService, nonEmptyValues]
    exact Nat.le_trans (List.length_filter_le _ _) (by simp)
  | commissionable id disc enhanced =>
    refine ⟨?_, ?_, rfl⟩
    · simp only [matterService, nonEmptyValues]
      exact Nat.le_trans (List.length_filter_le _ _) (by simp)
    · simp only [matterService]
      exact Nat.le_trans (List.length_filter_le _ _) (by simp)

/-- **what a Matter node publishes is a legal service description** for the builtin responder, whatever the
identifiers, discriminator, vendor / product id, session parameters, pairing hint, device type, TCP / ICD flags are -/
theorem matterService_broadcastWF (h : HostCfg) (l : LocalSvc) (dd : DevDet) (port : Nat) (icd : Option Bool)
    (hostTtl svcTtl : Nat) (hdd : dd.WF) (hhost : NameWF (hostFqdn h)) (hip : h.ip.length = 4)
    (hip6 : ∀ a ∈ h.ipv6, a.length = 16) (hn6 : h.ipv6.length ≤ 1000) (hport : port < 65536)
    (ht1 : hostTtl < 4294967296) (ht2 : svcTtl < 4294967296) :
    BroadcastWF h (matterService l dd port icd).1 hostTtl svcTtl := by
  obtain ⟨hn1, hn2⟩ := matterService_names l dd port icd
  obtain ⟨hc1, hc2, hc3⟩ := matterService_counts l dd port icd
  have htxt := matterService_txt l dd port icd hdd
  refine ⟨hhost, hn1, hn2, hip, hip6, by rw [hc3]; exact hport, ht1, ht2, htxt, ?_, ?_⟩
  · have := encTxt_length_le _ (fun kv hkv => (htxt kv hkv).1)
    omega
  · rw [broadcastRecords_split]
    simp only [List.length_append, List.length_cons, List.length_nil, addrRecords, ptrRecords, List.length_map]
    have h1 : (h.ipv6.filter (fun a => !isUnspecified a)).length ≤ h.ipv6.length := List.length_filter_le _ _
    split <;> simp <;> omega

/-- **end to end**: the description a Matter node publishes, written by `Host::broadcast` and read by
`parse_into_answer`, comes back with the published instance name, port, TXT pairs and addresses -/
theorem matterService_round_trip (h : HostCfg) (l : LocalSvc) (dd : DevDet) (port : Nat) (icd : Option Bool)
    (hostTtl svcTtl : Nat) (scope : Option Nat) (hdd : dd.WF) (hhost : NameWF (hostFqdn h)) (hip : h.ip.length = 4)
    (hip6 : ∀ a ∈ h.ipv6, a.length = 16) (hn6 : h.ipv6.length ≤ 1000) (hport : port < 65536)
    (ht1 : hostTtl < 4294967296) (ht2 : svcTtl < 4294967296) :
    parseIntoAnswer (broadcastBytes h (matterService l dd port icd).1 hostTtl svcTtl) scope = .ok (some {
      inst := flatName (serviceFqdn (matterService l dd port icd).1), port := some port, addrs := hostAddrs h,
      txt := (matterService l dd port icd).1.txt, scope := scope.getD 0 }) := by
  have := parse_broadcast h (matterService l dd port icd).1 hostTtl svcTtl scope
    (matterService_broadcastWF h l dd port icd hostTtl svcTtl hdd hhost hip hip6 hn6 hport ht1 ht2)
  rw [(matterService_counts l dd port icd).2.2] at this
  exact this


end Codec.Mdns
