/-!
# Model of the DER reading layer under `attest/cd.rs`, `cert/x509/cert.rs`, `cert/x509/csr.rs`
# and `cert/der_utils.rs`

rs-matter has no DER reader of its own: all three decoders sit on the RustCrypto crate **`der` 0.7.10**
(a dependency pinned by `Cargo.lock`). What is transliterated here, branch by branch, is therefore
dependency code:

| Lean | `der` 0.7.10 |
|---|---|
| `lenNew`, `lenAdd`                       | `Length::try_from(u32/usize)`, `impl Add for Length` (checked `u32` add, then `≤ Length::MAX`) |
| `Rdr.slice` / `Rdr.nested`               | `SliceReader { bytes, position }` / `NestedReader { inner, input_len, position }` |
| `Rdr.remainingLen`, `isFinished`, `offset` | `Reader::remaining_len` (with its `debug_assert!`), `is_finished`, `offset` |
| `Rdr.readSlice`                          | `SliceReader::read_slice`, `NestedReader::advance_position` + `read_slice` |
| `Rdr.readByte`                           | `Reader::read_byte` (`read_into(&mut [0])`, `buf[0]`) |
| `tagOfByte`                              | `Tag::try_from(u8)` (a `Tag` is represented by its octet: `Tag::octet (Tag::try_from b) = b`) |
| `lengthDecode`, `initialOctet`           | `Length::decode`, `Length::initial_octet` |
| `headerDecode`                           | `Header::decode` |
| `anyDecode`                              | `AnyRef::decode` (= `Header::decode` + `BytesRef::decode_value`) |
| `Rdr.finish`, `fromDerAny`               | `Reader::finish` / `SliceReader::finish`, `Decode::from_der` |
| `readNested`, `sequenceItems`            | `Reader::read_nested`, `Reader::sequence` with the `while !is_finished() { AnyRef::decode }` loop |

and, on top of it, rs-matter's own `cert/der_utils.rs`: `copyIntegerToFixed`, `ecdsaDerToRaw`.

Not represented: the `failed` flag of `SliceReader` (it is set when an error is returned and only read
by later calls on the same reader; every caller in rs-matter and every modelled operation propagates the
first error with `?`, so no later call exists), the position / nesting annotations of `der::Error`
(only the `ErrorKind` variant is kept).

Conventions as in `Buf.lean`: bytes are `Nat`, every Rust index / slice / checked subtraction /
`debug_assert!` / `copy_from_slice` length requirement is a *checked* operation that answers `E.panic`;
`Lemmas/CodecDerRead.lean` proves these unreachable. Loops carry fuel; running out of fuel is the
distinct answer `E.endless` (proved unreachable as well).
-/
namespace Codec.DerRd

/-- `der::ErrorKind` variants that the modelled code can return, the `rs_matter::error::ErrorCode`s of
`der_utils.rs` / `cd.rs`, and the two model-only answers `panic` / `endless`. -/
inductive E
  | incomplete | overlength | length | tagUnknown | tagNumberInvalid | indefiniteLength | overflow
  | trailingData | failed | tagUnexpected | value | noncanonical
  | invalid          -- ErrorCode::Invalid
  | invalidData      -- ErrorCode::InvalidData
  | cdInvalidFormat  -- ErrorCode::CdInvalidFormat
  | panic            -- the Rust code would panic here
  | endless          -- the model ran out of fuel (a loop that does not terminate)
deriving DecidableEq, Repr, Inhabited

def E.name : E → String
  | .incomplete => "Incomplete" | .overlength => "Overlength" | .length => "Length"
  | .tagUnknown => "TagUnknown" | .tagNumberInvalid => "TagNumberInvalid"
  | .indefiniteLength => "IndefiniteLength" | .overflow => "Overflow" | .trailingData => "TrailingData"
  | .failed => "Failed" | .tagUnexpected => "TagUnexpected" | .value => "Value"
  | .noncanonical => "Noncanonical" | .invalid => "Invalid" | .invalidData => "InvalidData"
  | .cdInvalidFormat => "CdInvalidFormat" | .panic => "panic" | .endless => "Endless"

/-! ## `Length` -/

/-- `Length::MAX` = `0xfff_ffff` (256 MiB) -/
def MAX_LEN : Nat := 0xfffffff
def U32_MAX : Nat := 4294967295

/-- `Length::try_from(u32)` / `try_from(usize)`: `Overflow` above `Length::MAX` -/
def lenNew (n : Nat) : Except E Nat := if n ≤ MAX_LEN then .ok n else .error .overflow

/-- `impl Add for Length`: `checked_add` on `u32`, then `try_into` -/
def lenAdd (a b : Nat) : Except E Nat :=
  if a + b ≤ U32_MAX then lenNew (a + b) else .error .overflow

/-- `Error::incomplete(actual_len)`: `actual_len + 1` may itself overflow -/
def errIncomplete (actualLen : Nat) : E :=
  match lenAdd actualLen 1 with
  | .ok _ => .incomplete
  | .error e => e

/-! ## checked primitives (what Rust panics on) -/

def index (l : List Nat) (i : Nat) : Except E Nat :=
  match l[i]? with
  | some x => .ok x
  | none => .error .panic

/-- `&l[a..]` -/
def sliceFrom (l : List Nat) (a : Nat) : Except E (List Nat) :=
  if a ≤ l.length then .ok (l.drop a) else .error .panic

/-- `&l[..b]` -/
def sliceTo (l : List Nat) (b : Nat) : Except E (List Nat) :=
  if b ≤ l.length then .ok (l.take b) else .error .panic

def csub (a b : Nat) : Except E Nat := if b ≤ a then .ok (a - b) else .error .panic

/-- `debug_assert!(c)` (the harness builds with debug assertions) -/
def dassert (c : Bool) : Except E Unit := if c then .ok () else .error .panic

/-! ## readers -/

/-- `SliceReader` (without the `failed` flag) and `NestedReader`, nested to any depth -/
inductive Rdr
  | slice (bytes : List Nat) (pos : Nat)
  | nested (inner : Rdr) (inputLen pos : Nat)
deriving Repr

namespace Rdr

/-- `SliceReader::new`: `BytesRef::new` refuses inputs longer than `Length::MAX` -/
def new (bytes : List Nat) : Except E Rdr := do
  let _ ← lenNew bytes.length
  pure (.slice bytes 0)

def inputLen : Rdr → Nat
  | .slice b _ => b.length
  | .nested _ n _ => n

def position : Rdr → Nat
  | .slice _ p => p
  | .nested _ _ p => p

/-- `offset()`: the position in the outermost input -/
def offset : Rdr → Nat
  | .slice _ p => p
  | .nested i _ _ => i.offset

/-- the underlying input bytes -/
def input : Rdr → List Nat
  | .slice b _ => b
  | .nested i _ _ => i.input

/-- `remaining_len()`: `debug_assert!(position <= input_len)`, then saturating subtraction -/
def remainingLen (r : Rdr) : Except E Nat := do
  dassert (decide (r.position ≤ r.inputLen))
  pure (r.inputLen - r.position)

def isFinished (r : Rdr) : Except E Bool := do
  let n ← r.remainingLen
  pure (n == 0)

/-- `read_slice(len)`.
`SliceReader`: `remaining()?.get(..len)`; on success `position = (position + len)?`; on failure the error
is built from `(position + len)?`, which can itself fail with `Overflow`.
`NestedReader`: `advance_position(len)?` then `inner.read_slice(len)`. -/
def readSlice : Rdr → Nat → Except E (List Nat × Rdr)
  | .slice bytes pos, len =>
    -- `remaining()`: `bytes.get(position..)`
    if pos ≤ bytes.length then
      let rem := bytes.drop pos
      if len ≤ rem.length then do
        let p ← lenAdd pos len
        pure (rem.take len, .slice bytes p)
      else do
        let _ ← lenAdd pos len
        .error .incomplete
    else .error (errIncomplete bytes.length)
  | .nested inner inputLen pos, len => do
    -- advance_position
    let np ← lenAdd pos len
    if np ≤ inputLen then do
      let (s, inner') ← readSlice inner len
      pure (s, .nested inner' inputLen np)
    else do
      let _ ← lenAdd inner.offset len
      let rl ← (Rdr.nested inner inputLen pos).remainingLen
      let _ ← lenAdd inner.offset rl
      .error .incomplete

/-- `read_byte()` = `read_into(&mut [0])`: `read_slice(1)`, `copy_from_slice`, `buf[0]` -/
def readByte (r : Rdr) : Except E (Nat × Rdr) := do
  let (s, r') ← r.readSlice 1
  dassert (s.length == 1)     -- `buf.copy_from_slice(input)` panics on a length mismatch
  let b ← index s 0
  pure (b, r')

/-- `finish(value)` (the value is threaded by the caller): `TrailingData` unless everything was read -/
def finish (r : Rdr) : Except E Unit := do
  let fin ← r.isFinished
  if fin then pure () else .error .trailingData

end Rdr

/-! ## `Tag`, `Length`, `Header`, `AnyRef` -/

/-- `Tag::try_from(u8)`; the tag is represented by its octet -/
def tagOfByte (b : Nat) : Except E Nat :=
  -- `TagNumber::try_from(byte & 0b11111)?`
  if b % 32 > 30 then .error .tagNumberInvalid
  else if b = 0x01 ∨ b = 0x02 ∨ b = 0x03 ∨ b = 0x04 ∨ b = 0x05 ∨ b = 0x06 ∨ b = 0x09 ∨ b = 0x0A ∨ b = 0x0C
      ∨ b = 0x12 ∨ b = 0x13 ∨ b = 0x14 ∨ b = 0x15 ∨ b = 0x16 ∨ b = 0x17 ∨ b = 0x18 ∨ b = 0x1A ∨ b = 0x1E
      ∨ b = 0x30 ∨ b = 0x31 then .ok b
  else if 0x40 ≤ b ∧ b ≤ 0x7E then .ok b
  else if 0x80 ≤ b ∧ b ≤ 0xBE then .ok b
  else if 0xC0 ≤ b ∧ b ≤ 0xFE then .ok b
  else .error .tagUnknown

def TAG_INTEGER : Nat := 0x02
def TAG_SEQUENCE : Nat := 0x30

/-- `Length::initial_octet` -/
def initialOctet (n : Nat) : Option Nat :=
  if 0x80 ≤ n ∧ n ≤ 0xFF then some 0x81
  else if 0x100 ≤ n ∧ n ≤ 0xFFFF then some 0x82
  else if 0x10000 ≤ n ∧ n ≤ 0xFFFFFF then some 0x83
  else if 0x1000000 ≤ n ∧ n ≤ MAX_LEN then some 0x84
  else none

/-- the `for _ in 0..nbytes` loop of `Length::decode`:
`decoded_len = decoded_len.checked_shl(8)? | read_byte()?` (`checked_shl` only fails for a shift ≥ 32;
the shift itself wraps in `u32`) -/
def lengthBytes : Nat → Nat → Rdr → Except E (Nat × Rdr)
  | 0, acc, r => .ok (acc, r)
  | n + 1, acc, r => do
    let (b, r') ← r.readByte
    lengthBytes n (acc * 256 % 4294967296 + b) r'

/-- `Length::decode` -/
def lengthDecode (r : Rdr) : Except E (Nat × Rdr) := do
  let (b, r1) ← r.readByte
  if b < 0x80 then pure (b, r1)
  else if b = 0x80 then .error .indefiniteLength
  else if 0x81 ≤ b ∧ b ≤ 0x84 then do
    let nbytes ← csub b 0x80          -- `tag.checked_sub(0x80).ok_or(Overlength)?` cannot fail here
    dassert (decide (nbytes ≤ 4))
    let (v, r2) ← lengthBytes nbytes 0 r1
    let l ← lenNew v
    if initialOctet l = some b then pure (l, r2) else .error .overlength
  else .error .overlength

/-- `Header::decode`: `(tag octet, length)`; `Overlength` from the length becomes `Length { tag }` -/
def headerDecode (r : Rdr) : Except E ((Nat × Nat) × Rdr) := do
  let (b, r1) ← r.readByte
  let tag ← tagOfByte b
  match lengthDecode r1 with
  | .ok (l, r2) => pure ((tag, l), r2)
  | .error .overlength => .error .length
  | .error e => .error e

/-- `AnyRef::decode`: `(tag octet, value bytes)` -/
def anyDecode (r : Rdr) : Except E ((Nat × List Nat) × Rdr) := do
  let ((tag, len), r1) ← headerDecode r
  let (v, r2) ← r1.readSlice len
  let _ ← lenNew v.length            -- `BytesRef::new`
  pure ((tag, v), r2)

/-- `AnyRef::from_der(bytes)` -/
def fromDerAny (bytes : List Nat) : Except E (Nat × List Nat) := do
  let r ← Rdr.new bytes
  let (a, r') ← anyDecode r
  r'.finish
  pure a

/-- `while !reader.is_finished() { AnyRef::decode(reader)? }` — the iteration of `MatterDnAttrs::parse`,
`ParsedExtensionFields::parse` and (two fixed steps) `ecdsa_der_to_raw`. Returns the items in order.
`fuel` bounds the number of iterations. The error carries the number of items decoded before it. -/
def items : Nat → Rdr → List (Nat × List Nat) → Except (E × Nat) (List (Nat × List Nat) × Rdr)
  | 0, _, acc => .error (.endless, acc.length)
  | fuel + 1, r, acc =>
    match r.isFinished with
    | .error e => .error (e, acc.length)
    | .ok true => .ok (acc.reverse, r)
    | .ok false =>
      match anyDecode r with
      | .error e => .error (e, acc.length)
      | .ok (a, r') => items fuel r' (a :: acc)

/-- the `seq` operation of the harness: items of a whole byte string -/
def seqItems (bytes : List Nat) : Except (E × Nat) (List (Nat × List Nat)) :=
  match Rdr.new bytes with
  | .error e => .error (e, 0)
  | .ok r =>
    match items (bytes.length + 1) r [] with
    | .ok (l, _) => .ok l
    | .error e => .error e

/-- `NestedReader::new(inner, len)` -/
def nestedNew (inner : Rdr) (len : Nat) : Except E Rdr := do
  let rl ← inner.remainingLen
  if len ≤ rl then pure (.nested inner len 0)
  else do
    let _ ← lenAdd inner.offset len
    let _ ← lenAdd inner.offset rl
    .error .incomplete

/-- `reader.sequence(|n| while !n.is_finished() { AnyRef::decode(n)? })` followed by `reader.finish`:
`Header::decode`, `tag.assert_eq(Sequence)`, `read_nested(len, f)` = `NestedReader::new` + `f` +
`NestedReader::finish`; the shape of every `decode_value` of `cd.rs`, `cert.rs`, `csr.rs`. -/
def sequenceItems (bytes : List Nat) : Except E (List (Nat × List Nat)) := do
  let r ← Rdr.new bytes
  let ((tag, len), r1) ← headerDecode r
  if tag ≠ TAG_SEQUENCE then .error .tagUnexpected else
  let n ← nestedNew r1 len
  match items (bytes.length + 1) n [] with
  | .error (e, _) => .error e
  | .ok (l, n') => do
    n'.finish
    match n' with
    | .nested inner _ _ => do
      inner.finish
      pure l
    | .slice _ _ => .error .panic   -- not reachable: `items` keeps the reader's shape

/-! ## `cert/der_utils.rs` (rs-matter's own code) -/

/-- the `while src.len() > 1 && src[0] == 0 { src = &src[1..] }` loop of `copy_integer_to_fixed` -/
def stripLoop : Nat → List Nat → Except E (List Nat)
  | 0, _ => .error .endless
  | fuel + 1, src =>
    if src.length > 1 then do
      let b ← index src 0
      if b = 0 then do
        let s' ← sliceFrom src 1
        stripLoop fuel s'
      else pure src
    else pure src

/-- `copy_integer_to_fixed(target, integer)`; `n` = `target.len()`, returns the new contents of `target` -/
def copyIntegerToFixed (n : Nat) (integer : List Nat) : Except E (List Nat) := do
  let src ← stripLoop (integer.length + 1) integer
  if src.length > n then .error .invalid else do
    let offset ← csub n src.length
    -- `target[..offset].fill(0)` and `target[offset..].copy_from_slice(src)`: both slices must be in range
    dassert (decide (offset ≤ n))
    let tail ← csub n offset
    dassert (tail == src.length)
    pure (List.replicate offset 0 ++ src)

def P256_FE_LEN : Nat := 32

/-- `.map_err(|_| Error::from(ErrorCode::Invalid))` (a panic of the callee stays a panic) -/
def mapInvalid {α : Type} (x : Except E α) : Except E α :=
  match x with
  | .ok y => .ok y
  | .error e => if e = .panic then .error .panic else if e = .endless then .error .endless else .error .invalid

/-- `ecdsa_der_to_raw(der)`: every `der` error is mapped to `ErrorCode::Invalid`. The SEQUENCE length is
read but not used (the Rust code does not enter a nested reader), trailing bytes are ignored. -/
def ecdsaDerToRaw (der : List Nat) : Except E (List Nat) := do
  let r ← mapInvalid (Rdr.new der)
  let ((tag, _), r1) ← mapInvalid (headerDecode r)
  if tag ≠ TAG_SEQUENCE then .error .invalid else do
    let ((rt, rv), r2) ← mapInvalid (anyDecode r1)
    if rt ≠ TAG_INTEGER then .error .invalid else do
      let ((st, sv), _) ← mapInvalid (anyDecode r2)
      if st ≠ TAG_INTEGER then .error .invalid else do
        let a ← copyIntegerToFixed P256_FE_LEN rv
        let b ← copyIntegerToFixed P256_FE_LEN sv
        pure (a ++ b)

/-! ## model-side encoder (specification of the format, used by the round-trip theorems) -/

/-- minimal definite length octets (X.690 10.1) -/
def encLen (n : Nat) : List Nat :=
  if n < 0x80 then [n]
  else if n < 0x100 then [0x81, n]
  else if n < 0x10000 then [0x82, n / 256, n % 256]
  else if n < 0x1000000 then [0x83, n / 65536, n / 256 % 256, n % 256]
  else [0x84, n / 16777216, n / 65536 % 256, n / 256 % 256, n % 256]

def encTlv (tag : Nat) (v : List Nat) : List Nat := tag :: encLen v.length ++ v

/-- INTEGER of an unsigned big-endian magnitude without superfluous leading zeros -/
def encUint (mag : List Nat) : List Nat :=
  match mag with
  | [] => encTlv TAG_INTEGER [0]
  | b :: _ => if b ≥ 128 then encTlv TAG_INTEGER (0 :: mag) else encTlv TAG_INTEGER mag

/-- `ECDSA-Sig-Value ::= SEQUENCE { r INTEGER, s INTEGER }` -/
def encSig (r s : List Nat) : List Nat := encTlv TAG_SEQUENCE (encUint r ++ encUint s)

/-- left padding to `n` bytes -/
def padLeft (n : Nat) (l : List Nat) : List Nat := List.replicate (n - l.length) 0 ++ l

end Codec.DerRd
